(* C01 — Order-independent agreement on blocks.
   At the reference level (spec/ElectionSpec.v) the property is proved in full for a single epoch:
   for ALL validator sets, ALL event sets whose events are accepted by the rules and whose forkers
   hold < 1/3 of the weight, and ALL parents-first orders:
     - an instance that has processed a subset of another instance's events has emitted an
       initial segment of its blocks (frame, Atropos, cheaters)          [C01_prefix_agreement]
     - equal event sets give equal block sequences, whatever the two orders [C01_same_events]
     - any two instances working on one DAG agree on a common prefix     [C01_comparable]
   (the reference is a function of the event set: the table entry of an event depends only on
   its ancestry — node_indep — and decisions are unique and monotone — BFT core).
     - acceptance does not depend on the order (C01_acceptance_order_independent) and the election never
       errs (C01_election_never_errs): the "accept every event" clause.
   For the implementation the statement is C01_full; it is proved FROM impl_refines_spec (model run =
   reference; the L1 invariant of DESIGN 5 C10 for model/AbftRun.v).  That refinement is PROVED by worker link
   (proofs/Link*.v) under explicit side conditions; the resulting theorems for the model of the code are
   further down: C01_agreement_for_the_model(_any_order), ..._across_epochs, C01_process_only_instances_agree,
   C01_agreement_across_epochs_any_policy.  The step from the model to the Go code is the hand port +
   testing (5+ real instances per scenario). *)
From Coq Require Import NArith List.
From LV Require Import model.VecIndex lib.WSumBft spec.ElectionSpec proofs.BftCore proofs.BftElection
  proofs.BftMono proofs.BftGraph proofs.BftMain proofs.BftRun proofs.BftFcSpec proofs.BftAccept proofs.BftProps.
Import ListNotations.
Local Open Scope N_scope.

(* "accept every event": if the events of a DAG are valid in ONE parents-first order (say the order of
   creation), every parents-first arrangement of every subset of them (ids not repeated; parents-first
   makes the subset ancestor-closed) is accepted by the rules as well *)
Theorem C01_acceptance_order_independent :
  forall vals D1 D2, all_accepted vals D1 -> incl D2 D1 -> NoDup (ids_of D2) -> parents_first D2 ->
    all_accepted vals D2.
Proof. exact acceptance_order_independent. Qed.

(* ... and the election on the accepted events never errs (the four error returns of
   election.ProcessRoot / chooseAtropos): no root forkless-causes two roots of one validator in a frame,
   a root of frame f+1 is forkless-caused by a quorum of frame f, and no frame is decided "all no" or
   "yes without a voted root" *)
Theorem C01_election_never_errs :
  forall vals T, wfT vals T -> few_forkers vals T -> (0 < length vals)%nat ->
  (forall f r r1 r2, In r T ->
     In r1 (obs node nd_fr nd_spf (fc_n (map snd vals) (quorum_of (map snd vals))) T r f) ->
     In r2 (obs node nd_fr nd_spf (fc_n (map snd vals) (quorum_of (map snd vals))) T r f) ->
     nd_cr r1 = nd_cr r2 -> r1 = r2) /\
  (forall f r, 1 <= f -> In r (roots_at node nd_fr nd_spf T (f + 1)) ->
     quorum_on node nd_cr nd_fr nd_spf (fc_n (map snd vals) (quorum_of (map snd vals))) (map snd vals)
               (quorum_of (map snd vals)) T r f = true) /\
  (forall f0 maxf, 1 <= f0 ->
     decide node nd_id nd_cr nd_fr nd_spf (fc_n (map snd vals) (quorum_of (map snd vals))) (map snd vals)
            (quorum_of (map snd vals)) (canon_order vals) T f0 maxf <> AllNo /\
     decide node nd_id nd_cr nd_fr nd_spf (fc_n (map snd vals) (quorum_of (map snd vals))) (map snd vals)
            (quorum_of (map snd vals)) (canon_order vals) T f0 maxf <> NoRoot).
Proof.
  intros vals T Hwf Hff Hnv.
  exact (conj (ref_no_two_fork_roots vals T Hwf Hff) (conj (ref_prev_quorum vals T Hwf) (ref_decide_no_error vals T Hwf Hff Hnv))).
Qed.

Theorem C01_prefix_agreement :
  forall vals D1 D2, all_accepted vals D1 -> all_accepted vals D2 -> incl D1 D2 ->
    few_forkers vals (table vals D2) ->
    prefix (snd (reference vals D1)) (snd (reference vals D2)).
Proof. exact reference_prefix. Qed.

Theorem C01_same_events :
  forall vals D1 D2, all_accepted vals D1 -> all_accepted vals D2 -> incl D1 D2 -> incl D2 D1 ->
    few_forkers vals (table vals D2) -> snd (reference vals D1) = snd (reference vals D2).
Proof. exact reference_same_set. Qed.

Theorem C01_comparable :
  forall vals D1 D1' D2, all_accepted vals D1 -> all_accepted vals D1' -> all_accepted vals D2 ->
    incl D1 D2 -> incl D1' D2 -> few_forkers vals (table vals D2) ->
    prefix (snd (reference vals D1)) (snd (reference vals D1')) \/
    prefix (snd (reference vals D1')) (snd (reference vals D1)).
Proof. exact reference_comparable. Qed.

(* same epoch transition: instances that have both reached the sealing frame (each on its own accepted
   subset of the epoch's DAG, in its own order) have emitted the same blocks up to and including the
   sealing block; the next validator set is a function of the old one (ElectionSpec.next_vals) *)
Theorem C01_seal_agreement :
  forall vals k D1 D1' D2, all_accepted vals D1 -> all_accepted vals D1' -> all_accepted vals D2 ->
    incl D1 D2 -> incl D1' D2 -> few_forkers vals (table vals D2) ->
    snd (seal_cut k (snd (reference vals D1))) = true -> snd (seal_cut k (snd (reference vals D1'))) = true ->
    seal_cut k (snd (reference vals D1)) = seal_cut k (snd (reference vals D1')).
Proof. exact reference_seal_agreement. Qed.

(* several epochs: instances fed the same event set in every epoch (each in its own order) go through the
   same epochs — same blocks, same sealing decisions, hence (next_vals is a function) same validator sets *)
Theorem C01_epochs_same_sets :
  forall seal pol Ds Ds' vals ep, epochs_valid pol vals ep Ds Ds' ->
    map epoch_blocks (reference_epochs seal pol vals ep Ds) = map epoch_blocks (reference_epochs seal pol vals ep Ds').
Proof. exact reference_epochs_same_sets. Qed.

(* table level: monotonicity of decisions — the blocks of a well-formed sub-table are a prefix *)
Theorem C01_blocks_monotone :
  forall vals T1 T2, wfT vals T1 -> wfT vals T2 -> few_forkers vals T2 -> incl T1 T2 ->
    prefix (r_blocks vals T1) (r_blocks vals T2).
Proof. exact ref_blocks_prefix. Qed.

(* the entry of an event in the reference's table depends only on the event's ancestry *)
Theorem C01_node_independent_of_order :
  forall vals T1 Dr1, wfTD vals T1 Dr1 -> forall T2 Dr2, wfTD vals T2 Dr2 -> incl Dr1 Dr2 -> incl T1 T2.
Proof. exact node_indep. Qed.

(* full statement for a model of the implementation, from the refinement hypothesis *)
Definition C01_full : impl_model -> Prop := BftProps.C01_full.
Theorem C01_full_from_refinement : forall run, impl_refines_spec run -> C01_full run.
Proof. exact C01_from_refinement. Qed.

(* non-vacuity: the hypotheses hold for a generated DAG with a forking validator, a reordering of it
   and an ancestor-closed subset; the subset has decided the first of the two blocks *)
Example C01_example :
  valid_run ex_vals ex_D /\ all_accepted ex_vals ex_D' /\ all_accepted ex_vals ex_Dsub /\
  (incl ex_D' ex_D /\ incl ex_D ex_D') /\ incl ex_Dsub ex_D /\
  (NoDup (ids_of ex_D') /\ parents_first ex_D') /\ (NoDup (ids_of ex_Dsub) /\ parents_first ex_Dsub) /\
  snd (reference ex_vals ex_D) = [(1, 0, []); (2, 15, [37094])] /\
  snd (reference ex_vals ex_Dsub) = [(1, 0, [])].
Proof. exact (conj ex_valid (conj ex_accepted' (conj ex_accepted_sub (conj ex_incl' (conj ex_incl_sub (conj ex_arrangement' (conj ex_arrangement_sub (conj ex_blocks ex_blocks_sub)))))))). Qed.
Example C01_full_satisfiable : C01_full reference.
Proof. exact (C01_from_refinement reference reference_refines). Qed.

Print Assumptions C01_acceptance_order_independent.
Print Assumptions C01_election_never_errs.
Print Assumptions C01_epochs_same_sets.
Print Assumptions C01_prefix_agreement.
Print Assumptions C01_same_events.
Print Assumptions C01_comparable.
Print Assumptions C01_seal_agreement.
Print Assumptions C01_blocks_monotone.
Print Assumptions C01_node_independent_of_order.
Print Assumptions C01_full_from_refinement.

(* ================= L1 (worker link): C01 for the line-by-line model of abft =================
   From C10_model_refines_reference (props/C10.v, proofs/LinkRun.v) and the reference-level theorems above:
   an instance of the MODEL OF THE CODE that is fed any parents-first arrangement D1 of any subset of a
   valid run D2 accepts every event, emits a prefix of the blocks (frame, Atropos, cheaters) of an
   instance fed D2, and the same blocks if it was fed all events.  Side conditions: LinkDefs.link_side. *)
From LV Require Import model.Abft model.AbftRun proofs.LinkVals proofs.LinkDefs proofs.LinkRun proofs.LinkExample.

Theorem C01_agreement_for_the_model : forall cap lam,
  forall vals D1 D2, link_side vals D2 -> valid_run vals D2 -> incl D1 D2 -> NoDup (ids_of D1) -> parents_first D1 ->
    codes_ok (fst (abft_run cap lam vals D1)) /\
    prefix (snd (abft_run cap lam vals D1)) (snd (abft_run cap lam vals D2)) /\
    (incl D2 D1 -> snd (abft_run cap lam vals D1) = snd (abft_run cap lam vals D2)).
Proof. exact link_C01. Qed.

Example C01_model_example :
  link_side ex2_vals ex2_D /\ valid_run ex2_vals ex2_D /\
  (incl (ex2_map ex_D') ex2_D /\ incl ex2_D (ex2_map ex_D') /\ NoDup (ids_of (ex2_map ex_D')) /\ parents_first (ex2_map ex_D')) /\
  (incl (ex2_map ex_Dsub) ex2_D /\ NoDup (ids_of (ex2_map ex_Dsub)) /\ parents_first (ex2_map ex_Dsub) /\
   snd (abft_run 200 (fun _ => 0) ex2_vals (ex2_map ex_Dsub)) = [(1, 1000, [])]).
Proof. exact (conj ex2_side (conj ex2_valid (conj ex2_reordered ex2_subset))). Qed.

Print Assumptions C01_agreement_for_the_model.

(* the same for validator lists in any order (side conditions: LinkRaw.link_side_raw) *)
From LV Require Import proofs.LinkRaw.
Theorem C01_agreement_for_the_model_any_order : forall cap lam,
  forall vals D1 D2, link_side_raw vals D2 -> valid_run vals D2 -> incl D1 D2 -> NoDup (ids_of D1) -> parents_first D1 ->
    codes_ok (fst (abft_run cap lam vals D1)) /\
    prefix (snd (abft_run cap lam vals D1)) (snd (abft_run cap lam vals D2)) /\
    (incl D2 D1 -> snd (abft_run cap lam vals D1) = snd (abft_run cap lam vals D2)).
Proof. exact link_C01_raw. Qed.
Print Assumptions C01_agreement_for_the_model_any_order.

(* C01 across epochs for the model of the code (proofs/LinkEpochsCor.v): two instances that are fed, epoch
   by epoch, the same event sets in different parents-first orders emit the same blocks, seal at the same
   blocks and go through the same validator sets. *)
From LV Require Import proofs.LinkEpoch proofs.LinkSeal proofs.LinkEpochs proofs.LinkEpochsCor proofs.LinkEpochsExample.
Theorem C01_agreement_for_the_model_across_epochs : forall cap lam seal polr vals Ds Ds' K,
  epochs_valid polr vals 1 Ds Ds' -> epochs_ok seal polr vals 1 Ds -> epochs_ok seal polr vals 1 Ds' ->
  (forall D e, In D Ds -> In e D -> id_fresh K (eid (fe e))) -> (forall D e, In D Ds' -> In e D -> id_fresh K (eid (fe e))) ->
  N.of_nat (total_events Ds) <= K -> N.of_nat (total_events Ds') <= K -> K < 2 ^ 192 ->
  map epoch_blocks (model_epochs cap lam (mk_policy seal polr vals 1 (length Ds)) polr (start 1 vals) vals 1 Ds) =
  map epoch_blocks (model_epochs cap lam (mk_policy seal polr vals 1 (length Ds')) polr (start 1 vals) vals 1 Ds').
Proof. exact link_epochs_same_sets. Qed.
Example C01_across_epochs_example :
  epochs_valid 0 ex_vals 1 me_Ds me_Ds' /\ me_Ds <> me_Ds' /\ epochs_ok 1 0 ex_vals 1 me_Ds /\ epochs_ok 1 0 ex_vals 1 me_Ds' /\
  map epoch_blocks (model_epochs 200 (fun _ => 0) (mk_policy 1 0 ex_vals 1 2) 0 (start 1 ex_vals) ex_vals 1 me_Ds) =
  map epoch_blocks (model_epochs 200 (fun _ => 0) (mk_policy 1 0 ex_vals 1 2) 0 (start 1 ex_vals) ex_vals 1 me_Ds').
Proof. exact (conj me_same_sets (conj me_orders_differ (conj me_ok (conj me_ok' me_agreement)))). Qed.
Print Assumptions C01_agreement_for_the_model_across_epochs.

(* ================= Round 3 (worker link): instances that only call Process =================
   (proofs/LinkXCor.v: link_x_builds_invisible, from LinkEpochsX.link_x)  The Build of an event is optional
   in every slot of a schedule (LinkX.xslot.x_build).  C01_process_only_instances_agree: the run of an instance
   that is fed by Process only (nobuild_S: every Build removed) equals the run of the instance that Builds every
   event first, the Build frames erased -- over several epochs under an arbitrary policy, with noise and
   rejected events: same verdicts, same decided frame and epoch after every Process (the last decided
   state), same blocks (frame, Atropos, cheaters, seal), same epoch transitions and validator sets. *)
From LV Require Import proofs.LinkReject proofs.LinkX proofs.LinkEpochsX proofs.LinkXCheck proofs.LinkXCor proofs.LinkXExample proofs.LinkXCorExample.

Theorem C01_process_only_instances_agree : forall cap lam pol vals Ss K,
  vals <> [] -> epochs_ok_x pol K vals 1 Ss -> N.of_nat (total_builds Ss) <= K -> K < 2 ^ 192 ->
  map erase_builds (model_epochs_x cap lam pol (start 1 vals) vals 1 Ss) = model_epochs_x cap lam pol (start 1 vals) vals 1 (map nobuild_S Ss).
Proof. exact link_x_builds_invisible. Qed.

Example C01_process_only_example :
  epochs_ok_xb xx_pol 400 ex_vals 1 xx_Ss = true /\ total_builds xx_Ss = 87%nat /\ total_builds (map nobuild_S xx_Ss) = 4%nat /\
  map erase_builds (model_epochs_x 3 xx_lam xx_pol (start 1 ex_vals) ex_vals 1 xx_Ss) =
  model_epochs_x 3 xx_lam xx_pol (start 1 ex_vals) ex_vals 1 (map nobuild_S xx_Ss).
Proof. split; [exact xx_input_ok|]. split; [exact xx_builds|]. split; [vm_compute; reflexivity | exact xx_builds_invisible]. Qed.

Print Assumptions C01_process_only_instances_agree.

(* ---- C01 across epochs under an arbitrary policy; the acceptance of the second order is DERIVED ----
   (proofs/LinkXOrder.v)  same_sets_x: in every epoch that is reached the second schedule has the same events
   as the first (incl both ways), without repeated ids, in some parents-first order, and no noise; of the
   first run only epochs_ok_x is asked (input conditions of link_x) and that the reference accepts every
   event of it.  That the second order is accepted as well follows from C01_acceptance_order_independent,
   that it has the same forkers from node_indep, its id conditions from the first run's; nothing is assumed
   about it.  Conclusion: the two instances emit the same blocks (frame, Atropos, cheaters, seal) and go
   through the same validator sets, epoch by epoch.  The instances may differ in Builds (the example: the
   second is fed by Process only), noise and restarts. *)
From LV Require Import proofs.LinkXOrder proofs.LinkXOrderExample.

Theorem C01_agreement_across_epochs_any_policy : forall cap lam pol vals Ss Ss' K,
  vals <> [] -> epochs_ok_x pol K vals 1 Ss -> same_sets_x pol vals 1 Ss Ss' ->
  N.of_nat (total_builds Ss) <= K -> N.of_nat (total_builds Ss') <= K -> K < 2 ^ 192 ->
  map epoch_out (model_epochs_x cap lam pol (start 1 vals) vals 1 Ss') = map epoch_out (model_epochs_x cap lam pol (start 1 vals) vals 1 Ss).
Proof. exact link_x_same_sets. Qed.

(* the reference side: on a stream it accepts entirely, the blocks up to the seal and the next validators are a
   function of the final table (hence of the event SET) *)
Theorem C01_reference_walk_depends_on_the_event_set : forall ep vals sfr sc tn sc' tn',
  let D := map x_ev sc in let D' := map x_ev sc' in
  all_accepted vals D -> few_forkers vals (table vals D) -> incl D D' -> incl D' D -> NoDup (ids_of D') -> parents_first D' ->
  snd (ref_x ep vals sfr [] sc' tn') = snd (ref_x ep vals sfr [] sc tn) /\
  snd (fst (ref_x ep vals sfr [] sc' tn')) = snd (fst (ref_x ep vals sfr [] sc tn)).
Proof. exact ref_x_same_set. Qed.

Example C01_across_epochs_any_policy_example :
  epochs_ok_x xx_pol 400 ex_vals 1 yy_Ss /\ same_sets_x xx_pol ex_vals 1 yy_Ss yy_Ss' /\
  map (fun Sx => map x_ev (fst Sx)) yy_Ss <> map (fun Sx => map x_ev (fst Sx)) yy_Ss' /\
  map epoch_out (model_epochs_x 3 xx_lam xx_pol (start 1 ex_vals) ex_vals 1 yy_Ss') =
  map epoch_out (model_epochs_x 3 xx_lam xx_pol (start 1 ex_vals) ex_vals 1 yy_Ss) /\
  map epoch_out (model_epochs_x 3 xx_lam xx_pol (start 1 ex_vals) ex_vals 1 yy_Ss') =
  [ ([(1, 1000, [], None); (2, 1015, [37094], Some (mk_vals xx_vals2))], Some (mk_vals xx_vals2));
    ([(1, 3002, [], Some (mk_vals ex_vals))], Some (mk_vals ex_vals));
    ([(1, 5000, [], None); (2, 5015, [37094], None)], None) ].
Proof. exact (conj yy_ok (conj yy_same_sets (conj yy_differ (conj yy_agreement yy_out)))). Qed.

Print Assumptions C01_agreement_across_epochs_any_policy.
Print Assumptions C01_reference_walk_depends_on_the_event_set.
