(* C01 — Order-independent agreement on blocks.
   Theorems are added below as they are proved (see proofs/BftCore*.v). *)
From Coq Require Import NArith List.
From LV Require Import spec.ElectionSpec.
