(* C30 — Events semaphore bounds, waits and times out correctly. (theorems to follow) *)
From Coq Require Import NArith ZArith List.
From LV Require Import model.Semaphore spec.SemaphoreSpec.
