(* C30 — Events semaphore bounds, waits and times out correctly.

   Model: model/Semaphore.v ([step true] = the repaired utils/datasemaphore, one event per
   critical section; sync.Cond and the timer are modelled).  Vocabulary: spec/SemaphoreSpec.v
   ([fits], [exceeds], [covers] in unbounded arithmetic, [decide], [reachable] = every state
   reachable by ANY sequence of calls / releases / terminations / timer callbacks / wake-ups
   at ANY times with uint32/uint64 weights).  Only statements here; proofs in
   proofs/SemaphoreProofs.v. *)
From Coq Require Import NArith ZArith List Bool.
From LV Require Import model.Semaphore spec.SemaphoreSpec model.SemaphoreStream proofs.SemaphoreProofs proofs.SemaphoreAccept proofs.SemaphoreSame.
Import ListNotations.

(* The held amount never exceeds the capacity the semaphore was created with; the capacity is the
   original one or zero (terminated). *)
Theorem C30_bound : forall c st, m_wf c -> reachable c st ->
  mle (held st) c /\ (cap st = c \/ cap st = mzero).
Proof. exact sem_bound. Qed.

(* TryAcquire answers exactly "held + w <= capacity" in unbounded arithmetic (no wrap-around)
   and adds exactly w. *)
Theorem C30_try_exact : forall c st now w, m_wf c -> reachable c st -> m_wf w ->
  step true st now (ETry w) =
  if fitsb (held st) w (cap st)
  then (mkS (mplus (held st) w) (cap st) (waiting st) (woken st), [OTry true])
  else (st, [OTry false]).
Proof. exact sem_try. Qed.

(* Acquire, on entry: granted at once iff it fits (exact accounting); refused at once if it
   exceeds the capacity or its deadline has passed; otherwise blocked. *)
Theorem C30_acquire_call : forall c st now id w tcall timeout, m_wf c -> reachable c st -> m_wf w ->
  step true st now (ECall id w tcall timeout) =
  match decide (held st) (cap st) w (tcall + timeout) now with
  | DGrant => (mkS (mplus (held st) w) (cap st) (waiting st) (woken st), [ORet id true])
  | DRefuse => (st, [ORet id false])
  | DBlock => (mkS (held st) (cap st) (waiting st ++ [mkW id w (tcall + timeout)]) (woken st), [OBlock id])
  end.
Proof. exact sem_call. Qed.

(* ... and every time the blocked caller runs again after a broadcast: the same table, so it is
   granted in the first run in which it fits.  [reachable_u] = reachable with goroutine ids that are
   unique among pending callers (which makes the woken ids unique: C30_unique_ids). *)
Theorem C30_unique_ids : forall c st, reachable_u c st -> reachable c st /\ uniq st.
Proof. intros c st H; split; [exact (reachable_u_reachable c st H) | exact (reachable_u_uniq c st H)]. Qed.
Theorem C30_acquire_wake : forall c st now x, m_wf c -> reachable_u c st -> In x (woken st) ->
  exists rest,
    (forall y, In y rest <-> In y (woken st) /\ y <> x) /\
    step true st now (EWake (wid x)) =
    match decide (held st) (cap st) (ww x) (wdl x) now with
    | DGrant => (mkS (mplus (held st) (ww x)) (cap st) (waiting st) rest, [ORet (wid x) true])
    | DRefuse => (mkS (held st) (cap st) (waiting st) rest, [ORet (wid x) false])
    | DBlock => (mkS (held st) (cap st) (waiting st ++ [x]) rest, [OBlock (wid x)])
    end.
Proof. exact sem_wake_u. Qed.

(* "Granted as soon as enough is released", history level (no lost wake-up): in NO reachable state is
   there a caller blocked inside cond.Wait() whose request fits, or exceeds the capacity - whenever the
   held amount or the capacity went down, everybody was made runnable. *)
Theorem C30_no_fitting_waiter : forall c st x, m_wf c -> reachable c st -> In x (waiting st) ->
  fitsb (held st) (ww x) (cap st) = false /\ exceedsb (ww x) (cap st) = false.
Proof. exact sem_no_fitting_waiter. Qed.
(* ... and the no-competitor case: a pending caller whose request fits after a Release is granted the
   first time it runs. *)
Theorem C30_release_then_wake : forall c st now now' w x,
  m_wf c -> reachable_u c st -> m_wf w -> In x (pending st) ->
  fits (held (fst (step true st now (ERelease w)))) (ww x) (cap st) ->
  exists st', step true (fst (step true st now (ERelease w))) now' (EWake (wid x)) = (st', [ORet (wid x) true]).
Proof. exact sem_release_then_wake. Qed.

(* Release: exact subtraction, or reset to zero with exactly one warning on over-release; and every
   blocked caller is made runnable (no lost wake-up). *)
Theorem C30_release : forall st now w,
  let '(st', o) := step true st now (ERelease w) in
  waiting st' = [] /\ woken st' = woken st ++ waiting st /\ cap st' = cap st /\
  (covers (held st) w -> o = [] /\ held st' = msub (held st) w) /\
  (~ covers (held st) w -> o = [OWarn (held st) w] /\ held st' = mzero).
Proof. exact sem_release. Qed.

(* Terminate: capacity zero for ever, every blocked caller runnable ... *)
Theorem C30_terminate : forall st now,
  let '(st', o) := step true st now ETerminate in
  o = [] /\ cap st' = mzero /\ held st' = held st /\ waiting st' = [] /\ woken st' = woken st ++ waiting st.
Proof. exact sem_terminate. Qed.
Theorem C30_terminated_forever : forall st now ev, cap st = mzero -> cap (fst (step true st now ev)) = mzero.
Proof. exact sem_terminated_forever. Qed.
(* ... after which every non-empty request is refused (Acquire whatever its deadline, TryAcquire) ... *)
Theorem C30_terminated_refuses : forall c st now x,
  m_wf c -> reachable c st -> cap st = mzero -> m_wf (ww x) -> ww x <> mzero ->
  loop_body true st now x = (st, [ORet (wid x) false]) /\
  step true st now (ETry (ww x)) = (st, [OTry false]).
Proof. exact sem_terminated_refuses. Qed.
(* ... in particular whoever was blocked at that moment: their requests are non-empty, they are
   runnable after Terminate, stay runnable until they run, and then return false. *)
Theorem C30_terminate_blocked : forall c st now x,
  m_wf c -> reachable c st -> cap st = c -> In x (pending st) ->
  In x (woken (fst (step true st now ETerminate))) /\ m_wf (ww x) /\ ww x <> mzero.
Proof. exact sem_terminate_blocked. Qed.
Theorem C30_runnable_stays : forall st now ev x,
  In x (woken st) -> ev <> EWake (wid x) -> In x (woken (fst (step true st now ev))).
Proof. exact sem_woken_stays. Qed.

(* Timeout.  A caller that runs at or after its deadline returns (true if it fits, else false). *)
Theorem C30_deadline_returns : forall st now x, (wdl x <= now)%Z ->
  exists ok st', loop_body true st now x = (st', [ORet (wid x) ok]).
Proof. exact sem_deadline_returns. Qed.
(* Under timer fairness (the runtime delivers the timer callback of a blocked Acquire at some time
   t >= its deadline): whatever happens afterwards, the caller has returned or is runnable and is
   never blocked again, so it returns the first time it is scheduled. *)
Theorem C30_timeout : forall st x t tr,
  uniq st -> In x (pending st) -> (wdl x <= t)%Z -> times_from t tr ->
  fresh_run (fst (step true st t (ETimer (wid x)))) tr ->
  let '(st2, log) := run true st ((t, ETimer (wid x)) :: tr) in
  (exists t' ok, In (t', ORet (wid x) ok) log) \/ (In x (woken st2) /\ ~ In x (waiting st2)).
Proof. exact sem_timeout. Qed.

(* The fair scheduler that replays harness scripts (model/Semaphore.v: simulate) is not a second
   model: the state it ends in is the state [run] reaches on the event trace it reports. *)
Theorem C30_scheduler_is_run : forall fx c prefer sc,
  let '(st, tr, ob) := sim_script fx prefer (init c, [], []) sc in
  st = fst (run fx (init c) (rev tr)).
Proof. exact simulate_is_run. Qed.

(* The replay scheduler reaches quiescence after every script instant, for ALL scripts and wake orders:
   nobody is runnable and every blocked caller has its deadline ahead ([quiet]); with
   C30_no_fitting_waiter (its request neither fits nor exceeds the capacity) this is the acceptor's
   "pending" clause - whoever has not returned at the end of an instant is rightly still waiting.
   And with all timers delivered every Acquire returns (the repaired model never reports "never"). *)
Theorem C30_scheduler_quiescent : forall prefer s t0 now op,
  quiet (fst (fst s)) t0 -> quiet (fst (fst (sim_instant prefer s now op))) now.
Proof. exact sim_instant_quiet. Qed.
Theorem C30_scheduler_all_return : forall c prefer sc,
  let '(st, tr, ob) := sim_script true prefer (init c, [], []) sc in waiting st = [] /\ woken st = [].
Proof. exact simulate_all_return. Qed.

(* The acceptor's per-instant clauses, proved of the model for every instant the replay scheduler goes
   through (a scripted call or a timer callback, then every woken caller runs, in any order), from any
   state satisfying the reachability invariant: the callers that ran are split into granted / refused /
   blocked again, with
     - exact accounting: held afterwards = held before + the sum of the granted weights (no wrap-around),
     - the bound,
     - every refusal justified: does not fit even at the end of the instant, and exceeds the capacity or
       its deadline has been reached,
     - every caller blocked again justified: does not fit, does not exceed, deadline ahead,
     - nobody left runnable.
   [drained] is the record of these clauses; C30_model_meets_spec below chains them over whole scripts. *)
Theorem C30_instant_clauses : forall c prefer s now e0,
  inv c (fst (fst s)) -> ev_wf e0 ->
  let s1 := sim_step true s now e0 in
  let s' := drain_all true prefer s1 now in
  inv c (fst (fst s')) /\
  exists kept granted refused, drained c now (fst (fst s1)) (fst (fst s')) kept granted refused.
Proof. exact instant_clauses. Qed.
(* the invariant used above holds in every reachable state *)
Theorem C30_reachable_inv : forall c st, m_wf c -> reachable c st -> inv c st.
Proof. exact reachable_inv. Qed.

(* THE MODEL MEETS THE SPECIFICATION.  [accept] (spec/SemaphoreSpec.v) is the executable acceptor that
   decides spec_ok on the implementation's observations (arranged as a chronological stream of instants);
   [simulate_stream] is the model's replay scheduler reporting the same kind of stream.  For every
   capacity, every well-formed script (one call per instant at increasing instants, unique goroutine ids,
   Go-valued weights, no deadline exactly on the instant of a scripted call) and every order in which
   woken callers get the mutex, the acceptor accepts what the model does - including that every Acquire
   returns (nobody is pending at the end). *)
Theorem C30_model_meets_spec : forall c prefer t0 sc,
  m_wf c -> script_wf t0 sc -> accept c (simulate_stream c prefer sc) = true.
Proof. exact model_meets_spec. Qed.

(* The three presentations of the replay scheduler are one: [simulate_stream] (above) goes through the same
   states and event traces as [sim_script] - the scheduler of C30_scheduler_is_run, C30_scheduler_quiescent
   and C30_scheduler_all_return, whose output ([simulate]) the driver renders and compares with the Go
   semaphore - and its records, read as (instant, id, result), are exactly the returns in [sim_script]'s
   observation buffer (newest first). *)
Theorem C30_stream_is_sim_script : forall c prefer sc,
  let '(st, tr, ob) := sim_script true prefer (init c, [], []) sc in
  rets_t ob = flat_map rec_rets_t (rev (simulate_stream c prefer sc)).
Proof. exact stream_is_sim_script. Qed.

(* non-vacuity: the witness script of the pinned tree's defect is well-formed (and the acceptor rejects
   what the pinned tree does on it: sem_old_timeout_refuted) *)
Example C30_model_meets_spec_nonvacuous : script_wf 0%Z wit_timeout /\ m_wf (mkM 1 100).
Proof.
  split; [|unfold m_wf, two32, two64; cbn; split; reflexivity].
  unfold script_wf, wit_timeout. cbn [times_inc acq_ids pos_deadlines flat_map snd fst app Z.ltb Z.compare].
  split; [repeat split; reflexivity|]. split; [repeat constructor; cbn; intuition discriminate|].
  split.
  - intros x [<-|[<-|[]]]; cbn; unfold m_wf, two32, two64; cbn; split; reflexivity.
  - intros d x Hd Hx. cbn in Hd. destruct Hd as [<-|[<-|[]]]; destruct Hx as [<-|[<-|[]]]; cbn; discriminate.
Qed.

(* non-vacuity: a reachable state with held > 0 and two runnable waiters, one that fits and one
   that does not *)
Example C30_nonvacuous : reachable (mkM 2 20) ex_state /\
  ex_state = mkS (mkM 1 10) (mkM 2 20) [] [mkW 2 (mkM 1 5) 21; mkW 3 (mkM 2 1) 52].
Proof. split; [exact ex_state_reachable | exact ex_state_shape]. Qed.

Print Assumptions C30_bound.
Print Assumptions C30_try_exact.
Print Assumptions C30_acquire_call.
Print Assumptions C30_unique_ids.
Print Assumptions C30_acquire_wake.
Print Assumptions C30_no_fitting_waiter.
Print Assumptions C30_release_then_wake.
Print Assumptions C30_release.
Print Assumptions C30_terminate.
Print Assumptions C30_terminated_forever.
Print Assumptions C30_terminated_refuses.
Print Assumptions C30_terminate_blocked.
Print Assumptions C30_runnable_stays.
Print Assumptions C30_deadline_returns.
Print Assumptions C30_timeout.
Print Assumptions C30_scheduler_is_run.
Print Assumptions C30_scheduler_quiescent.
Print Assumptions C30_scheduler_all_return.
Print Assumptions C30_instant_clauses.
Print Assumptions C30_reachable_inv.
Print Assumptions C30_model_meets_spec.
Print Assumptions C30_stream_is_sim_script.
