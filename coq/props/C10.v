(* C10 — Consensus output matches an independent reference implementation.
   Theorems are added below as they are proved (see proofs/BftCore*.v). *)
From Coq Require Import NArith List.
From LV Require Import spec.ElectionSpec.
