(* C10 — Consensus output matches an independent reference implementation.
   The reference is spec/ElectionSpec.v (extracted and run against the real abft on every check).
   Proved here, for ALL validator sets and ALL event sets accepted by the rules:
     - the tabulated election of the reference computes exactly the rule-level votes / decisions
       (Atropos soundness and completeness w.r.t. the recursive definition of the rules);
     - under forkers < 1/3: decisions are unique, the voted root is unique (the BFT core);
     - the reference is a function of the event SET: two parents-first orders of the same events
       give the same blocks (so "the reference's output" is well defined).
     - its forkless cause is FcSpec.fc_spec (composes with C05), its decisions are exactly the rule-level
       statement (C10_decide_iff).
   The statement for the model of the implementation (model/Abft.v + model/AbftRun.v = reference) is PROVED
   further down in this file by worker link (proofs/Link*.v): C10_model_refines_reference(_any_order) for
   valid single-epoch runs, C10_model_rejects_what_the_reference_rejects for streams with rejected / not
   offered events, C10_model_refines_reference_epochs (uniform sealing policy) and
   C10_model_refines_reference_extended (several epochs, arbitrary policy, noise, optional Builds, more
   observations).  [C10_full] as stated in BftProps (for ALL validator lists) is false for the model
   (zero-weight / duplicate validators): the proved form is C10_full_for_the_model (side conditions
   link_side).  The step from the model to the Go code is the hand port + differential testing. *)
From Coq Require Import NArith List.
From LV Require Import model.VecIndex lib.WSumBft spec.ElectionSpec proofs.BftCore proofs.BftElection
  proofs.BftMono proofs.BftGraph proofs.BftMain proofs.BftRun proofs.BftFcSpec proofs.BftAccept proofs.BftProps.
From LV Require Import spec.FcSpec.
Import ListNotations.
Local Open Scope N_scope.

(* ---- the reference tabulates the rules: generic in the event type, no BFT hypothesis ---- *)
Theorem C10_atropos_sound_partial :
  forall (X : Type) (xid : X -> N) (cr : X -> nat) (fr spf : X -> N) (fc : X -> X -> bool)
         (ws : list N) (q : N) (order : list nat) (evs : list X) (f0 : N),
    (forall x y, In x evs -> In y evs -> xid x = xid y -> x = y) ->
    forall maxf a, decide X xid cr fr spf fc ws q order evs f0 maxf = Atropos a ->
    exists pre v post x, order = pre ++ v :: post
      /\ (forall u, In u pre -> exists k r, decides X cr fr spf fc ws q evs f0 k r u false)
      /\ (exists k r, decides X cr fr spf fc ws q evs f0 k r v true)
      /\ voted_root X cr fr spf fc evs f0 v = Some x /\ xid x = a.
Proof. exact decide_sound. Qed.

Theorem C10_atropos_complete_partial :
  forall (X : Type) (xid : X -> N) (cr : X -> nat) (fr spf : X -> N) (fc : X -> X -> bool)
         (ws : list N) (q : N) (order : list nat) (evs : list X) (f0 : N),
    (forall x y, In x evs -> In y evs -> xid x = xid y -> x = y) ->
    forall maxf pre v post x,
    (forall k1 r1 k2 r2 u b1 b2, decides X cr fr spf fc ws q evs f0 k1 r1 u b1 ->
                                 decides X cr fr spf fc ws q evs f0 k2 r2 u b2 -> b1 = b2) ->
    (forall e, In e evs -> fr e <= maxf) ->
    order = pre ++ v :: post -> (forall u, In u (pre ++ [v]) -> (u < length ws)%nat) ->
    (forall u, In u pre -> exists k r, decides X cr fr spf fc ws q evs f0 k r u false) ->
    (exists k r, decides X cr fr spf fc ws q evs f0 k r v true) ->
    voted_root X cr fr spf fc evs f0 v = Some x ->
    decide X xid cr fr spf fc ws q order evs f0 maxf = Atropos (xid x).
Proof. exact decide_complete. Qed.

(* ---- BFT core on the reference's tables: forkers < 1/3 => decisions and voted roots are unique ---- *)
Theorem C10_decision_unique :
  forall vals T, wfT vals T -> few_forkers vals T ->
  forall f0 k1 r1 k2 r2 v b1 b2,
    decides node nd_cr nd_fr nd_spf (fc_n (map snd vals) (quorum_of (map snd vals))) (map snd vals)
            (quorum_of (map snd vals)) T f0 k1 r1 v b1 ->
    decides node nd_cr nd_fr nd_spf (fc_n (map snd vals) (quorum_of (map snd vals))) (map snd vals)
            (quorum_of (map snd vals)) T f0 k2 r2 v b2 -> b1 = b2.
Proof. exact ref_decision_unique. Qed.

Theorem C10_voted_root_unique :
  forall vals T, wfT vals T -> few_forkers vals T ->
  forall f0 a1 a2 r1 r2, In r1 T -> In r2 T ->
    In a1 (roots_at node nd_fr nd_spf T f0) -> In a2 (roots_at node nd_fr nd_spf T f0) -> nd_cr a1 = nd_cr a2 ->
    fc_n (map snd vals) (quorum_of (map snd vals)) r1 a1 = true ->
    fc_n (map snd vals) (quorum_of (map snd vals)) r2 a2 = true -> a1 = a2.
Proof. exact ref_voted_root_unique. Qed.

(* an accepted run builds a well-formed table: the hypotheses above are met by every valid input *)
Theorem C10_accepted_run_wf : forall vals D, all_accepted vals D -> wfT vals (table vals D).
Proof. intros vals D H. exact (wfTD_wfT vals _ _ (table_wfTD vals D H)). Qed.

(* ---- the reference is a function of the event set ---- *)
Theorem C10_reference_order_independent :
  forall vals D1 D2, all_accepted vals D1 -> all_accepted vals D2 -> incl D1 D2 -> incl D2 D1 ->
    few_forkers vals (table vals D2) -> snd (reference vals D1) = snd (reference vals D2).
Proof. exact reference_same_set. Qed.

(* ---- the rules, characterised: on the table of any valid run, the reference decides frame f0 with
        Atropos a  iff  the rule-level statement holds (canonical order = pre ++ v :: post, every validator of
        pre decided no by some root, v decided yes, a = the root of v that a first-round root forkless-causes) ---- *)
Theorem C10_decide_iff :
  forall vals T, wfT vals T -> few_forkers vals T -> forall f0 a,
  decide node nd_id nd_cr nd_fr nd_spf (fc_n (map snd vals) (quorum_of (map snd vals))) (map snd vals)
         (quorum_of (map snd vals)) (canon_order vals) T f0 (max_frame node nd_fr T) = Atropos a <->
  exists pre v post x, canon_order vals = pre ++ v :: post
    /\ (forall u, In u pre -> exists k r,
          decides node nd_cr nd_fr nd_spf (fc_n (map snd vals) (quorum_of (map snd vals))) (map snd vals)
                  (quorum_of (map snd vals)) T f0 k r u false)
    /\ (exists k r,
          decides node nd_cr nd_fr nd_spf (fc_n (map snd vals) (quorum_of (map snd vals))) (map snd vals)
                  (quorum_of (map snd vals)) T f0 k r v true)
    /\ voted_root node nd_cr nd_fr nd_spf (fc_n (map snd vals) (quorum_of (map snd vals))) T f0 v = Some x
    /\ nd_id x = a.
Proof. exact ref_decide_iff. Qed.

(* ---- graph-based forkless cause: the relation used by the reference IS FcSpec.fc_spec (the graph
        definition that C05 proves the vector index to compute) on the event map of the run ---- *)
Theorem C10_fc_is_graph_fc :
  forall vals T Dr a b, wfTD vals T Dr -> In a T -> In b T ->
    fc_n (map snd vals) (quorum_of (map snd vals)) a b =
    fc_spec (map snd vals) (quorum_of (map snd vals)) (length vals) (E_of Dr) (nd_id a) (nd_id b).
Proof. exact fcn_is_fc_spec. Qed.

(* ---- full statement for a model `run` of the implementation, without side conditions: as stated it is FALSE
        for model/AbftRun.v (validator lists with zero weights or duplicate ids); the proved form with the
        side conditions link_side is C10_full_for_the_model below (worker link), its extensions follow it ---- *)
Definition C10_full : impl_model -> Prop := BftProps.C10_full.

(* non-vacuity: a generated DAG (4 validators, 48 events, one forking validator) is a valid run,
   decides two blocks, the second one names the forker; a reordering of it is accepted as well *)
Example C10_example_valid : valid_run ex_vals ex_D /\ all_accepted ex_vals ex_D' /\
  snd (reference ex_vals ex_D) = [(1, 0, []); (2, 15, [37094])] /\
  existsb (forker (table ex_vals ex_D)) (seq 0 4) = true.
Proof. exact (conj ex_valid (conj ex_accepted' (conj ex_blocks ex_has_forker))). Qed.

Print Assumptions C10_atropos_sound_partial.
Print Assumptions C10_atropos_complete_partial.
Print Assumptions C10_decision_unique.
Print Assumptions C10_voted_root_unique.
Print Assumptions C10_accepted_run_wf.
Print Assumptions C10_reference_order_independent.
Print Assumptions C10_decide_iff.
Print Assumptions C10_fc_is_graph_fc.

(* ================= L1 (worker link): the line-by-line model of abft REFINES the reference =================
   abft_run = the extracted-and-tested adapter of the C10 driver (Build + Process per event on
   model/AbftRun.v, observations rendered as the reference's output).  Side conditions (LinkDefs.link_side):
   the validator list is in canonical form (mk_vals vals = vals: weight desc, id asc, no zero weights, no
   duplicate ids) with total weight < 2^31, no input id has the shape of a temporary id of one of the
   run's Builds (low 192 bits between 1 and the number of events), fewer than 2^192 events.
   Index correctness is taken from worker vecidx (fc = fc_spec, merged = merged_spec under vinv) and
   worker bft (fc_n = fc_spec); proofs/Link*.v. *)
From LV Require Import model.Abft model.AbftRun proofs.LinkVals proofs.LinkDefs proofs.LinkFresh proofs.LinkRun proofs.LinkExample.

Theorem C10_model_refines_reference : forall cap lam,
  forall vals D, link_side vals D -> valid_run vals D -> abft_run cap lam vals D = reference vals D.
Proof. exact link_full. Qed.

Theorem C10_full_for_the_model : forall cap lam, C10_full_on link_side (abft_run cap lam).
Proof. exact link_full. Qed.

(* non-vacuity: a valid run inside the side conditions (4 validators, 48 events, a forker, two blocks
   of which the second names the forker); the instance of the theorem agrees with evaluating the model *)
Example C10_model_example :
  link_side ex2_vals ex2_D /\ valid_run ex2_vals ex2_D /\
  snd (reference ex2_vals ex2_D) = [(1, 1000, []); (2, 1015, [37094])] /\
  existsb (forker (table ex2_vals ex2_D)) (seq 0 4) = true /\
  abft_run 200 (fun _ => 0) ex2_vals ex2_D = reference ex2_vals ex2_D.
Proof. exact (conj ex2_side (conj ex2_valid (conj ex2_blocks (conj ex2_has_forker ex2_refines_by_evaluation)))). Qed.

Print Assumptions C10_model_refines_reference.
Print Assumptions C10_full_for_the_model.

(* ---- L1 without the canonical-order side condition: validator list in ANY order ----
   link_side_raw vals D: no duplicate validator ids, no zero weights (what ValidatorsBuilder produces),
   total weight < 2^31, ids not temporary ids of the run's Builds, fewer than 2^192 events.
   The code sorts the list (mk_vals); the reference is equivariant under that re-arrangement
   (proofs/LinkEquiv.v: reference_pn; proofs/LinkPerm.v: mk_vals_canon). *)
From LV Require Import proofs.LinkPerm proofs.LinkEquiv proofs.LinkRaw.

Theorem C10_model_refines_reference_any_order : forall cap lam,
  forall vals D, link_side_raw vals D -> valid_run vals D -> abft_run cap lam vals D = reference vals D.
Proof. exact link_full_raw. Qed.

(* the reference does not depend on the order in which the validators are listed *)
Theorem C10_reference_validator_order_independent : forall vals, canon_order (vals' vals) = seq 0 (length vals) ->
  forall D, valid_run vals D ->
    valid_run (vals' vals) (map (pe vals) D) /\ reference (vals' vals) (map (pe vals) D) = reference vals D.
Proof. exact reference_pn. Qed.

Example C10_model_example_any_order :
  mk_vals ex_vals <> ex_vals /\ link_side_raw ex_vals ex3_D /\ valid_run ex_vals ex3_D /\
  snd (reference ex_vals ex3_D) = [(1, 1000, []); (2, 1015, [37094])] /\
  abft_run 200 (fun _ => 0) ex_vals ex3_D = reference ex_vals ex3_D.
Proof. exact (conj ex3_not_canonical (conj ex3_side (conj ex3_valid (conj ex3_blocks ex3_refines_by_evaluation)))). Qed.

Print Assumptions C10_model_refines_reference_any_order.
Print Assumptions C10_reference_validator_order_independent.

(* ================= L1 over several epochs (worker link; proofs/LinkEpoch*.v, LinkSeal.v) =================
   model_epochs: the model of the code run with the application's sealing policy mk_policy (epoch k seals at
   the block of frame [seal] with the validators next_vals polr vals_k k), per epoch Build + Process of
   that epoch's events (events of a closed epoch are skipped by the application's epoch guard and rendered
   with the reference's code 7).  The result — per epoch: verdict and Build frame of every event, blocks
   up to the sealing one, sealed? — equals reference_epochs.  epochs_ok: for every epoch that is reached,
   the validator list has no duplicate ids / zero weights, total weight < 2^31 and the epoch's events are
   a valid run; ids are not temporary ids (counter <= K >= number of events, K < 2^192). *)
From LV Require Import proofs.LinkEpoch proofs.LinkSeal proofs.LinkEpochs proofs.LinkEpochsCor proofs.LinkEpochsExample.

Theorem C10_model_refines_reference_epochs : forall cap lam seal polr vals Ds K,
  epochs_ok seal polr vals 1 Ds ->
  (forall D e, In D Ds -> In e D -> id_fresh K (eid (fe e))) -> N.of_nat (total_events Ds) <= K -> K < 2 ^ 192 ->
  model_epochs cap lam (mk_policy seal polr vals 1 (length Ds)) polr (start 1 vals) vals 1 Ds = reference_epochs seal polr vals 1 Ds.
Proof. exact link_epochs. Qed.

Example C10_model_epochs_example :
  epochs_ok 1 0 ex_vals 1 me_Ds /\ (forall D e, In D me_Ds -> In e D -> id_fresh 200 (eid (fe e))) /\
  map (fun r => (snd (fst r), snd r, length (filter (fun c => fst c =? 7) (fst (fst r))))) (reference_epochs 1 0 ex_vals 1 me_Ds)
    = [([(1, 1000, [])], true, 25%nat); ([(1, 3000, [])], true, 25%nat)] /\
  model_epochs 200 (fun _ => 0) (mk_policy 1 0 ex_vals 1 2) 0 (start 1 ex_vals) ex_vals 1 me_Ds = reference_epochs 1 0 ex_vals 1 me_Ds.
Proof. exact (conj me_ok (conj me_fresh (conj me_reference me_refines_by_evaluation))). Qed.
Print Assumptions C10_model_refines_reference_epochs.

(* ================= Round 3 (worker link): the REJECTION direction, and the extended statement =================
   (1) C10_model_rejects_what_the_reference_rejects (proofs/LinkReject.v, LinkCodes.v): abft_run = reference
       also on event streams that are NOT valid runs: an event whose claimed frame the reference does not allow
       (code 1) is rejected by the model with ErrWrongFrame (LinkReject.reject_step, from abft's
       frame_check_iff_allowed), its Build still returns frame_high; an event with a known id or an unknown
       parent (code 2) is stopped by the application's guard.  link_side_codes: validators without duplicate
       ids / zero weights, total < 2^31; every creator is a position of the validator list; every code is 0, 1
       or 2; forkers < 1/3; an event that reaches the frame check has an id that is not a temporary Build id
       and is not the id of an event rejected EARLIER in the run (ids are hashes: the forkless-cause cache is
       keyed by id, a rejected event leaves its entries behind -- confirmed defect C07 -- so a different event
       under a spent id is outside the statement; LinkX.ids_ok).
   (2) C10_model_refines_reference_extended (proofs/LinkX.v, LinkEpochX.v, LinkEpochsX.v): several epochs under
       an ARBITRARY policy (list of (epoch, frame) -> next validators), schedules with optional Builds, events
       of code 0 / 1 / 2, noise judged by the input alone (LinkReject.noise_in: any Build, a Process that the
       guard stops, restarts, probes), and more observations: per event the code, the Build frame, the decided
       frame and epoch reported by Process; per restart the decided frame and epoch it reports; per block the
       frame, Atropos, cheaters and the validators it seals to; per epoch the validators of the sealed
       instance.  The reference side (LinkX.ref_x) is ElectionSpec's add_event / r_blocks / cheaters_of walked
       event by event; without a policy its projection is ElectionSpec.reference
       (C10_extended_reference_is_the_reference).  render_x reports unexpected observation shapes with the
       codes 97 / 98 / 99 instead of truncating.
       epochs_ok_x is a property of the input; LinkXCheck.epochs_ok_xb decides it. *)
From LV Require Import proofs.LinkReject proofs.LinkX proofs.LinkEpochX proofs.LinkEpochsX proofs.LinkXCheck proofs.LinkCodes
  proofs.LinkCodesExample proofs.LinkXExample.

Theorem C10_model_rejects_what_the_reference_rejects : forall cap lam vals D,
  link_side_codes vals D -> abft_run cap lam vals D = reference vals D.
Proof. exact link_codes. Qed.

Example C10_rejection_example :
  link_side_codes ex_vals cx_D /\
  map fst (fst (reference ex_vals cx_D)) =
    [0; 0; 0; 0; 0; 0; 0; 0; 0; 0; 1; 1; 2; 2; 0; 0; 0; 0; 0; 0; 0; 0; 0; 0; 0; 0; 0; 0; 0; 0; 0; 0; 0; 0; 0; 0; 0; 0; 0; 0; 0; 0; 0; 0; 0; 0; 0; 0; 0; 0; 0; 0] /\
  abft_run 3 (fun _ => 0) ex_vals cx_D = reference ex_vals cx_D.
Proof. exact (conj cx_side (conj cx_codes cx_refines_by_evaluation)). Qed.

Theorem C10_model_refines_reference_extended : forall cap lam pol vals Ss K,
  vals <> [] -> epochs_ok_x pol K vals 1 Ss -> N.of_nat (total_builds Ss) <= K -> K < 2 ^ 192 ->
  model_epochs_x cap lam pol (start 1 vals) vals 1 Ss =
  map (fun r => (fst (fst r), snd (fst r), option_map mk_vals (snd r))) (ref_epochs_x pol vals 1 Ss).
Proof. exact link_x. Qed.

Theorem C10_extended_hypothesis_is_decidable : forall pol K, policy_b pol = true ->
  forall Ss vals ep, epochs_ok_xb pol K vals ep Ss = true -> epochs_ok_x pol K vals ep Ss.
Proof. exact epochs_ok_xb_ok. Qed.

Theorem C10_extended_reference_is_the_reference : forall ep vals D T,
  (forall r, In r (snd (add_events vals T D)) -> fst r < 3) ->
  map pj_ev (fst (fst (ref_x ep vals (fun _ => None) T (map slot0 D) []))) = snd (add_events vals T D) /\
  map pj_blk (snd (fst (ref_x ep vals (fun _ => None) T (map slot0 D) []))) =
    map (fun b => (fst b, snd b, ElectionSpec.cheaters_of vals (fst (add_events vals T D)) (snd b))) (r_blocks vals (fst (add_events vals T D))) /\
  snd (ref_x ep vals (fun _ => None) T (map slot0 D) []) = None.
Proof. exact ref_x_none. Qed.

(* three epochs, seal at frame 2 (a non-sealing block first, a cheater in the sealing block) to re-weighted and
   re-ordered validators, a Process-only epoch sealing at frame 1, an unsealed last epoch; rejected events,
   a duplicate, an orphan, noise and restarts everywhere *)
Example C10_extended_example :
  policy_b xx_pol = true /\ vals_b ex_vals = true /\ epochs_ok_xb xx_pol 400 ex_vals 1 xx_Ss = true /\ total_builds xx_Ss = 87%nat /\
  map (fun r => (snd (fst r), snd r,
                 [count_code 0 (fst (fst r)); count_code 1 (fst (fst r)); count_code 2 (fst (fst r)); count_code 7 (fst (fst r)); count_code 8 (fst (fst r))]))
      (ref_epochs_x xx_pol ex_vals 1 xx_Ss) =
  [ ([(1, 1000, [], None); (2, 1015, [37094], Some (mk_vals xx_vals2))], Some xx_vals2, [37; 2; 2; 11; 7]%nat);
    ([(1, 3002, [], Some (mk_vals ex_vals))], Some ex_vals, [23; 0; 0; 25; 2]%nat);
    ([(1, 5000, [], None); (2, 5015, [37094], None)], None, [48; 0; 0; 0; 2]%nat) ] /\
  model_epochs_x 3 xx_lam xx_pol (start 1 ex_vals) ex_vals 1 xx_Ss =
  map (fun r => (fst (fst r), snd (fst r), option_map mk_vals (snd r))) (ref_epochs_x xx_pol ex_vals 1 xx_Ss).
Proof. exact (conj xx_pol_ok (conj xx_vals_ok (conj xx_input_ok (conj xx_builds (conj xx_reference xx_refines_by_evaluation))))). Qed.

Print Assumptions C10_model_rejects_what_the_reference_rejects.
Print Assumptions C10_model_refines_reference_extended.
Print Assumptions C10_extended_hypothesis_is_decidable.
Print Assumptions C10_extended_reference_is_the_reference.
Example C10_extended_reference_example :
  (forall r, In r (snd (add_events ex_vals [] cx_D)) -> fst r < 3) /\
  map pj_ev (fst (fst (ref_x 1 ex_vals (fun _ => None) [] (map slot0 cx_D) []))) = fst (reference ex_vals cx_D) /\
  map pj_blk (snd (fst (ref_x 1 ex_vals (fun _ => None) [] (map slot0 cx_D) []))) = snd (reference ex_vals cx_D).
Proof. split; [exact (proj1 (proj2 (proj1 (proj2 (proj2 cx_side))))) | exact cx_walk]. Qed.
