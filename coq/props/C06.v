(* C06 — Merged vector clock reports highest observed sequence or a fork.
   Only theorem statements, each closed by [exact <lemma>], non-vacuity examples, Print Assumptions.
   model: VecIndex.merged (Engine.GetMergedHighestBefore / HighestBeforeSeq.GatherFrom);
   specification: FcSpec.merged_spec (ancestry closure, seq-forks, maximum). *)
From Coq Require Import NArith List Permutation Bool.
From LV Require model.Wlru proofs.WlruProofs.
From LV Require Import model.VecPersist proofs.VecPersistProofs model.VecIndex spec.FcSpec proofs.FcSpecFast proofs.FcSpecFacts proofs.VecInv proofs.VecMerged proofs.VecMain.
Import ListNotations.
Local Open Scope N_scope.

(* the specification in the words of the property: a fork is reported iff two different events of
   the validator with equal seq are ancestors-or-self; otherwise the entry is the highest seq among
   the validator's ancestor-or-self events, 0 if there is none *)
Theorem C06_spec_meaning : forall n E a v, (v < n)%nat ->
  (SeesFork E a v /\ nth v (merged_spec n E a) (false, 0) = (true, 0)) \/
  (~ SeesFork E a v /\ exists M, nth v (merged_spec n E a) (false, 0) = (false, M) /\ MaxSeq E a v M).
Proof. exact merged_spec_meaning. Qed.
Theorem C06_spec_t_is_spec : forall n E a, merged_spec_t n E (anc_table E) a = merged_spec n E a.
Proof. exact merged_spec_t_eq. Qed.

(* the property: every well-formed parents-first stream (forks included), every indexed event,
   every validator: (fork flag, seq) of the merged clock = the specification *)
Theorem C06_merged_equals_spec : forall n o a, wf_stream n o -> indexed o a ->
  map proj (merged (index_all n o) a) = merged_spec n (dag_of o) a.
Proof. exact merged_index_all. Qed.
(* under the index invariant (I1-I3), for any state *)
Theorem C06_merged_from_invariant : forall n s a ea, vinv n s -> evt s a ea ->
  map proj (merged s a) = merged_spec n (evs s) a.
Proof. intros n s a ea I. exact (merged_eq_spec n s I a ea). Qed.
Theorem C06_order_independent : forall n o1 o2 a, wf_stream n o1 -> wf_stream n o2 -> Permutation o1 o2 ->
  indexed o1 a -> map proj (merged (index_all n o1) a) = map proj (merged (index_all n o2) a).
Proof. exact merged_order_independent. Qed.

(* Round 2: Flush / DropNotFlushed histories (analogue of C05_flush_drop_histories) *)
Theorem C06_flush_drop_histories : forall n ops st a ea, vinv n (vs_flushed st) -> vinv n (vs_cur st) ->
  wf_vops n (evs (vs_flushed st)) (evs (vs_cur st)) ops ->
  let st' := fold_left vs_step ops st in
  evt (vs_cur st') a ea -> map proj (merged (vs_cur st') a) = merged_spec n (evs (vs_cur st')) a.
Proof. exact vstore_merged. Qed.

(* Rounds 5-6: the SAME Index object reused (Resets onto the same DB, or onto a new empty DB with ANOTHER validator
   count as abft does at an epoch seal), merged clock read through the HighestBefore cache: it equals the
   specification for the validator count current at the time *)
Theorem C06_reuse_history_merged : forall ws n cap mw ms c0 U ops a ea, WlruProofs.small mw -> Wlru.new mw ms = Some c0 ->
  rops_ok U (r_init ws n cap c0) ops ->
  let st := fold_left rstep (map fst ops) (r_init ws n cap c0) in
  evt (ce_view (r_ce st)) a ea ->
  map proj (fst (ce_merged (r_ce st) a)) = merged_spec (r_n st) (evs (ce_view (r_ce st))) a.
Proof. exact reuse_history_merged. Qed.

(* non-vacuity: the fork stream of props/C05.v (validator 0 forks at seq 2; event 6 sees it) *)
Definition ex_o : list event :=
  [ {| eid := 1; ecr := 0; eseq := 1; epar := [] |};
    {| eid := 2; ecr := 1; eseq := 1; epar := [1] |};
    {| eid := 3; ecr := 2; eseq := 1; epar := [2] |};
    {| eid := 4; ecr := 0; eseq := 2; epar := [1; 3] |};
    {| eid := 5; ecr := 0; eseq := 2; epar := [1] |};
    {| eid := 6; ecr := 1; eseq := 2; epar := [2; 4; 5] |} ].
Example C06_ex_wf : wf_stream 3 ex_o.
Proof.
  unfold wf_stream, ex_o. cbn [wf_from].
  repeat (split; [unfold wf_ev; cbn [eid ecr eseq epar self_parent N.leb N.compare Pos.compare Pos.compare_cont];
    repeat split; try reflexivity; try (vm_compute; intros H; discriminate H); try (unfold lt; repeat constructor);
    try (intros p Hp; cbn [In] in Hp;
         repeat (destruct Hp as [<-|Hp]; [eexists; vm_compute; reflexivity|]); destruct Hp);
    try (eexists; split; [vm_compute; reflexivity|split; reflexivity])|]).
  exact I.
Qed.
Example C06_ex_values :
  map proj (merged (index_all 3 ex_o) 6) = [(true, 0); (false, 2); (false, 1)] /\
  map proj (merged (index_all 3 ex_o) 4) = [(false, 2); (false, 1); (false, 1)] /\
  merged_spec 3 (dag_of ex_o) 6 = [(true, 0); (false, 2); (false, 1)].
Proof. vm_compute. repeat split; reflexivity. Qed.

(* 3 validators, then Reset onto a new DB with 6 validators on the same object: validator 4's events are its own *)
Definition ex_c16 : bcache := Wlru.mkCache [] 0 16 16 false.
Definition ex_o6 : list event :=
  [ {| eid := 1; ecr := 4; eseq := 1; epar := [] |}; {| eid := 2; ecr := 5; eseq := 1; epar := [1] |};
    {| eid := 3; ecr := 4; eseq := 2; epar := [1; 2] |} ].
Definition ex_rops6 : list rop :=
  map (fun e => RO (CAdd e)) (firstn 3 ex_o) ++ [RO CFlush; RResetFresh [1;1;1;1;1;1] 6] ++
  map (fun e => RO (CAdd e)) ex_o6 ++ [RO CFlush].
Example C06_ex_bigger_epoch :
  let st := fold_left rstep ex_rops6 (r_init [1;1;1] 3 5 ex_c16) in
  r_n st = 6%nat /\ map proj (fst (ce_merged (r_ce st) 3)) = [(false,0);(false,0);(false,0);(false,0);(false,2);(false,1)].
Proof. vm_compute. split; reflexivity. Qed.

Print Assumptions C06_spec_meaning.
Print Assumptions C06_spec_t_is_spec.
Print Assumptions C06_merged_equals_spec.
Print Assumptions C06_merged_from_invariant.
Print Assumptions C06_order_independent.
Print Assumptions C06_flush_drop_histories.
Print Assumptions C06_reuse_history_merged.
