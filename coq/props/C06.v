(* C06 — theorems are added below as they are proved *)
From Coq Require Import NArith List.
From LV Require Import model.VecIndex spec.FcSpec proofs.FcSpecFast.
Local Open Scope N_scope.
Theorem C06_spec_t_is_spec : forall n E a, merged_spec_t n E (anc_table E) a = merged_spec n E a.
Proof. exact merged_spec_t_eq. Qed.
Print Assumptions C06_spec_t_is_spec.
