(* C03 -- theorems are added below as they are proved (see design-notes/C03.md). *)
From Coq Require Import NArith List.
From LV Require Import model.Abft model.AbftRun spec.AbftSpec.
