(* C03 -- Cheater lists name exactly the visible forkers.
   Statements only; proofs in proofs/AbftCheaters.v (example: AbftForkWitness.v).
   The statement is relative to the index theorem C06 (worker vecidx, props/C06.v
   C06_merged_from_invariant): "the merged clock of an indexed event = merged_spec of the graph";
   it appears below as the explicit premise [merged = merged_spec]. *)
From Coq Require Import NArith List.
From LV Require Import model.VecIndex spec.FcSpec model.Abft model.AbftRun spec.AbftSpec
  proofs.AbftCheaters proofs.AbftForkWitness.
Import ListNotations.
Local Open Scope N_scope.

(* the cheaters of a block are computed by the applyAtropos loop from the Atropos' merged clock *)
Theorem C03_block_cheaters : forall eb es st f atr blk st1,
  apply_atropos eb es st f atr = (Ok blk, st1) -> b_cheaters blk = cheaters_of st atr.
Proof. exact apply_atropos_cheaters. Qed.

(* ... they are the validators, in the validator set's canonical order, whose clock entry is the fork marker *)
Theorem C03_cheaters_by_fork_marker : forall st atr (F : nat -> bool),
  (forall i, (i < length (l_vals st))%nat -> is_fork (hb_get (merged (l_idx st) atr) i) = F i) ->
  cheaters_of st atr = map fst (filter (fun p => F (snd p)) (combine (v_ids (l_vals st)) (seq 0 (length (l_vals st))))).
Proof. exact cheaters_by_flags. Qed.

(* ... hence, given C06, exactly the validators having two different events with the same seq among the
   ancestors-or-self of the Atropos (FcSpec.sees_fork over the graph E), in canonical order *)
Theorem C03_cheaters_are_visible_forkers : forall st atr E,
  map (fun x => (is_fork x, fst x)) (merged (l_idx st) atr) = merged_spec (length (l_vals st)) E atr ->
  cheaters_of st atr =
  map fst (filter (fun p => sees_fork E (anc E atr) (snd p)) (combine (v_ids (l_vals st)) (seq 0 (length (l_vals st))))).
Proof. exact cheaters_are_visible_forkers. Qed.

(* a validator is listed iff it is a visible forker; in particular an honest validator is never listed *)
Theorem C03_listed_iff_forker : forall st atr E id,
  map (fun x => (is_fork x, fst x)) (merged (l_idx st) atr) = merged_spec (length (l_vals st)) E atr ->
  (In id (cheaters_of st atr) <->
   exists i, nth_error (v_ids (l_vals st)) i = Some id /\ sees_fork E (anc E atr) i = true).
Proof. exact cheater_iff_visible_forker. Qed.

(* non-vacuity: a run with a forking validator; the second block lists it, and the executable
   specification (graph closure, spec/AbftSpec.v c03_trace) holds on the trace *)
Example C03_fork_run :
  map b_cheaters (concat (map blocks_of f_run)) = [[]; [2]] /\
  c03_trace (chk_start 2 f_vals) (combine f_ops f_run) = true.
Proof. destruct fork_witness as [A [B _]]. split; assumption. Qed.

Print Assumptions C03_block_cheaters.
Print Assumptions C03_cheaters_by_fork_marker.
Print Assumptions C03_cheaters_are_visible_forkers.
Print Assumptions C03_listed_iff_forker.
