(* C03 -- Cheater lists name exactly the visible forkers.
   Statements only; proofs in proofs/AbftCheaters.v (example: AbftForkWitness.v).
   The statement is relative to the index theorem C06 (worker vecidx, props/C06.v
   C06_merged_from_invariant): "the merged clock of an indexed event = merged_spec of the graph";
   it appears below as the explicit premise [merged = merged_spec]. *)
From Coq Require Import NArith List.
From LV Require Import model.VecIndex spec.FcSpec model.Abft model.AbftRun spec.AbftSpec
  proofs.VecInv proofs.VecStep proofs.AbftSeal proofs.AbftRoots proofs.AbftInv proofs.AbftInvStep proofs.AbftGraph
  proofs.AbftCheaters proofs.AbftForkWitness.
Import ListNotations.
Local Open Scope N_scope.

(* the cheaters of a block are computed by the applyAtropos loop from the Atropos' merged clock *)
Theorem C03_block_cheaters : forall eb es st f atr blk st1,
  apply_atropos eb es st f atr = (Ok blk, st1) -> b_cheaters blk = cheaters_of st atr.
Proof. exact apply_atropos_cheaters. Qed.

(* ... they are the validators, in the validator set's canonical order, whose clock entry is the fork marker *)
Theorem C03_cheaters_by_fork_marker : forall st atr (F : nat -> bool),
  (forall i, (i < length (l_vals st))%nat -> is_fork (hb_get (merged (l_idx st) atr) i) = F i) ->
  cheaters_of st atr = map fst (filter (fun p => F (snd p)) (combine (v_ids (l_vals st)) (seq 0 (length (l_vals st))))).
Proof. exact cheaters_by_flags. Qed.

(* ... hence, given C06, exactly the validators having two different events with the same seq among the
   ancestors-or-self of the Atropos (FcSpec.sees_fork over the graph E), in canonical order *)
Theorem C03_cheaters_are_visible_forkers : forall st atr E,
  map (fun x => (is_fork x, fst x)) (merged (l_idx st) atr) = merged_spec (length (l_vals st)) E atr ->
  cheaters_of st atr =
  map fst (filter (fun p => sees_fork E (anc E atr) (snd p)) (combine (v_ids (l_vals st)) (seq 0 (length (l_vals st))))).
Proof. exact cheaters_are_visible_forkers. Qed.

(* a validator is listed iff it is a visible forker; in particular an honest validator is never listed *)
Theorem C03_listed_iff_forker : forall st atr E id,
  map (fun x => (is_fork x, fst x)) (merged (l_idx st) atr) = merged_spec (length (l_vals st)) E atr ->
  (In id (cheaters_of st atr) <->
   exists i, nth_error (v_ids (l_vals st)) i = Some id /\ sees_fork E (anc E atr) i = true).
Proof. exact cheater_iff_visible_forker. Qed.

(* ================= Round 2: the premise discharged with worker vecidx' C06 =================
   for every state whose index satisfies vecidx' invariant (every reachable one: C04_J_on_every_run) and
   every indexed Atropos, the list IS the list of visible forkers of the index' DAG, in canonical order *)
Theorem C03_cheaters_are_visible_forkers_graph : forall st atr ea,
  vinv (length (l_vals st)) (l_idx st) -> evt (l_idx st) atr ea ->
  cheaters_of st atr = visible_forkers (l_vals st) (evs (l_idx st)) atr.
Proof. exact cheaters_graph. Qed.

(* every block of every accepting Process call (E' = the DAG of the epoch's accepted events incl. the one being
   processed): cheaters = validators with two different events of equal seq among the ancestors-or-self of
   the block's Atropos, in canonical order; the Atropos is an accepted event *)
Theorem C03_block_cheaters_graph : forall cap eb i e u bl st',
  J i -> elinv (i_st i) -> V (i_st i) -> guard i e true = None ->
  wf_new (length (l_vals (i_st i))) (l_idx (i_st i)) (vev (l_vals (i_st i)) e) ->
  process cap eb (aput (a_id e) e (i_es i)) (i_st i) e = (Ok u, bl, st') ->
  forall b, In b bl ->
    b_cheaters b = visible_forkers (l_vals (i_st i)) ((a_id e, vev (l_vals (i_st i)) e) :: evs (l_idx (i_st i))) (b_atropos b).
Proof. intros cap eb i e u bl st' HJ HI HV G W E b Hb. exact (proj2 (accepted_blocks_graph cap eb i e u bl st' HJ HI HV G W E b Hb)). Qed.

(* non-vacuity: a run with a forking validator; the second block lists it, and the executable
   specification (graph closure, spec/AbftSpec.v c03_trace) holds on the trace *)
Example C03_fork_run :
  map b_cheaters (concat (map blocks_of f_run)) = [[]; [2]] /\
  c03_trace (chk_start 2 f_vals) (combine f_ops f_run) = true.
Proof. destruct fork_witness as [A [B _]]. split; assumption. Qed.

Print Assumptions C03_block_cheaters.
Print Assumptions C03_cheaters_by_fork_marker.
Print Assumptions C03_cheaters_are_visible_forkers.
Print Assumptions C03_listed_iff_forker.
Print Assumptions C03_cheaters_are_visible_forkers_graph.
Print Assumptions C03_block_cheaters_graph.
