(* C12 — Validator sets have a canonical, serialisable form. (theorems added below as proved) *)
From Coq Require Import NArith List.
From LV Require Import lib.WordArith model.Pos spec.PosSpec.
Local Open Scope N_scope.
