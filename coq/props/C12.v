(* C12 — Validator sets have a canonical, serialisable form.
   Only theorem statements, each closed by [exact <lemma>], Examples, and Print Assumptions.
   Model: model/Pos.v.  Specification: spec/PosSpec.v (eff = last write wins, eff_pairs = the
   non-zero pairs, rank = number of pairs that must precede, canon_ok = executable check). *)
From Coq Require Import NArith ZArith List Bool Permutation Sorted.
From LV Require Import lib.WordArith model.Pos model.PosRlp model.PosBig spec.PosSpec.
From LV Require Import proofs.PosMapProofs proofs.PosSortProofs proofs.PosBuildProofs proofs.PosBigProofs proofs.PosBigZProofs proofs.PosRlpProofs.
Import ListNotations.
Local Open Scope N_scope.

(* --- the canonical form depends only on the non-zero (id, weight) pairs ---
   two arbitrary sequences of Set calls with the same final assignment build the same caches
   (ids, weights, index map, total); in particular any reordering that keeps the assignment *)
Theorem C12_canonical : forall ops1 ops2, (forall id, eff ops1 id = eff ops2 id) ->
  option_map v_cache (build ops1) = option_map v_cache (build ops2).
Proof. exact build_canonical. Qed.

(* the order is (weight desc, id asc) and it does not depend on the sort algorithm: ANY list that
   is a permutation of the entries and sorted by Less is the model's array (Go's unstable
   sort.Sort included) *)
Theorem C12_any_sort : forall l l', Permutation l' l -> StronglySorted vle l' -> l' = sorted_array l.
Proof. exact any_sort_is_vsort. Qed.
Theorem C12_less_is_spec_order : forall a b, vless a b = before a b.
Proof. exact vless_before. Qed.

(* everything observable of a built set is what the specification says: the arrays are the
   canonical arrangement of the specification's pair set (every pair at its rank), idx = rank =
   position, total = sum, Get/Exists = last write *)
Theorem C12_build_observables : forall ops vs, weights_fit ops -> build ops = Some vs ->
  combine (sorted_ids vs) (sorted_weights vs) = canon ops /\
  canon_ok (eff_pairs ops) (combine (sorted_ids vs) (sorted_weights vs)) = true /\
  length (sorted_ids vs) = length (eff_pairs ops) /\
  length (sorted_weights vs) = length (eff_pairs ops) /\
  total_weight vs = spec_total ops /\
  (forall id, get vs id = eff ops id) /\
  (forall id, exists_id vs id = negb (eff ops id =? 0)) /\
  (forall id, get_idx vs id = spec_idx ops id) /\
  (forall i id, nth_error (sorted_ids vs) i = Some id -> get_idx vs id = i).
Proof. exact build_observables. Qed.
(* the executable specification is tight: exactly one arrangement passes it *)
Theorem C12_spec_pins_arrangement : forall pairs arr, NoDup pairs ->
  canon_ok pairs arr = true -> arr = sorted_array pairs.
Proof. exact canon_ok_unique. Qed.
Theorem C12_build_guard : forall ops, weights_fit ops ->
  (build ops = None <-> max_total < spec_total ops).
Proof. exact build_guard. Qed.

(* --- EncodeRLP writes the sorted array, DecodeRLP rebuilds through the builder --- *)
Theorem C12_roundtrip : forall ops vs, build ops = Some vs ->
  exists vs', decode (encode vs) = Some vs' /\ v_cache vs' = v_cache vs /\
              Permutation (v_values vs') (v_values vs) /\ encode vs' = encode vs.
Proof. exact roundtrip. Qed.

(* the same through the wire bytes (model/PosRlp.v: writer tied byte for byte to go-ethereum's
   rlp in the correspondence; reader = model only): the reader inverts the writer, so
   DecodeRLP (EncodeRLP vs) rebuilds vs and re-encodes to the same bytes *)
Theorem C12_rlp_reader_inverts_writer : forall arr, vals_fit64 arr -> decode_rlp_array (rlp_array arr) = ROk arr.
Proof. exact decode_rlp_array_inv. Qed.
Theorem C12_roundtrip_bytes : forall ops vs, weights_fit ops -> Forall (fun p => fst p < two64) ops ->
  build ops = Some vs ->
  decode_rlp (encode_rlp vs) = decode (encode vs) /\
  exists vs', decode_rlp (encode_rlp vs) = Some vs' /\ v_cache vs' = v_cache vs /\
              Permutation (v_values vs') (v_values vs) /\ encode_rlp vs' = encode_rlp vs.
Proof. exact roundtrip_bytes. Qed.

(* DecodeRLP replaces the whole target object (decode_step models `*vv = *builder.Build()`): over every
   history of decodes into one reused target, the k-th result is the result of decoding the k-th
   input into a fresh object - it does not depend on what the target held before *)
Theorem C12_decode_history_independent : forall t bss, decode_run t bss = map decode_fresh bss.
Proof. intros t bss; exact (decode_run_history_independent bss t). Qed.
Theorem C12_decode_into_any_target : forall ops vs t, weights_fit ops -> Forall (fun p => fst p < two64) ops ->
  build ops = Some vs ->
  exists vs', decode_step t (encode_rlp vs) = (vs', DOk vs') /\ v_cache vs' = v_cache vs /\
              Permutation (v_values vs') (v_values vs) /\ encode_rlp vs' = encode_rlp vs.
Proof. exact decode_into_any_target. Qed.
(* contrast, not the code: filling the target's map in place gives the union of old and new pairs *)
Example C12_ex_inplace_decode_is_not_history_independent :
  let b1 := rlp_array [(1, 50); (2, 40)] in
  let b2 := rlp_array [(2, 7); (3, 9)] in
  let t1 := fst (decode_step_inplace empty_validators b1) in
  match snd (decode_step_inplace t1 b2), snd (decode_step t1 b2) with
  | DOk u, DOk v => sorted_ids u = [1; 3; 2] /\ sorted_ids v = [3; 2]
  | _, _ => False
  end.
Proof. exact decode_inplace_not_history_independent. Qed.

(* --- big stakes ---
   Model: model/PosBig.v, stakes as the Go type has them (big.Int pointers: signed Z, or nil = None).
   DOMAIN: the property speaks of stakes ("up to 2^256"), i.e. non-negative amounts.  Every theorem
   below carries the hypothesis [nonneg_ops ops] = every stake handed to Set is nil or >= 0.
   It is necessary: with a negative stake Build can panic (C12_big_negative_stake_panics; Uint64()
   of a negative big.Int is the magnitude).  [opsN ops] are the same Set calls with nil read as 0. *)
(* never panics; the result is the canonical form of the stakes scaled by the one shift that the
   specification accepts (the least s with total >> s < 2^31), zero results dropped *)
Theorem C12_big_build : forall ops, nonneg_ops ops ->
  shift_ok (spec_total (opsN ops)) (shift_of (spec_total (opsN ops))) = true /\
  exists vs, zbig_build ops = Some vs /\
             v_cache vs = cache_of (sorted_array (big_spec_pairs (opsN ops) (shift_of (spec_total (opsN ops))))) /\
             Permutation (v_values vs) (big_spec_pairs (opsN ops) (shift_of (spec_total (opsN ops)))).
Proof. exact zbig_build_spec. Qed.
Theorem C12_big_never_panics : forall ops, nonneg_ops ops -> zbig_build ops <> None.
Proof. exact zbig_never_panics. Qed.
(* the same without the model's sort: the reported arrays pass the rank-based check *)
Theorem C12_big_canon_ok : forall ops vs, nonneg_ops ops -> zbig_build ops = Some vs ->
  canon_ok (big_spec_pairs (opsN ops) (shift_of (spec_total (opsN ops))))
           (combine (sorted_ids vs) (sorted_weights vs)) = true /\
  total_weight vs = sum_weights (big_spec_pairs (opsN ops) (shift_of (spec_total (opsN ops)))).
Proof. exact zbig_canon_ok. Qed.
(* on the domain the *big.Int model is the non-negative one the remaining theorems speak about *)
Theorem C12_big_nonneg_model : forall ops, nonneg_ops ops -> zbig_build ops = big_build (opsN ops).
Proof. exact zbig_build_nonneg. Qed.
(* outside the domain (not a claim of the property; shows the hypothesis cannot be dropped) *)
Example C12_big_negative_stake_panics :
  zbig_build [(1, Some (-1)%Z); (2, Some 2147483648%Z)] = None /\
  zbig_build [(1, Some (-1099511627776)%Z); (2, Some 7%Z)] = None /\
  (exists vs, zbig_build [(1, Some (-5)%Z); (2, Some 7%Z)] = Some vs /\ sorted_weights vs = [7; 5]).
Proof. exact zbig_negative_panics. Qed.
Theorem C12_shift_unique : forall T s1 s2, shift_ok T s1 = true -> shift_ok T s2 = true -> s1 = s2.
Proof. exact shift_ok_unique. Qed.
(* big_fits / big_monotone / big_minimal on the scaled stakes (ops : Set calls with non-negative
   stakes, e.g. [opsN ops']).  "Just enough" is proved in this reading: s is THE least shift with
   (total stake >> s) <= 2^31-1 (last clause + C12_shift_unique) - the total is what has to fit.  It
   is not always the least s for which the sum of the individually floored stakes fits
   (C12_ex_just_enough_reading): the code derives s from bitlen(total) only. *)
Theorem C12_big_weights : forall ops,
  sum_weights (shifted (shift_of (spec_total ops)) (eff_pairs ops)) <= max_total /\
  (forall p, In p (eff_pairs ops) -> N.shiftr (snd p) (shift_of (spec_total ops)) < 2147483648) /\
  (forall p q, In p (eff_pairs ops) -> In q (eff_pairs ops) -> snd p <= snd q ->
               N.shiftr (snd p) (shift_of (spec_total ops)) <= N.shiftr (snd q) (shift_of (spec_total ops))) /\
  (0 < shift_of (spec_total ops) ->
   2147483648 <= N.shiftr (spec_total ops) (shift_of (spec_total ops) - 1)).
Proof. exact big_weights. Qed.
(* the uint64 / uint32 truncations in Build are the identity on every scaled stake *)
Theorem C12_big_no_truncation : forall m p, In p m ->
  big_weight (big_shift m) (snd p) = N.shiftr (snd p) (big_shift m).
Proof. exact big_weight_exact. Qed.

(* --- Go ranges over maps in an unspecified order (newValidators, sortedArray, big Build); the
   model ranges over the association list front to back: any other order gives the same caches --- *)
Theorem C12_map_order_irrelevant : forall m m', vmap_ok m -> Permutation m m' ->
  option_map v_cache (new_validators m) = option_map v_cache (new_validators m').
Proof. exact new_validators_perm. Qed.
Theorem C12_big_map_order_irrelevant : forall m m', vmap_ok m -> Permutation m m' ->
  option_map v_cache (build (big_sets m)) = option_map v_cache (build (big_sets m')).
Proof. exact big_map_order_irrelevant. Qed.

(* --- non-vacuity --- *)
Definition ex_a : list (N * N) := [(5, 7); (9, 3); (2, 4); (9, 0); (7, 4); (5, 2)].
Definition ex_b : list (N * N) := [(7, 1); (2, 4); (7, 4); (3, 0); (5, 2)].
Example C12_ex_same_assignment : (forall id, In id [2; 3; 5; 7; 9] -> eff ex_a id = eff ex_b id) /\
  option_map v_cache (build ex_a) = option_map v_cache (build ex_b) /\
  option_map sorted_ids (build ex_a) = Some [2; 7; 5] /\
  option_map sorted_weights (build ex_a) = Some [4; 4; 2].
Proof.
  split; [intros id H; repeat (destruct H as [H|H]; [subst; vm_compute; reflexivity|]); destruct H|].
  repeat split; vm_compute; reflexivity.
Qed.
Example C12_ex_roundtrip : forall vs, build ex_a = Some vs ->
  encode vs = [(2, 4); (7, 4); (5, 2)] /\ option_map v_cache (decode (encode vs)) = Some (v_cache vs).
Proof. intros vs H. vm_compute in H. inversion H; subst. split; vm_compute; reflexivity. Qed.
Example C12_ex_bytes : forall vs, build [(5, 7); (300, 70000); (2, 7)] = Some vs ->
  encode_rlp vs = [206; 199; 130; 1; 44; 131; 1; 17; 112; 194; 2; 7; 194; 5; 7] /\
  decode_rlp_array (encode_rlp vs) = ROk [(300, 70000); (2, 7); (5, 7)].
Proof. intros vs H. vm_compute in H. inversion H; subst. split; vm_compute; reflexivity. Qed.
Example C12_ex_just_enough_reading :
  let ops := [(1, 2147483649); (2, 2147483647)] in
  shift_of (spec_total ops) = 2 /\ N.shiftr (spec_total ops) 1 = 2147483648 /\
  sum_weights (shifted 1 (eff_pairs ops)) = 2147483647.
Proof. exact just_enough_reading. Qed.
Example C12_ex_big_nil_and_zero : nonneg_ops [(1, Some 5%Z); (1, None); (2, Some 7%Z); (3, Some 0%Z)] /\
  option_map sorted_ids (zbig_build [(1, Some 5%Z); (1, None); (2, Some 7%Z); (3, Some 0%Z)]) = Some [2].
Proof. split; [repeat constructor; cbn; discriminate|vm_compute; reflexivity]. Qed.
Example C12_ex_big :
  let ops := [(1, 2 ^ 200); (2, 2 ^ 199 + 12345); (3, 77); (4, 2 ^ 200 - 1)] in
  shift_of (spec_total ops) = 171 /\
  option_map (fun vs => combine (sorted_ids vs) (sorted_weights vs)) (big_build ops)
    = Some [(1, 536870912); (4, 536870911); (2, 268435456)].
Proof. split; vm_compute; reflexivity. Qed.

Print Assumptions C12_canonical.
Print Assumptions C12_any_sort.
Print Assumptions C12_less_is_spec_order.
Print Assumptions C12_build_observables.
Print Assumptions C12_spec_pins_arrangement.
Print Assumptions C12_build_guard.
Print Assumptions C12_roundtrip.
Print Assumptions C12_rlp_reader_inverts_writer.
Print Assumptions C12_roundtrip_bytes.
Print Assumptions C12_decode_history_independent.
Print Assumptions C12_decode_into_any_target.
Print Assumptions C12_big_build.
Print Assumptions C12_big_never_panics.
Print Assumptions C12_big_canon_ok.
Print Assumptions C12_big_nonneg_model.
Print Assumptions C12_shift_unique.
Print Assumptions C12_big_weights.
Print Assumptions C12_big_no_truncation.
Print Assumptions C12_map_order_irrelevant.
Print Assumptions C12_big_map_order_irrelevant.
