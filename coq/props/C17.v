(* C17 — Stream seeder serves each session in order, once, within limits.
   Only theorem statements closed by [exact <lemma>], non-vacuity examples, Print Assumptions.
   Model: model/Seeder.v (labelled transition system of the reader loop, the sender workers and
   the API calls; all schedules = all label sequences; repaired code, fixes/C17.patch).
   Specification: spec/SeederSpec.v. *)
From Coq Require Import NArith List Bool Sorted.
From LV Require Import model.Seeder spec.SeederSpec proofs.SeederProofs proofs.SeederQueues proofs.SeederSessions proofs.SeederLifetime proofs.SeederCounts proofs.SeederRefine proofs.SeederLiveness proofs.SeederOrder model.WorkersFifo proofs.WorkersFifoProofs.
Import ListNotations.
Local Open Scope N_scope.

(* Limits: for every configuration, item list, schedule and code variant, every response handed
   to SendChunk exceeds neither the item-count nor the size limit of the request it serves by
   more than its last item. *)
Theorem C17_limits : forall v cfg db ops r,
  In (ESent r) (snd (run v cfg db (init cfg) ops)) ->
  limits_ok (r_num (rs_req r)) (r_size (rs_req r)) (rs_items r) = true.
Proof. exact sent_limits. Qed.

(* Pending memory, with the accounting of the code: the reader adds a response's memory BEFORE
   it calls Enqueue (which blocks while the sender's task channel is full), a sender worker
   subtracts it after sendChunk.  In every reachable state (every schedule, both code variants)
   the counter equals the memory of the responses accounted for and not yet acknowledged
   (queued, being sent, or added and waiting in Enqueue), and exceeds the configured limit by
   less than the memory of one of them.  (The state between sendChunk and the subtraction has
   the pending size of the state before the ODeliver label.) *)
Theorem C17_pending_bound : forall v cfg db ops,
  let st := fst (run v cfg db (init cfg) ops) in
  st_pending st = mem_sum cfg (accounted st) /\
  (st_pending st = 0 \/
   exists r, In r (accounted st) /\ st_pending st < c_limit cfg + resp_mem cfg r).
Proof. exact pending_bounded. Qed.

(* Per-incarnation FIFO: whatever the sender workers' schedule, the responses of an incarnation
   that have been sent are an initial segment of those the reader produced, in that order. *)
Theorem C17_fifo : forall v cfg db ops k,
  let tr := snd (run v cfg db (init cfg) ops) in
  exists rest, sel k (enqs tr) = sel k (sents tr) ++ rest.
Proof. exact fifo_per_incarnation. Qed.

(* Content, order, completeness of the done flag (repaired code).  For every key-sorted item
   list, every configuration and every schedule: for every session incarnation created (by a
   request of peer p for session sid with selector [a, b)) the items sent so far, concatenated
   in sending order, are an initial segment of the items with a <= key < b in key order (in
   order, without gaps, without repeats); every response carries sid; a response marked done is
   the last of the incarnation (nothing is sent after it) and then the whole range was sent. *)
Theorem C17_session_content : forall cfg db ops,
  sorted_keys db ->
  let tr := snd (run v_fixed cfg db (init cfg) ops) in
  forall k p sid a b c, In (ECreated k p sid a b c) tr ->
    let sent := sel k (sents tr) in
    (exists rest, items_of sent ++ rest = range_items db a b) /\
    owned p sid sent /\
    (forall l1 r l2, sent = l1 ++ r :: l2 -> rs_done r = true ->
       l2 = [] /\ items_of sent = range_items db a b).
Proof. exact session_content. Qed.

(* the boolean checks the driver evaluates on the implementation's logs decide the statements
   of C17_session_content *)
Theorem C17_spec_prefix_decides : forall l m, is_prefix l m = true <-> exists rest, l ++ rest = m.
Proof. exact is_prefix_spec. Qed.
Theorem C17_spec_equal_decides : forall l m, items_eqb l m = true <-> l = m.
Proof. exact items_eqb_spec. Qed.

(* Per incarnation the responses are sent in the order of the requests they serve (what the
   checker tags_sorted tests on the implementation's logs). *)
Theorem C17_sent_in_request_order : forall cfg db ops k,
  sorted_keys db ->
  let tr := snd (run v_fixed cfg db (init cfg) ops) in
  StronglySorted ser_le (sel k (sents tr)).
Proof. exact sent_in_request_order. Qed.

(* The remaining boolean checkers of SeederSpec.seeder_spec_ok decide the Props used in the
   theorems: tags_sorted <-> adjacent responses serve non-decreasing serials
   (C17_sent_in_request_order); done_only_last <-> no response before the last is marked done
   (C17_session_content); counts_ok / done_by <-> every served request got its chunks or a done
   response of its incarnation with a serial not later than its own (C17_requests_complete). *)
Theorem C17_spec_tags_sorted_decides : forall rs,
  tags_sorted rs = true <-> forall l1 x y l2, rs = l1 ++ x :: y :: l2 -> o_tag x <= o_tag y.
Proof. exact tags_sorted_spec. Qed.
Theorem C17_spec_done_only_last_decides : forall rs,
  done_only_last rs = true <-> forall l1 x l2, rs = l1 ++ x :: l2 -> l2 <> [] -> o_done x = false.
Proof. exact done_only_last_spec. Qed.
Theorem C17_spec_counts_decides : forall ops exp incs,
  counts_ok ops exp incs = true <->
  forall rq c, In (SReq rq) ops -> expect_of (r_serial rq) exp = Some (XServe c) ->
    count_tag (r_serial rq) (inc_of c incs) = r_chunks rq \/
    exists x, In x (inc_of c incs) /\ o_done x = true /\ o_tag x <= r_serial rq.
Proof. exact counts_ok_spec. Qed.

(* utils/workers, the pool behind every sender thread (model/WorkersFifo.v: Enqueue / rendezvous of an unbuffered channel / refuse after
   quit / take / finish / exit / Drain / quit, all schedules): tasks are started in the order
   in which Enqueue accepted them, every accepted task is queued, started or drained exactly
   once, the channel stays within its capacity; with one worker (Start(1), what the seeder uses)
   tasks are executed in acceptance order.  This is what the seeder model's "one FIFO per
   sender" stands for; the two models are not composed in Coq. *)
Theorem C17_workers_safe : forall cap n ops,
  let s := wrun (w_init cap n) ops in
  Sublist (w_started s ++ w_tasks s) (w_accepted s) /\
  Permutation.Permutation (w_accepted s) (w_started s ++ w_tasks s ++ w_drained s) /\
  Permutation.Permutation (w_started s) (w_executed s ++ w_running s) /\
  (length (w_tasks s) <= cap)%nat.
Proof. exact workers_safe. Qed.

(* an unbuffered pool (MaxSenderTasks = 0) never holds a task in its channel: Enqueue is a
   rendezvous with an idle worker (label WHandoff), so no worker can exit and strand a task *)
Theorem C17_workers_unbuffered : forall n ops, w_tasks (wrun (w_init 0 n) ops) = [].
Proof. exact unbuffered_never_holds. Qed.

(* the seeder model's sender queue (running task first, queued tasks behind) IS a one-worker
   pool: an enqueue on the queue view is possible exactly when length q <= cap (the enabling
   condition of the seeder's REnq step with cap = MaxSenderTasks) and is a pool Enqueue or
   rendezvous; a delivery is the pool's Finish followed by the take of the next task *)
Theorem C17_sender_queue_is_pool_enqueue : forall s q t,
  shape s = pool_of q -> (length q <= w_cap s)%nat ->
  exists ops, (forall o, In o ops -> o = WEnqueue t \/ o = WHandoff t 0) /\
    shape (wrun s ops) = pool_of (q ++ [t]) /\
    w_accepted (wrun s ops) = w_accepted s ++ [t] /\ w_executed (wrun s ops) = w_executed s.
Proof. exact pool_enqueue. Qed.
Theorem C17_sender_queue_is_pool_blocked : forall s q t,
  shape s = pool_of q -> (w_cap s < length q)%nat ->
  wstep s (WEnqueue t) = None /\ forall i, wstep s (WHandoff t i) = None.
Proof. exact pool_enqueue_blocked. Qed.
Theorem C17_sender_queue_is_pool_deliver : forall s h r,
  shape s = pool_of (h :: r) ->
  exists ops, (forall o, In o ops -> o = WFinish 0 \/ o = WTake 0) /\
    shape (wrun s ops) = pool_of r /\ w_executed (wrun s ops) = w_executed s ++ [h].
Proof. exact pool_deliver. Qed.

Theorem C17_workers_one_fifo : forall cap ops,
  let s := wrun (w_init cap 1) ops in
  w_started s = w_executed s ++ w_running s /\ Sublist (w_executed s) (w_accepted s).
Proof. exact one_worker_fifo. Qed.

Example C17_workers_nontrivial :
  let s := wrun (w_init 2 1) [WEnqueue 1; WEnqueue 2; WTake 0; WEnqueue 3; WEnqueue 4; WFinish 0; WTake 0; WDrain; WQuit; WFinish 0; WExit 0; WTake 0] in
  w_executed s = [1; 2]%N /\ w_drained s = [3]%N /\ w_accepted s = [1; 2; 3]%N /\ w_workers s = [WGone].
Proof. vm_compute. auto. Qed.

(* non-vacuity: a sorted item list and a history in which a session is created, resumed and
   finished *)
Example C17_session_content_nonvacuous :
  sorted_keys w_db /\
  let tr := w_trace v_fixed [w_req 1 1; w_req 1 4] in
  In (ECreated 1 1 1 0 9 1) tr /\
  map it_key (items_of (sel 1 (sents tr))) = [0; 1; 2; 3; 4; 5] /\
  map rs_done (sel 1 (sents tr)) = [false; false; true].
Proof. split; [exact w_db_sorted|exact w_session_example]. Qed.

(* Lifetime (repaired code).  In every reachable state the per-peer session list is exactly the
   set of the peer's live sessions, without repetitions: its length is the number of sessions
   the peer holds. *)
Theorem C17_peer_sessions_exact : forall cfg db ops,
  sorted_keys db ->
  let st := fst (run v_fixed cfg db (init cfg) ops) in
  forall p, NoDup (ps_get p (st_peersess st)) /\
            forall sid, In sid (ps_get p (st_peersess st)) <-> sess_get (p, sid) (st_sessions st) <> None.
Proof. exact peer_sessions_exact. Qed.

(* A live session survives every step of every goroutine with its incarnation (hence, by
   C17_session_content, it continues where it left off), except: the reader processing the
   unregistration of its peer; the reader creating a NEW session of its peer while the peer
   holds three. *)
Theorem C17_session_resumable : forall cfg db ops,
  sorted_keys db ->
  let st := fst (run v_fixed cfg db (init cfg) ops) in
  forall o st' evs key ss,
    step v_fixed cfg db st o = Some (st', evs) ->
    sess_get key (st_sessions st) = Some ss ->
    (exists ss', sess_get key (st_sessions st') = Some ss' /\ s_inc ss' = s_inc ss /\
                 s_orig ss' = s_orig ss /\ s_stop ss' = s_stop ss) \/
    In (EUnreg (fst key)) evs \/
    (exists k sid a b c, In (ECreated k (fst key) sid a b c) evs /\ sid <> snd key /\
                         (3 <= length (ps_get (fst key) (st_peersess st)))%nat).
Proof. exact session_survives. Qed.

(* A request for a live session is served by that session (no session is created), or is a
   selector mismatch. *)
Theorem C17_resume_no_creation : forall cfg st rq ss,
  sess_get (r_peer rq, r_sid rq) (st_sessions st) = Some ss ->
  snd (reader_top v_fixed cfg st rq) = [] /\ s_orig ss = r_start rq /\
    st_reader (fst (reader_top v_fixed cfg st rq)) = RChunk rq 0 ss
  \/ snd (reader_top v_fixed cfg st rq) = [EMisb (r_peer rq) (r_serial rq)] /\ s_orig ss <> r_start rq.
Proof. exact resume_no_creation. Qed.

(* The lifetime rule that the executable specification applies to the implementation's logs
   (SeederSpec.life_step, folded by [lifetimes]: a request resumes the peer's live session with
   that id, is a mismatch when its selector differs, otherwise opens a new session and, when the
   peer already holds three, drops the OLDEST; an unregistration drops all) simulates the model:
   at every reachable state a rule state is related to the model state (per peer the same
   session ids in the same order with the same creators and selector starts), and the reader's
   processing of a request or an unregistration moves both in lockstep with the predicted
   outcome. *)
Theorem C17_lifetime_simulation : forall cfg db ops,
  sorted_keys db ->
  let st := fst (run v_fixed cfg db (init cfg) ops) in
  exists m, life_rel m st /\
    (forall rq, st_reader st = RTop rq ->
       let '(st', evs) := reader_top v_fixed cfg st rq in
       let '(m', e) := life_step (c_maxchunks cfg) m (SReq rq) in
       life_rel m' st' /\ outcome_agrees e rq st' evs) /\
    (forall p rest, st_reader st = RIdle -> st_chunreg st = p :: rest ->
       exists st' evs, step v_fixed cfg db st OReadUnreg = Some (st', evs) /\
                       life_rel (fst (life_step (c_maxchunks cfg) m (SUnreg p))) st').
Proof. exact lifetime_simulation. Qed.

(* Chunk counts (repaired code).  Whenever the reader is between two requests, every request
   that produced a response got exactly as many responses as chunks it asked for, or the done
   response of its session was produced by this request or an EARLIER one (requests are served
   in the order of their serials): "exactly one done response once enough chunks were
   requested", together with C17_session_content. *)
Theorem C17_requests_complete : forall cfg db ops,
  sorted_keys db ->
  let st := fst (run v_fixed cfg db (init cfg) ops) in
  let tr := snd (run v_fixed cfg db (init cfg) ops) in
  st_reader st = RIdle ->
  forall r, In r (enqs tr) ->
    count_serial (ser r) (enqs tr) = r_chunks (rs_req r)
    \/ exists r', In r' (enqs tr) /\ rs_inc r' = rs_inc r /\ rs_done r' = true /\ ser r' <= ser r.
Proof. exact requests_complete_strong. Qed.

(* In every reachable state no request, finished or not, has got more responses than the
   chunks it asked for. *)
Theorem C17_requests_never_exceed : forall cfg db ops,
  sorted_keys db ->
  let tr := snd (run v_fixed cfg db (init cfg) ops) in
  forall r, In r (enqs tr) -> count_serial (ser r) (enqs tr) <= r_chunks (rs_req r).
Proof. exact requests_never_exceed. Qed.

(* ... and while a request is being served it has produced i <= MaxChunks responses *)
Theorem C17_requests_bounded : forall cfg db ops,
  sorted_keys db ->
  let st := fst (run v_fixed cfg db (init cfg) ops) in
  let tr := snd (run v_fixed cfg db (init cfg) ops) in
  forall rq i ss, st_reader st = RChunk rq i ss ->
    count_serial (r_serial rq) (enqs tr) = i /\ i <= r_chunks rq.
Proof. exact requests_bounded. Qed.

(* Progress under fair scheduling, as a bounded-steps statement about the transition system.
   A round (SeederLiveness.round) schedules the reader's label once and every sender worker once;
   labels that are not enabled are skipped.  From every reachable state at most [measure st]
   rounds (an explicit bound: labels still to be executed) lead to quiescence - reader in select,
   both channels and all sender queues empty - and then every response the reader produced has
   been sent.  Hypotheses: at least one sender thread, a positive pending limit.  Fairness is the
   explicit assumption "every round runs every worker and the reader once"; that the Go
   scheduler provides it is not proved. *)
Theorem C17_liveness_bounded : forall v cfg db ops,
  1 <= c_threads cfg -> 0 < c_limit cfg ->
  let st := fst (run v cfg db (init cfg) ops) in
  let tr := snd (run v cfg db (init cfg) ops) in
  exists k, (k <= measure st)%nat /\
    let x := rounds k v cfg db (st, tr) in
    quiescent (fst x) /\ (exists e, snd x = tr ++ e) /\
    forall inc, sel inc (sents (snd x)) = sel inc (enqs (snd x)).
Proof. exact liveness_bounded. Qed.

(* The facts behind it, for EVERY schedule (the theorems of record for progress):
   (1) every enabled internal label - reader or sender worker, in any order - strictly lowers
       [measure]; (2) a reachable state that is not quiescent has an enabled internal label (no
       deadlock).  Hence every maximal schedule of internal labels, fair or not, ends in a
       quiescent state after at most [measure st] executed labels.  The environment assumption
       is visible in the model: ODeliver is enabled whenever a sender queue is non-empty, i.e.
       the peer's SendChunk callback returns. *)
Theorem C17_every_internal_step_decreases : forall v cfg db st o st' evs,
  internal o -> step v cfg db st o = Some (st', evs) -> (measure st' < measure st)%nat.
Proof. exact step_measure. Qed.

Theorem C17_no_deadlock : forall v cfg db ops,
  1 <= c_threads cfg -> 0 < c_limit cfg ->
  let st := fst (run v cfg db (init cfg) ops) in
  ~ quiescent st -> exists o, internal o /\ step v cfg db st o <> None.
Proof. exact no_deadlock. Qed.

Theorem C17_internal_schedules_terminate : forall v cfg db ops st,
  Forall internal ops -> (executed v cfg db st ops + measure (fst (run v cfg db st ops)) <= measure st)%nat.
Proof. exact internal_schedules_terminate. Qed.

(* in every reachable quiescent state every response ever produced - of live, pruned and
   unregistered sessions alike - has been sent *)
Theorem C17_every_response_is_sent : forall v cfg db ops,
  let st := fst (run v cfg db (init cfg) ops) in
  let tr := snd (run v cfg db (init cfg) ops) in
  quiescent st -> forall r, In r (enqs tr) -> In r (sents tr).
Proof. exact every_response_is_sent_reachable. Qed.

(* ... so the "exactly one done response" clause is not safety-only (stated for the sessions
   still in the table at quiescence; for pruned / unregistered sessions a done response that
   was produced is covered by C17_every_response_is_sent, and one that was never produced is
   not owed): under fair rounds the done
   response of every finished session is actually sent (and by C17_session_content it is the
   last response of its incarnation, after the whole range). *)
Theorem C17_done_response_is_sent : forall cfg db ops,
  sorted_keys db -> 1 <= c_threads cfg -> 0 < c_limit cfg ->
  let st := fst (run v_fixed cfg db (init cfg) ops) in
  let tr := snd (run v_fixed cfg db (init cfg) ops) in
  exists k, (k <= measure st)%nat /\
    let x := rounds k v_fixed cfg db (st, tr) in
    quiescent (fst x) /\
    forall key ss, sess_get key (st_sessions (fst x)) = Some ss -> s_done ss = true ->
      exists r, In r (sents (snd x)) /\ rs_inc r = s_inc ss /\ rs_done r = true.
Proof. exact done_response_is_sent. Qed.

(* C17_full of the earlier rounds (quiescence reachable from every reachable state) is the
   existential weakening of C17_liveness_bounded. *)
Definition C17_full : Prop :=
  forall cfg db ops, 1 <= c_threads cfg -> 0 < c_limit cfg ->
  exists k, quiescent (fst (rounds k v_fixed cfg db (run v_fixed cfg db (init cfg) ops))).
Theorem C17_full_holds : C17_full.
Proof.
  intros cfg db ops H1 H2. destruct (liveness_bounded v_fixed cfg db ops H1 H2) as [k [_ [Hq _]]].
  exists k. destruct (run v_fixed cfg db (init cfg) ops). exact Hq.
Qed.

(* the hypotheses are satisfiable and the bound is not trivial *)
Example C17_liveness_nonvacuous :
  let st := fst (run v_fixed w_cfg w_db (init w_cfg)
                     [ORequest (mkReq 1 1 0 9 3 100 2 0); OReadReq; OReader; OReader]) in
  ~ quiescent st /\ measure st = 12%nat /\
  quiescent (fst (rounds 8 v_fixed w_cfg w_db (st, []))).
Proof. vm_compute. split; [intros [H _]; discriminate|]. split; [reflexivity|]. repeat split. Qed.

Print Assumptions C17_limits.
Print Assumptions C17_session_content.
Print Assumptions C17_spec_prefix_decides.
Print Assumptions C17_spec_equal_decides.
Print Assumptions C17_sent_in_request_order.
Print Assumptions C17_spec_tags_sorted_decides.
Print Assumptions C17_spec_done_only_last_decides.
Print Assumptions C17_spec_counts_decides.
Print Assumptions C17_workers_safe.
Print Assumptions C17_workers_one_fifo.
Print Assumptions C17_peer_sessions_exact.
Print Assumptions C17_session_resumable.
Print Assumptions C17_resume_no_creation.
Print Assumptions C17_lifetime_simulation.
Print Assumptions C17_requests_complete.
Print Assumptions C17_requests_bounded.
Print Assumptions C17_requests_never_exceed.
Print Assumptions C17_liveness_bounded.
Print Assumptions C17_every_internal_step_decreases.
Print Assumptions C17_no_deadlock.
Print Assumptions C17_internal_schedules_terminate.
Print Assumptions C17_every_response_is_sent.
Print Assumptions C17_workers_unbuffered.
Print Assumptions C17_sender_queue_is_pool_enqueue.
Print Assumptions C17_sender_queue_is_pool_blocked.
Print Assumptions C17_sender_queue_is_pool_deliver.
Print Assumptions C17_done_response_is_sent.
Print Assumptions C17_full_holds.
Print Assumptions C17_pending_bound.
Print Assumptions C17_fifo.
