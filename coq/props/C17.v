(* C17 — Stream seeder serves each session in order, once, within limits.
   Only theorem statements closed by [exact <lemma>], non-vacuity examples, Print Assumptions.
   Model: model/Seeder.v (labelled transition system of the reader loop, the sender workers and
   the API calls; all schedules = all label sequences; repaired code, fixes/C17.patch).
   Specification: spec/SeederSpec.v. *)
From Coq Require Import NArith List Bool.
From LV Require Import model.Seeder spec.SeederSpec proofs.SeederProofs proofs.SeederQueues.
Import ListNotations.
Local Open Scope N_scope.

(* Limits: for every configuration, item list, schedule and code variant, every response handed
   to SendChunk exceeds neither the item-count nor the size limit of the request it serves by
   more than its last item. *)
Theorem C17_limits : forall v cfg db ops r,
  In (ESent r) (snd (run v cfg db (init cfg) ops)) ->
  limits_ok (r_num (rs_req r)) (r_size (rs_req r)) (rs_items r) = true.
Proof. exact sent_limits. Qed.

(* Pending memory: in every reachable state (every schedule, both code variants) the counter
   equals the memory of the responses enqueued and not yet sent, and exceeds the configured
   limit by less than the memory of one of those responses. *)
Theorem C17_pending_bound : forall v cfg db ops,
  let st := fst (run v cfg db (init cfg) ops) in
  st_pending st = mem_sum cfg (concat (st_senders st)) /\
  (st_pending st = 0 \/
   exists r, In r (concat (st_senders st)) /\ st_pending st < c_limit cfg + resp_mem cfg r).
Proof. exact pending_bounded. Qed.

(* Per-incarnation FIFO: whatever the sender workers' schedule, the responses of an incarnation
   that have been sent are an initial segment of those the reader produced, in that order. *)
Theorem C17_fifo : forall v cfg db ops k,
  let tr := snd (run v cfg db (init cfg) ops) in
  exists rest, sel k (enqs tr) = sel k (sents tr) ++ rest.
Proof. exact fifo_per_incarnation. Qed.

Print Assumptions C17_limits.
Print Assumptions C17_pending_bound.
Print Assumptions C17_fifo.
