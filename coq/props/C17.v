(* C17 — Stream seeder serves each session in order, once, within limits.
   Only theorem statements closed by [exact <lemma>], non-vacuity examples, Print Assumptions.
   Model: model/Seeder.v (labelled transition system of the reader loop, the sender workers and
   the API calls; all schedules = all label sequences; repaired code, fixes/C17.patch).
   Specification: spec/SeederSpec.v. *)
From Coq Require Import NArith List Bool.
From LV Require Import model.Seeder spec.SeederSpec proofs.SeederProofs proofs.SeederQueues proofs.SeederSessions.
Import ListNotations.
Local Open Scope N_scope.

(* Limits: for every configuration, item list, schedule and code variant, every response handed
   to SendChunk exceeds neither the item-count nor the size limit of the request it serves by
   more than its last item. *)
Theorem C17_limits : forall v cfg db ops r,
  In (ESent r) (snd (run v cfg db (init cfg) ops)) ->
  limits_ok (r_num (rs_req r)) (r_size (rs_req r)) (rs_items r) = true.
Proof. exact sent_limits. Qed.

(* Pending memory: in every reachable state (every schedule, both code variants) the counter
   equals the memory of the responses enqueued and not yet sent, and exceeds the configured
   limit by less than the memory of one of those responses. *)
Theorem C17_pending_bound : forall v cfg db ops,
  let st := fst (run v cfg db (init cfg) ops) in
  st_pending st = mem_sum cfg (concat (st_senders st)) /\
  (st_pending st = 0 \/
   exists r, In r (concat (st_senders st)) /\ st_pending st < c_limit cfg + resp_mem cfg r).
Proof. exact pending_bounded. Qed.

(* Per-incarnation FIFO: whatever the sender workers' schedule, the responses of an incarnation
   that have been sent are an initial segment of those the reader produced, in that order. *)
Theorem C17_fifo : forall v cfg db ops k,
  let tr := snd (run v cfg db (init cfg) ops) in
  exists rest, sel k (enqs tr) = sel k (sents tr) ++ rest.
Proof. exact fifo_per_incarnation. Qed.

(* Content, order, completeness of the done flag (repaired code).  For every key-sorted item
   list, every configuration and every schedule: for every session incarnation created (by a
   request of peer p for session sid with selector [a, b)) the items sent so far, concatenated
   in sending order, are an initial segment of the items with a <= key < b in key order (in
   order, without gaps, without repeats); every response carries sid; a response marked done is
   the last of the incarnation (nothing is sent after it) and then the whole range was sent. *)
Theorem C17_session_content : forall cfg db ops,
  sorted_keys db ->
  let tr := snd (run v_fixed cfg db (init cfg) ops) in
  forall k p sid a b c, In (ECreated k p sid a b c) tr ->
    let sent := sel k (sents tr) in
    (exists rest, items_of sent ++ rest = range_items db a b) /\
    owned p sid sent /\
    (forall l1 r l2, sent = l1 ++ r :: l2 -> rs_done r = true ->
       l2 = [] /\ items_of sent = range_items db a b).
Proof. exact session_content. Qed.

(* non-vacuity: a sorted item list and a history in which a session is created, resumed and
   finished *)
Example C17_session_content_nonvacuous :
  sorted_keys w_db /\
  let tr := w_trace v_fixed [w_req 1 1; w_req 1 4] in
  In (ECreated 1 1 1 0 9 1) tr /\
  map it_key (items_of (sel 1 (sents tr))) = [0; 1; 2; 3; 4; 5] /\
  map rs_done (sel 1 (sents tr)) = [false; false; true].
Proof. split; [exact w_db_sorted|exact w_session_example]. Qed.

Print Assumptions C17_limits.
Print Assumptions C17_session_content.
Print Assumptions C17_pending_bound.
Print Assumptions C17_fifo.
