(* C17 — Stream seeder serves each session in order, once, within limits.
   Only theorem statements closed by [exact <lemma>], non-vacuity examples, Print Assumptions.
   Model: model/Seeder.v (labelled transition system of the reader loop, the sender workers and
   the API calls; all schedules = all label sequences; repaired code, fixes/C17.patch).
   Specification: spec/SeederSpec.v. *)
From Coq Require Import NArith List Bool.
From LV Require Import model.Seeder spec.SeederSpec proofs.SeederProofs.
Import ListNotations.
Local Open Scope N_scope.

(* Limits: for every configuration, item list, schedule and code variant, every response handed
   to SendChunk exceeds neither the item-count nor the size limit of the request it serves by
   more than its last item. *)
Theorem C17_limits : forall v cfg db ops r,
  In (ESent r) (snd (run v cfg db (init cfg) ops)) ->
  limits_ok (r_num (rs_req r)) (r_size (rs_req r)) (rs_items r) = true.
Proof. exact sent_limits. Qed.

Print Assumptions C17_limits.
