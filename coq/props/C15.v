(* C15 — Event processor releases every event and balances its semaphore.
   Model: model/Processor.v, a step machine over SEnq / SArrive / SConsume / SStop (every
   interleaving of Enqueue callers, `checked` closures and the single inserter worker is a
   sequence of these steps), on top of the C14 buffer model.  [phist h0 steps] = all application
   callbacks of the run, oldest first.  fc/fp: arbitrary CheckParents / Process failure oracles. *)
From Coq Require Import NArith List.
From LV Require Import model.Buffer model.Processor model.ProcessorOuter spec.ProcessorSpec
  proofs.ProcessorFrame proofs.ProcessorOrder proofs.ProcessorSem proofs.ProcessorRun
  proofs.ProcessorDone proofs.ProcessorFar proofs.ProcessorMore proofs.ProcessorOuter.
Import ListNotations.
Local Open Scope N_scope.

(* the amount held in the events semaphore never exceeds its capacity: all step sequences *)
Theorem C15_sem_within_capacity : forall fc fp cap_n cap_s lim_n lim_s h0 steps,
  held_n (prun fc fp cap_n cap_s lim_n lim_s h0 steps) <= cap_n /\
  held_s (prun fc fp cap_n cap_s lim_n lim_s h0 steps) <= cap_s.
Proof. exact held_le_cap. Qed.

(* events of an ordered batch reach `process` (hence the ordering buffer) in batch order, for
   every arrival permutation of the check results and every interleaving.  Hypothesis: the
   script is well formed — different Enqueue calls carry different event copies. *)
Theorem C15_ordered_in_order : forall fc fp cap_n cap_s lim_n lim_s h0 steps b,
  NoDup (all_g steps) -> In (SEnq b) steps -> b_ordered b = true ->
  exists k, handles_of (phist fc fp cap_n cap_s lim_n lim_s h0 steps) b = firstn k (gs b).
Proof. exact ordered_in_order. Qed.

(* no event copy is reported released twice, and only events of accepted batches are *)
Theorem C15_released_at_most_once : forall fc fp cap_n cap_s lim_n lim_s h0 steps,
  NoDup (all_g steps) ->
  NoDup (relg (phist fc fp cap_n cap_s lim_n lim_s h0 steps))
  /\ incl (relg (phist fc fp cap_n cap_s lim_n lim_s h0 steps))
          (pgs (prun fc fp cap_n cap_s lim_n lim_s h0 steps)).
Proof. exact released_at_most_once. Qed.

(* the semaphore's warning callback never fires; what it holds = metric of accepted events minus
   metric of released events (count and bytes) *)
Theorem C15_sem_balanced : forall fc fp cap_n cap_s lim_n lim_s h0 steps,
  NoDup (all_g steps) ->
  let s := prun fc fp cap_n cap_s lim_n lim_s h0 steps in
  warned s = false
  /\ held_n s + N.of_nat (length (relg (plog s))) = N.of_nat (length (tab s))
  /\ held_s s + wsum (size_of_g s) (relg (plog s)) = wsum (size_of_g s) (pgs s).
Proof. exact sem_balanced. Qed.

(* once stopped, every event that entered process() — processed, rejected, dropped as too far
   ahead, spilled, duplicate, or still buffered at Stop — has been released exactly once *)
Theorem C15_released_exactly_once_after_stop : forall fc fp cap_n cap_s lim_n lim_s h0 steps,
  NoDup (all_g steps) ->
  let s := prun fc fp cap_n cap_s lim_n lim_s h0 steps in
  stopped s = true -> forall g, In g (Hd s) -> count_occ N.eq_dec (relg (plog s)) g = 1%nat.
Proof. exact handled_released_after_stop. Qed.

(* ... and the semaphore returns to zero when every accepted event was handled *)
Theorem C15_sem_zero_after_stop : forall fc fp cap_n cap_s lim_n lim_s h0 steps,
  NoDup (all_g steps) ->
  let s := prun fc fp cap_n cap_s lim_n lim_s h0 steps in
  stopped s = true -> incl (pgs s) (Hd s) -> held_n s = 0 /\ held_s s = 0.
Proof. exact sem_zero_after_stop. Qed.

(* every event of every batch that finished handling (its done() ran before Stop) has been
   released exactly once by the time the processor is stopped, whatever its fate.
   Extra hypothesis: batch ids are distinct (done() is identified by the batch id in the log). *)
Theorem C15_finished_batch_released_once : forall fc fp cap_n cap_s lim_n lim_s h0 steps b,
  NoDup (all_g steps) -> NoDup (map b_id (enq steps)) ->
  let s := prun fc fp cap_n cap_s lim_n lim_s h0 steps in
  In (SEnq b) steps -> In (PDone (b_id b)) (plog s) -> stopped s = true ->
  forall g, In g (gs b) -> count_occ N.eq_dec (relg (plog s)) g = 1%nat.
Proof. exact finished_batch_released_once. Qed.

(* far-future rule: an event copy is handed to Process only if, when it entered process(), its
   Lamport time was at most (highest Lamport time known then) + 1 + limit.Num — so an event more
   than that ahead is never processed.  hl_of recomputes "highest known" from the history prefix:
   the initial value and the Lamport times of the events processed successfully so far. *)
Theorem C15_far_future : forall fc fp cap_n cap_s lim_n lim_s h0 steps,
  NoDup (all_g steps) ->
  let s := prun fc fp cap_n cap_s lim_n lim_s h0 steps in
  forall pre g e ok post,
    phist fc fp cap_n cap_s lim_n lim_s h0 steps = pre ++ PProcess g e ok :: post ->
    exists pre1 pre2, pre = pre1 ++ PHandle g :: pre2
                      /\ lam (tab s) g <= hl_of h0 (tab s) pre1 + 1 + lim_n.
Proof. exact far_future. Qed.

(* the semaphore is back to zero as soon as every accepted event has been released (no Stop needed) *)
Theorem C15_sem_zero_when_all_released : forall fc fp cap_n cap_s lim_n lim_s h0 steps,
  NoDup (all_g steps) ->
  let s := prun fc fp cap_n cap_s lim_n lim_s h0 steps in
  incl (pgs s) (relg (plog s)) -> held_n s = 0 /\ held_s s = 0.
Proof. exact sem_zero_when_all_released. Qed.

(* an ordered batch that is done was handled completely, in batch order *)
Theorem C15_ordered_done_complete : forall fc fp cap_n cap_s lim_n lim_s h0 steps b,
  NoDup (all_g steps) -> NoDup (map b_id (enq steps)) ->
  In (SEnq b) steps -> b_ordered b = true ->
  In (PDone (b_id b)) (plog (prun fc fp cap_n cap_s lim_n lim_s h0 steps)) ->
  handles_of (phist fc fp cap_n cap_s lim_n lim_s h0 steps) b = gs b.
Proof. exact ordered_done_complete. Qed.

(* the fuel given to the reassembly loop (1 + batch length) always suffices: the explicit
   out-of-fuel flag is never set *)
Theorem C15_flush_fuel_suffices : forall fc fp cap_n cap_s lim_n lim_s h0 steps,
  poof (prun fc fp cap_n cap_s lim_n lim_s h0 steps) = false.
Proof. exact flush_fuel_suffices. Qed.

(* ---- Enqueue as two steps (model/ProcessorOuter.v): Acquire, then queueing, which may be refused
   with errTerminated once Stop() has begun.  [fixedq = true] is the repaired code. *)
(* the core of every outer run is a core run, so all theorems above apply to it *)
Theorem C15_outer_core_is_a_run : forall fc fp cap_n cap_s lim_n lim_s fixedq h0 osteps,
  ocore (orun fc fp cap_n cap_s lim_n lim_s fixedq h0 osteps)
  = prun fc fp cap_n cap_s lim_n lim_s h0 (rev (otrace (orun fc fp cap_n cap_s lim_n lim_s fixedq h0 osteps))).
Proof. exact core_is_a_run. Qed.
(* the real semaphore value (core + pending between the two halves + stuck + leaked) never exceeds
   the capacity — in both versions *)
Theorem C15_outer_sem_within_capacity : forall fc fp cap_n cap_s lim_n lim_s fixedq h0 osteps,
  osem_n (orun fc fp cap_n cap_s lim_n lim_s fixedq h0 osteps) <= cap_n /\
  osem_s (orun fc fp cap_n cap_s lim_n lim_s fixedq h0 osteps) <= cap_s.
Proof. exact outer_sem_within_capacity. Qed.
(* a successful queueing is really accepted by the core (its own capacity test cannot fail) *)
Theorem C15_outer_queue_accepts : forall fc fp cap_n cap_s lim_n lim_s fixedq h0 osteps id b pd,
  let o := orun fc fp cap_n cap_s lim_n lim_s fixedq h0 osteps in
  take_pend id (opend o) = Some (b, pd) -> stopped (ocore o) = false -> quitf (ocore o) = false ->
  held_n (ocore (ostep_run fc fp cap_n cap_s lim_n lim_s fixedq o (OQueue id))) = held_n (ocore o) + batch_num b
  /\ osem_n (ostep_run fc fp cap_n cap_s lim_n lim_s fixedq o (OQueue id)) = osem_n o
  /\ osem_s (ostep_run fc fp cap_n cap_s lim_n lim_s fixedq o (OQueue id)) = osem_s o.
Proof. exact queue_accepts. Qed.
(* repaired code: with no batch between the two halves of Enqueue and none stuck behind a finished
   Stop, the semaphore is zero once every accepted event is released — also when Enqueue calls
   raced Stop and were refused *)
Theorem C15_outer_sem_zero_when_all_released : forall fc fp cap_n cap_s lim_n lim_s h0 osteps,
  let o := orun fc fp cap_n cap_s lim_n lim_s true h0 osteps in
  NoDup (all_g (rev (otrace o))) -> opend o = [] -> ostuck_n o = 0 -> ostuck_s o = 0 ->
  incl (pgs (ocore o)) (relg (plog (ocore o))) -> osem_n o = 0 /\ osem_s o = 0.
Proof. exact outer_sem_zero_when_all_released. Qed.

(* non-vacuity: an ordered batch of three events whose check results arrive as 2,0,1 while a
   second batch is enqueued in between; the events are handled as 0,1,2 *)
Definition c15_b1 : batch :=
  mkBatch 1 true [mkPev 0 1 [] 2 1 false; mkPev 1 2 [1] 3 2 false; mkPev 2 3 [2] 4 3 true].
Definition c15_b2 : batch := mkBatch 2 false [mkPev 3 4 [3] 1 4 false].
Definition c15_steps : list pstep :=
  [SEnq c15_b1; SArrive 1 2; SConsume; SEnq c15_b2; SArrive 2 0; SArrive 1 0; SConsume; SArrive 1 1;
   SConsume; SConsume; SConsume; SConsume; SStop].
Example C15_nonvacuous :
  NoDup (all_g c15_steps) /\
  phist (tbl_check []) (tbl_process []) 10 100 5 100 0 c15_steps =
  [ PAccepted 1; PAccepted 2;
    PHighest; PHandle 0; PCheck 0 1 true; PProcess 0 1 true; PReleased 0 1 0;
    PHighest; PHandle 1; PCheck 1 2 true; PProcess 1 2 true; PReleased 1 2 0;
    PHandle 2; PReleased 2 3 6; PDone 1;
    PHighest; PHandle 3; PDone 2;
    PReleased 3 4 4; PStopped ]
  /\ held_n (prun (tbl_check []) (tbl_process []) 10 100 5 100 0 c15_steps) = 0
  /\ stopped (prun (tbl_check []) (tbl_process []) 10 100 5 100 0 c15_steps) = true
  /\ Hd (prun (tbl_check []) (tbl_process []) 10 100 5 100 0 c15_steps) = [3; 2; 1; 0].
Proof.
  split; [|split; [|split; [|split]]].
  - vm_compute. repeat (constructor; [simpl; intuition discriminate|]). constructor.
  - vm_compute. reflexivity.
  - vm_compute. reflexivity.
  - vm_compute. reflexivity.
  - vm_compute. reflexivity.
Qed.

Print Assumptions C15_sem_within_capacity.
Print Assumptions C15_ordered_in_order.
Print Assumptions C15_released_at_most_once.
Print Assumptions C15_sem_balanced.
Print Assumptions C15_released_exactly_once_after_stop.
Print Assumptions C15_sem_zero_after_stop.
Print Assumptions C15_finished_batch_released_once.
Print Assumptions C15_far_future.
Print Assumptions C15_sem_zero_when_all_released.
Print Assumptions C15_ordered_done_complete.
Print Assumptions C15_flush_fuel_suffices.
Print Assumptions C15_outer_core_is_a_run.
Print Assumptions C15_outer_sem_within_capacity.
Print Assumptions C15_outer_queue_accepts.
Print Assumptions C15_outer_sem_zero_when_all_released.
