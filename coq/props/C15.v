From LV Require Import model.Processor spec.ProcessorSpec.
