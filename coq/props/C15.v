(* C15 — Event processor releases every event and balances its semaphore.
   Model: model/Processor.v, a step machine over SEnq / SArrive / SConsume / SStop (every
   interleaving of Enqueue callers, `checked` closures and the single inserter worker is a
   sequence of these steps), on top of the C14 buffer model.  [phist h0 steps] = all application
   callbacks of the run, oldest first.  fc/fp: arbitrary CheckParents / Process failure oracles. *)
From Coq Require Import NArith List.
From LV Require Import model.Buffer model.Processor spec.ProcessorSpec
  proofs.ProcessorFrame proofs.ProcessorOrder.
Import ListNotations.
Local Open Scope N_scope.

(* the amount held in the events semaphore never exceeds its capacity: all step sequences *)
Theorem C15_sem_within_capacity : forall fc fp cap_n cap_s lim_n lim_s h0 steps,
  held_n (prun fc fp cap_n cap_s lim_n lim_s h0 steps) <= cap_n /\
  held_s (prun fc fp cap_n cap_s lim_n lim_s h0 steps) <= cap_s.
Proof. exact held_le_cap. Qed.

(* events of an ordered batch reach `process` (hence the ordering buffer) in batch order, for
   every arrival permutation of the check results and every interleaving.  Hypothesis: the
   script is well formed — different Enqueue calls carry different event copies. *)
Theorem C15_ordered_in_order : forall fc fp cap_n cap_s lim_n lim_s h0 steps b,
  NoDup (all_g steps) -> In (SEnq b) steps -> b_ordered b = true ->
  exists k, handles_of (phist fc fp cap_n cap_s lim_n lim_s h0 steps) b = firstn k (gs b).
Proof. exact ordered_in_order. Qed.

(* non-vacuity: an ordered batch of three events whose check results arrive as 2,0,1 while a
   second batch is enqueued in between; the events are handled as 0,1,2 *)
Definition c15_b1 : batch :=
  mkBatch 1 true [mkPev 0 1 [] 2 1 false; mkPev 1 2 [1] 3 2 false; mkPev 2 3 [2] 4 3 true].
Definition c15_b2 : batch := mkBatch 2 false [mkPev 3 4 [3] 1 4 false].
Definition c15_steps : list pstep :=
  [SEnq c15_b1; SArrive 1 2; SConsume; SEnq c15_b2; SArrive 2 0; SArrive 1 0; SConsume; SArrive 1 1;
   SConsume; SConsume; SConsume; SConsume; SStop].
Example C15_nonvacuous :
  NoDup (all_g c15_steps) /\
  phist (tbl_check []) (tbl_process []) 10 100 5 100 0 c15_steps =
  [ PAccepted 1; PAccepted 2;
    PHighest; PHandle 0; PCheck 0 1 true; PProcess 0 1 true; PReleased 0 1 0;
    PHighest; PHandle 1; PCheck 1 2 true; PProcess 1 2 true; PReleased 1 2 0;
    PHandle 2; PReleased 2 3 6; PDone 1;
    PHighest; PHandle 3; PDone 2;
    PReleased 3 4 4; PStopped ]
  /\ held_n (prun (tbl_check []) (tbl_process []) 10 100 5 100 0 c15_steps) = 0.
Proof.
  split; [|split].
  - vm_compute. repeat (constructor; [simpl; intuition discriminate|]). constructor.
  - vm_compute. reflexivity.
  - vm_compute. reflexivity.
Qed.

Print Assumptions C15_sem_within_capacity.
Print Assumptions C15_ordered_in_order.
