(* C33 — Root registry returns exactly the registered roots.
   Only theorem statements, each closed by [exact <lemma>], Examples, Print Assumptions.
   Model: model/Roots.v (roots table with 40-byte big-endian keys + the LRU cache of
   model/Wlru.v, weight = slice length); specification: spec/RootsSpec.v ([registered]: computed
   from the history alone).  [init num frames] is the store after NewStore/ApplyGenesis/Bootstrap
   with StoreCacheConfig{RootsNum = num, RootsFrames = frames}; the statements quantify over
   ALL num : N and frames : Z for which the store can be built (frames >= 0), i.e. every
   cache configuration incl. 0 and 1.  [wf_op]: validator ids are uint32, ids 32 bytes, queried frames
   are uint32, and AddRoot's spf and frame are < 2^32-1 (at MaxUint32 the Go loop counter wraps: the call
   does not terminate / registers the wrong range; excluded, not modelled).  Histories may contain
   restarts (RRestart: a new Store with a fresh cache over the same databases, bootstrapped). *)
From Coq Require Import NArith ZArith List Bool.
From LV Require Import model.Codec proofs.CodecProofs model.Wlru model.Roots spec.RootsSpec proofs.RootsProofs.
Import ListNotations.
Local Open Scope N_scope.

(* after any history, a query returns (as a set) exactly the roots registered for that frame in
   the current epoch, and the store's crit() is never called *)
Theorem C33_get_frame_roots_exact :
  forall num frames st0 ops f st' rr cr,
  init num frames = Some st0 -> Forall wf_op ops -> f < pow256 4 ->
  get_frame_roots f (fst (rrun st0 ops)) = (st', rr, cr) ->
  cr = false /\ forall r, In r rr <-> In r (registered ops f).
Proof. exact roots_exact. Qed.

(* the same for every query inside a history (earlier queries, evictions and re-reads included) *)
Theorem C33_every_query_in_every_history :
  forall num frames st0 pre f post,
  init num frames = Some st0 -> Forall wf_op (pre ++ RGet f :: post) ->
  exists rr, nth_error (snd (rrun st0 (pre ++ RGet f :: post))) (length pre) = Some (Some (rr, false)) /\
             forall r, In r rr <-> In r (registered pre f).
Proof. exact roots_exact_in_trace. Qed.

(* each root is returned with the frame and creator it was registered under *)
Theorem C33_roots_carry_frame_and_creator :
  forall num frames st0 ops f st' rr cr,
  init num frames = Some st0 -> Forall wf_op ops -> f < pow256 4 ->
  get_frame_roots f (fst (rrun st0 ops)) = (st', rr, cr) ->
  forall r, In r rr -> r_frame r = f /\
    exists spf frame creator id, In (RAdd spf frame creator id) ops /\
      r = mkRoot f creator id /\ spf < f /\ f <= frame.
Proof. exact roots_carry_slot. Qed.

(* which roots are registered, said without the model's frame enumeration: (f, creator, id) is
   registered for f iff an AddRoot(spf, event{frame, creator, id}) of the current epoch (after the
   last epoch switch) has spf < f <= frame *)
Theorem C33_registered_frames :
  forall ops f creator id,
  In (mkRoot f creator id) (registered ops f) <->
  exists spf frame, In (RAdd spf frame creator id) (current_epoch ops) /\ spf < f /\ f <= frame.
Proof. exact registered_frames. Qed.

(* a new epoch starts with no roots *)
Theorem C33_new_epoch_starts_empty :
  forall num frames st0 ops f st' rr cr,
  init num frames = Some st0 -> Forall wf_op ops -> f < pow256 4 ->
  get_frame_roots f (fst (rrun st0 (ops ++ [RReset]))) = (st', rr, cr) ->
  rr = [] /\ cr = false.
Proof. exact new_epoch_empty. Qed.

(* the driver's executable comparison is set equality *)
Theorem C33_same_set_is_set_equality :
  forall a b, same_set a b = true <-> forall r, In r a <-> In r b.
Proof. exact same_set_spec. Qed.

(* the key codec the table relies on (instances of C32's lemmas) *)
Theorem C33_key_roundtrip_and_prefix :
  forall r, wf_root r -> decode_key (root_key r) = r /\ length (root_key r) = 40%nat /\
  forall f, f < pow256 4 -> (LV.lib.Bytes.has_prefix (be 4 f) (root_key r) = true <-> r_frame r = f).
Proof. intros r H; split; [exact (decode_root_key r H) | split; [exact (root_key_length r H) | intros f Hf; exact (root_key_prefix f r Hf H)]]. Qed.

(* non-vacuity: cache of weight 1 / 1 frame; a fork in one slot, a duplicate registration, a
   root spanning frames 2..3, queries that hit, miss and evict; then an epoch switch *)
Definition ex_id (b : N) : list N := repeat b 32.
Definition ex_ops : list rop :=
  [RAdd 0 1 1 (ex_id 1); RAdd 0 1 1 (ex_id 255); RGet 1; RAdd 0 1 1 (ex_id 1); RGet 1;
   RAdd 1 3 2 (ex_id 7); RGet 2; RGet 3; RGet 1; RRestart; RGet 1; RGet 3].
Example C33_ex_history :
  exists st0, init 1 1%Z = Some st0 /\ Forall wf_op ex_ops /\
  map (option_map (fun p => map (fun r => (r_frame r, r_val r, hd 0 (r_id r))) (fst p))) (snd (rrun st0 ex_ops)) =
  [None; None; Some [(1, 1, 1); (1, 1, 255)]; None; Some [(1, 1, 1); (1, 1, 255)];
   None; Some [(2, 2, 7)]; Some [(3, 2, 7)]; Some [(1, 1, 1); (1, 1, 255)]; None;
   Some [(1, 1, 1); (1, 1, 255)]; Some [(3, 2, 7)]] /\
  map (fun r => (r_frame r, r_val r, hd 0 (r_id r))) (registered ex_ops 1) = [(1, 1, 1); (1, 1, 255); (1, 1, 1)].
Proof.
  eexists. split; [reflexivity|]. split; [|split; vm_compute; reflexivity].
  repeat constructor; vm_compute; reflexivity.
Qed.

Example C33_ex_configs : (exists s, init 0 0%Z = Some s) /\ (exists s, init 50 5%Z = Some s) /\ init 5 (-1)%Z = None.
Proof. split; [eexists; reflexivity | split; [eexists; reflexivity | reflexivity]]. Qed.

Print Assumptions C33_get_frame_roots_exact.
Print Assumptions C33_every_query_in_every_history.
Print Assumptions C33_roots_carry_frame_and_creator.
Print Assumptions C33_registered_frames.
Print Assumptions C33_new_epoch_starts_empty.
Print Assumptions C33_same_set_is_set_equality.
Print Assumptions C33_key_roundtrip_and_prefix.
