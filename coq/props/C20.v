(* C20 — Quorum indexer medians and metrics follow their definition.
   Only theorem statements, each closed by [exact <lemma>], non-vacuity examples, Print Assumptions. *)
From Coq Require Import NArith List Permutation.
From LV Require Import model.VecIndex model.QuorumIdx spec.QuorumSpec spec.FcSpec proofs.FcSpecFast proofs.QuorumProofs proofs.FcSpecFacts proofs.VecMain proofs.QuorumGraph.
Import ListNotations.
Local Open Scope N_scope.

(* the table-driven merged clock used by the check driver is the graph specification *)
Theorem C20_spec_t_is_spec : forall n E a, merged_spec_t n E (anc_table E) a = merged_spec n E a.
Proof. exact merged_spec_t_eq. Qed.

(* wmedian.Of over a descending list: never panics when 0 < stop <= total weight, and returns the
   largest s such that the weight of the entries >= s reaches stop *)
Theorem C20_wmedian_of_descending : forall l q, desc l -> 0 < q -> q <= wtotal l ->
  exists p, wmedian_of l q = Some p /\ In p l /\ is_qmedian l q (fst p).
Proof. exact wmedian_of_desc. Qed.

(* sort.Slice is unstable: every descending arrangement of the row gives the model's median *)
Theorem C20_median_independent_of_tie_order : forall ws q row l, 0 < q -> q <= wtotal (combine row ws) ->
  Permutation l (combine row ws) -> desc l ->
  exists p, wmedian_of l q = Some p /\ row_median ws q row = Some (fst p).
Proof. exact row_median_any_sort. Qed.

(* one row of recacheState: the median is the property's quorum median and equals the executable spec *)
Theorem C20_row_median : forall ws row, length row = length ws -> 0 < total_weight ws ->
  row_median ws (quorum_of ws) row = Some (median_spec ws (quorum_of ws) row) /\
  is_quorum_median ws (quorum_of ws) row (median_spec ws (quorum_of ws) row).
Proof. exact row_median_is_spec. Qed.

(* all histories of ProcessEvent / GetGlobalMedianSeqs / GetMetricOf (any self flags, any clocks,
   any diff function): no panic; the matrix holds, per observer, its latest processed observation;
   medians are the quorum medians of the rows (dirty-flag caching is coherent); the metric is the
   64-bit wrapped sum of diff(median, own latest observation, candidate's observation). *)
Theorem C20_matrix : forall diff ws n h, length ws = n -> 0 < total_weight ws -> creators_ok n h ->
  exists st, qrun diff ws (quorum_of ws) n h = Some st /\
    qmat st = map (obs_row n (rev h)) (List.seq 0 n) /\ qself st = last_self n (rev h).
Proof. exact matrix_after_history. Qed.
Theorem C20_medians : forall diff ws n h, length ws = n -> 0 < total_weight ws -> creators_ok n h ->
  exists st meds st', qrun diff ws (quorum_of ws) n h = Some st /\
    qi_medians ws (quorum_of ws) st = Some (meds, st') /\ length meds = n /\
    forall v, (v < n)%nat ->
      is_quorum_median ws (quorum_of ws) (obs_row n (rev h) v) (nth v meds 0) /\
      nth v meds 0 = median_spec ws (quorum_of ws) (obs_row n (rev h) v).
Proof. exact medians_after_history. Qed.
Theorem C20_metric : forall diff ws n h clock, length ws = n -> 0 < total_weight ws -> creators_ok n h ->
  exists st m st', qrun diff ws (quorum_of ws) n h = Some st /\
    qi_metric diff ws (quorum_of ws) st clock = Some (m, st') /\
    m = metric_spec diff (spec_medians ws n (rev h)) (last_self n (rev h)) (obs_clock n clock) n.
Proof. exact metric_after_history. Qed.
Theorem C20_metric_wraps : forall diff med self clock n,
  metric_sum diff med self clock n =
  metric_spec diff med self (map (fun v => seq_of (hb_get clock v)) (List.seq 0 n)) n.
Proof. exact metric_sum_is_spec. Qed.

(* the observation read from the real vector index (ProcessEvent / GetMetricOf call
   GetMergedHighestBefore) is the graph's: fork -> 2^31-2, else the highest seq of the validator
   among the event's ancestors-or-self (C06) *)
Theorem C20_observation_from_graph : forall n o a, wf_stream n o -> indexed o a ->
  obs_clock n (merged (index_all n o) a) = map obs_of_spec (merged_spec n (dag_of o) a).
Proof. exact obs_clock_graph. Qed.

(* Round 2, end to end over an event stream: events of a well-formed stream o are processed (item
   (k, id, self): ProcessEvent(id, self) was called when the first k events were indexed); the medians
   reported afterwards are the quorum medians of the rows built from the GRAPH observations (gobs =
   fork -> 2^31-2, else highest seq among the ancestors-or-self) of the latest processed event per creator *)
Theorem C20_medians_from_graph : forall diff ws n o ps,
  wf_stream n o -> length ws = n -> 0 < total_weight ws -> pitems_ok o ps ->
  exists st meds st', qrun diff ws (quorum_of ws) n (h_of n o ps) = Some st /\
    qi_medians ws (quorum_of ws) st = Some (meds, st') /\ length meds = n /\
    forall v, (v < n)%nat ->
      nth v meds 0 = median_spec ws (quorum_of ws) (grow n o ps v) /\
      is_quorum_median ws (quorum_of ws) (grow n o ps v) (nth v meds 0).
Proof. exact medians_from_graph. Qed.
(* "a detected fork counts as the maximal observation" holds when every seq is below 2^31-2 *)
Theorem C20_fork_obs_is_maximal : forall n o a v,
  wf_stream n o -> (forall e, In e o -> eseq e < FORKSEQ) -> (v < n)%nat ->
  nth v (gobs n o a) 0 <= FORKSEQ /\ (nth v (gobs n o a) 0 = FORKSEQ <-> SeesFork (dag_of o) a v).
Proof. exact fork_obs_is_maximal. Qed.

(* non-vacuity: a 4-validator history (weights 3,2,2,1, quorum 6) with a fork observation, a
   self event, clean and dirty reads; the hypotheses of the theorems hold and the values are non-trivial *)
Definition ex_ws : list N := [3; 2; 2; 1].
Definition ex_h : list qop :=
  [QP [(2,1);(1,1);(0,0);(0,0)] 0 true; QG; QP [(1,1);(3,1);(1,1);(0,0)] 1 false;
   QP [(0,FORKM);(2,1);(4,1);(1,1)] 2 false; QT [(2,1);(3,1);(4,1);(1,1)]; QP [(2,1);(3,1);(0,0);(5,2)] 3 false].
Example C20_ex_hyps : length ex_ws = 4%nat /\ 0 < total_weight ex_ws /\ creators_ok 4 ex_h /\ quorum_of ex_ws = 6.
Proof.
  repeat split; try (vm_compute; reflexivity).
  intros cl c s H. cbn in H.
  repeat (destruct H as [H|H]; [try discriminate; injection H as _ <- _; repeat constructor|]). destruct H.
Qed.
Example C20_ex_values :
  match qrun (diff_family 2) ex_ws (quorum_of ex_ws) 4 ex_h with
  | Some st => option_map fst (qi_medians ex_ws (quorum_of ex_ws) st) = Some [2; 1; 0; 0] /\
               option_map fst (qi_metric (diff_family 2) ex_ws (quorum_of ex_ws) st [(0,FORKM);(1,1);(1,1);(1,1)])
                 = Some 2305846307748577280
  | None => False end.
Proof. vm_compute. split; reflexivity. Qed.
Example C20_ex_overflow : 18446744073709551616 <=
  fold_left N.add (map (fun v => diff_family 2 (nth v [2;1;0;0] 0) 0 (nth v [FORKSEQ;1;1;1] 0) v) (List.seq 0 4)) 0.
Proof. vm_compute. discriminate. Qed.

Print Assumptions C20_spec_t_is_spec.
Print Assumptions C20_wmedian_of_descending.
Print Assumptions C20_median_independent_of_tie_order.
Print Assumptions C20_row_median.
Print Assumptions C20_matrix.
Print Assumptions C20_medians.
Print Assumptions C20_metric.
Print Assumptions C20_metric_wraps.
Print Assumptions C20_observation_from_graph.
Print Assumptions C20_medians_from_graph.
Print Assumptions C20_fork_obs_is_maximal.
