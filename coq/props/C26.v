(* C26 — Multi-DB routing is deterministic and isolating.
   Only theorem statements, each closed by [exact <lemma>], and Print Assumptions.
   [orc]/[cok] = the compiled pattern routes of utils/fmtfilter (oracle, any functions). *)
From Coq Require Import NArith List Permutation.
From LV Require Import lib.Bytes model.MultiDb spec.MultiDbSpec proofs.MultiDbProofs proofs.MultiDbDataProofs.
Import ListNotations.

(* RouteOf terminates: within the fuel 2 + len(req) the loop returns a route, provided the default
   route resolves ("" is an exact route, or its op-free pattern matches "" as fmtfilter's does). *)
Theorem C26_route_terminates : forall orc cok avail tbl p,
  default_oracle orc cok -> new_producer cok avail tbl = Some p ->
  forall req, route_of orc p req <> None.
Proof. exact route_terminates. Qed.

(* Determinism: the routing table is a Go map, i.e. it reaches NewProducer in an arbitrary order.
   Two orders of the same table construct producers (or both fail) that route every request alike. *)
Theorem C26_route_deterministic : forall orc cok avail t1 t2,
  Permutation t1 t2 -> NoDup (map fst t1) ->
  match new_producer cok avail t1, new_producer cok avail t2 with
  | Some p1, Some p2 => forall req, route_of orc p1 req = route_of orc p2 req
  | None, None => True
  | _, _ => False
  end.
Proof. exact route_deterministic. Qed.

(* Isolation.  In every reachable state the records of every database are well-formed, ... *)
Theorem C26_reachable_records_wf : forall orc newp avail ops,
  dbs_wf (s_dbs (exec orc newp avail init_state ops)).
Proof. exact reachable_wf. Qed.
(* ... a successful open is recorded, ... *)
Theorem C26_open_recorded : forall orc p dbs req dbs' rt,
  open_db orc p dbs req = (dbs', OOk rt) ->
  route_of orc p req = Some rt /\ mem_str (r_type rt) (p_avail p) = true /\
  exists d, get_db (r_type rt, r_name rt) dbs' = Some d /\ In (req, r_table rt) (d_records d).
Proof. exact open_db_ok. Qed.
(* ... so a request recorded in a database (= opened successfully since the database was created)
   and a different request that is now opened successfully into the same database have tables
   none of which is a prefix of the other, ... *)
Theorem C26_isolation : forall orc p dbs l d r1 t1 req2 dbs2 rt2,
  dbs_wf dbs -> get_db l dbs = Some d -> In (r1, t1) (d_records d) ->
  open_db orc p dbs req2 = (dbs2, OOk rt2) -> (r_type rt2, r_name rt2) = l -> r1 <> req2 ->
  conflicting t1 (r_table rt2) = false.
Proof. exact isolation_step. Qed.
(* ... hence their key spaces (table ++ key, kvdb/table) are disjoint. *)
Theorem C26_isolation_keys : forall t1 t2,
  conflicting t1 t2 = false -> forall k1 k2, t1 ++ k1 <> t2 ++ k2.
Proof. exact conflicting_false_disjoint. Qed.

(* Data isolation at run level.  MultiDbSpec.ref_run computes what every Get returns from an abstract
   map keyed by (database, REQUEST, user key): a successful Put through a request sets its own entry,
   dropping a database clears that database's entries, nothing else touches the map.  The model —
   one raw key space per database, keys prefixed with the table — gives the same observations for
   every history: a Get returns the latest Put of that key through the SAME request since the
   database was last dropped, whatever was put through other requests. *)
Theorem C26_data_isolation : forall orc newp avail ops,
  run orc newp avail init_state ops = ref_run orc newp avail ops.
Proof. exact data_isolation. Qed.

(* Re-opening: a recorded request is re-opened successfully with the same route and without any
   change of the databases, by any producer that routes it alike (C26_route_deterministic:
   e.g. the producer built after a restart from the same routing table). *)
Theorem C26_reopen_same : forall orc p' dbs req rt d,
  dbs_wf dbs -> route_of orc p' req = Some rt -> mem_str (r_type rt) (p_avail p') = true ->
  get_db (r_type rt, r_name rt) dbs = Some d -> In (req, r_table rt) (d_records d) ->
  exists dbs', open_db orc p' dbs req = (dbs', OOk rt) /\ forall l, get_db l dbs' = get_db l dbs.
Proof. exact reopen_same. Qed.

(* End to end: a session under routing table t1 (any operations but a restart), then a restart whose
   routing table t2 is the same Go map in another iteration order: the new producer is constructed,
   Verify succeeds, and every request recorded in any database is re-opened successfully into the
   same database and table, leaving all databases unchanged. *)
Theorem C26_restart_end_to_end : forall orc cok avail t1 t2 p1 ops1,
  Permutation t1 t2 -> NoDup (map fst t1) -> new_producer cok avail t1 = Some p1 ->
  forallb (fun o => negb (is_new o)) ops1 = true ->
  let st := exec orc (new_producer cok) avail init_state (ONew t1 :: ops1 ++ [ONew t2]) in
  exists p2, s_prod st = Some p2 /\ new_producer cok avail t2 = Some p2 /\
    verify orc p2 (s_dbs st) = true /\
    forall l d req tbl, get_db l (s_dbs st) = Some d -> In (req, tbl) (d_records d) ->
      exists rt dbs', open_db orc p2 (s_dbs st) req = (dbs', OOk rt) /\
                      (r_type rt, r_name rt) = l /\ r_table rt = tbl /\
                      forall l', get_db l' dbs' = get_db l' (s_dbs st).
Proof. exact restart_end_to_end. Qed.

(* non-vacuity of the hypotheses of C26_restart_end_to_end: a session under tbl1 with opens, a put and a
   refused conflict, then a restart with the permuted table tbl2 (the overlapping a%d / a%s pair in the
   other order): the producer is rebuilt, Verify succeeds, the recorded requests re-open alike *)
Example C26_restart_example :
  let z_t := [122; 47; 116]%N in let a1 := OldWitness.a1 in
  Permutation OldWitness.tbl1 OldWitness.tbl2 /\ NoDup (map fst OldWitness.tbl1) /\
  new_producer OldWitness.cok [OldWitness.main] OldWitness.tbl1 <> None /\
  run OldWitness.orc (new_producer OldWitness.cok) [OldWitness.main] init_state
      [ONew OldWitness.tbl1; OOpen z_t; OOpen a1; OPut z_t [1]%N [9]%N; ONew OldWitness.tbl2;
       OVerify; OOpen z_t; OOpen a1; OGet z_t [1]%N]
  = [BNew true;
     BOpen (OOk (mkRoute OldWitness.main [100; 122]%N [116]%N false));
     BOpen (OOk (mkRoute OldWitness.main [110; 49]%N [] false));
     BOpen (OOk (mkRoute OldWitness.main [100; 122]%N [116]%N false));
     BNew true; BVerify true;
     BOpen (OOk (mkRoute OldWitness.main [100; 122]%N [116]%N false));
     BOpen (OOk (mkRoute OldWitness.main [110; 49]%N [] false));
     BGet (OOk (mkRoute OldWitness.main [100; 122]%N [116]%N false)) (Some [9]%N)].
Proof.
  split; [apply perm_skip; apply perm_swap|]. split; [cbn; repeat constructor; cbn; intuition discriminate|].
  split; [vm_compute; discriminate|vm_compute; reflexivity].
Qed.

(* Verify succeeds exactly when every recorded request is still routed to the database type,
   name and table it was recorded with. *)
Theorem C26_verify_iff : forall orc p dbs,
  verify orc p dbs = true <->
  forall l d r, In (l, d) dbs -> In r (d_records d) -> routed_as orc p l r.
Proof. exact verify_iff. Qed.

(* non-vacuity: the overlapping pattern pair; through the repaired constructor both orders route "a1"
   to the smaller template's database; a history in which opens succeed and a conflict is refused *)
Example C26_witness_routes :
  match new_producer OldWitness.cok [OldWitness.main] OldWitness.tbl1,
        new_producer OldWitness.cok [OldWitness.main] OldWitness.tbl2 with
  | Some p1, Some p2 =>
      route_of OldWitness.orc p1 OldWitness.a1 = route_of OldWitness.orc p2 OldWitness.a1
      /\ route_of OldWitness.orc p1 OldWitness.a1 = Some (mkRoute OldWitness.main [110; 49]%N [] false)
  | _, _ => False
  end.
Proof. exact route_deterministic_new_on_witness. Qed.

Example C26_history_nontrivial :
  (* default route main:"d", requests "z/t" and "z/tt" share database "dz" with tables t / tt *)
  let z_t := [122; 47; 116]%N in let z_tt := [122; 47; 116; 116]%N in
  run OldWitness.orc (new_producer OldWitness.cok) [OldWitness.main] init_state
      [ONew OldWitness.tbl1; OOpen z_t; OOpen z_tt; OOpen z_t; OVerify]
  = [BNew true;
     BOpen (OOk (mkRoute OldWitness.main [100; 122]%N [116]%N false));
     BOpen OConflict;
     BOpen (OOk (mkRoute OldWitness.main [100; 122]%N [116]%N false));
     BVerify true].
Proof. vm_compute. reflexivity. Qed.

Example C26_data_nontrivial :
  (* z/t and y/u live in databases dz / dy; a put through z/t is read back through z/t only *)
  let z_t := [122; 47; 116]%N in let z_u := [122; 47; 117]%N in
  run OldWitness.orc (new_producer OldWitness.cok) [OldWitness.main] init_state
      [ONew OldWitness.tbl1; OPut z_t [1]%N [9]%N; OGet z_u [1]%N; OGet z_t [1]%N; ODrop z_u; OGet z_t [1]%N]
  = [BNew true;
     BOpen (OOk (mkRoute OldWitness.main [100; 122]%N [116]%N false));
     BGet (OOk (mkRoute OldWitness.main [100; 122]%N [117]%N false)) None;
     BGet (OOk (mkRoute OldWitness.main [100; 122]%N [116]%N false)) (Some [9]%N);
     BOpen (OOk (mkRoute OldWitness.main [100; 122]%N [117]%N false));
     BGet (OOk (mkRoute OldWitness.main [100; 122]%N [116]%N false)) None].
Proof. vm_compute. reflexivity. Qed.

Print Assumptions C26_route_terminates.
Print Assumptions C26_route_deterministic.
Print Assumptions C26_reachable_records_wf.
Print Assumptions C26_open_recorded.
Print Assumptions C26_isolation.
Print Assumptions C26_isolation_keys.
Print Assumptions C26_data_isolation.
Print Assumptions C26_reopen_same.
Print Assumptions C26_restart_end_to_end.
Print Assumptions C26_verify_iff.
