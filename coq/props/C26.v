(* C26 — Multi-DB routing is deterministic and isolating.
   Only theorem statements, each closed by [exact <lemma>], and Print Assumptions. *)
From Coq Require Import NArith List.
From LV Require Import lib.Bytes model.MultiDb proofs.MultiDbProofs.

(* Verify succeeds exactly when every recorded request is still routed to the database type,
   name and table it was recorded with. *)
Theorem C26_verify_iff : forall orc p dbs,
  verify orc p dbs = true <->
  forall l d r, In (l, d) dbs -> In r (d_records d) -> routed_as orc p l r.
Proof. exact verify_iff. Qed.

Print Assumptions C26_verify_iff.
