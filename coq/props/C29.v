(* C29 — Weighted LRU caches follow the LRU model.
   Only theorem statements, each closed by [exact <lemma>], Examples for non-vacuity, and
   Print Assumptions.  Model: model/Wlru.v (simplewlru + wlru); specification: spec/LruSpec.v.

   Standing assumptions (in every statement): [keqb] decides equality of keys (Go map keys);
   weights and weight bounds are [small] (< 2^63), so that the Go [uint] weight counter, whose
   wrap-around the model spells out, never wraps.  [reachable keqb c]: c is the state after
   some history  new ; op ; ... ; op  with small weights. *)
From Coq Require Import NArith ZArith List Permutation.
From Coq Require Import Sorted.
From LV Require Import model.Wlru spec.LruSpec spec.LruRecency proofs.WlruProofs proofs.WlruRecency proofs.WlruConserve.
Import ListNotations.
Local Open Scope N_scope.

Section C29.
  Context {K V : Type}.
  Variable keqb : K -> K -> bool.
  Hypothesis keqb_spec : forall a b, keqb a b = true <-> a = b.

  (* 1. After every operation of every history and for ALL bounds (incl. 0): at most
        max_size entries, total weight at most max_weight (the bounds in force are those of
        the last Resize), distinct keys, the cached weight is the true sum, and the
        normalize loop never hangs. *)
  Theorem C29_bounds_after_every_history :
    forall mw ms ops (c0 c : cache K V) tr,
    small mw -> Forall op_small ops -> new mw ms = Some c0 -> run keqb c0 ops = (c, tr) ->
    let b := bounds_after (mw, z_to_N ms) ops in
    len c <= snd b /\ sumw (c_entries c) <= fst b /\ NoDup (keys c) /\
    weight c = sumw (c_entries c) /\ c_stuck c = false.
  Proof. exact (run_bounds keqb keqb_spec). Qed.

  (* 2. Refinement: every history produces exactly the results and callback logs of the
        recency-list specification, and ends in the abstraction of the final cache. *)
  Theorem C29_refines_lru_spec :
    forall mw ms ops (c0 c : cache K V) tr,
    small mw -> Forall op_small ops -> new mw ms = Some c0 -> run keqb c0 ops = (c, tr) ->
    exists s0, s_new mw ms = Some s0 /\ s_run keqb s0 ops = (abs c, tr).
  Proof. exact (run_refines_new keqb keqb_spec). Qed.

  Theorem C29_step_refines :
    forall (c : cache K V) o c' r lg,
    reachable keqb c -> op_small o -> step keqb c o = (c', r, lg) ->
    s_step keqb (abs c) o = (abs c', r, lg) /\ reachable keqb c'.
  Proof. exact (step_refines_reach keqb keqb_spec). Qed.

  (* 3. Add: k becomes the newest key; the evicted keys are the OLDEST ones, reported oldest
        first; log + content afterwards = new pair + old content without k's old value
        (each removed entry reported exactly once, nothing else reported); the count
        returned is the number of callbacks. *)
  Theorem C29_add_evicts_least_recently_used :
    forall k v w (c c' : cache K V) lg n,
    reachable keqb c -> small w -> add keqb k v w c = (c', lg, n) ->
    map fst lg ++ keys c' = filter (fun x => negb (keqb k x)) (keys c) ++ [k] /\
    Permutation (lg ++ pairs c') ((k, v) :: map kv (remove_key keqb k (c_entries c))) /\
    n = N.of_nat (length lg).
  Proof. exact (add_lru_reach keqb keqb_spec). Qed.

  (* every eviction is forced: with the dropped entry still inside, a bound was exceeded *)
  Theorem C29_add_evicts_no_more_than_needed :
    forall k v w (c c' : cache K V) lg n,
    reachable keqb c -> small w -> add keqb k v w c = (c', lg, n) ->
    exists ev, lg = map kv (rev ev) /\
      mkEntry k v w :: remove_key keqb k (c_entries c) = c_entries c' ++ ev /\
      forall pre x suf, rev ev = pre ++ x :: suf ->
        over (c_max_weight c) (c_max_size c) (length (x :: suf ++ rev (c_entries c')))
             (sumw (x :: suf ++ rev (c_entries c'))) = true.
  Proof. exact (add_minimal_reach keqb keqb_spec). Qed.

  (* 4. An entry heavier than the bound is evicted by the very Add that inserts it. *)
  Theorem C29_heavy_entry_evicted_at_once :
    forall k v w (c c' : cache K V) lg n,
    reachable keqb c -> small w -> c_max_weight c < w -> add keqb k v w c = (c', lg, n) ->
    In (k, v) lg /\ c_entries c' = [] /\ contains keqb k c' = false.
  Proof. exact (add_heavy_reach keqb keqb_spec). Qed.

  (* 5. Get refreshes recency (and only that); Peek, Contains, GetOldest, Keys, Len, Weight
        change nothing. *)
  Theorem C29_get_refreshes :
    forall k (c c' : cache K V) r,
    reachable keqb c -> get keqb k c = (c', r) ->
    match r with
    | Some v => In (k, v) (pairs c) /\ keys c' = filter (fun x => negb (keqb k x)) (keys c) ++ [k] /\
                Permutation (pairs c') (pairs c)
    | None => c' = c /\ ~ In k (keys c)
    end.
  Proof. exact (get_lru_reach keqb keqb_spec). Qed.

  Theorem C29_peek_contains_do_not_refresh :
    forall (c : cache K V) o c' r lg,
    match o with OPeek _ | OContains _ | OGetOldest | OKeys | OLen | OWeight => True | _ => False end ->
    step keqb c o = (c', r, lg) -> c' = c /\ lg = [].
  Proof. exact (readonly_ops keqb). Qed.

  (* 5'. Presence is decided by the key, never by the value: V is arbitrary (Go's nil interface is
        just one more value), and for every stored value PeekOrAdd / ContainsOrAdd on a present
        key return (stored value, true) / true and leave the cache untouched; on an absent key
        they are Add. *)
  Theorem C29_presence_is_decided_by_key :
    forall k v w (c : cache K V),
    (In k (keys c) ->
       exists v0, In (k, v0) (pairs c) /\ peek keqb k c = Some v0 /\ contains keqb k c = true /\
                  peek_or_add keqb k v w c = (c, [], Some v0, 0) /\
                  contains_or_add keqb k v w c = (c, [], true, 0)) /\
    (~ In k (keys c) ->
       peek keqb k c = None /\ contains keqb k c = false /\
       peek_or_add keqb k v w c = (let '(c', lg, n) := add keqb k v w c in (c', lg, None, n)) /\
       contains_or_add keqb k v w c = (let '(c', lg, n) := add keqb k v w c in (c', lg, false, n))).
  Proof. exact (presence_by_key keqb keqb_spec). Qed.

  (* 6. Remove / RemoveOldest / Purge / Resize report exactly what they drop, once. *)
  Theorem C29_remove_reports_once :
    forall k (c c' : cache K V) lg b,
    reachable keqb c -> remove keqb k c = (c', lg, b) ->
    Permutation (lg ++ pairs c') (pairs c) /\
    keys c' = filter (fun x => negb (keqb k x)) (keys c) /\
    (b = true <-> In k (keys c)) /\ (b = false -> lg = []) /\ (b = true -> exists v, lg = [(k, v)]).
  Proof. exact (remove_reports_reach keqb keqb_spec). Qed.

  Theorem C29_remove_oldest_reports_once :
    forall (c c' : cache K V) lg r,
    remove_oldest c = (c', lg, r) ->
    match r with
    | Some p => lg = [p] /\ map fst lg ++ keys c' = keys c /\ Permutation (lg ++ pairs c') (pairs c)
    | None => lg = [] /\ c' = c /\ keys c = []
    end.
  Proof. exact remove_oldest_reports. Qed.

  Theorem C29_purge_reports_everything :
    forall (c c' : cache K V) lg, purge c = (c', lg) -> c_entries c' = [] /\ lg = pairs c.
  Proof. exact purge_reports. Qed.

  Theorem C29_resize_evicts_oldest :
    forall mw ms (c c' : cache K V) lg n,
    reachable keqb c -> small mw -> resize mw ms c = (c', lg, n) ->
    map fst lg ++ keys c' = keys c /\ Permutation (lg ++ pairs c') (pairs c) /\
    n = N.of_nat (length lg) /\ c_max_weight c' = mw /\ c_max_size c' = z_to_N ms.
  Proof. exact (resize_lru_reach keqb keqb_spec). Qed.

  (* 7. The specification read on its own: what survives a trim is the LONGEST suffix
        (newest part) of the recency list that fits both bounds. *)
  Theorem C29_spec_keeps_longest_fitting_suffix :
    forall mw ms (l ev kp : list (@item K V)),
    trim mw ms l = (ev, kp) ->
    ev ++ kp = l /\ fits mw ms kp = true /\
    forall ev' kp', ev' ++ kp' = l -> fits mw ms kp' = true -> (length kp' <= length kp)%nat.
  Proof. intros mw ms l ev kp H; split; [exact (trim_split _ _ _ _ _ H) | split; [exact (trim_fits _ _ _ _ _ H) | exact (trim_longest _ _ _ _ _ H)]]. Qed.

  (* 6'. ... and for whole histories: everything ever inserted (read off the operations and
        their visible results) is, as a multiset, what the callback was told + what is still
        cached + the values an Add replaced in place (no callback for those, as in the Go code).
        Hence no entry is reported twice and nothing is reported that was not inserted. *)
  Theorem C29_history_reports_each_removed_entry_once :
    forall mw ms ops (c0 c : cache K V) tr,
    small mw -> Forall op_small ops -> new mw ms = Some c0 -> run keqb c0 ops = (c, tr) ->
    Permutation (reported tr ++ pairs c ++ overwritten keqb c0 ops) (inserted ops tr).
  Proof. exact (history_conserves keqb keqb_spec). Qed.

  (* 8. LRU order against a notion of recency that mentions no cache state
        (spec/LruRecency.v: time of the last Add / successful Get / adding ContainsOrAdd or
        PeekOrAdd of the key in the history): Keys lists the keys from the least to the most
        recently used, and an operation evicts only entries used less recently than all it keeps. *)
  Theorem C29_keys_sorted_by_last_use :
    forall mw ms ops (c0 c : cache K V) tr,
    small mw -> Forall op_small ops -> new mw ms = Some c0 -> run keqb c0 ops = (c, tr) ->
    StronglySorted (fun a b => (last_use keqb a ops tr < last_use keqb b ops tr)%nat) (keys c) /\
    forall k, In k (keys c) -> (0 < last_use keqb k ops tr)%nat.
  Proof. exact (keys_sorted_by_last_use keqb keqb_spec). Qed.

  Theorem C29_evicted_used_less_recently_than_kept :
    forall mw ms ops (c0 c : cache K V) tr o c' r lg,
    small mw -> Forall op_small ops -> op_small o -> new mw ms = Some c0 ->
    run keqb c0 ops = (c, tr) -> step keqb c o = (c', r, lg) -> evicting o = true ->
    forall x y, In x (map fst lg) -> In y (keys c') ->
      (last_use keqb x (ops ++ [o]) (tr ++ [(r, lg)]) < last_use keqb y (ops ++ [o]) (tr ++ [(r, lg)]))%nat.
  Proof. exact (evicts_least_recently_used keqb keqb_spec). Qed.
End C29.

(* ---- non-vacuity: concrete histories over numeric keys ---- *)
Definition ex_ops : list (op N N) :=
  [OAdd 1 10 2; OAdd 2 20 1; OGet 1; OAdd 3 30 1; OAdd 4 40 9; OResize 5 3; OAdd 5 50 0; OAdd 6 60 0; OPeek 5; OAdd 7 70 0; OAdd 8 80 0; OKeys].

(* bounds (3, 2): the third Add evicts key 2 (key 1 was refreshed by Get), the heavy Add of
   key 4 empties the cache and reports itself, after Resize three weightless entries fit and a
   fourth evicts the oldest (5, although it was peeked) *)
Example C29_ex_history :
  exists c0 c, new 3 2%Z = Some c0 /\
  run N.eqb c0 ex_ops =
    (c, [(RCount 0, []); (RCount 0, []); (RVal (Some 10), []); (RCount 1, [(2, 20)]);
         (RCount 3, [(1, 10); (3, 30); (4, 40)]); (RCount 0, []); (RCount 0, []); (RCount 0, []);
         (RVal (Some 50), []); (RCount 0, []); (RCount 1, [(5, 50)]); (RKeys [6; 7; 8], [])]) /\
  Forall op_small ex_ops /\ small 3.
Proof.
  eexists _, _. split; [reflexivity|]. split; [vm_compute; reflexivity|].
  split; [repeat constructor | reflexivity].
Qed.

(* in that history: keys 6, 7, 8 were last used at times 8, 10, 11; key 5 (evicted by the Add of 8)
   at time 7 -- the Peek at time 9 does not count *)
Example C29_ex_last_use :
  forall c0 c tr, new 3 2%Z = Some c0 -> run N.eqb c0 ex_ops = (c, tr) ->
  map (fun k => last_use N.eqb k ex_ops tr) [5; 6; 7; 8] = [7; 8; 10; 11]%nat /\ keys c = [6; 7; 8].
Proof. intros c0 c tr [= <-]. vm_compute. intros [= <- <-]. split; reflexivity. Qed.

(* values with a distinguished nil (V = option N, None = Go's nil): a key stored with value nil is
   present; PeekOrAdd returns (nil, found) and changes nothing *)
Example C29_ex_nil_value :
  forall c0, new 3 2%Z = Some c0 ->
  snd (run N.eqb c0 [OAdd 1 None 1; OPeekOrAdd 1 (Some 9) 1; OContainsOrAdd 1 (Some 8) 1; OGet 1; OKeys]) =
    [(RCount 0, []); (RPrevCount (Some None) 0, []); (RFoundCount true 0, []); (RVal (Some (@None N)), []); (RKeys [1], [])].
Proof. intros c0 [= <-]. vm_compute. reflexivity. Qed.

Example C29_ex_reachable : exists c : cache N N, reachable N.eqb c /\ c_entries c <> [] /\ c_max_weight c < 9.
Proof.
  exists (mkCache [mkEntry 3 30 1; mkEntry 1 10 2] 3 3 2 false). split; [|split; [discriminate | reflexivity]].
  exists 3, 2%Z, [OAdd 1 10 2; OAdd 2 20 1; OGet 1; OAdd 3 30 1], (mkCache [] 0 3 2 false).
  eexists. split; [reflexivity|]. split; [repeat constructor|]. split; [reflexivity | vm_compute; reflexivity].
Qed.

(* negative sizes: the constructor refuses them; the repaired Resize reads them as 0 (the
   pinned tree's Resize did not return: model [resize_old], Example resize_old_refuted in
   proofs/WlruProofs.v) *)
Example C29_ex_negative_size :
  @new N N 3 (-1)%Z = None /\ @s_new N N 3 (-1)%Z = None /\
  (forall c0, new 3 2%Z = Some c0 ->
     snd (run N.eqb c0 [OAdd 1 10 1; OAdd 2 20 1; OResize 3 (-1); OAdd 3 30 0; OLen]) =
       [(RCount 0, []); (RCount 0, []); (RCount 2, [(1, 10); (2, 20)]); (RCount 1, [(3, 30)]); (RNum 0, [])]).
Proof. split; [reflexivity | split; [reflexivity|]]. intros c0 [= <-]. vm_compute. reflexivity. Qed.

Print Assumptions C29_bounds_after_every_history.
Print Assumptions C29_refines_lru_spec.
Print Assumptions C29_step_refines.
Print Assumptions C29_add_evicts_least_recently_used.
Print Assumptions C29_add_evicts_no_more_than_needed.
Print Assumptions C29_heavy_entry_evicted_at_once.
Print Assumptions C29_get_refreshes.
Print Assumptions C29_peek_contains_do_not_refresh.
Print Assumptions C29_presence_is_decided_by_key.
Print Assumptions C29_remove_reports_once.
Print Assumptions C29_remove_oldest_reports_once.
Print Assumptions C29_purge_reports_everything.
Print Assumptions C29_resize_evicts_oldest.
Print Assumptions C29_history_reports_each_removed_entry_once.
Print Assumptions C29_spec_keeps_longest_fitting_suffix.
Print Assumptions C29_keys_sorted_by_last_use.
Print Assumptions C29_evicted_used_less_recently_than_kept.
