(* C16 — Items fetcher asks the right peers and does not forget pending items.

   Model: model/Fetcher.v ([step true] = the repaired gossip/itemsfetcher loop; callbacks, the random
   peer choice and Go's map order are oracles carried by the events; time.Timer is modelled).
   Vocabulary: spec/FetcherSpec.v ([ghost_step]/[safe_run]: who may be asked for what, kept without
   looking at the fetcher's tables; [reachT]; [pass_pending]; [owed]).  Proofs: proofs/FetcherProofs.v. *)
From Coq Require Import NArith ZArith List Bool.
From LV Require Import model.Fetcher spec.FetcherSpec proofs.FetcherProofs proofs.FetcherLiveness.
From LV Require Import model.Workers proofs.WorkersProofs model.FetcherSim.
Import ListNotations.

(* SAFETY, for every configuration and EVERY event sequence (any interleaving of announcements,
   receipts, timer deliveries and passes, any random choices, any times, any callback answers as long
   as OnlyInterested answers with ids of the batch it was asked about - [answers_sublist]; the
   hypothesis is necessary, see fetcher_safety_needs_sublist in proofs/FetcherProofs.v: the fetcher
   stores and requests whatever the callback returns): every request (peer, id)
   goes to a peer that announced id while id was reported interesting, and id has not since been
   reported received, nor reported uninteresting at a pass - until it is announced anew. *)
Theorem C16_safety : forall c t0 tr, answers_sublist tr -> safe_run c (init t0) [] tr.
Proof. exact fetcher_safety. Qed.

(* LIVENESS as a bounded-response invariant.  (1) In every reachable state (non-decreasing clock):
   while anything is announced, a timer pass is pending - its value is in the channel or the timer
   is armed and due within ArriveTimeout. *)
Theorem C16_liveness_pass_pending_partial : forall c t0 now st,
  cfg_wf c -> reachT c t0 now st -> pass_pending c now st.
Proof. exact fetcher_pass_pending. Qed.

(* (2) Timer fairness = the runtime delivers a due timer ([ETick]) and the loop then takes it
   ([ETimer]); the delivery step puts the value into the channel ... *)
Theorem C16_liveness_tick_partial : forall c st now due,
  timer_due st = Some due -> (due <= now)%Z -> timer_chan (fst (step true c st now ETick)) = true.
Proof. exact fetcher_tick. Qed.

(* (3) ... and the pass the loop then makes requests every item that is held, reported interesting,
   announced less than ForgetTimeout ago and not requested during the last ArriveTimeout -
   GatherSlack, from one of its recorded announcers. *)
Theorem C16_liveness_pass_requests_partial : forall c st now interested ch scan id,
  timer_chan st = true -> In id interested -> owed c st now id ->
  exists p ids, In p (announcers id st) /\
    In (p, ids) (snd (step true c st now (ETimer interested ch scan))) /\ In id ids.
Proof. exact fetcher_pass_requests. Qed.

(* (4) An announcement that is interesting, arrives while not suspended and is not being fetched is
   requested in the same step, from the announcing peer. *)
Theorem C16_liveness_notify_requests_partial : forall c st now peer ids atime interested scan id,
  In id interested -> f_find id (fetching st) = None ->
  exists l, In (peer, l) (snd (step true c st now (ENotify peer ids atime interested false scan))) /\ In id l.
Proof. exact fetcher_notify_requests. Qed.

(* (5) Whether or not it had to request it, every pass the loop takes leaves every held, interesting,
   young item with a request at most ArriveTimeout - GatherSlack old (made in this pass or earlier):
   with (1)-(2), at any moment the last request of such an item is at most
   2*ArriveTimeout - GatherSlack + latency old, or its first pass is still to come. *)
Theorem C16_liveness_pass_leaves_recent_partial : forall c st now interested ch scan id e oldest more,
  (c_slack c <= c_arrive c)%Z -> timer_chan st = true -> In id interested ->
  lru_find id (ann st) = Some e -> e_val e = oldest :: more -> (now - a_time oldest <= c_forget c)%Z ->
  let st' := fst (step true c st now (ETimer interested ch scan)) in
  lru_find id (ann st') = Some e /\
  exists p ft, f_find id (fetching st') = Some (p, ft) /\ (now - ft <= c_arrive c - c_slack c)%Z.
Proof. exact fetcher_pass_leaves_recent. Qed.

(* (6) ... where a fetching entry (id -> peer, time) is, on every trace, the record of a request
   (peer, ..id..) really emitted at that time. *)
Theorem C16_liveness_fetching_was_requested_partial : forall c t0 tr id p ft,
  f_find id (fetching (fst (run true c (init t0) tr))) = Some (p, ft) ->
  exists ids, In (ft, (p, ids)) (snd (run true c (init t0) tr)) /\ In id ids.
Proof. exact fetcher_fetching_was_requested. Qed.

(* (7) The trace-level composition of (1)-(3),(5).  Timer fairness with latency [lat] = [fair_run]: while
   the timer is armed no event happens later than due + lat, and once its value is in the channel the
   loop's next action is the pass, within lat.  From ANY reachable state that holds the item, on ANY
   fair continuation that goes on long enough: if the item stays in the table until the loop's next pass
   ([held_until_pass]: not received, not evicted), is reported interesting and is younger than
   ForgetTimeout at that pass, then the loop takes a pass within ArriveTimeout + 2*lat, after which
   the item's last request is at most ArriveTimeout - GatherSlack old.  (By (6) that entry is a request
   really emitted.)  So an item announced at t has a request in
   [t - (Arrive - Slack), t + Arrive + 2*lat]; suspension plays no role because passes ignore it. *)
Theorem C16_liveness_response_partial : forall c lat t0 t st id tr,
  cfg_wf c -> (c_slack c <= c_arrive c)%Z -> (0 <= lat)%Z -> reachT c t0 t st ->
  fair_run c lat st t tr -> held_until_pass c id st tr ->
  (exists now ev, In (now, ev) tr /\ (t + c_arrive c + 2 * lat < now)%Z) ->
  (forall now i ch sc, In (now, ETimer i ch sc) tr -> In id i) ->
  (forall p1 now i ch sc p2 e oldest more, tr = p1 ++ (now, ETimer i ch sc) :: p2 ->
     lru_find id (ann (fst (run true c st p1))) = Some e -> e_val e = oldest :: more ->
     (now - a_time oldest <= c_forget c)%Z) ->
  exists p1 now_p i ch sc p2,
    tr = p1 ++ (now_p, ETimer i ch sc) :: p2 /\ (now_p <= t + c_arrive c + 2 * lat)%Z /\
    exists p ft, f_find id (fetching (fst (step true c (fst (run true c st p1)) now_p (ETimer i ch sc)))) = Some (p, ft) /\
                 (now_p - ft <= c_arrive c - c_slack c)%Z.
Proof. exact fetcher_response_request. Qed.

(* LIVENESS, end to end.  A trace from the start of the loop in which item [id] is announced (and reported
   interesting) at time t:
     - the clock is nondecreasing                                                   [clock_ok]
     - timer fairness with latency lat and bounded overtaking k: a due timer is delivered by due + lat;
       once its value is in the channel the loop may still take up to k other events (Go's select picks
       at random among ready channels), each within lat, before it takes the pass         [fair_run_k]
     - the announces cache has room for every batch at the moment it is processed
       (table size + 2 * batch <= HashLimit at each ENotify), so nothing is evicted        [cap_ok]
     - the announce records of the item that are IN THE TABLE when the announcement arrives, this
       announcement, and every later one are younger than ForgetTimeout until the bound [young_inv on the
       state before the announcement] (the loop forgets an item by its OLDEST recorded announcement, so
       all records held count; records of earlier lives of the item, received or forgotten since, are
       gone and do not - C16_young_if_absent)
     - until the bound the item is reported interesting at every pass and is never reported received
     - the trace goes on beyond the bound
   Then a request for the item is EMITTED BY THE LOOP (handed to parallelTasks.Enqueue) at some t' with
        t <= t' <= t + 2*ArriveTimeout - GatherSlack + (k + 2)*lat.
   What happens between Enqueue and the call of the requester function is the worker pool's business
   (model/Workers.v, theorems C16_workers_...): Enqueue does not block while the pool's buffer has room and
   a parked worker starts the oldest queued closure; a full buffer would block the loop, which is
   excluded here by fair_run_k (no loop event is late).
   Suspension does not occur among the hypotheses: the [suspended] answer of the announcement is
   arbitrary and timer passes do not consult Suspend() at all (an [ETimer] event carries no such
   oracle), so the bound holds from the announcement whether or not the fetcher is suspended, hence
   a fortiori from max(t_announce, t_unsuspend) (C16_liveness_unsuspend). *)
Theorem C16_liveness : forall c lat k t0 pre t peer ids atime interested susp scan post id,
  cfg_wf c -> (c_slack c <= c_arrive c)%Z -> (0 <= lat)%Z ->
  let tr := pre ++ (t, ENotify peer ids atime interested susp scan) :: post in
  let Tend := (t + 2 * c_arrive c - c_slack c + (Z.of_nat k + 2) * lat)%Z in
  clock_ok t0 tr ->
  fair_run_k c lat k (init t0) t0 0 tr ->
  In id interested ->
  cap_ok c (init t0) tr ->
  young_inv c id Tend (fst (run true c (init t0) pre)) ->
  (Tend - atime <= c_forget c)%Z ->
  (forall now p i a int su sc, In (now, ENotify p i a int su sc) post -> In id int -> (Tend - a <= c_forget c)%Z) ->
  (forall now i ch sc, In (now, ETimer i ch sc) post -> (now <= Tend)%Z -> In id i) ->
  (forall now l, In (now, EReceived l) post -> (now <= Tend)%Z -> ~ In id l) ->
  (exists now ev, In (now, ev) post /\ (Tend < now)%Z) ->
  exists t' p l, In (t', (p, l)) (snd (run true c (init t0) tr)) /\ In id l /\ (t <= t' <= Tend)%Z.
Proof. exact fetcher_liveness. Qed.

(* "... or after the fetcher stops being suspended, whichever is later": for any moment t_u (the end of
   a suspension), the request comes no later than max(t, t_u) + the same bound. *)
Theorem C16_liveness_unsuspend : forall c lat k t0 pre t peer ids atime interested susp scan post id t_u,
  cfg_wf c -> (c_slack c <= c_arrive c)%Z -> (0 <= lat)%Z ->
  let tr := pre ++ (t, ENotify peer ids atime interested susp scan) :: post in
  let Tend := (t + 2 * c_arrive c - c_slack c + (Z.of_nat k + 2) * lat)%Z in
  clock_ok t0 tr -> fair_run_k c lat k (init t0) t0 0 tr -> In id interested ->
  cap_ok c (init t0) tr ->
  young_inv c id Tend (fst (run true c (init t0) pre)) ->
  (Tend - atime <= c_forget c)%Z ->
  (forall now p i a int su sc, In (now, ENotify p i a int su sc) post -> In id int -> (Tend - a <= c_forget c)%Z) ->
  (forall now i ch sc, In (now, ETimer i ch sc) post -> (now <= Tend)%Z -> In id i) ->
  (forall now l, In (now, EReceived l) post -> (now <= Tend)%Z -> ~ In id l) ->
  (exists now ev, In (now, ev) post /\ (Tend < now)%Z) ->
  exists t' p l, In (t', (p, l)) (snd (run true c (init t0) tr)) /\ In id l /\
    (t <= t' <= Z.max t t_u + 2 * c_arrive c - c_slack c + (Z.of_nat k + 2) * lat)%Z.
Proof. exact fetcher_liveness_unsuspend. Qed.

(* the state hypothesis of C16_liveness is trivially true for an item that is not in the table when it
   is announced (never announced before, or received / forgotten since) *)
Theorem C16_young_if_absent : forall c id Tend st, ~ In id (map e_key (ann st)) -> young_inv c id Tend st.
Proof. exact young_inv_absent. Qed.

(* The scheduler that generates the model's own log of a script (model/FetcherSim.v, evaluated against
   spec_check on every case) is not a second model: the state it ends in is the state [run] reaches on
   the event trace it chose, and on that trace OnlyInterested answers with ids of the batch, so
   C16_safety (and, for fair traces, C16_liveness) speak about its behaviours. *)
Theorem C16_scheduler_is_run : forall c fuel sc,
  let s := sim_fetcher c fuel sc in
  fs_st s = fst (run true c (init 0%Z) (rev (fs_tr s))) /\ answers_sublist (rev (fs_tr s)).
Proof. exact sim_fetcher_is_run. Qed.

(* ---------- utils/workers: the pool the request closures are handed to (model/Workers.v) ---------- *)
(* For every sequence of Enqueue / worker-select / task-end / close(quit) / Drain events, with any
   outcome of the random choice Go makes between two ready select cases: a closure is started at most
   once, and only if its Enqueue returned nil. *)
Theorem C16_workers_run_at_most_once : forall cap n tr,
  fresh_ids (pool_init cap n) tr ->
  let s := fst (wrun (pool_init cap n) tr) in
  NoDup (p_ran s) /\ forall id, In id (p_ran s) -> In id (p_accepted s).
Proof. exact workers_run_at_most_once. Qed.
(* Once the owner's Stop has returned (quit closed, wg.Wait() saw every worker exit) no closure is ever
   started again, whatever happens afterwards. *)
Theorem C16_workers_nothing_after_stop : forall s ev,
  stopped s -> stopped (fst (wstep s ev)) /\ p_ran (fst (wstep s ev)) = p_ran s /\
  match snd (wstep s ev) with OStart _ => False | _ => True end.
Proof. exact workers_nothing_after_stop. Qed.
(* Enqueue after close(quit) fails when the buffer is full and no worker is parked to take the closure by
   rendezvous.  When it can complete the select may pick either case: "Enqueue after Stop fails" is NOT
   guaranteed by the code (workers_enqueue_after_quit_may_succeed in proofs/, and observed on the real
   pool: statistic w_enqueue_after_quit_accepted); such a closure is never run, by the previous theorem. *)
Theorem C16_workers_enqueue_after_quit_full : forall s id pq,
  p_quit s = true -> (p_cap s <= length (p_queue s))%nat ->
  (p_cap s = 0%nat -> first_idle (p_workers s) = None) ->
  wstep s (WEnqueue id pq) = (s, OEnq id false).
Proof. exact workers_enqueue_after_quit_full. Qed.
(* Progress: with room in the buffer and quit open Enqueue does not block, and a parked worker's select
   starts the oldest queued closure.  (An unbuffered pool, maxTasks = 0, hands a closure over by rendezvous
   with a parked worker: workers_unbuffered_rendezvous.) *)
Theorem C16_workers_enqueue_room : forall s id pq,
  p_quit s = false -> (length (p_queue s) < p_cap s)%nat -> snd (wstep s (WEnqueue id pq)) = OEnq id true.
Proof. exact workers_enqueue_room. Qed.
Theorem C16_workers_take_starts_oldest : forall s w pq h r,
  p_quit s = false -> nth_error (p_workers s) w = Some WIdle -> p_queue s = h :: r ->
  snd (wstep s (WTake w pq)) = OStart h /\ p_queue (fst (wstep s (WTake w pq))) = r.
Proof. exact workers_take_starts_oldest. Qed.
(* Every run of the pool model, whatever the random selects do, passes the executable check wk_check that
   the harness applies to the real pool's observations: the worker-pool cases test utils/workers against
   this model. *)
Theorem C16_workers_model_passes_check : forall cap n tr,
  NoDup (enq_ids tr) ->
  let s0 := pool_init cap n in
  wk_check (wk_runs (fst (wrun s0 tr)) (enq_ids tr)) (wk_enqs s0 tr) (wk_late s0 tr) = true.
Proof. exact workers_model_passes_check. Qed.

(* non-vacuity of C16_liveness: the theorem APPLIED to a concrete trace with every hypothesis discharged
   (item 7 announced while suspended; a notification of another item overtakes the pass once, k = 1) *)
Example C16_liveness_applied :
  exists t' p l,
    In (t', (p, l)) (snd (run true cfg_ex (init 0%Z) (ex_live_pre ++ (80%Z, ENotify 1%N [7%N] 80%Z [7%N] true []) :: ex_live_post))) /\
    In 7%N l /\ (80 <= t' <= 80 + 2 * 320 - 60 + (Z.of_nat 1 + 2) * 0)%Z.
Proof. exact fetcher_liveness_applied. Qed.

Print Assumptions C16_safety.
Print Assumptions C16_liveness_pass_pending_partial.
Print Assumptions C16_liveness_tick_partial.
Print Assumptions C16_liveness_pass_requests_partial.
Print Assumptions C16_liveness_notify_requests_partial.
Print Assumptions C16_liveness_pass_leaves_recent_partial.
Print Assumptions C16_liveness_fetching_was_requested_partial.
Print Assumptions C16_liveness_response_partial.
Print Assumptions C16_liveness.
Print Assumptions C16_liveness_unsuspend.
Print Assumptions C16_young_if_absent.
Print Assumptions C16_scheduler_is_run.
Print Assumptions C16_workers_run_at_most_once.
Print Assumptions C16_workers_nothing_after_stop.
Print Assumptions C16_workers_enqueue_after_quit_full.
Print Assumptions C16_workers_enqueue_room.
Print Assumptions C16_workers_take_starts_oldest.
Print Assumptions C16_workers_model_passes_check.
