(* C16 — Items fetcher asks the right peers and does not forget pending items. (theorems to follow) *)
From Coq Require Import NArith ZArith List.
From LV Require Import model.Fetcher spec.FetcherSpec.
