(* C09 -- Epoch sealing switches cleanly to the new validator set.
   Statements only; proofs in proofs/AbftSeal.v AbftProcess.v (AbftSealWitness.v for the example). *)
From Coq Require Import NArith List.
From LV Require Import model.VecIndex model.Abft model.AbftRun spec.AbftSpec
  proofs.AbftSeal proofs.AbftProcess proofs.AbftRunInv proofs.AbftSealVals proofs.AbftSealWitness.
Import ListNotations.
Local Open Scope N_scope.

(* When EndBlock returns a validator set, the instance is in the next epoch with exactly that set, no
   decided frame, empty roots / confirmed marks / vector index / forkless-cause cache and a fresh election:
   it is LITERALLY the state Orderer.Reset(epoch+1, validators) produces. *)
Theorem C09_seal_is_reset : forall end_block es st f atr blk st',
  on_frame_decided end_block es st f atr = (Ok (true, blk), st') ->
  exists nv, b_seal blk = Some nv /\ b_frame blk = f /\ b_atropos blk = atr /\ st' = reset st (l_epoch st + 1) nv.
Proof. exact seal_state. Qed.

Theorem C09_reset_state : forall st ep nv,
  let st' := reset st ep nv in
  l_epoch st' = ep /\ l_vals st' = nv /\ l_ldf st' = 0 /\ l_roots st' = [] /\ l_conf st' = [] /\
  l_idx st' = init (length nv) /\ l_fcc st' = [] /\ l_el st' = el_reset nv 1 /\ l_ctr st' = l_ctr st.
Proof. exact reset_fields. Qed.

(* an instance reset directly to that epoch and validator set is in the same state up to the counter of
   speculative builds (which only names temporary events: C04_build_any_history) *)
Theorem C09_reset_equivalence : forall st1 st2 ep nv, reset st1 ep nv = set_ctr (reset st2 ep nv) (l_ctr st1).
Proof. exact reset_forgets. Qed.

(* every Process call: the emitted blocks have consecutive frames starting at LastDecidedFrame+1, a sealing
   block is the last block of the call (no further block of the old epoch), after it the epoch number is
   one higher and no frame is decided -- so the next blocks are numbered from frame 1 -- and without a
   seal epoch and validators are unchanged and LastDecidedFrame advanced by the number of blocks *)
Theorem C09_process_blocks : forall cap end_block es st e r bl st',
  elinv st -> process cap end_block es st e = (r, bl, st') -> call_post st bl st'.
Proof. exact process_frames. Qed.

(* audit-F: ... and when the call seals, the sealing block is the LAST block, the validator set of the
   resulting state is exactly the set EndBlock returned for it, the epoch is the old one plus one, and no
   frame is decided, no root, confirmed mark, index entry or cached answer of the old epoch survives *)
Theorem C09_sealing_call : forall cap eb es st e r bl st', elinv st -> process cap eb es st e = (r, bl, st') ->
  sealed_last bl = true ->
  exists pre b nv, bl = pre ++ [b] /\ b_seal b = Some nv /\ l_vals st' = nv /\ l_epoch st' = l_epoch st + 1 /\
                   l_ldf st' = 0 /\ l_roots st' = [] /\ l_conf st' = [] /\ l_fcc st' = [] /\ l_idx st' = init (length nv).
Proof. exact process_seal_vals. Qed.

(* the invariant [elinv] (election decides frame LastDecidedFrame+1) holds initially, after Reset, and is
   re-established by every call (it is part of call_post) *)
Theorem C09_elinv_genesis_reset : forall ep v st, elinv (genesis ep v) /\ elinv (reset st ep v).
Proof. intros; split; reflexivity. Qed.

(* ... and in every state an instance reaches by ANY sequence of operations (Process incl. rejected and
   ghost events, Build, restart, Reset, probes), so C09_process_blocks applies to every call of every run *)
Theorem C09_invariants_hold_on_every_run : forall cap pol smp epoch raw ops,
  good (i_st (run_inst cap pol smp (start epoch raw) ops)).
Proof. intros. apply run_good. apply start_good. Qed.

(* non-vacuity: a run that seals (one validator, seal at frame 1, new validator 8) and then decides frame 1
   of the new epoch; the trace specification holds on it *)
Example C09_sealing_run :
  match nth_error s_run 2 with Some (ObsP None bl 0 2) => sealed_last bl | _ => false end = true /\
  match nth_error s_run 5 with Some (ObsP None bl 1 2) => map b_frame bl | _ => [] end = [1] /\
  c02_trace (chk_start 1 s_vals) (combine s_ops s_run) = true.
Proof. vm_compute. repeat split. Qed.

Print Assumptions C09_seal_is_reset.
Print Assumptions C09_reset_state.
Print Assumptions C09_reset_equivalence.
Print Assumptions C09_process_blocks.
Print Assumptions C09_sealing_call.
Print Assumptions C09_elinv_genesis_reset.
Print Assumptions C09_invariants_hold_on_every_run.

(* ================= C09 through L1 over epochs (worker link; proofs/LinkEpochs*.v) =================
   (1) one epoch of the model with the sealing policy = one element of reference_epochs; when the reference
       seals, the instance left behind is the one an epoch starts with (epoch+1, exactly the validators of the
       policy, LastDecidedFrame 0, empty root table / confirmed marks / index / forkless-cause cache, fresh
       election; only the Build counter and the application's event store survive) — fresh_inst;
   (2) from ANY instance, after Reset(epoch, validators) the run over the epochs' events equals the reference;
   (3) hence the instance that reached an epoch by sealing and an instance Reset to that epoch and validator
       set are observationally equal on the new epochs' events (any confirmed marks, counter, event store). *)
From LV Require Import spec.ElectionSpec proofs.BftProps proofs.LinkVals proofs.LinkPerm proofs.LinkDefs
  proofs.LinkEpoch proofs.LinkSeal proofs.LinkEpochs proofs.LinkEpochsCor proofs.LinkEpochsExample proofs.LinkExample.

Theorem C09_epoch_matches_reference_and_seals_to_fresh_instance :
  forall cap ep lam vals, raw_ok vals -> v_total vals < 2 ^ 31 ->
  forall K pol seal nvs, (forall f a ch dl, policy_fn pol ep f a ch dl = if f =? seal then Some nvs else None) ->
  forall D conf c es, valid_run vals D -> (forall e, In e D -> id_fresh K (eid (fe e))) -> c + N.of_nat (length D) <= K -> K < 2 ^ 192 ->
  let i0 := fresh_inst ep (mk_vals vals) conf c es in let ops := abft_ops ep lam vals D in
  let i' := run_inst cap pol sample i0 ops in
  render_ep (run cap pol sample i0 ops) = (fst (fst (ref_epoch seal vals D)), snd (fst (ref_epoch seal vals D))) /\
  (if snd (ref_epoch seal vals D)
   then exists c' es' conf', i' = fresh_inst (ep + 1) nvs conf' c' es' /\ c' <= c + N.of_nat (length D)
   else l_epoch (i_st i') = ep).
Proof. exact epoch_raw. Qed.

Theorem C09_reset_then_run_equals_reference : forall cap lam pol seal polr K i ep vals Ds, K < 2 ^ 192 ->
  epochs_ok seal polr vals ep Ds -> pol_ok pol seal polr vals ep (length Ds) ->
  (forall D e, In D Ds -> In e D -> id_fresh K (eid (fe e))) -> l_ctr (i_st i) + N.of_nat (total_events Ds) <= K ->
  model_epochs cap lam pol polr (snd (fst (step cap pol sample i (OpReset ep vals)))) vals ep Ds = reference_epochs seal polr vals ep Ds.
Proof. exact link_after_reset. Qed.

Theorem C09_sealed_instance_equals_reset_instance : forall cap lam pol seal polr K ep vals Ds conf1 c1 es1 conf2 c2 es2, K < 2 ^ 192 ->
  epochs_ok seal polr vals ep Ds -> pol_ok pol seal polr vals ep (length Ds) ->
  (forall D e, In D Ds -> In e D -> id_fresh K (eid (fe e))) ->
  c1 + N.of_nat (total_events Ds) <= K -> c2 + N.of_nat (total_events Ds) <= K ->
  model_epochs cap lam pol polr (fresh_inst ep (mk_vals vals) conf1 c1 es1) vals ep Ds =
  model_epochs cap lam pol polr (fresh_inst ep (mk_vals vals) conf2 c2 es2) vals ep Ds.
Proof. exact sealed_equals_reset. Qed.

(* non-vacuity: the two-epoch run of props/C10.v (both epochs seal) satisfies the hypotheses of the theorems
   above (epochs_ok, pol_ok) and equals the reference.  The Reset theorem applied to a USED instance of that
   run is C09_reset_example further down (round 3). *)
Example C09_link_example :
  epochs_ok 1 0 ex_vals 1 me_Ds /\ pol_ok (mk_policy 1 0 ex_vals 1 2) 1 0 ex_vals 1 (length me_Ds) /\
  model_epochs 200 (fun _ => 0) (mk_policy 1 0 ex_vals 1 2) 0 (start 1 ex_vals) ex_vals 1 me_Ds = reference_epochs 1 0 ex_vals 1 me_Ds.
Proof. exact (conj me_ok (conj me_reset_pol me_refines_by_evaluation)). Qed.

Print Assumptions C09_epoch_matches_reference_and_seals_to_fresh_instance.
Print Assumptions C09_reset_then_run_equals_reference.
Print Assumptions C09_sealed_instance_equals_reset_instance.

(* ================= Round 3 (worker link): arbitrary policies, Reset, more observations =================
   (proofs/LinkEpochsX.v, LinkXCor.v)  The policy is an arbitrary list of (epoch, frame) -> validators handed
   over by the application: a different sealing frame and a different validator list in every epoch.
   C09_epochs_under_any_policy: the run of the model over the epochs equals the reference walk; compared are,
   besides verdicts and blocks: the epoch and decided frame that every Process reports ((0, epoch + 1) for the
   sealing call: the new epoch is numbered from frame 1, no decided frame), for every block the validators it
   seals to (b_seal = exactly the set the policy returned, mk_vals of it), the validators of the instance
   after the seal, code 7 (not fed) for the rest of the old epoch.  Noise, restarts, rejected events and
   Process-only feeding are allowed (epochs_ok_x: on the input only).
   C09_reset_then_run_under_any_policy: from ANY instance, after Reset(epoch, validators) the run over the
   following epochs equals the reference walk from that epoch: a Reset instance and the instance that a
   sealing block leaves behind cannot be told apart. *)
From LV Require Import proofs.LinkReject proofs.LinkX proofs.LinkEpochsX proofs.LinkXCheck proofs.LinkXCor proofs.LinkXExample proofs.LinkXCorExample.

Theorem C09_epochs_under_any_policy : forall cap lam pol vals Ss K,
  vals <> [] -> epochs_ok_x pol K vals 1 Ss -> N.of_nat (total_builds Ss) <= K -> K < 2 ^ 192 ->
  model_epochs_x cap lam pol (start 1 vals) vals 1 Ss =
  map (fun r => (fst (fst r), snd (fst r), option_map mk_vals (snd r))) (ref_epochs_x pol vals 1 Ss).
Proof. exact link_x. Qed.

Theorem C09_reset_then_run_under_any_policy : forall cap lam pol K i ep vals Ss, K < 2 ^ 192 -> vals <> [] ->
  epochs_ok_x pol K vals ep Ss -> l_ctr (i_st i) + N.of_nat (total_builds Ss) <= K ->
  model_epochs_x cap lam pol (snd (fst (step cap pol sample i (OpReset ep vals)))) vals ep Ss =
  map (fun r => (fst (fst r), snd (fst r), option_map mk_vals (snd r))) (ref_epochs_x pol vals ep Ss).
Proof. exact link_x_after_reset. Qed.

(* the three-epoch run: epoch 1 seals at frame 2 to re-weighted validators in another order, epoch 2 seals at
   frame 1 back to the first list, epoch 3 is not sealed; then a used instance (epoch 2, other validators,
   37 events stored) is Reset to epoch 1 and gives the same result again *)
Example C09_any_policy_example :
  xx_pol = [((1, 2), xx_vals2); ((2, 1), ex_vals)] /\ mk_vals xx_vals2 <> mk_vals ex_vals /\
  epochs_ok_xb xx_pol 400 ex_vals 1 xx_Ss = true /\
  map (fun r => (snd (fst r), snd r)) (ref_epochs_x xx_pol ex_vals 1 xx_Ss) =
    [ ([(1, 1000, [], None); (2, 1015, [37094], Some (mk_vals xx_vals2))], Some xx_vals2);
      ([(1, 3002, [], Some (mk_vals ex_vals))], Some ex_vals);
      ([(1, 5000, [], None); (2, 5015, [37094], None)], None) ] /\
  model_epochs_x 3 xx_lam xx_pol (start 1 ex_vals) ex_vals 1 xx_Ss =
    map (fun r => (fst (fst r), snd (fst r), option_map mk_vals (snd r))) (ref_epochs_x xx_pol ex_vals 1 xx_Ss) /\
  (l_epoch (i_st xx_used) = 2 /\ l_vals (i_st xx_used) = mk_vals xx_vals2 /\ length (i_es xx_used) = 37%nat) /\
  model_epochs_x 3 xx_lam xx_pol (snd (fst (step 3 xx_pol sample xx_used (OpReset 1 ex_vals)))) ex_vals 1 xx_Ss =
    map (fun r => (fst (fst r), snd (fst r), option_map mk_vals (snd r))) (ref_epochs_x xx_pol ex_vals 1 xx_Ss).
Proof.
  split; [reflexivity|]. split; [vm_compute; discriminate|]. split; [exact xx_input_ok|]. split; [vm_compute; reflexivity|].
  split; [exact xx_refines_by_evaluation|]. split; [exact xx_used_state | exact xx_after_reset].
Qed.

(* C09_reset_then_run_equals_reference (round 2) applied to a used instance of the two-epoch run *)
Example C09_reset_example :
  l_epoch (i_st me_used) = 2 /\ l_ctr (i_st me_used) = 23 /\
  model_epochs 200 (fun _ => 0) me_pol 0 (snd (fst (step 200 me_pol sample me_used (OpReset 1 ex_vals)))) ex_vals 1 me_Ds =
  reference_epochs 1 0 ex_vals 1 me_Ds.
Proof. exact (conj (proj1 me_used_state) (conj (proj2 me_used_state) me_after_reset)). Qed.

Print Assumptions C09_epochs_under_any_policy.
Print Assumptions C09_reset_then_run_under_any_policy.
