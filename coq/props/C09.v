(* C09 -- Epoch sealing switches cleanly to the new validator set.
   Statements only; proofs in proofs/AbftSeal.v AbftProcess.v (AbftSealWitness.v for the example). *)
From Coq Require Import NArith List.
From LV Require Import model.VecIndex model.Abft model.AbftRun spec.AbftSpec
  proofs.AbftSeal proofs.AbftProcess proofs.AbftRunInv proofs.AbftSealVals proofs.AbftSealWitness.
Import ListNotations.
Local Open Scope N_scope.

(* When EndBlock returns a validator set, the instance is in the next epoch with exactly that set, no
   decided frame, empty roots / confirmed marks / vector index / forkless-cause cache and a fresh election:
   it is LITERALLY the state Orderer.Reset(epoch+1, validators) produces. *)
Theorem C09_seal_is_reset : forall end_block es st f atr blk st',
  on_frame_decided end_block es st f atr = (Ok (true, blk), st') ->
  exists nv, b_seal blk = Some nv /\ b_frame blk = f /\ b_atropos blk = atr /\ st' = reset st (l_epoch st + 1) nv.
Proof. exact seal_state. Qed.

Theorem C09_reset_state : forall st ep nv,
  let st' := reset st ep nv in
  l_epoch st' = ep /\ l_vals st' = nv /\ l_ldf st' = 0 /\ l_roots st' = [] /\ l_conf st' = [] /\
  l_idx st' = init (length nv) /\ l_fcc st' = [] /\ l_el st' = el_reset nv 1 /\ l_ctr st' = l_ctr st.
Proof. exact reset_fields. Qed.

(* an instance reset directly to that epoch and validator set is in the same state up to the counter of
   speculative builds (which only names temporary events: C04_build_any_history) *)
Theorem C09_reset_equivalence : forall st1 st2 ep nv, reset st1 ep nv = set_ctr (reset st2 ep nv) (l_ctr st1).
Proof. exact reset_forgets. Qed.

(* every Process call: the emitted blocks have consecutive frames starting at LastDecidedFrame+1, a sealing
   block is the last block of the call (no further block of the old epoch), after it the epoch number is
   one higher and no frame is decided -- so the next blocks are numbered from frame 1 -- and without a
   seal epoch and validators are unchanged and LastDecidedFrame advanced by the number of blocks *)
Theorem C09_process_blocks : forall cap end_block es st e r bl st',
  elinv st -> process cap end_block es st e = (r, bl, st') -> call_post st bl st'.
Proof. exact process_frames. Qed.

(* audit-F: ... and when the call seals, the sealing block is the LAST block, the validator set of the
   resulting state is exactly the set EndBlock returned for it, the epoch is the old one plus one, and no
   frame is decided, no root, confirmed mark, index entry or cached answer of the old epoch survives *)
Theorem C09_sealing_call : forall cap eb es st e r bl st', elinv st -> process cap eb es st e = (r, bl, st') ->
  sealed_last bl = true ->
  exists pre b nv, bl = pre ++ [b] /\ b_seal b = Some nv /\ l_vals st' = nv /\ l_epoch st' = l_epoch st + 1 /\
                   l_ldf st' = 0 /\ l_roots st' = [] /\ l_conf st' = [] /\ l_fcc st' = [] /\ l_idx st' = init (length nv).
Proof. exact process_seal_vals. Qed.

(* the invariant [elinv] (election decides frame LastDecidedFrame+1) holds initially, after Reset, and is
   re-established by every call (it is part of call_post) *)
Theorem C09_elinv_genesis_reset : forall ep v st, elinv (genesis ep v) /\ elinv (reset st ep v).
Proof. intros; split; reflexivity. Qed.

(* ... and in every state an instance reaches by ANY sequence of operations (Process incl. rejected and
   ghost events, Build, restart, Reset, probes), so C09_process_blocks applies to every call of every run *)
Theorem C09_invariants_hold_on_every_run : forall cap pol smp epoch raw ops,
  good (i_st (run_inst cap pol smp (start epoch raw) ops)).
Proof. intros. apply run_good. apply start_good. Qed.

(* non-vacuity: a run that seals (one validator, seal at frame 1, new validator 8) and then decides frame 1
   of the new epoch; the trace specification holds on it *)
Example C09_sealing_run :
  match nth_error s_run 2 with Some (ObsP None bl 0 2) => sealed_last bl | _ => false end = true /\
  match nth_error s_run 5 with Some (ObsP None bl 1 2) => map b_frame bl | _ => [] end = [1] /\
  c02_trace (chk_start 1 s_vals) (combine s_ops s_run) = true.
Proof. vm_compute. repeat split. Qed.

Print Assumptions C09_seal_is_reset.
Print Assumptions C09_reset_state.
Print Assumptions C09_reset_equivalence.
Print Assumptions C09_process_blocks.
Print Assumptions C09_sealing_call.
Print Assumptions C09_elinv_genesis_reset.
Print Assumptions C09_invariants_hold_on_every_run.
