(* C04 -- Frame rule: processing and building agree with the specification.
   Statements only; proofs in proofs/AbftIds.v AbftFrame.v AbftBuild.v AbftWitness.v (AbftOld.v for
   the refutation of the pinned sampler).  "fcp v s a b" is the vector index' forkless-cause answer;
   its equality with the graph definition (spec/FcSpec.v fc_spec) is C05 (worker vecidx) and is NOT
   assumed here: every statement below is about the index' own answers. *)
From Coq Require Import NArith List Bool.
From LV Require Import model.VecIndex spec.FcSpec model.Abft model.AbftRun
  proofs.VecInv proofs.VecStep proofs.AbftCount proofs.AbftFuel proofs.AbftRunInv proofs.AbftInv proofs.AbftInvStep proofs.AbftGraph
  proofs.AbftIds proofs.AbftFrame proofs.AbftBuild proofs.AbftWitness proofs.AbftOld.
Import ListNotations.
Local Open Scope N_scope.

(* the repaired temporary-id sampler never repeats: different build counters, different event ids *)
Theorem C04_sample_injective : forall c1 c2 t, sample c1 = Some t -> sample c2 = Some t -> c1 = c2.
Proof. exact sample_inj. Qed.
Theorem C04_temp_ids_distinct : forall e1 l1 c1 t1 e2 l2 c2 t2,
  sample c1 = Some t1 -> sample c2 = Some t2 -> mk_id_bytes e1 l1 t1 = mk_id_bytes e2 l2 t2 -> c1 = c2.
Proof. exact temp_id_inj. Qed.

(* Process: with coherent cached answers for the event, the call ends with ErrWrongFrame, no block and an
   unchanged state (up to the cache) when the claimed frame differs from the pure frame computation, and
   otherwise goes on to root registration and the election *)
Theorem C04_process_frame_check : forall cap end_block es st e s' spf fr,
  add (l_idx st) (vev (l_vals st) e) = Some s' ->
  cache_ok (a_id e) (set_idx st s') ->
  frame_pure es (l_vals st) s' (l_roots st) e true = Ok (spf, fr) ->
  exists c',
    (a_frame e <> fr -> process cap end_block es st e = (Err EWrongFrame, [], set_fcc st c')) /\
    (a_frame e = fr -> process cap end_block es st e = after_check cap end_block es (set_fcc (set_idx st s') c') e spf fr).
Proof. exact process_frame_check. Qed.

(* ... and the claimed frame passes exactly when it is allowed by the frame rule: 1 without a self-parent,
   otherwise >= the self-parent's frame with a quorum of forkless-causing roots at every frame in between *)
Theorem C04_process_iff_allowed : forall es v s roots e spf fr,
  frame_pure es v s roots e true = Ok (spf, fr) ->
  (forall r, In r roots -> r_frame r <> 0) ->
  (a_self_parent e <> None -> 1 <= spf) ->
  (a_frame e = fr <-> allowed_pure v s roots e spf (a_frame e)).
Proof. exact frame_check_iff_allowed. Qed.

(* the model's fuel is never exhausted by the frame loop *)
Theorem C04_frame_fuel_enough : forall es v s roots e co, frame_pure es v s roots e co <> Err EFuel.
Proof. exact frame_pure_not_fuel. Qed.

(* Build: the highest allowed frame, at most 100 above the self-parent's *)
Theorem C04_build_highest : forall es v s roots e spf fr,
  frame_pure es v s roots e false = Ok (spf, fr) ->
  (forall r, In r roots -> r_frame r <> 0) ->
  (a_self_parent e <> None -> 1 <= spf) ->
  allowed_pure v s roots e spf fr /\
  (a_self_parent e <> None -> fr = spf + 100 \/ qp v s roots (a_id e) fr = false).
Proof. exact build_frame_highest. Qed.

(* ... no matter which events were built before: after ANY history of Builds the result is the pure
   computation on the flushed state; only the counter (the temporary id) remembers the history.
   [real] = ids of processed events, none of which is a temporary id of a counter <= bound. *)
Theorem C04_build_any_history : forall cap (real : N -> Prop) bound,
  (forall a, real a -> ~ is_temp bound a) ->
  forall es st hist e, keys_inv real st -> l_ctr st + N.of_nat (length hist) + 1 <= bound ->
  fst (build cap es (builds cap es st hist) e) =
  build_pure es (l_vals st) (l_idx st) (l_roots st) (l_epoch st) (l_ctr st + N.of_nat (length hist) + 1) e.
Proof. exact build_any_history. Qed.

(* built then processed is accepted (the index answering alike for the temporary and the final id) *)
Theorem C04_built_then_processed : forall es v s1 s2 roots e1 e2 spf fr,
  frame_pure es v s1 roots e1 false = Ok (spf, fr) ->
  a_self_parent e2 = a_self_parent e1 -> a_frame e2 = fr ->
  (forall g, qp v s2 roots (a_id e2) g = qp v s1 roots (a_id e1) g) ->
  (forall r, In r roots -> r_frame r <> 0) ->
  (a_self_parent e1 <> None -> 1 <= spf) ->
  exists fr', frame_pure es v s2 roots e2 true = Ok (spf, fr') /\ a_frame e2 = fr'.
Proof. exact built_then_processed. Qed.

(* ================= Round 2: the statements over the GRAPH definition =================
   J (proofs/AbftInv.v) ties the state to the graph of accepted events: the index satisfies worker vecidx'
   invariant (so fc = FcSpec.fc_spec and merged = merged_spec: C05/C06), indexed ids = accepted ids, the root
   table = the root slots {(g, creator e, id e) | self-parent frame(e) < g <= frame(e), e accepted}.
   J holds at genesis and is preserved by every operation (C04_J_on_every_run) when the events that pass the
   application guard are well-formed for the index ([wf_new], the eventcheck facts: hypothesis of C05).
   quorum_graph i E a g = "the validators owning an accepted event that is a root slot of frame g and
   forkless-causes a (fc_spec on E) hold a quorum"; allowed_graph = the frame rule over it. *)
(* audit-F issue 9: the quorum test of forklessCausedByQuorumOn (counter, early break, validator index) IS
   "quorum <= total weight of the distinct validators owning a root of the frame that forkless-causes a" *)
Theorem C04_quorum_is_weight_of_validators : forall v, NoDup (v_ids v) -> forall s roots a g,
  (forall r, In r roots -> v_exists v (r_val r) = true) ->
  qp v s roots a g =
  (v_quorum v <=? vsum v (fun id => existsb (fun r => (r_val r =? id) && fcp v s a (r_id r)) (roots_of roots g))).
Proof. exact qp_is_weight. Qed.
Theorem C04_build_never_out_of_fuel : forall cap smp es st e, fst (build_with cap smp es st e) <> Err EFuel.
Proof. intros cap. exact (build_never_out_of_fuel cap (fun _ _ _ _ _ => None)). Qed.

Theorem C04_process_iff_allowed_graph : forall cap eb i e, J i -> guard i e true = None ->
  wf_new (length (l_vals (i_st i))) (l_idx (i_st i)) (vev (l_vals (i_st i)) e) ->
  exists s', add (l_idx (i_st i)) (vev (l_vals (i_st i)) e) = Some s' /\
    vinv (length (l_vals (i_st i))) s' /\
    evs s' = (a_id e, vev (l_vals (i_st i)) e) :: evs (l_idx (i_st i)) /\
    (cache_ok (a_id e) (set_idx (i_st i) s') ->
     (fst (fst (process cap eb (aput (a_id e) e (i_es i)) (i_st i) e)) = Err EWrongFrame <->
      ~ allowed_graph i (evs s') e (spf_in (i_es i) e) (a_frame e))).
Proof. exact process_iff_allowed_graph. Qed.

Theorem C04_build_highest_graph : forall i s' e spf fr, J i ->
  vinv (length (l_vals (i_st i))) s' -> evs s' = (a_id e, vev (l_vals (i_st i)) e) :: evs (l_idx (i_st i)) ->
  frame_pure (i_es i) (l_vals (i_st i)) s' (l_roots (i_st i)) e false = Ok (spf, fr) ->
  (a_self_parent e <> None -> 1 <= spf) ->
  allowed_graph i (evs s') e spf fr /\
  (a_self_parent e <> None -> fr = spf + 100 \/ quorum_graph i (evs s') (a_id e) fr = false).
Proof. exact build_highest_graph. Qed.

(* the invariants hold before every operation of every run in which nothing died (crit) before *)
Theorem C04_J_on_every_run : forall cap pol smp epoch raw ops,
  ops_wf cap pol smp (start epoch raw) ops -> alive cap pol smp (start epoch raw) ops ->
  J (run_inst cap pol smp (start epoch raw) ops) /\ good (i_st (run_inst cap pol smp (start epoch raw) ops)).
Proof. intros. apply run_J; auto; [apply start_J | apply start_good]. Qed.

(* non-vacuity of the round-2 hypotheses: at genesis J holds, the first witness event passes the guard and is
   well-formed for the (empty) index *)
Example C04_graph_hypotheses_satisfiable :
  J (start 1 w_vals) /\ guard (start 1 w_vals) a1 true = None /\
  wf_new (length (l_vals (i_st (start 1 w_vals)))) (l_idx (i_st (start 1 w_vals))) (vev (l_vals (i_st (start 1 w_vals))) a1).
Proof.
  split; [apply start_J|]. split; [vm_compute; reflexivity|].
  unfold wf_new. split; [reflexivity|]. split; [vm_compute; repeat constructor|]. split; [vm_compute; discriminate|].
  split; [intros p []|]. reflexivity.
Qed.

(* non-vacuity: the hypotheses of C04_build_any_history hold on a concrete state with six processed
   events (ids with tail byte 0x80, as the harness draws them) and counters below 2^191, and the
   theorem's conclusion there is "frame 2 after 255 earlier builds" *)
Example C04_hypotheses_satisfiable :
  keys_inv w_real w_state /\ (forall a, w_real a -> ~ is_temp w_bound a) /\
  l_ctr w_state + N.of_nat (length (x12 :: repeat cheap 254)) + 1 <= w_bound /\
  fst (build 200 (i_es w_inst) (builds 200 (i_es w_inst) w_state (x12 :: repeat cheap 254)) x123) = Ok 2.
Proof.
  split; [exact w_keys_inv|]. split; [exact w_real_not_temp|]. split; [vm_compute; discriminate|exact w_build_after_history].
Qed.

Print Assumptions C04_sample_injective.
Print Assumptions C04_temp_ids_distinct.
Print Assumptions C04_process_frame_check.
Print Assumptions C04_process_iff_allowed.
Print Assumptions C04_frame_fuel_enough.
Print Assumptions C04_build_highest.
Print Assumptions C04_build_any_history.
Print Assumptions C04_built_then_processed.
Print Assumptions C04_quorum_is_weight_of_validators.
Print Assumptions C04_build_never_out_of_fuel.
Print Assumptions C04_process_iff_allowed_graph.
Print Assumptions C04_build_highest_graph.
Print Assumptions C04_J_on_every_run.

(* ---- the quorum test is a function of the SET of the frame's roots (proofs/AbftRootOrder.v) ---- *)
From LV Require proofs.AbftRootOrder.
Theorem C04_quorum_ignores_root_order : forall v, NoDup (v_ids v) -> forall s roots roots' a g,
  (forall r, In r roots -> v_exists v (r_val r) = true) ->
  (forall r, In r roots <-> In r roots') ->
  qp v s roots a g = qp v s roots' a g.
Proof. exact proofs.AbftRootOrder.qp_same_roots. Qed.
Print Assumptions C04_quorum_ignores_root_order.
