(* C22 — Flushable store is the underlying store overlaid with unflushed writes.
   [Flu o u] is flushable.Wrap over ANY stack of stores u; [o] is the overlay tree (strictly
   ascending, None = tombstone); [view u] is the abstract ordered map of the parent and
   [merge_overlay o m] = m with the overlay's writes applied (tombstones delete).
   Only statements, each closed by [exact]; Print Assumptions at the end. *)
From Coq Require Import NArith List Bool.
From LV Require Import lib.Bytes lib.Lex lib.SortedMap spec.KvSpec spec.KvOps spec.KvStackSpec
  model.PrefixRange model.Table model.Flushable model.KvStack
  proofs.FlushableIter proofs.KvStackReads proofs.KvStackWrites proofs.KvStackViews proofs.KvStackRefine proofs.KvExamples model.FlushableHeap proofs.FlushableHeapProofs.
Import ListNotations.
Local Open Scope N_scope.

(* get / has read the view *)
Theorem C22_get : forall o u k, wf_st (Flu o u) ->
  st_get (Flu o u) k = kv_get (merge_overlay o (view u)) k.
Proof. exact (fun o u k W => st_get_view (Flu o u) k W). Qed.
Theorem C22_has : forall o u k, wf_st (Flu o u) ->
  st_has (Flu o u) k = kv_has (merge_overlay o (view u)) k.
Proof. exact (fun o u k W => st_has_view (Flu o u) k W). Qed.

(* the merged iterator as coded (flushableIterator.init/Next) over a parent iterator that yields
   the parent's (prefix,start)-filter: exactly the ascending filter of the overlaid map, for all
   tree and parent sizes, all prefixes (nil or not) and all start keys *)
Theorem C22_merged_iterator : forall (o : tree) (mu : kvmap) (prefix start : okey),
  sm_sorted o -> sm_sorted mu ->
  flu_iterate o (kv_iterate mu (ob prefix) (ob start)) prefix start =
  kv_iterate (merge_overlay o mu) (ob prefix) (ob start).
Proof. exact flu_iterate_spec. Qed.
(* one Next call never runs out of its internal fuel and returns the head of what remains *)
Theorem C22_next_step : forall prefix fuel s, (fit_size s < fuel)%nat -> Inv prefix s ->
  next_ok prefix s (fit_next fuel prefix s).
Proof. exact fit_next_spec. Qed.
(* the drain loop never reports out-of-fuel (None) for the fuel the model uses *)
Theorem C22_collect_total : forall prefix n s, (fit_size s < n)%nat -> Inv prefix s ->
  fit_collect n prefix s = Some (spec_rest prefix s).
Proof. exact fit_collect_spec. Qed.
(* over any parent stack *)
Theorem C22_iterate : forall o u P S, wf_st (Flu o u) -> wf_bytes (ob P) = true ->
  st_iter (Flu o u) P S = kv_iterate (merge_overlay o (view u)) (ob P) (ob S).
Proof. exact (fun o u P S W WP => st_iter_view (Flu o u) P S W WP). Qed.

(* puts, deletes and batch writes act on the view as on the abstract map *)
Theorem C22_write : forall o u ops, wf_st (Flu o u) -> Forall wop_wf ops ->
  view (st_write (Flu o u) ops) = kv_write (merge_overlay o (view u)) ops /\ wf_st (st_write (Flu o u) ops).
Proof. exact (fun o u ops W F => view_write (Flu o u) ops W F). Qed.

(* Flush: the parent becomes equal to the view and the overlay is empty, for every IdealBatchSize *)
Theorem C22_flush : forall ideal o u, wf_st (Flu o u) ->
  exists u', st_flush ideal (Flu o u) = Flu [] u' /\ view u' = merge_overlay o (view u) /\ wf_st u'.
Proof. exact view_flush. Qed.
(* LazyFlushable: reads see only the overlay until the first Flush; that Flush installs the produced
   store u and makes it equal to u's content overlaid with the unflushed writes *)
Theorem C22_lazy_before_flush : forall o u, view (Lzy o false u) = merge_overlay o [].
Proof. reflexivity. Qed.
(* InitUnderlyingDb without a flush (SyncedPool.Initialize / GetUnderlying): the reader is re-pointed,
   reads / iteration / snapshots see the overlay over the produced store, whatever it contains *)
Theorem C22_lazy_init : forall o i u, view (st_init (Lzy o i u)) = merge_overlay o (view u) /\
  (wf_st (Lzy o i u) -> wf_st (st_init (Lzy o i u))).
Proof. exact view_lazy_init. Qed.
Theorem C22_lazy_init_get : forall o i u k, wf_st (Lzy o i u) ->
  st_get (st_init (Lzy o i u)) k = kv_get (merge_overlay o (view u)) k.
Proof. exact (fun o i u k W => st_get_view (Lzy o true u) k W). Qed.
Theorem C22_lazy_flush : forall ideal o i u, wf_st (Lzy o i u) ->
  exists u', st_flush ideal (Lzy o i u) = Lzy [] true u' /\ view u' = merge_overlay o (view u) /\ wf_st u'.
Proof. exact view_lazy_flush. Qed.
(* DropNotFlushed restores the parent's view *)
Theorem C22_drop : forall o u, view (st_drop (Flu o u)) = view u.
Proof. exact view_drop. Qed.

(* NotFlushedPairs = number of distinct keys in the log of writes the overlay stands for *)
Theorem C22_not_flushed_pairs : forall (o : tree) log, sm_sorted o -> (forall k, sm_get o k = lastw log k) ->
  flu_size o = kv_log_keys log.
Proof. exact nfp_is_distinct_keys. Qed.

(* Snapshots, mechanism: over the MUTABLE-object model (tree objects mutated in place by
   Put/Delete/Clear, engine with live content and immutable snapshots) the object built by
   GetSnapshot as coded — a copy of the tree in a NEW object + the parent's SNAPSHOT — reads, after
   any later puts, deletes, flushes, drops, direct parent writes and further snapshots, exactly what
   the store read when it was taken; and that is what the run model's snapshot value reads.
   (Sharing the tree object or reading through the live parent is refuted in
   proofs/FlushableHeapProofs.v: snapshot_shared_tree_refuted, snapshot_live_parent_refuted.) *)
Theorem C22_snapshot_immutable : forall t H ops, (t < length (h_trees H))%nat ->
  let '(H1, sn) := get_snapshot t H in
  forall k p s,
    snap_get (hrun t H1 ops) sn k = store_get t H k /\
    snap_iter (hrun t H1 ops) sn p s = store_iter t H p s.
Proof. exact snapshot_is_immutable. Qed.
Theorem C22_snapshot_matches_run_model : forall e t H ops k, (t < length (h_trees H))%nat ->
  snap_get (hrun t (fst (get_snapshot t H)) ops) (snd (get_snapshot t H)) k = st_get (heap_abs e t H) k.
Proof. exact snapshot_matches_run_model. Qed.
Theorem C22_heap_model_is_run_model : forall e ideal t H o, (t < length (h_trees H))%nat ->
  heap_abs e t (hstep t H o) =
  match o with
  | HPut k v => st_put (heap_abs e t H) k v
  | HDel k => st_del (heap_abs e t H) k
  | HFlush => st_flush ideal (heap_abs e t H)
  | HDrop => st_drop (heap_abs e t H)
  | HParentPut k v => st_upd 1 (fun u => st_put u k v) (heap_abs e t H)
  | HParentDel k => st_upd 1 (fun u => st_del u k) (heap_abs e t H)
  | HSnapshot => heap_abs e t H
  end.
Proof. exact heap_abs_step. Qed.

(* all reachable states, snapshots included: for every op sequence (puts, deletes, batches, reads,
   iterations, flushes, drops, NotFlushedPairs, snapshots and later reads of them, at every level of
   every stack) the model run equals the specification run, in which a flushable is its parent's
   map overlaid with the LOG of writes since the last flush/drop, NotFlushedPairs is the number of
   distinct keys of that log and a snapshot is the map value at the time it was taken *)
Theorem C22_histories : forall lsafe ideal s0 ss0 ops, R s0 ss0 -> Forall op_wf ops ->
  map erase (run lsafe ideal s0 ops) = spec_run lsafe ss0 ops.
Proof. exact run_refines. Qed.

(* non-vacuity *)
Example C22_ex_state :
  let o : tree := [([0], None); ([97], Some [1]); ([255; 255], Some [])] in
  let u := Eng EPbl [([0], [9]); ([97; 0], [2]); ([255], [3])] in
  wf_st (Flu o u) /\
  view (Flu o u) = [([97], [1]); ([97; 0], [2]); ([255], [3]); ([255; 255], [])] /\
  st_iter (Flu o u) (Some [255]) None = [([255], [3]); ([255; 255], [])] /\
  st_get (Flu o u) [0] = None /\ st_nfp (Flu o u) = Some 3%nat.
Proof. vm_compute. repeat split; repeat constructor. Qed.
Example C22_ex_lazy_init :
  let z := Lzy [([97], Some [1]); ([98], None)] false (Eng ELdb [([98], [2]); ([99], [3])]) in
  view z = [([97], [1])] /\ view (st_init z) = [([97], [1]); ([99], [3])] /\
  st_iter (st_init z) None None = [([97], [1]); ([99], [3])] /\ st_nfp (st_init z) = Some 2%nat.
Proof. vm_compute. repeat split. Qed.
Example C22_ex_heap :
  let H := {| h_trees := [[([97], Some [1])]]; h_cur := [([98], [2])]; h_snaps := [] |} in
  snap_get (hrun 0 (fst (get_snapshot 0 H)) [HPut [98] [3]; HFlush; HDel [97]; HDrop; HParentDel [98]])
           (snd (get_snapshot 0 H)) [98] = Some [2] /\
  store_get 0 (hrun 0 (fst (get_snapshot 0 H)) [HPut [98] [3]; HFlush; HDel [97]; HDrop; HParentDel [98]]) [98] = None.
Proof. split; vm_compute; reflexivity. Qed.
Example C22_ex_R :
  R (Flu [([0], None); ([97], Some [1])] (Mem [])) (SFlu [WPut [97] [5]; WDel [0]; WPut [97] [1]] (SEng [])).
Proof. exact ex_R_flu. Qed.
Example C22_ex_inv :
  Inv (Some [97]) {| f_tree := [([97; 1], Some [1])]; f_par := [([97; 0], [2])]; f_prev := Some [97] |}.
Proof. exact ex_inv. Qed.

Print Assumptions C22_get.
Print Assumptions C22_has.
Print Assumptions C22_merged_iterator.
Print Assumptions C22_next_step.
Print Assumptions C22_collect_total.
Print Assumptions C22_iterate.
Print Assumptions C22_write.
Print Assumptions C22_flush.
Print Assumptions C22_lazy_before_flush.
Print Assumptions C22_lazy_init.
Print Assumptions C22_lazy_init_get.
Print Assumptions C22_lazy_flush.
Print Assumptions C22_drop.
Print Assumptions C22_not_flushed_pairs.
Print Assumptions C22_snapshot_immutable.
Print Assumptions C22_snapshot_matches_run_model.
Print Assumptions C22_heap_model_is_run_model.
Print Assumptions C22_histories.
