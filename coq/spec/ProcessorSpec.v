(* Independent, executable statement of property C15 over the processor's callback log.

   Inputs: the script (batches with their events), which batches Enqueue refused (ErrBusy), the
   callback log (oldest first) and the sampled semaphore values.  Nothing here looks at the
   processor's mechanism (queues, channels, reassembly array, buffer). *)
From Coq Require Import NArith List Bool.
From LV Require Import model.Buffer model.Processor.
Import ListNotations.
Local Open Scope N_scope.

Definition is_done (l : list pout) (b : N) : bool :=
  existsb (fun o => match o with PDone b' => b' =? b | _ => false end) l.
Definition is_stopped (l : list pout) : bool :=
  existsb (fun o => match o with PStopped => true | _ => false end) l.
Definition released_count (l : list pout) (g : N) : nat :=
  length (filter (fun o => match o with PReleased g' _ _ => g' =? g | _ => false end) l).
Definition handles (l : list pout) : list N :=
  flat_map (fun o => match o with PHandle g => [g] | _ => [] end) l.
Definition processed_g (l : list pout) (g : N) : bool :=
  existsb (fun o => match o with PProcess g' _ _ => g' =? g | _ => false end) l.

Definition accepted (busy : list N) (bs : list batch) : list batch :=
  filter (fun b => negb (memN (b_id b) busy)) bs.
Definition all_events (bs : list batch) : list pevent := flat_map b_events bs.

(* P1: never two Released for one copy; once stopped, every event of every finished batch has
   exactly one — whatever its fate *)
Definition p1_check (bs : list batch) (l : list pout) : bool :=
  forallb (fun e => Nat.leb (released_count l (pg e)) 1) (all_events bs)
  && (negb (is_stopped l)
      || forallb (fun b => negb (is_done l (b_id b))
                           || forallb (fun e => Nat.eqb (released_count l (pg e)) 1) (b_events b)) bs).

(* P3: the events of an ordered batch enter `process` in batch order: at any time the handled ones
   are a prefix of the batch, and all of it once the batch is done *)
Definition eqN_list (a b : list N) : bool :=
  (Nat.eqb (length a) (length b)) && forallb (fun p => fst p =? snd p) (combine a b).
Definition handles_of (l : list pout) (b : batch) : list N :=
  filter (fun g => memN g (map pg (b_events b))) (handles l).
Definition p3_check (bs : list batch) (l : list pout) : bool :=
  forallb (fun b => negb (b_ordered b)
                    || (eqN_list (handles_of l b) (firstn (length (handles_of l b)) (map pg (b_events b)))
                        && (negb (is_done l (b_id b)) || eqN_list (handles_of l b) (map pg (b_events b))))) bs.

(* P4: an event whose Lamport time exceeds highest-known + 1 + limit.Num when it is handled is
   never handed to Process.  [highest-known] is recomputed here from the log: the initial value
   and the Lamport times of the successfully processed events so far. *)
Definition lamport_g (evs : list pevent) (g : N) : N :=
  match find (fun e => pg e =? g) evs with Some e => p_lamport e | None => 0 end.
Fixpoint p4_walk (evs : list pevent) (lim_n hl : N) (all : list pout) (l : list pout) : bool :=
  match l with
  | [] => true
  | PProcess g _ true :: r => p4_walk evs lim_n (N.max hl (lamport_g evs g)) all r
  | PHandle g :: r =>
    (negb (hl + 1 + lim_n <? lamport_g evs g) || negb (processed_g all g))
    && p4_walk evs lim_n hl all r
  | _ :: r => p4_walk evs lim_n hl all r
  end.

(* P2: what the semaphore holds = metric of accepted events minus metric of released events *)
Definition rel_metric (evs : list pevent) (l : list pout) : N * N :=
  fold_left (fun a o => match o with
                        | PReleased g _ _ =>
                          (fst a + 1, snd a + match find (fun e => pg e =? g) evs with
                                                | Some e => p_size e | None => 0 end)
                        | _ => a end) l (0, 0).
Definition acc_metric (bs : list batch) : N * N :=
  (N.of_nat (length (all_events bs)), fold_right (fun e a => p_size e + a) 0 (all_events bs)).
Definition p2_check (bs : list batch) (busy : list N) (l : list pout) (hn hs : N) : bool :=
  let acc := accepted busy bs in
  let '(an, asz) := acc_metric acc in
  let '(rn, rsz) := rel_metric (all_events acc) l in
  (rn + hn =? an) && (rsz + hs =? asz).

(* every PReleased / PProcess / PHandle names an event of an accepted batch *)
Definition p0_check (bs : list batch) (busy : list N) (l : list pout) : bool :=
  let gs := map pg (all_events (accepted busy bs)) in
  forallb (fun o => match o with
                    | PReleased g _ _ | PProcess g _ _ | PHandle g | PCheck g _ _ => memN g gs
                    | _ => true end) l.

(* lq = log up to the quiescent sample (qn,qs); l = whole log; (sn,ss) sampled after Stop *)
Definition c15_first_failure (lim_n h0 : N) (bs : list batch) (busy : list N)
           (lq l : list pout) (qn qs sn ss : N) (within_cap warned : bool) : N :=
  let evs := all_events bs in
  if negb (p0_check bs busy l) then 10
  else if negb (p1_check bs l) then 1
  else if negb (p2_check bs busy lq qn qs && p2_check bs busy l sn ss) then 2
  else if negb within_cap || warned then 20
  else if negb (p3_check bs l) then 3
  else if negb (p4_walk evs lim_n h0 l l) then 4
  else if is_stopped l && forallb (fun b => is_done l (b_id b)) (accepted busy bs)
          && negb ((sn =? 0) && (ss =? 0)) then 21
  else 0.
