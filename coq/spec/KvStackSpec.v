(* Specification of a stack of stores, written from the property statements, not from the code:
     - a base store (memory, leveldb, pebble) is an ordered map (KvSpec);
     - a flushable store is its parent's map overlaid with the LOG of writes made since the last
       flush / drop (C22); flushing writes the log to the parent and empties it; dropping
       empties it; the number of unflushed pairs is the number of distinct keys in the log;
     - a table with prefix p is the part of its parent whose keys start with p, with p removed,
       and its writes are the parent's writes at p ++ key (C24);
     - a synced store is its parent (C23);
     - a lazy flushable is a flushable whose parent counts as empty until its first flush;
     - a batch is the list of its operations in the caller's own keys; replay delivers them in
       insertion order; a snapshot is the map at the time it was taken;
     - compacting a whole table must ask the base for a range covering every key with the
       table's full prefix ([compact_covers], decided with Lex.prefix_succ).
   No tree, no tombstones, no merged iterator, no key slicing, no range glue. *)
From Coq Require Import NArith List Bool.
From LV Require Import lib.Bytes lib.Lex lib.SortedMap spec.KvSpec spec.KvOps.
Import ListNotations.

Inductive sst :=
| SEng (m : kvmap)
| SFlu (log : list wop) (u : sst)
| STab (p : key) (u : sst)
| SSyn (u : sst)
| SLzy (log : list wop) (init : bool) (u : sst).

Definition wop_pre (p : key) (o : wop) : wop :=
  match o with WPut k v => WPut (p ++ k) v | WDel k => WDel (p ++ k) end.

Fixpoint sview (s : sst) : kvmap :=
  match s with
  | SEng m => m
  | SFlu log u => kv_overlay_view log (sview u)
  | STab p u => kv_table_view p (sview u)
  | SSyn u => sview u
  | SLzy log i u => kv_overlay_view log (if i then sview u else [])
  end.

Fixpoint swrite (s : sst) (ops : list wop) : sst :=
  match s with
  | SEng m => SEng (kv_write m ops)
  | SFlu log u => SFlu (log ++ ops) u
  | STab p u => STab p (swrite u (map (wop_pre p) ops))
  | SSyn u => SSyn (swrite u ops)
  | SLzy log i u => SLzy (log ++ ops) i u
  end.

Definition sflush (s : sst) : sst :=
  match s with
  | SFlu log u => SFlu [] (swrite u log)
  | SLzy log _ u => SLzy [] true (swrite u log)
  | _ => s
  end.
(* InitUnderlyingDb: from now on the lazy flushable is its produced parent overlaid with the log *)
Definition sinit (s : sst) : sst := match s with SLzy log _ u => SLzy log true u | _ => s end.
Definition sdrop (s : sst) : sst :=
  match s with SFlu log u => SFlu [] u | SLzy log i u => SLzy [] i u | _ => s end.
Definition snfp (s : sst) : option nat :=
  match s with SFlu log _ => Some (kv_log_keys log) | SLzy log _ _ => Some (kv_log_keys log) | _ => None end.

Fixpoint ssub (d : nat) (s : sst) : sst :=
  match d with
  | O => s
  | S d' => match s with SFlu _ u => ssub d' u | STab _ u => ssub d' u | SSyn u => ssub d' u
            | SLzy _ _ u => ssub d' u | _ => s end
  end.
Fixpoint supd (d : nat) (f : sst -> sst) (s : sst) : sst :=
  match d with
  | O => f s
  | S d' => match s with
            | SFlu l u => SFlu l (supd d' f u)
            | STab p u => STab p (supd d' f u)
            | SSyn u => SSyn (supd d' f u)
            | SLzy l i u => SLzy l i (supd d' f u)
            | _ => f s
            end
  end.

(* the full prefix a handle's keys carry at the base *)
Fixpoint sprefix (s : sst) : key :=
  match s with
  | STab p u => sprefix u ++ p
  | SFlu _ u => sprefix u
  | SSyn u => sprefix u
  | SLzy _ _ u => sprefix u
  | _ => []
  end.


(* a [lo, hi) range (None hi = unbounded) covers every key with prefix P *)
Definition compact_covers (P : key) (lo hi : okey) : bool :=
  lex_leb (ob lo) P &&
  match hi with
  | None => true
  | Some h => match prefix_succ P with Some u => lex_leb u h | None => false end
  end.

Definition swrap (path : list key) (u : sst) : sst := fold_left (fun acc p => STab p acc) path u.
Fixpoint sunwrap (n : nat) (s : sst) : sst :=
  match n with O => s | S n' => match s with STab _ u => sunwrap n' u | _ => s end end.
Definition sh_view (h : handle) (s : sst) : sst := swrap (h_path h) (ssub (h_d h) s).
Definition sh_upd (h : handle) (f : sst -> sst) (s : sst) : sst :=
  supd (h_d h) (fun u => sunwrap (length (h_path h)) (f (swrap (h_path h) u))) s.

(* ---- the specification run of the operation language ---- *)
Record sstate := { ss_store : sst; ss_batches : list (handle * list wop); ss_snaps : list kvmap; ss_lives : lives }.

Definition sget_batch (r : sstate) (b : nat) : handle * list wop := nth b (ss_batches r) (h0, []).
Definition sset_batch (r : sstate) (b : nat) (x : handle * list wop) : sstate :=
  {| ss_store := ss_store r; ss_batches := set_nth b x (h0, []) (ss_batches r); ss_snaps := ss_snaps r;
     ss_lives := ss_lives r |}.
Definition sset_store (r : sstate) (s : sst) : sstate :=
  {| ss_store := s; ss_batches := ss_batches r; ss_snaps := ss_snaps r; ss_lives := ss_lives r |}.
Definition sset_lives (r : sstate) (l : lives) : sstate :=
  {| ss_store := ss_store r; ss_batches := ss_batches r; ss_snaps := ss_snaps r; ss_lives := l |}.

(* what the base must be asked to compact for Compact(nil, nil) on a handle; other ranges are
   not constrained by the property *)
Definition spec_run_op1 (r : sstate) (o : op) : sstate * list obs :=
  let s := ss_store r in
  match o with
  | OPut h k v => (sset_store r (sh_upd h (fun x => swrite x [WPut k v]) s), [])
  | ODel h k => (sset_store r (sh_upd h (fun x => swrite x [WDel k]) s), [])
  | OGet h k => (r, [BGet (kv_get (sview (sh_view h s)) k)])
  | OHas h k => (r, [BHas (kv_has (sview (sh_view h s)) k)])
  | OIter h p s0 => (r, [BIter (kv_iterate (sview (sh_view h s)) (ob p) (ob s0))])
  | OBNew b h => (sset_batch r b (h, []), [])
  | OBPut b k v => let '(h, l) := sget_batch r b in (sset_batch r b (h, l ++ [WPut k v]), [])
  | OBDel b k => let '(h, l) := sget_batch r b in (sset_batch r b (h, l ++ [WDel k]), [])
  | OBWrite b => let '(h, l) := sget_batch r b in (sset_store r (sh_upd h (fun x => swrite x l) s), [])
  | OBReset b => let '(h, _) := sget_batch r b in (sset_batch r b (h, []), [])
  | OBReplay b => let '(h, l) := sget_batch r b in (r, [BReplay l])
  | OFlush d => (sset_store r (supd d sflush s), [])
  | ODrop d => (sset_store r (supd d sdrop s), [])
  | ONfp d => (r, [match snfp (ssub d s) with Some n => BNfp n | None => BNone end])
  | OSnap h => ({| ss_store := s; ss_batches := ss_batches r; ss_snaps := ss_snaps r ++ [sview (sh_view h s)];
                   ss_lives := ss_lives r |}, [])
  | OSGet i k => (r, [match nth_error (ss_snaps r) i with Some m => BGet (kv_get m k) | None => BNone end])
  | OSHas i k => (r, [match nth_error (ss_snaps r) i with Some m => BHas (kv_has m k) | None => BNone end])
  | OSIter i p s0 => (r, [match nth_error (ss_snaps r) i with Some m => BIter (kv_iterate m (ob p) (ob s0)) | None => BNone end])
  | OCompact h a l => (r, [BNone])      (* judged by [compact_ok], not predicted *)
  | OECompact h a l => (r, [BNone])     (* an engine's Compact error is outside the property *)
  | OLit i h p s0 =>
      (sset_lives r (set_nth i (Some (kv_iterate (sview (sh_view h s)) (ob p) (ob s0))) None (ss_lives r)), [])
  | OLNext i n => let '(l, out) := live_next (ss_lives r) i n in (sset_lives r l, [out])
  | OLRel i => (sset_lives r (set_nth i None None (ss_lives r)), [])
  | OStat h p => (r, [BNone])           (* Stat is outside the property *)
  | OBReplayTo b1 b2 =>
      let '(_, l1) := sget_batch r b1 in
      let '(h2, l2) := sget_batch r b2 in
      (sset_batch r b2 (h2, l2 ++ l1), [])      (* whatever tables the two batches belong to *)
  | OInit d => (sset_store r (supd d sinit s), [])
  end.

(* an iterator created at state s and drained later (after flushes/drops under [lsafe], reads,
   snapshots, batch building) yields the (prefix,start)-filter of the view AT s *)
Definition spec_run_op (lsafe : bool) (r : sstate) (o : op) : sstate * list obs :=
  let '(r', out) := spec_run_op1 r o in
  (sset_lives r' (lives_after lsafe o (ss_lives r')), out).

Fixpoint spec_run_ops (lsafe : bool) (r : sstate) (ops : list op) : list obs :=
  match ops with
  | [] => []
  | o :: ops' => let '(r', out) := spec_run_op lsafe r o in out ++ spec_run_ops lsafe r' ops'
  end.
Definition spec_run (lsafe : bool) (s0 : sst) (ops : list op) : list obs :=
  spec_run_ops lsafe {| ss_store := s0; ss_batches := []; ss_snaps := []; ss_lives := [] |} ops.

(* the judgement for an observed Compact range on a handle (whole-table compaction only) *)
Definition compact_ok (s : sst) (h : handle) (start limit : okey) (r : option (okey * okey)) : bool :=
  match start, limit, r with
  | None, None, Some (lo, hi) => compact_covers (sprefix (sh_view h s)) lo hi
  | _, _, _ => true
  end.
