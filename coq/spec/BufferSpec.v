(* Independent, executable statement of property C14 over a callback log.

   Nothing here looks at the buffer's mechanism: the checkers read only the operation list
   (which copies were pushed, with which parents and sizes, and the limits) and the callback
   log (oldest first) — the same functions are evaluated by the driver on the log of the REAL
   EventsBuffer and on the model's log.  proofs/BufferSpecProofs.v relates them to the
   Prop-level statements of props/C14.v. *)
From Coq Require Import NArith List Bool.
From LV Require Import model.Buffer.
Import ListNotations.
Local Open Scope N_scope.

(* the i-th PushEvent of the history creates copy i *)
Fixpoint copies_from (n : N) (ops : list op) : list entry :=
  match ops with
  | [] => []
  | OpPush e ps sz :: r => mkEntry n e ps sz :: copies_from (n + 1) r
  | _ :: r => copies_from n r
  end.
Definition copies_of (ops : list op) : list entry := copies_from 0 ops.
Definition lookup (cs : list entry) (c : N) : option entry := find (fun x => cid x =? c) cs.

(* T1: Process only after every parent is connected (by an earlier successful Process or from
   outside); the event handed to Process is the pushed copy's event *)
Fixpoint t1_walk (cs : list entry) (conn : list N) (l : list out) : bool :=
  match l with
  | [] => true
  | OProcess c e ok :: r =>
    match lookup cs c with
    | None => false
    | Some x => (eid x =? e) && forallb (fun p => memN p conn) (pars x)
                && t1_walk cs (if ok then e :: conn else conn) r
    end
  | OConnect e :: r => t1_walk cs (e :: conn) r
  | _ :: r => t1_walk cs conn r
  end.

(* T2: each copy is handed to Process at most once and never after its Released *)
Fixpoint t2_walk (processed released : list N) (l : list out) : bool :=
  match l with
  | [] => true
  | OProcess c _ _ :: r =>
    negb (memN c processed) && negb (memN c released) && t2_walk (c :: processed) released r
  | OReleased c _ _ :: r => t2_walk processed (c :: released) r
  | _ :: r => t2_walk processed released r
  end.

(* T3: never two Released for one copy; only pushed copies are released; after every PushEvent
   the number of buffered events is (pushed - released), i.e. no copy has leaked; whenever Clear
   has returned, every copy pushed so far has been released (hence exactly once) *)
Fixpoint t3_walk (cs : list entry) (pushed released : list N) (l : list out) : bool :=
  match l with
  | [] => true
  | OReleased c e _ :: r =>
    negb (memN c released)
    && match lookup cs c with Some x => eid x =? e | None => false end
    && t3_walk cs pushed (c :: released) r
  | OPushed c _ num _ :: r =>
    (* Total().Num = copies pushed so far minus copies released so far *)
    (num =? N.of_nat (S (length pushed)) - N.of_nat (length released))
    && t3_walk cs (c :: pushed) released r
  | OCleared num size :: r =>
    forallb (fun c => memN c released) pushed && (num =? 0) && (size =? 0)
    && t3_walk cs pushed released r
  | _ :: r => t3_walk cs pushed released r
  end.

(* T4: after every push the buffer is within its limits *)
Fixpoint t4_walk (limN limS : N) (l : list out) : bool :=
  match l with
  | [] => true
  | OPushed _ _ num size :: r => (num <=? limN) && (size <=? limS) && t4_walk limN limS r
  | _ :: r => t4_walk limN limS r
  end.

(* T5: completeness.  Premise (about the input and the oracle answers only): the history
   consists of pushes of distinct events forming a parents-closed DAG, the limits cannot bind,
   and no Check/Process failed.  Conclusion: every pushed event was processed. *)
(* pushes only, optionally followed by one final Clear *)
Fixpoint only_pushes (ops : list op) : bool :=
  match ops with
  | [] => true
  | [OpClear] => true
  | OpPush _ _ _ :: r => only_pushes r
  | _ => false
  end.
Fixpoint nodupN (l : list N) : bool :=
  match l with [] => true | a :: r => negb (memN a r) && nodupN r end.
(* peel: repeatedly resolve the events all of whose parents are resolved *)
Fixpoint peel (fuel : nat) (cs : list entry) (res : list N) : list N :=
  match fuel with
  | O => res
  | S f =>
    peel f cs (res ++ map eid (filter (fun x => negb (memN (eid x) res)
                                               && forallb (fun p => memN p res) (pars x)) cs))
  end.
Definition closed_dag (cs : list entry) : bool :=
  let res := peel (length cs) cs [] in forallb (fun x => memN (eid x) res) cs.
Definition no_failure (l : list out) : bool :=
  forallb (fun o => match o with OCheck _ _ ok => ok | OProcess _ _ ok => ok | _ => true end) l.
Definition t5_premise (limN limS : N) (ops : list op) (l : list out) : bool :=
  let cs := copies_of ops in
  only_pushes ops && nodupN (map eid cs) && closed_dag cs
  && (total_num cs <=? limN) && (total_size cs <=? limS) && no_failure l.
Definition processed_ok (l : list out) (e : N) : bool :=
  existsb (fun o => match o with OProcess _ e' true => e' =? e | _ => false end) l.
Definition t5_check (limN limS : N) (ops : list op) (l : list out) : bool :=
  if t5_premise limN limS ops l
  then forallb (fun x => processed_ok l (eid x)) (copies_of ops) else true.

Definition c14_check (limN limS : N) (ops : list op) (l : list out) : bool :=
  let cs := copies_of ops in
  t1_walk cs [] l && t2_walk [] [] l && t3_walk cs [] [] l && t4_walk limN limS l
  && t5_check limN limS ops l.

(* which clause fails first (for the driver's note): 0 = none *)
Definition c14_first_failure (limN limS : N) (ops : list op) (l : list out) : N :=
  let cs := copies_of ops in
  if negb (t1_walk cs [] l) then 1 else if negb (t2_walk [] [] l) then 2
  else if negb (t3_walk cs [] [] l) then 3 else if negb (t4_walk limN limS l) then 4
  else if negb (t5_check limN limS ops l) then 5 else 0.
