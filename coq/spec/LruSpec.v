(* Specification of a weighted LRU cache, written from the property text, not from the code:
   the state is a recency-ordered association list (OLDEST FIRST) plus the two bounds; there
   is no cached weight and no machine arithmetic.  "Evict from the old end while over either
   bound": [trim] drops the oldest item until the rest fits.  add and a successful get move
   the key to the newest end; peek / contains / get_oldest / keys do not reorder.
   Shares only the vocabulary of operations and results ([op], [res]) with model/Wlru.v. *)
From Coq Require Import NArith ZArith List Bool.
From LV Require Import model.Wlru.
Import ListNotations.
Local Open Scope N_scope.

Section LruSpec.
  Context {K V : Type}.
  Variable keqb : K -> K -> bool.

  Definition item : Type := K * V * N.
  Definition i_key (it : item) : K := fst (fst it).
  Definition i_val (it : item) : V := snd (fst it).
  Definition i_w (it : item) : N := snd it.
  Definition i_kv (it : item) : K * V := fst it.

  Record lru := mkLru { s_items : list item (* oldest first *); s_mw : N; s_ms : N }.

  Definition total (l : list item) : N := fold_right (fun it a => i_w it + a) 0 l.
  Definition fits (mw ms : N) (l : list item) : bool :=
    (total l <=? mw) && (N.of_nat (length l) <=? ms).

  (* (evicted, kept): drop the oldest while the remainder does not fit *)
  Fixpoint trim (mw ms : N) (l : list item) : list item * list item :=
    match l with
    | [] => ([], [])
    | it :: r => if fits mw ms l then ([], l)
                 else let '(ev, kp) := trim mw ms r in (it :: ev, kp)
    end.

  Definition lookup (k : K) (l : list item) : option item := find (fun it => keqb k (i_key it)) l.
  Definition without (k : K) (l : list item) : list item := filter (fun it => negb (keqb k (i_key it))) l.

  Definition s_new (mw : N) (ms : Z) : option lru :=
    if z_neg ms then None else Some (mkLru [] mw (z_to_N ms)).

  Definition s_retrim (items : list item) (mw ms : N) : lru * N * list (K * V) :=
    let '(ev, kp) := trim mw ms items in
    (mkLru kp mw ms, N.of_nat (length ev), map i_kv ev).

  Definition s_add (k : K) (v : V) (w : N) (s : lru) : lru * N * list (K * V) :=
    s_retrim (without k (s_items s) ++ [(k, v, w)]) (s_mw s) (s_ms s).

  Definition s_step (s : lru) (o : op K V) : lru * res K V * list (K * V) :=
    match o with
    | OAdd k v w => let '(s', n, lg) := s_add k v w s in (s', RCount n, lg)
    | OGet k =>
        match lookup k (s_items s) with
        | Some it => (mkLru (without k (s_items s) ++ [it]) (s_mw s) (s_ms s), RVal (Some (i_val it)), [])
        | None => (s, RVal None, [])
        end
    | OPeek k => (s, RVal (option_map i_val (lookup k (s_items s))), [])
    | OContains k => (s, RBool (match lookup k (s_items s) with Some _ => true | None => false end), [])
    | ORemove k =>
        match lookup k (s_items s) with
        | Some it => (mkLru (without k (s_items s)) (s_mw s) (s_ms s), RBool true, [i_kv it])
        | None => (s, RBool false, [])
        end
    | ORemoveOldest =>
        match s_items s with
        | it :: r => (mkLru r (s_mw s) (s_ms s), RKV (Some (i_kv it)), [i_kv it])
        | [] => (s, RKV None, [])
        end
    | OGetOldest => (s, RKV (option_map i_kv (hd_error (s_items s))), [])
    | OKeys => (s, RKeys (map i_key (s_items s)), [])
    | OLen => (s, RNum (N.of_nat (length (s_items s))), [])
    | OWeight => (s, RNum (total (s_items s)), [])
    | OResize mw ms =>
        (* a bound below 0 cannot be met by fewer than 0 items: read as 0 *)
        let '(s', n, lg) := s_retrim (s_items s) mw (z_to_N ms) in (s', RCount n, lg)
    | OPurge => (mkLru [] (s_mw s) (s_ms s), RUnit, rev (map i_kv (s_items s)))
    | OContainsOrAdd k v w =>
        match lookup k (s_items s) with
        | Some _ => (s, RFoundCount true 0, [])
        | None => let '(s', n, lg) := s_add k v w s in (s', RFoundCount false n, lg)
        end
    | OPeekOrAdd k v w =>
        match lookup k (s_items s) with
        | Some it => (s, RPrevCount (Some (i_val it)) 0, [])
        | None => let '(s', n, lg) := s_add k v w s in (s', RPrevCount None n, lg)
        end
    end.

  Fixpoint s_run (s : lru) (ops : list (op K V)) : lru * list (res K V * list (K * V)) :=
    match ops with
    | [] => (s, [])
    | o :: rest =>
        let '(s', r, lg) := s_step s o in
        let '(s'', tr) := s_run s' rest in (s'', (r, lg) :: tr)
    end.
End LruSpec.

Arguments lru : clear implicits.
Arguments mkLru {K V}.
