(* The operation language shared by the model run (model/KvStack.v), the specification run
   (spec/KvStackSpec.v) and the Go harness: pure syntax, no semantics. *)
From Coq Require Import NArith List.
From LV Require Import lib.Bytes lib.SortedMap spec.KvSpec.
Import ListNotations.

Definition okey := option key.                  (* None = nil []byte *)
Definition ob (o : okey) : key := match o with Some k => k | None => [] end.

(* a handle = a depth in the stack plus a path of stateless table wrappers created on the fly *)
Record handle := { h_d : nat; h_path : list key }.
Definition h0 : handle := {| h_d := O; h_path := [] |}.

Inductive op :=
| OPut (h : handle) (k : key) (v : val)
| ODel (h : handle) (k : key)
| OGet (h : handle) (k : key)
| OHas (h : handle) (k : key)
| OIter (h : handle) (prefix start : okey)
| OBNew (b : nat) (h : handle)
| OBPut (b : nat) (k : key) (v : val)
| OBDel (b : nat) (k : key)
| OBWrite (b : nat)
| OBReset (b : nat)
| OBReplay (b : nat)
| OFlush (d : nat)
| ODrop (d : nat)
| ONfp (d : nat)
| OSnap (h : handle)
| OSGet (i : nat) (k : key)
| OSHas (i : nat) (k : key)
| OSIter (i : nat) (prefix start : okey)
| OCompact (h : handle) (start limit : okey)
| OECompact (h : handle) (start limit : okey)        (* Compact forwarded to the engine: nil or error *)
| OLit (i : nat) (h : handle) (prefix start : okey)  (* an iterator kept alive across later operations *)
| OLNext (i : nat) (n : nat)                         (* up to n Next() calls on it *)
| OLRel (i : nat)
| OStat (h : handle) (prop : nat)   (* Stat(property): 0 disk.size 1 stats 2 iostats 3 async_flush 4 sync_flush 5 alivesnaps, else unknown *)
| OBReplayTo (src dst : nat)        (* batch src .Replay(batch dst): dst receives src's operations *)
| OInit (d : nat).                                     (* LazyFlushable.InitUnderlyingDb: produce and install the store, no flush *)

Inductive obs :=
| BGet (v : option val)
| BHas (b : bool)
| BIter (l : list (key * val))
| BReplay (l : list wop)
| BNfp (n : nat)
| BCompact (r : option (okey * okey))   (* None: the request never reached the base store *)
| BCompactErr (ok : bool)
| BStat (ok : bool)
| BLive (l : option (list (key * val)))   (* None: this drain is not predicted (see op_kills_lives) *)
| BNone.                      (* the operation addressed something that does not exist *)

Fixpoint set_nth {A} (n : nat) (x : A) (d : A) (l : list A) : list A :=
  match n, l with
  | O, [] => [x]
  | O, _ :: l' => x :: l'
  | S n', [] => d :: set_nth n' x d []
  | S n', y :: l' => y :: set_nth n' x d l'
  end.

(* Live iterators.  An iterator that stays alive is predicted only while nothing it reads from has
   been mutated in place: any put / delete / batch write ends the prediction for every live
   iterator; Flush and DropNotFlushed keep it when [lsafe] holds (the stack has at most one
   tree-bearing layer and its base is an engine, whose iterators are consistent snapshots: the
   flushable's tree is only detached by Clear(), the nodes the iterator walks stay intact). *)
Definition op_kills_lives (lsafe : bool) (o : op) : bool :=
  match o with
  | OPut _ _ _ | ODel _ _ | OBWrite _ => true
  | OFlush _ | ODrop _ => negb lsafe
  | _ => false
  end.
Definition lives := list (option (list (key * val))).
Definition kill_lives (l : lives) : lives := map (fun _ => None) l.
Definition lives_after (lsafe : bool) (o : op) (l : lives) : lives :=
  if op_kills_lives lsafe o then kill_lives l else l.
Definition live_next (l : lives) (i n : nat) : lives * obs :=
  match nth i l None with
  | Some items => (set_nth i (Some (skipn n items)) None l, BLive (Some (firstn n items)))
  | None => (l, BLive None)
  end.
