(* Specification of the caching producer as a predicate on observable traces
   (operation, result, underlying calls), written from the property text.  It keeps no maps:
   everything is recomputed from the trace prefix by counting.

     balance name pre  = successful opens of name - successful closes of name
     cur name pre      = store created by the latest underlying OpenDB(name)
     droppable name pre= OpenDB(name) was called and Drop(name) has not been called since

   * an OpenDB while the balance is positive returns [cur] and does not touch the producer;
     with balance 0 it opens the underlying database once (a fresh store) or reports its error;
   * Close with balance 1 closes the underlying store (exactly then), with balance > 1 only
     counts down, with balance 0 reports an error and touches nothing;
   * Drop reaches the underlying store iff [droppable] (at most once per OpenDB call).
   The trace never contains a panic.  Only by-name histories are specified (closing a stale
   handle of an earlier generation is outside the property). *)
From Coq Require Import NArith List Bool.
From LV Require Import model.CachedProducer.
Import ListNotations.
Local Open Scope N_scope.

Definition titem : Type := cop * cres * list uevent.

Definition uevent_eqb (a b : uevent) : bool :=
  match a, b with
  | UOpen n u, UOpen n' u' => (n =? n') && (u =? u')
  | UOpenFail n, UOpenFail n' => n =? n'
  | UClose u, UClose u' => u =? u'
  | UDrop u, UDrop u' => u =? u'
  | _, _ => false
  end.
Fixpoint uevents_eqb (a b : list uevent) : bool :=
  match a, b with
  | [], [] => true
  | x :: a', y :: b' => uevent_eqb x y && uevents_eqb a' b'
  | _, _ => false
  end.
Definition cres_eqb (a b : cres) : bool :=
  match a, b with
  | RHandle u, RHandle u' => u =? u'
  | ROpenErr, ROpenErr | ROk, ROk | ROverClose, ROverClose | RNoHandle, RNoHandle
  | RPanic, RPanic | RDead, RDead => true
  | _, _ => false
  end.

Definition by_name_op (o : cop) : bool :=
  match o with COpen _ _ | CClose _ | CDrop _ => true | _ => false end.

(* counts over a prefix (in chronological order) *)
Definition is_open_ok (name : N) (t : titem) : bool :=
  match t with (COpen n _, RHandle _, _) => n =? name | _ => false end.
Definition is_close_ok (name : N) (t : titem) : bool :=
  match t with (CClose n, ROk, _) => n =? name | _ => false end.
Definition count_if {A} (f : A -> bool) (l : list A) : N := N.of_nat (length (filter f l)).
Definition balance (name : N) (pre : list titem) : N :=
  count_if (is_open_ok name) pre - count_if (is_close_ok name) pre.

Definition uopens (pre : list titem) : list (N * N) :=
  flat_map (fun t : titem => flat_map (fun e => match e with UOpen n u => [(n, u)] | _ => [] end) (snd t)) pre.
(* latest store opened for name *)
Definition cur (name : N) (pre : list titem) : option N :=
  alookup name (rev (uopens pre)).
Definition used_uid (u : N) (pre : list titem) : bool := existsb (fun p => snd p =? u) (uopens pre).

Fixpoint droppable_rev (name : N) (rpre : list titem) : bool :=   (* rpre = newest first *)
  match rpre with
  | [] => false
  | (COpen n _, RDead, _) :: r => droppable_rev name r
  | (COpen n _, _, _) :: r => if n =? name then true else droppable_rev name r
  | (CDrop n, ROk, _) :: r => if n =? name then false else droppable_rev name r
  | _ :: r => droppable_rev name r
  end.
Definition droppable (name : N) (pre : list titem) : bool := droppable_rev name (rev pre).

Definition step_ok (pre : list titem) (t : titem) : bool :=
  let '(o, r, ev) := t in
  match o with
  | COpen name fail =>
      if 0 <? balance name pre then
        match cur name pre with
        | Some u => cres_eqb r (RHandle u) && uevents_eqb ev []
        | None => false
        end
      else if fail then cres_eqb r ROpenErr && uevents_eqb ev [UOpenFail name]
      else match r with
           | RHandle u => negb (used_uid u pre) && uevents_eqb ev [UOpen name u]
           | _ => false
           end
  | CClose name =>
      match cur name pre with
      | None => cres_eqb r RNoHandle && uevents_eqb ev []
      | Some u =>
          if balance name pre =? 0 then cres_eqb r ROverClose && uevents_eqb ev []
          else if balance name pre =? 1 then cres_eqb r ROk && uevents_eqb ev [UClose u]
          else cres_eqb r ROk && uevents_eqb ev []
      end
  | CDrop name =>
      match cur name pre with
      | None => cres_eqb r RNoHandle && uevents_eqb ev []
      | Some u => cres_eqb r ROk && uevents_eqb ev (if droppable name pre then [UDrop u] else [])
      end
  | _ => false
  end.

Fixpoint trace_ok_from (pre : list titem) (tr : list titem) : bool :=
  match tr with
  | [] => true
  | t :: rest => step_ok pre t && trace_ok_from (pre ++ [t]) rest
  end.
Definition trace_ok (tr : list titem) : bool := trace_ok_from [] tr.
