(* Specification of the caching producer as a predicate on observable traces
   (operation, result, underlying calls), written from the property text.  It keeps no maps:
   everything is recomputed from the trace prefix by counting.

     balance name pre  = successful opens of name - successful closes of name
     cur name pre      = store created by the latest underlying OpenDB(name)
     droppable name pre= OpenDB(name) was called and Drop(name) has not been called since

   * an OpenDB while the balance is positive returns [cur] and does not touch the producer;
     with balance 0 it opens the underlying database once (a fresh store) or reports its error;
   * Close with balance 1 closes the underlying store (exactly then), with balance > 1 only
     counts down, with balance 0 reports an error and touches nothing;
   * Drop reaches the underlying store iff [droppable] (at most once per OpenDB call).
   The trace never contains a panic.  Only by-name histories are specified (closing a stale
   handle of an earlier generation is outside the property). *)
From Coq Require Import NArith List Bool.
From LV Require Import model.CachedProducer.
Import ListNotations.
Local Open Scope N_scope.

Definition titem : Type := cop * cres * list uevent.

Definition uevent_eqb (a b : uevent) : bool :=
  match a, b with
  | UOpen n u, UOpen n' u' => (n =? n') && (u =? u')
  | UOpenFail n, UOpenFail n' => n =? n'
  | UClose u, UClose u' => u =? u'
  | UDrop u, UDrop u' => u =? u'
  | _, _ => false
  end.
Fixpoint uevents_eqb (a b : list uevent) : bool :=
  match a, b with
  | [], [] => true
  | x :: a', y :: b' => uevent_eqb x y && uevents_eqb a' b'
  | _, _ => false
  end.
Definition cres_eqb (a b : cres) : bool :=
  match a, b with
  | RHandle u, RHandle u' => u =? u'
  | ROpenErr, ROpenErr | ROk, ROk | ROverClose, ROverClose | RNoHandle, RNoHandle
  | RPanic, RPanic | RDead, RDead | RCloseErr, RCloseErr => true
  | _, _ => false
  end.

Definition by_name_op (o : cop) : bool :=
  match o with COpen _ _ | CClose _ | CDrop _ => true | _ => false end.

(* counts over a prefix (in chronological order) *)
Definition is_open_ok (name : N) (t : titem) : bool :=
  match t with (COpen n _, RHandle _, _) => n =? name | _ => false end.
Definition is_close_ok (name : N) (t : titem) : bool :=
  match t with (CClose n, ROk, _) => n =? name | _ => false end.
Definition count_if {A} (f : A -> bool) (l : list A) : N := N.of_nat (length (filter f l)).
Definition balance (name : N) (pre : list titem) : N :=
  count_if (is_open_ok name) pre - count_if (is_close_ok name) pre.

Definition uopens (pre : list titem) : list (N * N) :=
  flat_map (fun t : titem => flat_map (fun e => match e with UOpen n u => [(n, u)] | _ => [] end) (snd t)) pre.
(* latest store opened for name *)
Definition cur (name : N) (pre : list titem) : option N :=
  alookup name (rev (uopens pre)).
Definition used_uid (u : N) (pre : list titem) : bool := existsb (fun p => snd p =? u) (uopens pre).

Fixpoint droppable_rev (name : N) (rpre : list titem) : bool :=   (* rpre = newest first *)
  match rpre with
  | [] => false
  | (COpen n _, RDead, _) :: r => droppable_rev name r
  | (COpen n _, _, _) :: r => if n =? name then true else droppable_rev name r
  | (CDrop n, ROk, _) :: r => if n =? name then false else droppable_rev name r
  | _ :: r => droppable_rev name r
  end.
Definition droppable (name : N) (pre : list titem) : bool := droppable_rev name (rev pre).

Definition step_ok (pre : list titem) (t : titem) : bool :=
  let '(o, r, ev) := t in
  match o with
  | COpen name fail =>
      if 0 <? balance name pre then
        match cur name pre with
        | Some u => cres_eqb r (RHandle u) && uevents_eqb ev []
        | None => false
        end
      else if fail then cres_eqb r ROpenErr && uevents_eqb ev [UOpenFail name]
      else match r with
           | RHandle u => negb (used_uid u pre) && uevents_eqb ev [UOpen name u]
           | _ => false
           end
  | CClose name =>
      match cur name pre with
      | None => cres_eqb r RNoHandle && uevents_eqb ev []
      | Some u =>
          if balance name pre =? 0 then cres_eqb r ROverClose && uevents_eqb ev []
          else if balance name pre =? 1 then cres_eqb r ROk && uevents_eqb ev [UClose u]
          else cres_eqb r ROk && uevents_eqb ev []
      end
  | CDrop name =>
      match cur name pre with
      | None => cres_eqb r RNoHandle && uevents_eqb ev []
      | Some u => cres_eqb r ROk && uevents_eqb ev (if droppable name pre then [UDrop u] else [])
      end
  | _ => false
  end.

Fixpoint trace_ok_from (pre : list titem) (tr : list titem) : bool :=
  match tr with
  | [] => true
  | t :: rest => step_ok pre t && trace_ok_from (pre ++ [t]) rest
  end.
Definition trace_ok (tr : list titem) : bool := trace_ok_from [] tr.

(* ---------- the counting clauses for histories with overlapping calls ----------
   A group is a set of calls that overlapped (one call for a sequential step) with the
   underlying calls they caused, in the order these were entered.  Calls are given with the name
   they act on.  Checked, per name, over the whole history:
     - at most one underlying store of a name is live at a time: an underlying OpenDB(name) only
       when no store of the name is live, an underlying Close only of the live store
       (same store for all while open; closed exactly once);
     - at every quiescent point (end of a group) the name has a live store iff its balance
       (successful opens - successful closes) is positive (closed at the last close, not before);
     - underlying drops of the name's stores <= OpenDB(name) calls made so far. *)
Inductive ccall := KOpen (name : N) (r : cres) | KClose (name : N) (r : cres) | KDrop (name : N) (r : cres).
Definition cgroup : Type := list ccall * list uevent.

Record cview := mkV {
  v_live : list (N * N);      (* name -> live store *)
  v_names : list (N * N);     (* store -> name (every store ever opened) *)
  v_bal : list (N * N);       (* name -> successful opens, successful closes are subtracted *)
  v_calls : list (N * N);     (* name -> OpenDB calls *)
  v_drops : list (N * N) }.   (* name -> underlying drops *)

Definition getn (k : N) (m : list (N * N)) : N := match alookup k m with Some v => v | None => 0 end.

Definition ev_apply (v : cview) (e : uevent) : option cview :=
  match e with
  | UOpen n u =>
      match alookup n (v_live v), alookup u (v_names v) with
      | None, None => Some (mkV (aset n u (v_live v)) (aset u n (v_names v)) (v_bal v) (v_calls v) (v_drops v))
      | _, _ => None
      end
  | UOpenFail _ => Some v
  | UClose u =>
      match alookup u (v_names v) with
      | Some n => match alookup n (v_live v) with
                  | Some u' => if u' =? u then Some (mkV (adel n (v_live v)) (v_names v) (v_bal v) (v_calls v) (v_drops v)) else None
                  | None => None
                  end
      | None => None
      end
  | UDrop u =>
      match alookup u (v_names v) with
      | Some n => Some (mkV (v_live v) (v_names v) (v_bal v) (v_calls v) (aset n (getn n (v_drops v) + 1) (v_drops v)))
      | None => None
      end
  end.

Definition call_apply (v : cview) (c : ccall) : option cview :=
  match c with
  | KOpen n r =>
      match r with
      | RPanic | RDead | RNoHandle | ROk | ROverClose | RCloseErr => None
      | RHandle _ => Some (mkV (v_live v) (v_names v) (aset n (getn n (v_bal v) + 1) (v_bal v)) (aset n (getn n (v_calls v) + 1) (v_calls v)) (v_drops v))
      | ROpenErr => Some (mkV (v_live v) (v_names v) (v_bal v) (aset n (getn n (v_calls v) + 1) (v_calls v)) (v_drops v))
      end
  | KClose n r =>
      match r with
      | ROk | RCloseErr =>   (* a failing underlying Close still releases the reference *)
               if getn n (v_bal v) =? 0 then None
               else Some (mkV (v_live v) (v_names v) (aset n (getn n (v_bal v) - 1) (v_bal v)) (v_calls v) (v_drops v))
      | ROverClose | RNoHandle => Some v
      | _ => None
      end
  | KDrop n r => match r with ROk | RNoHandle => Some v | _ => None end
  end.

Fixpoint fold_opt {A B} (f : A -> B -> option A) (a : A) (l : list B) : option A :=
  match l with
  | [] => Some a
  | x :: r => match f a x with Some a' => fold_opt f a' r | None => None end
  end.

Definition call_name (c : ccall) : N := match c with KOpen n _ | KClose n _ | KDrop n _ => n end.

(* quiescent point: live iff balance > 0, drops <= open calls, for the names touched *)
Definition quiescent_ok (v : cview) (names : list N) : bool :=
  forallb (fun n =>
    (match alookup n (v_live v) with Some _ => 0 <? getn n (v_bal v) | None => getn n (v_bal v) =? 0 end)
    && (getn n (v_drops v) <=? getn n (v_calls v))) names.

Definition group_apply (v : cview) (g : cgroup) : option cview :=
  match fold_opt ev_apply v (snd g) with
  | Some v1 =>
      match fold_opt call_apply v1 (fst g) with
      | Some v2 => if quiescent_ok v2 (map call_name (fst g)) then Some v2 else None
      | None => None
      end
  | None => None
  end.

Definition cview0 : cview := mkV [] [] [] [] [].
Definition conc_ok (gs : list cgroup) : bool :=
  match fold_opt group_apply cview0 gs with Some _ => true | None => false end.
