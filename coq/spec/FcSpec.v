(* Graph specification of forkless cause and the merged clock, written from the rules
   (ancestry closure, seq-forks), independent of the vector index. *)
From Coq Require Import List Arith NArith Bool Lia.
From LV Require Import model.VecIndex.
Import ListNotations.
Open Scope N_scope.

(* ---------- graph specification ---------- *)
Fixpoint anc_list (fuel : nat) (E : list (N * event)) (stack : list N) (acc : list N) : list N :=
  match fuel with O => acc | S f =>
  match stack with [] => acc | x :: rest =>
    if existsb (N.eqb x) acc then anc_list f E rest acc
    else match alookup x E with None => anc_list f E rest acc
         | Some ev => anc_list f E (epar ev ++ rest) (x :: acc) end end end.
Definition anc E a := anc_list (S (length E) * 8)%nat E [a] [].
Definition sees_fork E (A : list N) (v : nat) : bool :=
  existsb (fun x => existsb (fun y => negb (x =? y) &&
     match alookup x E, alookup y E with Some ex, Some ey => Nat.eqb (ecr ex) v && Nat.eqb (ecr ey) v && (eseq ex =? eseq ey) | _, _ => false end) A) A.
Definition fc_spec (ws : list N) (q : N) (n : nat) E (a b : N) : bool :=
  let A := anc E a in
  match alookup b E with None => false | Some eb =>
  negb (sees_fork E A (ecr eb)) &&
  (q <=? wsum ws (map (fun v => negb (sees_fork E A v) &&
        existsb (fun x => match alookup x E with Some ex => Nat.eqb (ecr ex) v && existsb (N.eqb b) (anc E x) | None => false end) A) (List.seq 0 n))) end.
Definition merged_spec (n : nat) E (a : N) : list (bool * N) :=
  let A := anc E a in
  map (fun v => if sees_fork E A v then (true, 0) else
        (false, fold_left (fun m x => match alookup x E with Some ex => if Nat.eqb (ecr ex) v then N.max m (eseq ex) else m | None => m end) A 0)) (List.seq 0 n).

