(* Graph specification of forkless cause and the merged clock, written from the rules
   (ancestry closure, seq-forks), independent of the vector index. *)
From Coq Require Import List Arith NArith Bool Lia.
From LV Require Import model.VecIndex.
Import ListNotations.
Open Scope N_scope.

(* ---------- graph specification ---------- *)
Fixpoint anc_list (fuel : nat) (E : list (N * event)) (stack : list N) (acc : list N) : list N :=
  match fuel with O => acc | S f =>
  match stack with [] => acc | x :: rest =>
    if existsb (N.eqb x) acc then anc_list f E rest acc
    else match alookup x E with None => anc_list f E rest acc
         | Some ev => anc_list f E (epar ev ++ rest) (x :: acc) end end end.
(* fuel: one unit per pop; pops <= 1 + sum of all parent-list lengths (each event's parents are
   pushed at most once).  proofs/FcSpecFacts.v: anc is the ancestor-or-self closure (anc_iff). *)
Definition anc E a := anc_list (S (S (total_parents E))) E [a] [].
Definition sees_fork E (A : list N) (v : nat) : bool :=
  existsb (fun x => existsb (fun y => negb (x =? y) &&
     match alookup x E, alookup y E with Some ex, Some ey => Nat.eqb (ecr ex) v && Nat.eqb (ecr ey) v && (eseq ex =? eseq ey) | _, _ => false end) A) A.
Definition fc_spec (ws : list N) (q : N) (n : nat) E (a b : N) : bool :=
  let A := anc E a in
  match alookup b E with None => false | Some eb =>
  negb (sees_fork E A (ecr eb)) &&
  (q <=? wsum ws (map (fun v => negb (sees_fork E A v) &&
        existsb (fun x => match alookup x E with Some ex => Nat.eqb (ecr ex) v && existsb (N.eqb b) (anc E x) | None => false end) A) (List.seq 0 n))) end.
Definition merged_spec (n : nat) E (a : N) : list (bool * N) :=
  let A := anc E a in
  map (fun v => if sees_fork E A v then (true, 0) else
        (false, fold_left (fun m x => match alookup x E with Some ex => if Nat.eqb (ecr ex) v then N.max m (eseq ex) else m | None => m end) A 0)) (List.seq 0 n).


(* ---------- table-driven evaluation of the same specification (used by the check driver; equal to
   the definitions above by proofs/FcSpecFast.v: fc_spec_row_eq, merged_spec_t_eq) ---------- *)
Definition anc_table (E : list (N * event)) : list (N * list N) := map (fun p => (fst p, anc E (fst p))) E.
Definition anc_of (T : list (N * list N)) (x : N) : list N := match alookup x T with Some l => l | None => [] end.
Definition resolve (E : list (N * event)) (A : list N) : list (N * event) :=
  flat_map (fun x => match alookup x E with Some ex => [(x, ex)] | None => [] end) A.
Definition sees_fork_res (R : list (N * event)) (v : nat) : bool :=
  existsb (fun x => existsb (fun y => negb (fst x =? fst y) &&
     (Nat.eqb (ecr (snd x)) v && Nat.eqb (ecr (snd y)) v && (eseq (snd x) =? eseq (snd y)))) R) R.
Definition fc_spec_row (ws : list N) (q : N) (n : nat) E (T : list (N * list N)) (a : N) (bs : list N) : list bool :=
  let A := anc_of T a in
  let R := resolve E A in
  let forks := map (sees_fork_res R) (List.seq 0 n) in
  map (fun b => match alookup b E with None => false | Some eb =>
    negb (sees_fork_res R (ecr eb)) &&
    (q <=? wsum ws (map (fun v => negb (nth v forks false) &&
        existsb (fun x => Nat.eqb (ecr (snd x)) v && existsb (N.eqb b) (anc_of T (fst x))) R) (List.seq 0 n))) end) bs.
Definition merged_spec_t (n : nat) E (T : list (N * list N)) (a : N) : list (bool * N) :=
  let R := resolve E (anc_of T a) in
  map (fun v => if sees_fork_res R v then (true, 0) else
        (false, fold_left (fun m x => if Nat.eqb (ecr (snd x)) v then N.max m (eseq (snd x)) else m) R 0)) (List.seq 0 n).
