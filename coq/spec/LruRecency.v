(* "Least recently used", said without any cache state: the time of the last USE of a key in a
   history, judged from the operations and their visible results alone.  A key is used by Add,
   by a Get that finds it, and by ContainsOrAdd / PeekOrAdd when they add it; Peek, Contains and
   a ContainsOrAdd / PeekOrAdd that finds the key do not count.  Times are 1, 2, ... (0 = never). *)
From Coq Require Import NArith List Bool.
From LV Require Import model.Wlru.
Import ListNotations.

Section Recency.
  Context {K V : Type}.
  Variable keqb : K -> K -> bool.

  Definition uses (k : K) (o : op K V) (r : res K V) : bool :=
    match o, r with
    | OAdd k' _ _, _ => keqb k k'
    | OGet k', RVal (Some _) => keqb k k'
    | OContainsOrAdd k' _ _, RFoundCount false _ => keqb k k'
    | OPeekOrAdd k' _ _, RPrevCount None _ => keqb k k'
    | _, _ => false
    end.

  (* last use of k in the history ops with results tr, counting from time i; acc = last use so far *)
  Fixpoint last_use_from (k : K) (i acc : nat) (ops : list (op K V)) (tr : list (res K V * list (K * V))) : nat :=
    match ops, tr with
    | o :: ops', (r, _) :: tr' => last_use_from k (S i) (if uses k o r then S i else acc) ops' tr'
    | _, _ => acc
    end.
  Definition last_use (k : K) (ops : list (op K V)) (tr : list (res K V * list (K * V))) : nat :=
    last_use_from k 0 0 ops tr.
End Recency.
