(* Independent specification for C16 (items fetcher), as an acceptor of an observed log.

   It knows nothing about the LRU, the fetching map or the timer.  Per item it keeps
     - who announced it (and was answered "interesting") since it was last forgotten,
     - since when it is owed a request, and whether a request has been seen since then,
   and checks
     safety    every request (peer, id): peer announced id since id was last received /
               reported uninteresting (so: only announcers, only interesting items, nothing
               after "received" or "no longer interesting" until announced anew);
     liveness  an item that stays interesting and unreceived, whose announcement is younger
               than the forget timeout, is requested within [bound] after its announcement was
               processed or after the fetcher stopped being suspended, whichever is later
               (checked at every log entry and at the end of the log; void once more than
               [capacity] announcements are held, HashLimit being a resource bound outside the
               property).                                                                *)
From Coq Require Import NArith ZArith List Bool.
Import ListNotations.

Inductive lentry :=
| LNotify (t : Z) (peer : N) (atime : Z) (interested : list N)
| LRecv (t : Z) (ids : list N)
| LPass (t : Z) (all : list N) (interested : list N)
| LReq (t : Z) (peer : N) (ids : list N)
| LUnsuspend (t : Z)
| LUninterest (t : Z) (id : N)
| LEnd (t : Z).

Record item := mkI {
  i_id : N;
  i_peers : list N;        (* announcers since last forgotten *)
  i_count : N;             (* number of announcements held *)
  i_atime : Z;             (* announce time of the first of them *)
  i_since : Z;             (* a request is owed since *)
  i_done : bool            (* ... and has been seen / is no longer owed *)
}.

Record sp := mkSp { s_items : list item; s_overflow : bool }.

Definition smem (x : N) (l : list N) : bool := existsb (N.eqb x) l.

Fixpoint it_find (id : N) (l : list item) : option item :=
  match l with [] => None | x :: r => if (i_id x =? id)%N then Some x else it_find id r end.
Definition it_del (id : N) (l : list item) : list item := filter (fun x => negb (i_id x =? id)%N) l.
Definition it_put (x : item) (l : list item) : list item := x :: it_del (i_id x) l.

Definition weight_of (l : list item) : N := fold_right (fun x a => (2 * i_count x - 1 + a)%N) 0%N l.

Definition time_of (e : lentry) : Z :=
  match e with
  | LNotify t _ _ _ | LRecv t _ | LPass t _ _ | LReq t _ _ | LUnsuspend t | LUninterest t _ | LEnd t => t
  end.

(* liveness at time t: nobody is overdue *)
Definition overdue (forget bound : Z) (t : Z) (x : item) : bool :=
  negb (i_done x) && Z.ltb (Z.add (i_since x) bound) t
  && Z.ltb (Z.sub (Z.add (i_since x) bound) (i_atime x)) forget.

Definition spec_step (forget bound : Z) (capacity : N) (s : sp) (e : lentry) : option sp :=
  let t := time_of e in
  if negb (s_overflow s) && existsb (overdue forget bound t) (s_items s) then None else
  match e with
  | LNotify _ peer atime ids =>
    let items := fold_left (fun l id =>
      match it_find id l with
      | Some x => it_put (mkI id (peer :: i_peers x) (i_count x + 1) (i_atime x) (i_since x) (i_done x)) l
      | None => it_put (mkI id [peer] 1 atime t false) l
      end) ids (s_items s) in
    Some (mkSp items (s_overflow s || (capacity <? weight_of items)%N || (capacity <? N.of_nat (length items))%N))
  | LRecv _ ids => Some (mkSp (fold_left (fun l id => it_del id l) ids (s_items s)) (s_overflow s))
  | LPass _ all interested =>
    Some (mkSp (fold_left (fun l id => if smem id interested then l else it_del id l) all (s_items s)) (s_overflow s))
  | LReq _ peer ids =>
    if forallb (fun id => match it_find id (s_items s) with
                          | Some x => smem peer (i_peers x)
                          | None => false end) ids
    then Some (mkSp (fold_left (fun l id =>
           match it_find id l with
           | Some x => it_put (mkI id (i_peers x) (i_count x) (i_atime x) (i_since x) true) l
           | None => l end) ids (s_items s)) (s_overflow s))
    else None
  | LUnsuspend _ =>
    Some (mkSp (map (fun x => if i_done x then x else mkI (i_id x) (i_peers x) (i_count x) (i_atime x) t false) (s_items s)) (s_overflow s))
  | LUninterest _ id =>
    Some (mkSp (map (fun x => if (i_id x =? id)%N then mkI (i_id x) (i_peers x) (i_count x) (i_atime x) (i_since x) true else x) (s_items s)) (s_overflow s))
  | LEnd _ => Some s
  end.

Fixpoint spec_run (forget bound : Z) (capacity : N) (s : sp) (log : list lentry) : bool :=
  match log with
  | [] => true
  | e :: r => match spec_step forget bound capacity s e with
              | Some s' => spec_run forget bound capacity s' r
              | None => false
              end
  end.

Definition spec_check (forget bound : Z) (capacity : N) (log : list lentry) : bool :=
  spec_run forget bound capacity (mkSp [] false) log.

(* ---------- Prop-level vocabulary for the theorems (props/C16.v) ---------- *)
From LV Require Import model.Fetcher.

(* Who may be asked for what, kept WITHOUT looking at the fetcher's tables: (peer, id) enters when
   peer announces id (id is in the batch) and id is reported interesting (id is in the answer); every pair of id leaves when id is reported
   received, or reported not interesting at a timer pass the loop really takes. *)
Definition ghost := list (N * N).
Definition ghost_step (st : state) (g : ghost) (ev : event) : ghost :=
  match ev with
  | ENotify peer ids _ interested _ _ => map (fun id => (peer, id)) (filter (fun id => memN id ids) interested) ++ g
  | EReceived ids => filter (fun pi => negb (memN (snd pi) ids)) g
  | ETick => g
  | ETimer interested _ _ => if timer_chan st then filter (fun pi => memN (snd pi) interested) g else g
  end.

(* every request of every step of a trace is covered by the ghost *)
Fixpoint safe_run (c : cfg) (st : state) (g : ghost) (tr : list (Z * event)) : Prop :=
  match tr with
  | [] => True
  | (now, ev) :: tr' =>
    let g' := ghost_step st g ev in
    (forall p ids id, In (p, ids) (snd (step true c st now ev)) -> In id ids -> In (p, id) g') /\
    safe_run c (fst (step true c st now ev)) g' tr'
  end.

(* callback.OnlyInterested answers with ids of the batch it was asked about (the fetcher itself
   does not check this: it stores and requests whatever the callback returns) *)
Definition answers_sublist (tr : list (Z * event)) : Prop :=
  forall now peer ids atime interested susp scan,
    In (now, ENotify peer ids atime interested susp scan) tr -> forall id, In id interested -> In id ids.

Definition cfg_wf (c : cfg) : Prop := (0 <= c_arrive8 c <= c_arrive c)%Z.

(* states reachable by any event sequence with non-decreasing clock; the index is the time of the
   last event *)
Inductive reachT (c : cfg) (t0 : Z) : Z -> state -> Prop :=
| reachT_init : reachT c t0 t0 (init t0)
| reachT_step now st now' ev : reachT c t0 now st -> (now <= now')%Z ->
    reachT c t0 now' (fst (step true c st now' ev)).

(* the bounded-response invariant: while anything is announced, a timer pass is pending - its value
   is already in the channel, or the timer is armed and due within ArriveTimeout *)
Definition pass_pending (c : cfg) (now : Z) (st : state) : Prop :=
  ann st <> [] ->
  timer_chan st = true \/ exists due, timer_due st = Some due /\ (due <= now + c_arrive c)%Z.

(* what a timer pass owes: id is held, reported interesting, its first announcement is not older than
   ForgetTimeout, and it was not requested during the last ArriveTimeout - GatherSlack *)
Definition owed (c : cfg) (st : state) (now : Z) (id : N) : Prop :=
  exists e oldest more, lru_find id (ann st) = Some e /\ e_val e = oldest :: more /\
    (now - a_time oldest <= c_forget c)%Z /\
    match f_find id (fetching st) with
    | Some (_, ft) => (c_arrive c - c_slack c < now - ft)%Z
    | None => True
    end.

(* ---------- timer fairness on a trace, and "the item stays in the table until the next pass" ---------- *)

(* the loop really takes a pass at this event *)
Definition takes_pass (st : state) (ev : event) : bool :=
  match ev with ETimer _ _ _ => timer_chan st | _ => false end.

(* fairness with latency [lat], from state [st] whose last event was at [tprev]: while the timer is armed
   no event happens later than due + lat (the runtime has delivered it by then), and once its value
   is in the channel the very next thing the loop does is the pass, within lat *)
Fixpoint fair_run (c : cfg) (lat : Z) (st : state) (tprev : Z) (tr : list (Z * event)) : Prop :=
  match tr with
  | [] => True
  | (now, ev) :: r =>
    (forall due, timer_due st = Some due -> (now <= due + lat)%Z) /\
    (timer_chan st = true -> (exists i ch sc, ev = ETimer i ch sc) /\ (now <= tprev + lat)%Z) /\
    fair_run c lat (fst (step true c st now ev)) now r
  end.

Fixpoint held_until_pass (c : cfg) (id : N) (st : state) (tr : list (Z * event)) : Prop :=
  lru_find id (ann st) <> None /\
  match tr with
  | [] => True
  | (now, ev) :: r => if takes_pass st ev then True else held_until_pass c id (fst (step true c st now ev)) r
  end.

(* ---------- environment vocabulary of the end-to-end liveness theorem ---------- *)
Definition ev_count (ev : event) : nat :=
  match ev with ENotify _ _ _ interested _ _ => length interested | _ => 0%nat end.
(* how many (item, announcement) pairs the trace feeds into the announces cache *)
Definition announced_count (tr : list (Z * event)) : nat :=
  fold_right (fun x a => (ev_count (snd x) + a)%nat) 0%nat tr.
(* clock: t0 <= first event <= second <= ... *)
Fixpoint clock_ok (t : Z) (tr : list (Z * event)) : Prop :=
  match tr with [] => True | (now, _) :: r => (t <= now)%Z /\ clock_ok now r end.

(* ---------- round 5: fairness with bounded overtaking, capacity per step ---------- *)

(* Go's select picks at random among the ready channels: once the timer's value is in the channel, up
   to [k] other loop events (notifications, received batches) may still be taken before the pass, each
   within [lat] of the previous event. *)
Fixpoint fair_run_k (c : cfg) (lat : Z) (k : nat) (st : state) (tprev : Z) (n : nat) (tr : list (Z * event)) : Prop :=
  match tr with
  | [] => True
  | (now, ev) :: r =>
    (forall due, timer_due st = Some due -> (now <= due + lat)%Z) /\
    (timer_chan st = true -> (now <= tprev + lat)%Z /\ (takes_pass st ev = true \/ (n < k)%nat)) /\
    fair_run_k c lat k (fst (step true c st now ev)) now
               (if timer_chan st && negb (takes_pass st ev) then S n else 0%nat) r
  end.

(* number of announce records held (every announcement is stored twice) *)
Definition table_size (l : lru) : nat := fold_right (fun e a => (length (e_val e) + a)%nat) 0%nat l.

(* the announces cache has room for every batch at the moment it is processed *)
Definition ev_cap (c : cfg) (st : state) (ev : event) : Prop :=
  match ev with
  | ENotify _ _ _ interested _ _ => (N.of_nat (table_size (ann st) + 2 * length interested) <= c_hash_limit c)%N
  | _ => True
  end.
Fixpoint cap_ok (c : cfg) (st : state) (tr : list (Z * event)) : Prop :=
  match tr with
  | [] => True
  | (now, ev) :: r => ev_cap c st ev /\ cap_ok c (fst (step true c st now ev)) r
  end.
