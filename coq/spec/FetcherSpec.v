(* Independent specification for C16 (items fetcher), as an acceptor of an observed log.

   It knows nothing about the LRU, the fetching map or the timer.  Per item it keeps
     - who announced it (and was answered "interesting") since it was last forgotten,
     - since when it is owed a request, and whether a request has been seen since then,
   and checks
     safety    every request (peer, id): peer announced id since id was last received /
               reported uninteresting (so: only announcers, only interesting items, nothing
               after "received" or "no longer interesting" until announced anew);
     liveness  an item that stays interesting and unreceived, whose announcement is younger
               than the forget timeout, is requested within [bound] after its announcement was
               processed or after the fetcher stopped being suspended, whichever is later
               (checked at every log entry and at the end of the log; void once more than
               [capacity] announcements are held, HashLimit being a resource bound outside the
               property).                                                                *)
From Coq Require Import NArith ZArith List Bool.
Import ListNotations.

Inductive lentry :=
| LNotify (t : Z) (peer : N) (atime : Z) (interested : list N)
| LRecv (t : Z) (ids : list N)
| LPass (t : Z) (all : list N) (interested : list N)
| LReq (t : Z) (peer : N) (ids : list N)
| LUnsuspend (t : Z)
| LUninterest (t : Z) (id : N)
| LEnd (t : Z).

Record item := mkI {
  i_id : N;
  i_peers : list N;        (* announcers since last forgotten *)
  i_count : N;             (* number of announcements held *)
  i_atime : Z;             (* announce time of the first of them *)
  i_since : Z;             (* a request is owed since *)
  i_done : bool            (* ... and has been seen / is no longer owed *)
}.

Record sp := mkSp { s_items : list item; s_overflow : bool }.

Definition smem (x : N) (l : list N) : bool := existsb (N.eqb x) l.

Fixpoint it_find (id : N) (l : list item) : option item :=
  match l with [] => None | x :: r => if (i_id x =? id)%N then Some x else it_find id r end.
Definition it_del (id : N) (l : list item) : list item := filter (fun x => negb (i_id x =? id)%N) l.
Definition it_put (x : item) (l : list item) : list item := x :: it_del (i_id x) l.

Definition weight_of (l : list item) : N := fold_right (fun x a => (2 * i_count x - 1 + a)%N) 0%N l.

Definition time_of (e : lentry) : Z :=
  match e with
  | LNotify t _ _ _ | LRecv t _ | LPass t _ _ | LReq t _ _ | LUnsuspend t | LUninterest t _ | LEnd t => t
  end.

(* liveness at time t: nobody is overdue *)
Definition overdue (forget bound : Z) (t : Z) (x : item) : bool :=
  negb (i_done x) && Z.ltb (Z.add (i_since x) bound) t
  && Z.ltb (Z.sub (Z.add (i_since x) bound) (i_atime x)) forget.

Definition spec_step (forget bound : Z) (capacity : N) (s : sp) (e : lentry) : option sp :=
  let t := time_of e in
  if negb (s_overflow s) && existsb (overdue forget bound t) (s_items s) then None else
  match e with
  | LNotify _ peer atime ids =>
    let items := fold_left (fun l id =>
      match it_find id l with
      | Some x => it_put (mkI id (peer :: i_peers x) (i_count x + 1) (i_atime x) (i_since x) (i_done x)) l
      | None => it_put (mkI id [peer] 1 atime t false) l
      end) ids (s_items s) in
    Some (mkSp items (s_overflow s || (capacity <? weight_of items)%N || (capacity <? N.of_nat (length items))%N))
  | LRecv _ ids => Some (mkSp (fold_left (fun l id => it_del id l) ids (s_items s)) (s_overflow s))
  | LPass _ all interested =>
    Some (mkSp (fold_left (fun l id => if smem id interested then l else it_del id l) all (s_items s)) (s_overflow s))
  | LReq _ peer ids =>
    if forallb (fun id => match it_find id (s_items s) with
                          | Some x => smem peer (i_peers x)
                          | None => false end) ids
    then Some (mkSp (fold_left (fun l id =>
           match it_find id l with
           | Some x => it_put (mkI id (i_peers x) (i_count x) (i_atime x) (i_since x) true) l
           | None => l end) ids (s_items s)) (s_overflow s))
    else None
  | LUnsuspend _ =>
    Some (mkSp (map (fun x => if i_done x then x else mkI (i_id x) (i_peers x) (i_count x) (i_atime x) t false) (s_items s)) (s_overflow s))
  | LUninterest _ id =>
    Some (mkSp (map (fun x => if (i_id x =? id)%N then mkI (i_id x) (i_peers x) (i_count x) (i_atime x) (i_since x) true else x) (s_items s)) (s_overflow s))
  | LEnd _ => Some s
  end.

Fixpoint spec_run (forget bound : Z) (capacity : N) (s : sp) (log : list lentry) : bool :=
  match log with
  | [] => true
  | e :: r => match spec_step forget bound capacity s e with
              | Some s' => spec_run forget bound capacity s' r
              | None => false
              end
  end.

Definition spec_check (forget bound : Z) (capacity : N) (log : list lentry) : bool :=
  spec_run forget bound capacity (mkSp [] false) log.
