(* Independent specification for C31: what a result of a piecewise-linear function must
   satisfy, in unbounded natural-number arithmetic, without the search loop and without the
   ratio mechanism.  All statements are about a dot list, an argument x and a reported result y.
   (N, not Z: see model/PieceFunc.v; every subtraction below is guarded by a comparison.) *)
From Coq Require Import NArith List Bool.
Import ListNotations.
Local Open Scope N_scope.

Definition sdot := (N * N)%type.
Definition unit6 : N := 1000000.
Definition two64n : N := 18446744073709551616.
(* largest supported coordinate: floor((2^64-1)/10^6) - 1 *)
Definition coord_max : N := (two64n - 1) / unit6 - 1.

Definition absdiff (a b : N) : N := if a <? b then b - a else a - b.

Fixpoint increasing (l : list sdot) : bool :=
  match l with
  | (x0, _) :: ((x1, _) :: _) as r => (x0 <? x1) && increasing r
  | _ => true
  end.
Definition coords_ok (l : list sdot) : bool :=
  forallb (fun d => (fst d <=? coord_max) && (snd d <=? coord_max)) l.
(* a valid dot list: at least two dots, strictly increasing X, coordinates within range *)
Definition valid_dots (l : list sdot) : bool :=
  Nat.leb 2 (length l) && increasing l && coords_ok l.

(* x0 <= x <= x1 lies between the neighbours (x0,y0), (x1,y1), x0 < x1: the result is at most
   the larger Y, at least the smaller Y minus one, and within |dY|/10^6 + 2 of the exact
   interpolation  y0 + (y1-y0)(x-x0)/(x1-x0) = (y0 (dx-a) + y1 a)/dx ;
   the last clause is that bound multiplied by dx*10^6 *)
Definition between_ok (x0 y0 x1 y1 x y : N) : bool :=
  let dx := x1 - x0 in
  let a := x - x0 in
  (N.min y0 y1 <=? y + 1) && (y <=? N.max y0 y1) &&
  (absdiff (y * dx * unit6) ((y0 * (dx - a) + y1 * a) * unit6) <=? (absdiff y1 y0 + 2 * unit6) * dx).

Fixpoint neighbours_ok (l : list sdot) (x y : N) : bool :=
  match l with
  | (x0, y0) :: ((x1, y1) :: _) as r =>
      (if (x0 <=? x) && (x <=? x1) then between_ok x0 y0 x1 y1 x y else true) && neighbours_ok r x y
  | _ => true
  end.

Definition at_dots_ok (l : list sdot) (x y : N) : bool :=
  forallb (fun d => if fst d =? x then snd d =? y else true) l.

Definition ends_ok (l : list sdot) (x y : N) : bool :=
  match l with
  | [] => true
  | (fx, fy) :: _ =>
      let '(lx, ly) := last l (fx, fy) in
      (if x <? fx then y =? fy else true) && (if lx <? x then y =? ly else true)
  end.

(* the whole right-hand side of C31 for one argument *)
Definition get_ok (l : list sdot) (x y : N) : bool :=
  (y <? two64n) && ends_ok l x y && at_dots_ok l x y && neighbours_ok l x y.
