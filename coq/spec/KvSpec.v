(* KvSpec — the abstract ordered byte-string map that every kvdb.Store is supposed to be
   (C22-C24): a strictly ascending association list with puts, deletes, batch writes
   (a batch is the list of its operations; replay = that list in insertion order), reads that
   distinguish an absent key from an empty value, prefix-and-start iteration in ascending
   key order, and snapshots (a snapshot is the map value at the time it was taken).
   Also the two derived views the wrapper properties are stated with:
     [kv_table_view p m]  = the part of m whose keys start with p, with p removed   (C24)
     [kv_overlay_view log m] = m after the writes of [log] in order                 (C22)  *)
From Coq Require Import NArith List Bool.
From LV Require Import lib.Bytes lib.SortedMap.
Import ListNotations.

Definition val := list N.
Definition kvmap := smap val.

Inductive wop := WPut (k : key) (v : val) | WDel (k : key).

Definition wop_key (o : wop) : key := match o with WPut k _ => k | WDel k => k end.

Definition kv_apply (m : kvmap) (o : wop) : kvmap :=
  match o with
  | WPut k v => sm_put m k v
  | WDel k => sm_del m k
  end.

Definition kv_write (m : kvmap) (ops : list wop) : kvmap := fold_left kv_apply ops m.

Definition kv_get (m : kvmap) (k : key) : option val := sm_get m k.
Definition kv_has (m : kvmap) (k : key) : bool :=
  match sm_get m k with Some _ => true | None => false end.

(* NewIterator(prefix, start): keys with the prefix that are >= prefix ++ start, ascending *)
Definition in_iter (p s k : key) : bool := has_prefix p k && lex_leb (p ++ s) k.
Definition kv_iterate (m : kvmap) (p s : key) : list (key * val) := sm_filter (in_iter p s) m.

(* a table with prefix p over m *)
Definition kv_table_view (p : key) (m : kvmap) : kvmap :=
  map (fun kv => (strip p (fst kv), snd kv)) (sm_filter (has_prefix p) m).

(* a flushable store: the underlying map overlaid with the writes since the last flush/drop *)
Definition kv_overlay_view (log : list wop) (m : kvmap) : kvmap := kv_write m log.

(* number of distinct keys written in a log *)
Fixpoint distinct_keys (seen : list key) (log : list wop) : nat :=
  match log with
  | [] => O
  | o :: log' =>
      if existsb (bytes_eqb (wop_key o)) seen then distinct_keys seen log'
      else S (distinct_keys (wop_key o :: seen) log')
  end.
Definition kv_log_keys (log : list wop) : nat := distinct_keys [] log.

(* no key of the list is a prefix of another one (at a different position) *)
Fixpoint incomparable_all (keys : list key) : bool :=
  match keys with
  | [] => true
  | a :: r => forallb (fun b => negb (has_prefix a b) && negb (has_prefix b a)) r && incomparable_all r
  end.
