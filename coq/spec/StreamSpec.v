(* Executable form of the hypothesis of the C05/C06 theorems: the next event of a stream is
   well formed w.r.t. the DAG indexed so far (fresh id, creator is a validator, seq >= 1, parents
   indexed, self-parent by the same creator with seq - 1, seq = 1 without self-parent).
   proofs/VecMain.v: wf_evb_iff.  Used by the check driver to confirm that generated streams lie
   inside the domain of the theorems. *)
From Coq Require Import List Arith NArith Bool.
From LV Require Import model.VecIndex.
Import ListNotations.
Open Scope N_scope.

Definition knownb (E : list (N * event)) (x : N) : bool := match alookup x E with Some _ => true | None => false end.
Definition wf_evb (n : nat) (E : list (N * event)) (e : event) : bool :=
  negb (knownb E (eid e)) && Nat.ltb (ecr e) n && (1 <=? eseq e) && forallb (knownb E) (epar e) &&
  match self_parent e with
  | Some sp => match alookup sp E with
               | Some esp => Nat.eqb (ecr esp) (ecr e) && (eseq e =? eseq esp + 1)
               | None => false end
  | None => eseq e =? 1 end.
