(* Specification for the root registry, from the property text: the roots registered for
   frame f in the current epoch, computed from the history alone (no table, no cache, no
   encoding).  AddRoot(selfParentFrame, event) registers the event as a root of every frame
   in (selfParentFrame, event.Frame]; an epoch switch forgets everything; a restart
   (new Store over the same databases) changes nothing. *)
From Coq Require Import NArith List Bool.
From LV Require Import model.Roots.
Import ListNotations.
Local Open Scope N_scope.

(* all (frame, creator, id) registered in the current epoch, chronological *)
Fixpoint registered_from (acc : list root) (ops : list rop) : list root :=
  match ops with
  | [] => acc
  | RAdd spf frame creator id :: rest =>
      registered_from (acc ++ map (fun f => mkRoot f creator id) (frames_between spf frame)) rest
  | RGet _ :: rest => registered_from acc rest
  | RReset :: rest => registered_from [] rest
  | RRestart :: rest => registered_from acc rest
  end.
Definition registered_all (ops : list rop) : list root := registered_from [] ops.

(* the operations of the current epoch: everything after the last epoch switch *)
Fixpoint current_epoch_from (acc : list rop) (ops : list rop) : list rop :=
  match ops with
  | [] => acc
  | RReset :: rest => current_epoch_from [] rest
  | o :: rest => current_epoch_from (acc ++ [o]) rest
  end.
Definition current_epoch (ops : list rop) : list rop := current_epoch_from [] ops.

Definition ids_eqb (a b : list N) : bool := LV.lib.Bytes.bytes_eqb a b.
Definition root_eqb (a b : root) : bool :=
  (r_frame a =? r_frame b) && (r_val a =? r_val b) && ids_eqb (r_id a) (r_id b).

(* the registered roots of frame f *)
Definition registered (ops : list rop) (f : N) : list root :=
  filter (fun r => r_frame r =? f) (registered_all ops).

(* set equality of two root lists, executable (used by the driver on the implementation's answer) *)
Definition subset (a b : list root) : bool := forallb (fun x => existsb (root_eqb x) b) a.
Definition same_set (a b : list root) : bool := subset a b && subset b a.
