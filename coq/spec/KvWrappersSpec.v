(* C23x — what the wrapper stacks of model/KvWrappers.v are supposed to be, in terms of the ordered map
   of spec/KvSpec.v.  Each definition is the stated deviation of a wrapper, as a function on maps:

   [wview s]      the map the LIVE reads of the stack show: the base map, with every skipkeys prefix
                  filtered out; buffered (batched) writes are not in it; devnulldb shows nothing.
   [absent_res s k] what Get answers for a key k that is not in the view: (nil,nil) — always for a
                  hidden key of a skipkeys layer, whatever lies below it — or errNotFound when a
                  nokeyiserr layer is reached and not covered by a skiperrors layer listing that error.
   [wpending s]   the buffered writes in the order Close will write them; [wsettled s] the base map
                  once they are written: the map the stack denotes "after Flush/Close".
   Snapshots are taken below the skipkeys / batched / readonly / fallible layers: they show [wbase s]. *)
From Coq Require Import NArith ZArith List Bool.
From LV Require Import lib.Bytes lib.SortedMap spec.KvSpec model.KvWrappers.
Import ListNotations.

Fixpoint wview (s : wst) : kvmap :=
  match s with
  | WBase m => m
  | WMem m c => if c then [] else m
  | WNull => []
  | WSkip p u => sm_filter (fun k => negb (has_prefix p k)) (wview u)
  | WErr _ _ u | WBatched _ u | WNoKey u | WRO u | WSkipErr _ u | WFall _ u | WCached _ _ u => wview u
  end.

Fixpoint absent_res (s : wst) (k : key) : res (option val) :=
  match s with
  | WBase _ | WMem _ _ | WNull => ROk None
  | WSkip p u => if has_prefix p k then ROk None else absent_res u k
  | WNoKey u => match absent_res u k with ROk None => RErr E_NOTFOUND | r => r end
  | WSkipErr l u => match absent_res u k with RErr e => if nmemb e l then ROk None else RErr e | r => r end
  | WErr _ _ u | WBatched _ u | WRO u | WFall _ u | WCached _ _ u => absent_res u k
  end.

Fixpoint wpending (s : wst) : list wop :=
  match s with
  | WBase _ | WMem _ _ | WNull => []
  | WBatched pend u => pend ++ wpending u
  | WErr _ _ u | WSkip _ u | WNoKey u | WRO u | WSkipErr _ u | WFall _ u | WCached _ _ u => wpending u
  end.
Definition wsettled (s : wst) : kvmap := kv_write (wbase s) (wpending s).

(* no failure-injecting layer *)
Fixpoint no_err (s : wst) : bool :=
  match s with
  | WBase _ | WNull => true
  | WMem _ c => negb c                       (* the real memorydb, while it is open *)
  | WErr _ _ _ => false
  | WBatched _ u | WSkip _ u | WNoKey u | WRO u | WSkipErr _ u | WFall _ u | WCached _ _ u => no_err u
  end.
(* only layers that neither fail nor swallow: batched, skipkeys, nokeyiserr, readonly, cached *)
Fixpoint quiet (s : wst) : bool :=
  match s with
  | WBase _ | WNull => true
  | WMem _ _ | WErr _ _ _ | WSkipErr _ _ | WFall _ _ => false   (* real memorydb: Close empties it, see C23x notes *)
  | WCached r _ u => (r =? 1)%N && quiet u                      (* the only handle: Close really closes *)
  | WBatched _ u | WSkip _ u | WNoKey u | WRO u => quiet u
  end.
(* below the topmost batched layer no buffer holds anything (true of every stack that was built with
   empty buffers and then only used from the top) *)
Fixpoint all_empty (s : wst) : bool :=
  match s with
  | WBase _ | WMem _ _ | WNull => true
  | WBatched pend u => match pend with [] => all_empty u | _ => false end
  | WErr _ _ u | WSkip _ u | WNoKey u | WRO u | WSkipErr _ u | WFall _ u | WCached _ _ u => all_empty u
  end.
Fixpoint inner_empty (s : wst) : bool :=
  match s with
  | WBase _ | WMem _ _ | WNull => true
  | WBatched _ u => all_empty u
  | WErr _ _ u | WSkip _ u | WNoKey u | WRO u | WSkipErr _ u | WFall _ u | WCached _ _ u => inner_empty u
  end.

(* the keys some skipkeys layer of the stack hides *)
Fixpoint hidden (s : wst) (k : key) : bool :=
  match s with
  | WBase _ | WMem _ _ | WNull => false
  | WSkip p u => has_prefix p k || hidden u k
  | WErr _ _ u | WBatched _ u | WNoKey u | WRO u | WSkipErr _ u | WFall _ u | WCached _ _ u => hidden u k
  end.
