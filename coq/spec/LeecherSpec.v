(* Independent specification of C18 as two monitors over callback logs.  They do not look at
   the leecher's state, only at what an observer of the callbacks (and of the API calls) sees.

   Base leecher, log = list of (API call, callbacks it caused):
     - at most one session at a time: StartSession only when no session is running
       (a session runs from StartSession to the next TerminateSession);
     - StartSession only with a peer that is registered at that moment, where
       UnregisterPeer(p) takes effect at its call; no session with p is running when
       UnregisterPeer(p) returns;
     - no StartSession after Terminate.
   Peer leecher, log = list of callbacks:
     - window: (sum of RequestChunks.maxChunks) never exceeds (number of IsProcessed = true
       answers) + ParallelChunksDownload;
     - a RequestChunks is made only after Suspend() has been asked in the same routine run and
       has answered false (so none while suspended, and none without asking);
     - after a Done() = true, and after an external Terminate() has returned, nothing is called
       any more (no Done, IsProcessed, Suspend, RequestChunks). *)
From Coq Require Import NArith List Bool.
From LV Require Import model.Leecher.
Import ListNotations.

(* ----------------------------- base leecher --------------------------------------- *)
Record bmon := mkBM {
  m_reg : list N;          (* peers registered by the API calls so far *)
  m_running : option N;    (* session running according to the callbacks *)
  m_term : bool            (* Terminate was called *)
}.

Definition bmon_init : bmon := mkBM [] None false.

Definition bmon_ev (m : bmon) (e : bev) : option bmon :=
  match e with
  | EStart p _ =>
      match m_running m with
      | Some _ => None                                   (* two sessions at once *)
      | None => if m_term m then None                    (* session after termination *)
                else if mem p (m_reg m) then Some (mkBM (m_reg m) (Some p) (m_term m))
                else None                                (* session with an unregistered peer *)
      end
  | ETerm _ => Some (mkBM (m_reg m) None (m_term m))
  | EPanic => Some m
  end.

Fixpoint bmon_evs (m : bmon) (l : list bev) : option bmon :=
  match l with
  | [] => Some m
  | e :: r => match bmon_ev m e with Some m' => bmon_evs m' r | None => None end
  end.

Definition bmon_call (m : bmon) (o : bop) : bmon :=
  match o with
  | BReg p => mkBM (p :: m_reg m) (m_running m) (m_term m)
  | BUnreg p _ => mkBM (filter (fun q => negb (N.eqb p q)) (m_reg m)) (m_running m) (m_term m)
  | BTick _ _ => m
  | BTerminate => mkBM (m_reg m) (m_running m) true
  end.

Definition bmon_ret (m : bmon) (o : bop) : bool :=
  match o with
  | BUnreg p _ => match m_running m with Some q => negb (N.eqb p q) | None => true end
  | BTerminate => match m_running m with Some _ => false | None => true end
  | _ => true
  end.

Fixpoint bmon_run (m : bmon) (log : list (bop * list bev)) : bool :=
  match log with
  | [] => true
  | (o, evs) :: r =>
      match bmon_evs (bmon_call m o) evs with
      | Some m' => bmon_ret m' o && bmon_run m' r
      | None => false
      end
  end.

Definition base_spec_ok (log : list (bop * list bev)) : bool := bmon_run bmon_init log.

(* ----------------------------- peer leecher --------------------------------------- *)
Record pmon := mkPM {
  w_req : N;               (* sum of RequestChunks.maxChunks seen *)
  w_proc : N;              (* number of IsProcessed = true answers seen *)
  w_susp : bool;           (* no Suspend() = false answer yet in the current run *)
  w_fin : bool             (* a Done() = true was seen *)
}.

Definition pmon_init : pmon := mkPM 0 0 true false.

Definition pmon_ev (par : N) (m : pmon) (e : pev) : option pmon :=
  match e with
  | PTerminated => Some (mkPM (w_req m) (w_proc m) (w_susp m) true)
  | _ =>
    if w_fin m then None
    else match e with
         | PDone b => Some (mkPM (w_req m) (w_proc m) true b)
         | PIsProc _ b => Some (mkPM (w_req m) (if b then w_proc m + 1 else w_proc m)%N (w_susp m) false)
         | PSusp b => Some (mkPM (w_req m) (w_proc m) b false)
         | PReq k =>
             if w_susp m then None
             else if (w_req m + k <=? w_proc m + par)%N then Some (mkPM (w_req m + k)%N (w_proc m) false false)
             else None
         | PTerminated => Some m
         end
  end.

Fixpoint pmon_run (par : N) (m : pmon) (log : list pev) : bool :=
  match log with
  | [] => true
  | e :: r => match pmon_ev par m e with Some m' => pmon_run par m' r | None => false end
  end.

Definition peer_spec_ok (par : N) (log : list pev) : bool := pmon_run par pmon_init log.

(* the window is kept full: after a run that was neither done nor suspended the window equals
   the parallelism limit (stated separately; not part of the property's text) *)
Fixpoint pmon_final (par : N) (m : pmon) (log : list pev) : option pmon :=
  match log with
  | [] => Some m
  | e :: r => match pmon_ev par m e with Some m' => pmon_final par m' r | None => None end
  end.
