(* Independent specification of C17, stated per session incarnation over what a peer observes.

   An observation is, per incarnation (identified by the request that opened it: the SendChunk
   callback captured at creation), the sequence of responses in arrival order; each response
   names the request it serves, its session id, its done flag and its items.

   Session lifetime, as the property words it: a request for (peer, sid) resumes the peer's
   live session sid; otherwise it opens a new one, and when the peer already holds three the
   oldest is dropped; UnregisterPeer drops all sessions of the peer.  [lifetimes] computes from
   the submitted operations alone which incarnation has to serve which request.

   Per incarnation opened by a request with (start, stop):
     - the concatenated items are a prefix of the items with start <= key < stop, in key order
       (so: in order, no gaps, no repeats);
     - only the last response may be marked done, and then the concatenation is the whole range;
     - a request asking for n chunks gets exactly n responses, or fewer ending with / preceded
       by the done response;
     - a response minus its last item stays within the item-count and size limits of the
       request it serves;
     - responses are ordered by the requests they serve.
   Pending memory: every sampled value is below limit + (memory of the largest response).
   Nothing here looks at the seeder's state or algorithm. *)
From Coq Require Import NArith List Bool.
From LV Require Import model.Seeder.
Import ListNotations.
Local Open Scope N_scope.

(* ---------- items of a range ---------- *)
Definition in_range (a b : N) (x : item) : bool := (a <=? it_key x) && (it_key x <? b).
Definition range_items (db : list item) (a b : N) : list item := filter (in_range a b) db.

Definition item_eqb (x y : item) : bool :=
  (it_key x =? it_key y) && (it_size x =? it_size y) && (it_mem x =? it_mem y).

Fixpoint is_prefix (l m : list item) : bool :=
  match l, m with
  | [], _ => true
  | x :: l', y :: m' => item_eqb x y && is_prefix l' m'
  | _ :: _, [] => false
  end.

Fixpoint items_eqb (l m : list item) : bool :=
  match l, m with
  | [], [] => true
  | x :: l', y :: m' => item_eqb x y && items_eqb l' m'
  | _, _ => false
  end.

(* "exceeds the limit by at most one item": without its last item the payload is within both
   limits *)
Definition limits_ok (maxnum maxsize : N) (items : list item) : bool :=
  let body := removelast items in
  (N.of_nat (length body) <=? maxnum) && (sum_size body <=? maxsize).

(* ---------- session lifetime ---------- *)
Inductive sop := SReq (rq : request) | SUnreg (p : N).
Inductive expect := XTooMany | XMisb | XServe (creator : N).

Record slive := mkLive { l_sid : N; l_creator : N; l_orig : N }.

Fixpoint find_live (sid : N) (l : list slive) : option slive :=
  match l with
  | [] => None
  | x :: r => if l_sid x =? sid then Some x else find_live sid r
  end.

Fixpoint peer_live (p : N) (m : list (N * list slive)) : list slive :=
  match m with
  | [] => []
  | (q, l) :: r => if p =? q then l else peer_live p r
  end.

Definition set_peer_live (p : N) (l : list slive) (m : list (N * list slive)) : list (N * list slive) :=
  (p, l) :: filter (fun kv => negb (p =? fst kv)) m.

Definition life_step (maxchunks : N) (m : list (N * list slive)) (o : sop)
  : list (N * list slive) * list (N * expect) :=
  match o with
  | SUnreg p => (set_peer_live p [] m, [])
  | SReq rq =>
      if maxchunks <? r_chunks rq then (m, [(r_serial rq, XTooMany)])
      else
        let l := peer_live (r_peer rq) m in
        match find_live (r_sid rq) l with
        | Some x => if l_orig x =? r_start rq then (m, [(r_serial rq, XServe (l_creator x))])
                    else (m, [(r_serial rq, XMisb)])
        | None =>
            let l' := (if 3 <=? N.of_nat (length l) then tl l else l)
                      ++ [mkLive (r_sid rq) (r_serial rq) (r_start rq)] in
            (set_peer_live (r_peer rq) l' m, [(r_serial rq, XServe (r_serial rq))])
        end
  end.

Fixpoint lifetimes (maxchunks : N) (m : list (N * list slive)) (ops : list sop) : list (N * expect) :=
  match ops with
  | [] => []
  | o :: r => let '(m', e) := life_step maxchunks m o in e ++ lifetimes maxchunks m' r
  end.

Fixpoint expect_of (t : N) (l : list (N * expect)) : option expect :=
  match l with
  | [] => None
  | (s, e) :: r => if s =? t then Some e else expect_of t r
  end.

Fixpoint req_of (t : N) (ops : list sop) : option request :=
  match ops with
  | [] => None
  | SReq rq :: r => if r_serial rq =? t then Some rq else req_of t r
  | _ :: r => req_of t r
  end.

(* ---------- observations ---------- *)
Record oresp := mkO { o_tag : N; o_sid : N; o_done : bool; o_items : list item }.

Fixpoint concat_items (l : list oresp) : list item :=
  match l with [] => [] | x :: r => o_items x ++ concat_items r end.

(* only the last response may be done *)
Fixpoint done_only_last (l : list oresp) : bool :=
  match l with
  | [] => true
  | [x] => true
  | x :: r => negb (o_done x) && done_only_last r
  end.
Definition last_done (l : list oresp) : bool :=
  match rev l with x :: _ => o_done x | [] => false end.

Fixpoint tags_sorted (l : list oresp) : bool :=
  match l with
  | x :: ((y :: _) as r) => (o_tag x <=? o_tag y) && tags_sorted r
  | _ => true
  end.

Definition count_tag (t : N) (l : list oresp) : N :=
  N.of_nat (length (filter (fun x => o_tag x =? t) l)).

(* the done response of the incarnation, if any, serves a request not later than t *)
Definition done_by (t : N) (l : list oresp) : bool :=
  existsb (fun x => o_done x && (o_tag x <=? t)) l.

Definition min_n (a b : N) : N := if a <? b then a else b.

(* one incarnation: (creator serial, responses) *)
Definition inc_ok (cfg : config) (db : list item) (ops : list sop) (exp : list (N * expect))
                  (inc : N * list oresp) : bool :=
  let '(c, rs) := inc in
  match req_of c ops, expect_of c exp with
  | Some rqc, Some (XServe c') =>
      (c' =? c)                                                  (* the creator opened it *)
      && forallb (fun x => o_sid x =? r_sid rqc) rs              (* SessionID *)
      && is_prefix (concat_items rs) (range_items db (r_start rqc) (r_stop rqc))
      && done_only_last rs
      && (negb (last_done rs) ||
          items_eqb (concat_items rs) (range_items db (r_start rqc) (r_stop rqc)))
      && tags_sorted rs
      && forallb (fun x =>
           match req_of (o_tag x) ops, expect_of (o_tag x) exp with
           | Some rqt, Some (XServe c'') =>
               (c'' =? c)                                        (* resumed, not restarted *)
               && (r_peer rqt =? r_peer rqc) && (r_sid rqt =? r_sid rqc)
               && limits_ok (min_n (r_num rqt) (c_maxnum cfg)) (min_n (r_size rqt) (c_maxsize cfg))
                            (o_items x)
               && (count_tag (o_tag x) rs <=? r_chunks rqt)
           | _, _ => false
           end) rs
  | _, _ => false
  end.

Fixpoint inc_of (c : N) (incs : list (N * list oresp)) : list oresp :=
  match incs with
  | [] => []
  | (c', rs) :: r => if c' =? c then rs else inc_of c r
  end.

(* every served request got all the chunks it asked for, unless the session finished *)
Definition counts_ok (ops : list sop) (exp : list (N * expect)) (incs : list (N * list oresp)) : bool :=
  forallb (fun o =>
    match o with
    | SUnreg _ => true
    | SReq rq =>
        match expect_of (r_serial rq) exp with
        | Some (XServe c) =>
            let rs := inc_of c incs in
            (count_tag (r_serial rq) rs =? r_chunks rq) || done_by (r_serial rq) rs
        | _ => true
        end
    end) ops.

Fixpoint nodup_creators (incs : list (N * list oresp)) : bool :=
  match incs with
  | [] => true
  | (c, _) :: r => negb (existsb (fun x => fst x =? c) r) && nodup_creators r
  end.

Fixpoint sorted_n (l : list N) : list N :=
  match l with
  | [] => []
  | x :: r => (fix ins (y : N) (s : list N) : list N :=
                 match s with [] => [y] | z :: s' => if y <=? z then y :: s else z :: ins y s' end)
              x (sorted_n r)
  end.
Fixpoint list_n_eqb (a b : list N) : bool :=
  match a, b with
  | [], [] => true
  | x :: a', y :: b' => (x =? y) && list_n_eqb a' b'
  | _, _ => false
  end.

Definition serials_with (f : expect -> bool) (exp : list (N * expect)) : list N :=
  map fst (filter (fun x => f (snd x)) exp).

Definition resp_items_mem (cfg : config) (x : oresp) : N := c_membase cfg + sum_mem (o_items x).
Fixpoint max_mem (cfg : config) (l : list oresp) : N :=
  match l with [] => c_membase cfg | x :: r => N.max (resp_items_mem cfg x) (max_mem cfg r) end.

(* the whole observation of one history:
     ops      submitted operations of real peers, serials assigned, in submission order
     toomany  serials whose NotifyRequestReceived returned ErrTooManyChunks
     misb     serials whose Misbehaviour callback was called
     incs     responses per incarnation
     pend     sampled pending sizes *)
Definition seeder_spec_ok (cfg : config) (db : list item) (ops : list sop)
                          (toomany misb : list N) (incs : list (N * list oresp)) (pend : list N) : bool :=
  let exp := lifetimes (c_maxchunks cfg) [] ops in
  let all := concat (map snd incs) in
  nodup_creators incs
  && forallb (inc_ok cfg db ops exp) incs
  && counts_ok ops exp incs
  && list_n_eqb (sorted_n toomany) (sorted_n (serials_with (fun e => match e with XTooMany => true | _ => false end) exp))
  && list_n_eqb (sorted_n misb) (sorted_n (serials_with (fun e => match e with XMisb => true | _ => false end) exp))
  && forallb (fun q => (q =? 0) || (q <? c_limit cfg + max_mem cfg all)) pend.

(* a history cut short by Stop().  Stop() closes quit, drains the sender workers' queues and
   waits; the reader finishes the request it is serving and the workers may still take tasks
   (select chooses at random between quit and a queued task).  So responses may be DROPPED at
   any position while later ones are still sent: the stream of an incarnation is an
   order-preserving sub-sequence of the range (still in order, no repeats), chunk counts, the
   Misbehaviour set and the pending bound (which counts dropped responses) are not owed.  Stop is
   outside the property's quantifier; this variant only guards against nonsense. *)
Fixpoint is_subseq (l m : list item) : bool :=
  match m with
  | [] => match l with [] => true | _ => false end
  | y :: m' => match l with
               | [] => true
               | x :: l' => if item_eqb x y then is_subseq l' m' else is_subseq l m'
               end
  end.

Definition inc_ok_stopped (cfg : config) (db : list item) (ops : list sop) (exp : list (N * expect))
                          (inc : N * list oresp) : bool :=
  let '(c, rs) := inc in
  match req_of c ops, expect_of c exp with
  | Some rqc, Some (XServe c') =>
      (c' =? c)
      && forallb (fun x => o_sid x =? r_sid rqc) rs
      && is_subseq (concat_items rs) (range_items db (r_start rqc) (r_stop rqc))
      && done_only_last rs
      && tags_sorted rs
      && forallb (fun x =>
           match req_of (o_tag x) ops, expect_of (o_tag x) exp with
           | Some rqt, Some (XServe c'') =>
               (c'' =? c) && (r_peer rqt =? r_peer rqc) && (r_sid rqt =? r_sid rqc)
               && limits_ok (min_n (r_num rqt) (c_maxnum cfg)) (min_n (r_size rqt) (c_maxsize cfg)) (o_items x)
               && (count_tag (o_tag x) rs <=? r_chunks rqt)
           | _, _ => false
           end) rs
  | _, _ => false
  end.

Definition seeder_spec_ok_stopped (cfg : config) (db : list item) (ops : list sop)
                                  (incs : list (N * list oresp)) (pend : list N) : bool :=
  let exp := lifetimes (c_maxchunks cfg) [] ops in
  nodup_creators incs && forallb (inc_ok_stopped cfg db ops exp) incs.
