(* Independent specification for C11 / C12: what a validator set IS, stated without the
   builder's delete/overwrite mechanics, without a sort and without machine arithmetic.
   - the effective weight of an id after a sequence of Set calls is the last one written;
   - the canonical position of a pair is the number of pairs that must precede it
     (heavier, or equally heavy with a smaller id);
   - the quorum is floor(2W/3)+1 in unbounded arithmetic. *)
From Coq Require Import NArith PeanoNat List Bool.
From LV Require Import model.Pos.   (* only for the op / result types cop, cres *)
Import ListNotations.
Local Open Scope N_scope.

(* last write wins; never written (or written 0 last) = 0 = absent *)
Definition eff (ops : list (N * N)) (id : N) : N :=
  fold_left (fun acc p => if fst p =? id then snd p else acc) ops 0.

Fixpoint nodup_ids (l : list N) : list N :=
  match l with
  | [] => []
  | x :: r => if existsb (N.eqb x) r then nodup_ids r else x :: nodup_ids r
  end.

(* the set of (id, weight) pairs with non-zero weight, each id once *)
Definition eff_ids (ops : list (N * N)) : list N :=
  filter (fun id => negb (eff ops id =? 0)) (nodup_ids (map fst ops)).
Definition eff_pairs (ops : list (N * N)) : list (N * N) :=
  map (fun id => (id, eff ops id)) (eff_ids ops).

(* a must come before b: heavier first, ties by ascending id *)
Definition before (a b : N * N) : bool :=
  (snd b <? snd a) || ((snd a =? snd b) && (fst a <? fst b)).

Definition rank (pairs : list (N * N)) (p : N * N) : nat :=
  length (filter (fun q => before q p) pairs).

Definition pair_eqb (a b : N * N) : bool := (fst a =? fst b) && (snd a =? snd b).
Definition mem_pair (p : N * N) (l : list (N * N)) : bool := existsb (pair_eqb p) l.

Definition sum_weights (pairs : list (N * N)) : N := fold_right (fun p acc => snd p + acc) 0 pairs.
Definition spec_total (ops : list (N * N)) : N := sum_weights (eff_pairs ops).

(* [arr] (ids zipped with weights, in the order the implementation reports them) is the
   canonical arrangement of [pairs]: same number of entries, every entry is a pair of the set
   and sits at its rank *)
Fixpoint canon_from (pairs : list (N * N)) (i : nat) (arr : list (N * N)) : bool :=
  match arr with
  | [] => true
  | p :: r => mem_pair p pairs && Nat.eqb (rank pairs p) i && canon_from pairs (S i) r
  end.
Definition canon_ok (pairs arr : list (N * N)) : bool :=
  Nat.eqb (length arr) (length pairs) && canon_from pairs 0 arr.

(* quorum in unbounded arithmetic *)
Definition quorum_spec (W : N) : N := 2 * W / 3 + 1.
Definition max_total : N := 2147483647.   (* 2^31 - 1 *)

(* counted weight of a set of positions (each position at most once) *)
Definition counted_sum (ws : list N) (counted : list nat) : N :=
  fold_right (fun i acc => nth i ws 0 + acc) 0 (nodup Nat.eq_dec counted).

(* the pair sitting at canonical position i, by rank (no sort) *)
Definition at_rank (pairs : list (N * N)) (i : nat) : option (N * N) :=
  find (fun p => Nat.eqb (rank pairs p) i) pairs.
Definition spec_array (pairs : list (N * N)) : list (N * N) :=
  flat_map (fun i => match at_rank pairs i with Some p => [p] | None => [] end)
           (seq 0 (length pairs)).
(* canonical index of an id: its pair's rank; an absent id reads the Go map's zero value *)
Definition spec_idx (ops : list (N * N)) (id : N) : nat :=
  if eff ops id =? 0 then 0%nat else rank (eff_pairs ops) (id, eff ops id).

(* the weight counter as a set of counted positions: what every call must return *)
Fixpoint spec_counter (ws : list N) (W : N) (idx_of : N -> nat) (counted : list nat)
         (ops : list cop) : list cres :=
  match ops with
  | [] => []
  | op :: r =>
      match op with
      | OpIdx i =>
          if (i <? length ws)%nat
          then RBool (negb (existsb (Nat.eqb i) counted)) :: spec_counter ws W idx_of (i :: counted) r
          else [RPanic]
      | OpId id =>
          let i := idx_of id in
          if (i <? length ws)%nat
          then RBool (negb (existsb (Nat.eqb i) counted)) :: spec_counter ws W idx_of (i :: counted) r
          else [RPanic]
      | OpHas => RBool (quorum_spec W <=? counted_sum ws counted) :: spec_counter ws W idx_of counted r
      | OpSum => RNum (counted_sum ws counted) :: spec_counter ws W idx_of counted r
      end
  end.

(* big stakes: the common shift is the least s with (total >> s) < 2^31 *)
Definition shift_ok (total s : N) : bool :=
  (N.shiftr total s <? 2147483648) && ((s =? 0) || (2147483648 <=? N.shiftr total (s - 1))).
Fixpoint find_shift (fuel : nat) (s total : N) : option N :=
  if shift_ok total s then Some s
  else match fuel with O => None | S f => find_shift f (s + 1) total end.
(* the set a big builder must produce: every effective stake scaled by the one common shift,
   stakes that scale to zero dropped *)
Definition big_spec_pairs (ops : list (N * N)) (s : N) : list (N * N) :=
  filter (fun p => negb (snd p =? 0)) (map (fun p => (fst p, N.shiftr (snd p) s)) (eff_pairs ops)).
