(* C26 — reference semantics of the DATA seen through multidb stores.

   [ref_run] executes a history like MultiDb.run for everything that concerns routing, opening,
   records and Verify, but it ignores the raw key/value contents of the databases: what a Get
   returns is looked up in an abstract map keyed by (database, REQUEST, user key) that is
   - extended by every successful Put through that request,
   - emptied for a database when that database is dropped,
   and touched by nothing else.  So in ref_run a Get through a request returns the latest Put of
   the same key through the same request since the database was last dropped, and Puts through
   other requests cannot influence it, by construction.  The theorem data_isolation says the
   model (prefixing keys with the table in one shared raw database) produces the same observations. *)
From Coq Require Import NArith List Bool.
From LV Require Import lib.Bytes model.MultiDb.
Import ListNotations.

Definition akey := (dbloc * str * str)%type.          (* (database, request, user key) *)
Definition akey_eqb (a b : akey) : bool :=
  loc_eqb (fst (fst a)) (fst (fst b)) && bytes_eqb (snd (fst a)) (snd (fst b)) && bytes_eqb (snd a) (snd b).
Definition amap := list (akey * str).

Fixpoint aget (k : akey) (m : amap) : option str :=
  match m with
  | [] => None
  | (k', v) :: t => if akey_eqb k' k then Some v else aget k t
  end.
Definition aput (k : akey) (v : str) (m : amap) : amap := (k, v) :: m.
Definition adrop (l : dbloc) (m : amap) : amap :=
  filter (fun e => negb (loc_eqb (fst (fst (fst e))) l)) m.

Section Ref.
  Variable orc : str -> str -> str -> option str.
  Variable newp : list str -> list (str * route) -> option producer.
  Variable avail : list str.

  Definition ref_step (sa : state * amap) (o : op) : (state * amap) * obs :=
    let '(st, a) := sa in
    let '(st', b) := step orc newp avail st o in
    match o, b with
    | OPut req k v, BOpen (OOk rt) => ((st', aput ((r_type rt, r_name rt), req, k) v a), b)
    | OGet req k, BGet (OOk rt) _ => ((st', a), BGet (OOk rt) (aget ((r_type rt, r_name rt), req, k) a))
    | ODrop req, BOpen (OOk rt) =>
        ((st', if r_nodrop rt then a else adrop (r_type rt, r_name rt) a), b)
    | _, _ => ((st', a), b)
    end.

  Fixpoint ref_run_from (sa : state * amap) (ops : list op) : list obs :=
    match ops with
    | [] => []
    | o :: rest => let '(sa', b) := ref_step sa o in b :: ref_run_from sa' rest
    end.
  Definition ref_run (ops : list op) : list obs := ref_run_from (init_state, []) ops.
End Ref.
