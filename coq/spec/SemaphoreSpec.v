(* Independent specification for C30 (events semaphore), as an acceptor of observed behaviour.

   It knows nothing about condition variables, broadcasts, waiting lists or timers.  It sees
   a script (which call was made at which instant) and a digest of what was observed (which
   Acquire returned what at which instant, TryAcquire results, warnings, Processing()
   values), keeps a ghost account in UNBOUNDED arithmetic

        held = sum of granted weights - sum of released weights (reset to 0 by an over-release)

   and checks at every instant at which something was observed (a scripted call, a return), after
   the scripted call of that instant and all returns observed at that instant:

     bound      held <= the capacity the semaphore was created with
     grants     whoever was granted fits in the current capacity (zero after Terminate);
                checking the sum is enough: the partial sums are smaller
     refusals   a refused request does not fit, and exceeds the capacity (zero after
                Terminate) or its deadline has been reached
     pending    a request that has not returned does not fit, does not exceed the capacity,
                and its deadline is still ahead   ("granted as soon as it fits", "refused
                when over capacity / terminated", "returns at its deadline")
     try        TryAcquire answers exactly "fits", immediately
     release    an over-release reports (held, w) once and resets held to 0
     processing Processing() = held                                                      *)
From Coq Require Import NArith ZArith List Bool.
From LV Require Import model.Semaphore.
Import ListNotations.

Definition fitsb (h w c : metric) : bool :=
  ((mnum h + mnum w <=? mnum c) && (msize h + msize w <=? msize c))%N.
Definition exceedsb (w c : metric) : bool := ((mnum c <? mnum w) || (msize c <? msize w))%N.
Definition meqb (a b : metric) : bool := ((mnum a =? mnum b) && (msize a =? msize b))%N.
Definition mplus (a b : metric) : metric := mkM (mnum a + mnum b) (msize a + msize b).

(* ---------- the acceptor proper: a chronological stream of instants ---------- *)

(* what was observed of the scripted call of an instant *)
Inductive opobs :=
| ONoObs                                   (* Acquire (its return is among the returns), Terminate *)
| OTryB (ok : bool)                        (* TryAcquire returned ok *)
| ORelB (warn : option (metric * metric))  (* Release: the warning callback's arguments, if it was called *)
| OProcB (m : metric).                     (* Processing() returned m *)

Record irec := mkIR {
  ir_t : Z;                                (* the instant *)
  ir_op : option (sop * opobs);            (* the scripted call made at this instant, if any *)
  ir_rets : list (N * bool)                (* Acquire calls that returned at this instant: id, result *)
}.

(* acceptor state: ghost account, capacity, requests that have not returned (id, weight, deadline) *)
Record ast := mkAS {
  a_held : metric; a_cap0 : metric; a_cap : metric; a_pend : list waiter; a_last : option Z
}.

Fixpoint ret_of (id : N) (rets : list (N * bool)) : option bool :=
  match rets with
  | [] => None
  | (i, b) :: r => if (i =? id)%N then Some b else ret_of id r
  end.

Definition memNb (x : N) (l : list N) : bool := existsb (N.eqb x) l.
Fixpoint nodupNb (l : list N) : bool :=
  match l with [] => true | x :: r => negb (memNb x r) && nodupNb r end.

Definition sum_w (l : list waiter) : metric := fold_right (fun p a => mplus (ww p) a) mzero l.

Definition accept_op (a : ast) (t : Z) (o : option (sop * opobs)) : option ast :=
  match o with
  | None => Some a
  | Some (SAcq id w timeout, ONoObs) =>
    Some (mkAS (a_held a) (a_cap0 a) (a_cap a) (a_pend a ++ [mkW id w (t + timeout)%Z]) (a_last a))
  | Some (STry w, OTryB b) =>
    if Bool.eqb b (fitsb (a_held a) w (a_cap a))
    then Some (mkAS (if b then mplus (a_held a) w else a_held a) (a_cap0 a) (a_cap a) (a_pend a) (a_last a))
    else None
  | Some (SRel w, ORelB x) =>
    if mlt_any (a_held a) w
    then match x with
         | Some (h', w') => if meqb h' (a_held a) && meqb w' w
                            then Some (mkAS mzero (a_cap0 a) (a_cap a) (a_pend a) (a_last a)) else None
         | None => None
         end
    else match x with
         | None => Some (mkAS (msub (a_held a) w) (a_cap0 a) (a_cap a) (a_pend a) (a_last a))
         | Some _ => None
         end
  | Some (STerm, ONoObs) => Some (mkAS (a_held a) (a_cap0 a) mzero (a_pend a) (a_last a))
  | Some (SProc, OProcB m) => if meqb m (a_held a) then Some a else None
  | Some _ => None
  end.

Definition accept_returns (a : ast) (t : Z) (rets : list (N * bool)) : option ast :=
  let ids := map fst rets in
  let cl := fun (want : option bool) =>
    filter (fun p => match ret_of (wid p) rets, want with
                     | Some b, Some b' => Bool.eqb b b'
                     | None, None => true
                     | _, _ => false end) (a_pend a) in
  let granted := cl (Some true) in
  let h_end := mplus (a_held a) (sum_w granted) in
  let c := a_cap a in
  if negb (nodupNb ids) then None                                                  (* one return per caller *)
  else if negb (forallb (fun i => memNb i (map wid (a_pend a))) ids) then None     (* only pending callers return *)
  else if negb (fitsb h_end mzero (a_cap0 a)) then None                            (* bound *)
  else if negb (match granted with [] => true | _ => fitsb h_end mzero c end) then None   (* grants fit *)
  else if negb (forallb (fun p => negb (fitsb h_end (ww p) c) &&
                                  (exceedsb (ww p) c || (wdl p <=? t)%Z)) (cl (Some false))) then None
  else if negb (forallb (fun p => negb (fitsb h_end (ww p) c) &&
                                  negb (exceedsb (ww p) c) && (t <? wdl p)%Z) (cl None)) then None
  else Some (mkAS h_end (a_cap0 a) c (cl None) (Some t)).

Definition accept_step (a : ast) (r : irec) : option ast :=
  let t := ir_t r in
  if match a_last a with Some t0 => negb (t0 <? t)%Z | None => false end then None   (* instants increase *)
  else if existsb (fun p => (wdl p <? t)%Z) (a_pend a) then None     (* someone's deadline passed unanswered *)
  else match accept_op a t (ir_op r) with
       | Some a' => accept_returns a' t (ir_rets r)
       | None => None
       end.

Fixpoint accept_run (a : ast) (l : list irec) : option ast :=
  match l with
  | [] => Some a
  | r :: l' => match accept_step a r with Some a' => accept_run a' l' | None => None end
  end.

Definition accept (c : metric) (l : list irec) : bool :=
  match accept_run (mkAS mzero c c [] None) l with
  | Some a => match a_pend a with [] => true | _ => false end      (* everybody returned *)
  | None => false
  end.

(* ---------- arranging a per-call observation (harness format) as a stream ---------- *)

Record digest := mkD {
  d_rets : list (N * (bool * Z));                 (* Acquire id returned ok at instant t; absent = never *)
  d_tries : list bool;                            (* TryAcquire results, in script order *)
  d_rels : list (option (metric * metric));       (* per Release: the warning, if any *)
  d_procs : list metric                           (* Processing() values, in script order *)
}.

Fixpoint find_op (t : Z) (sc : list (Z * sop)) : option sop :=
  match sc with
  | [] => None
  | (t', op) :: r => if (t' =? t)%Z then Some op else find_op t r
  end.

Fixpoint insertZ (x : Z) (l : list Z) : list Z :=
  match l with
  | [] => [x]
  | y :: r => if (x <? y)%Z then x :: l else if (x =? y)%Z then l else y :: insertZ x r
  end.
Definition sortZ (l : list Z) : list Z := fold_right insertZ [] l.

Definition instants (sc : list (Z * sop)) (d : digest) : list Z :=
  sortZ (map fst sc ++ map (fun x => snd (snd x)) (d_rets d)).

(* walk the instants in order, handing each scripted call the next observation of its kind *)
Fixpoint stream_of (sc : list (Z * sop)) (rets : list (N * (bool * Z)))
         (tries : list bool) (rels : list (option (metric * metric))) (procs : list metric)
         (ts : list Z) : list irec * bool :=
  match ts with
  | [] => ([], match tries, rels, procs with [], [], [] => true | _, _, _ => false end)
  | t :: ts' =>
    let here := map (fun x => (fst x, fst (snd x))) (filter (fun x => (snd (snd x) =? t)%Z) rets) in
    match find_op t sc with
    | Some (STry w) =>
      match tries with
      | b :: tr' => let '(l, ok) := stream_of sc rets tr' rels procs ts' in (mkIR t (Some (STry w, OTryB b)) here :: l, ok)
      | [] => ([], false)
      end
    | Some (SRel w) =>
      match rels with
      | x :: rl' => let '(l, ok) := stream_of sc rets tries rl' procs ts' in (mkIR t (Some (SRel w, ORelB x)) here :: l, ok)
      | [] => ([], false)
      end
    | Some SProc =>
      match procs with
      | m :: pr' => let '(l, ok) := stream_of sc rets tries rels pr' ts' in (mkIR t (Some (SProc, OProcB m)) here :: l, ok)
      | [] => ([], false)
      end
    | Some op => let '(l, ok) := stream_of sc rets tries rels procs ts' in (mkIR t (Some (op, ONoObs)) here :: l, ok)
    | None => let '(l, ok) := stream_of sc rets tries rels procs ts' in (mkIR t None here :: l, ok)
    end
  end.

Definition spec_check (c : metric) (sc : list (Z * sop)) (d : digest) : bool :=
  let '(l, ok) := stream_of sc (d_rets d) (d_tries d) (d_rels d) (d_procs d) (instants sc d) in
  ok && accept c l.

(* digest of a chronological observation list (as produced by the model's scheduler) *)
Fixpoint digest_of (ob : list sobs) : digest :=
  match ob with
  | [] => mkD [] [] [] []
  | x :: r =>
    let d := digest_of r in
    match x with
    | BRet id ok t => mkD ((id, (ok, t)) :: d_rets d) (d_tries d) (d_rels d) (d_procs d)
    | BNever _ => d
    | BTry ok => mkD (d_rets d) (ok :: d_tries d) (d_rels d) (d_procs d)
    | BWarn h w =>
      (* the warning belongs to the BRelDone that follows it *)
      match d_rels d with
      | None :: rr => mkD (d_rets d) (d_tries d) (Some (h, w) :: rr) (d_procs d)
      | _ => mkD (d_rets d) (d_tries d) (Some (h, w) :: d_rels d) (d_procs d)   (* stray warning: counted as a release *)
      end
    | BRelDone => mkD (d_rets d) (d_tries d) (None :: d_rels d) (d_procs d)
    | BProc m => mkD (d_rets d) (d_tries d) (d_rels d) (m :: d_procs d)
    end
  end.

(* ---------- Prop-level vocabulary for the theorems (props/C30.v) ---------- *)

(* component-wise, in unbounded arithmetic *)
Definition fits (h w c : metric) : Prop := (mnum h + mnum w <= mnum c)%N /\ (msize h + msize w <= msize c)%N.
Definition exceeds (w c : metric) : Prop := (mnum c < mnum w)%N \/ (msize c < msize w)%N.
Definition covers (h w : metric) : Prop := (mnum w <= mnum h)%N /\ (msize w <= msize h)%N.
Definition mle (a b : metric) : Prop := (mnum a <= mnum b)%N /\ (msize a <= msize b)%N.

(* what one run of the Acquire loop body must do, given only (held, capacity, weight, deadline, clock) *)
Inductive decision := DGrant | DRefuse | DBlock.
Definition decide (h c w : metric) (dl now : Z) : decision :=
  if fitsb h w c then DGrant
  else if exceedsb w c || (dl <=? now)%Z then DRefuse
  else DBlock.

(* events whose weights are Go values (uint32 / uint64) *)
Definition ev_wf (ev : event) : Prop :=
  match ev with
  | ECall _ w _ _ | ETry w | ERelease w => m_wf w
  | _ => True
  end.

(* every state the repaired semaphore can be in: any interleaving of calls, releases,
   terminations, timer callbacks and wake-ups, at any times *)
Inductive reachable (c : metric) : state -> Prop :=
| reach_init : reachable c (init c)
| reach_step st now ev : reachable c st -> ev_wf ev -> reachable c (fst (step true st now ev)).

Definition pending (st : state) : list waiter := waiting st ++ woken st.

(* goroutine ids are unique: an Acquire call never reuses the id of a caller that has not returned *)
Fixpoint fresh_run (st : state) (tr : list (Z * event)) : Prop :=
  match tr with
  | [] => True
  | (now, ev) :: tr' =>
    match ev with
    | ECall id _ _ _ => ~ In id (map wid (pending st))
    | _ => True
    end /\ fresh_run (fst (step true st now ev)) tr'
  end.

Definition times_from (t : Z) (tr : list (Z * event)) : Prop := forall now ev, In (now, ev) tr -> (t <= now)%Z.

(* reachable states when, in addition, every Acquire call carries a goroutine id that no pending
   caller has (goroutine identity) *)
Inductive reachable_u (c : metric) : state -> Prop :=
| reach_u_init : reachable_u c (init c)
| reach_u_step st now ev : reachable_u c st -> ev_wf ev ->
    match ev with ECall id _ _ _ => ~ In id (map wid (pending st)) | _ => True end ->
    reachable_u c (fst (step true st now ev)).

(* ---------- well-formed scripts (C30_model_meets_spec) ---------- *)
Definition sop_wf (op : sop) : Prop :=
  match op with SAcq _ w _ | STry w | SRel w => m_wf w | _ => True end.
Fixpoint times_inc (t : Z) (sc : list (Z * sop)) : Prop :=
  match sc with [] => True | (now, _) :: r => (t < now)%Z /\ times_inc now r end.
Definition acq_ids (sc : list (Z * sop)) : list N :=
  flat_map (fun x => match snd x with SAcq id _ _ => [id] | _ => [] end) sc.
(* deadlines of the Acquire calls that can block at all (positive timeout) *)
Definition pos_deadlines (sc : list (Z * sop)) : list Z :=
  flat_map (fun x => match snd x with SAcq _ _ timeout => if (0 <? timeout)%Z then [(fst x + timeout)%Z] else [] | _ => [] end) sc.
(* one call per instant at increasing instants, goroutine ids unique, Go-valued weights, and no deadline
   falls exactly on the instant of a scripted call (the order of a timer callback and a call at the very
   same instant is not determined) *)
Definition script_wf (t0 : Z) (sc : list (Z * sop)) : Prop :=
  times_inc t0 sc /\ NoDup (acq_ids sc) /\ (forall x, In x sc -> sop_wf (snd x)) /\
  (forall d x, In d (pos_deadlines sc) -> In x sc -> fst x <> d).
