(* Independent specification for C30 (events semaphore), as an acceptor of observed behaviour.

   It knows nothing about condition variables, broadcasts, waiting lists or timers.  It sees
   a script (which call was made at which instant) and a digest of what was observed (which
   Acquire returned what at which instant, TryAcquire results, warnings, Processing()
   values), keeps a ghost account in UNBOUNDED arithmetic

        held = sum of granted weights - sum of released weights (reset to 0 by an over-release)

   and checks at every instant (script instants, deadlines, observed return instants), after
   the scripted call of that instant and all returns observed at that instant:

     bound      held <= the capacity the semaphore was created with
     grants     whoever was granted fits in the current capacity (zero after Terminate);
                checking the sum is enough: the partial sums are smaller
     refusals   a refused request does not fit, and exceeds the capacity (zero after
                Terminate) or its deadline has been reached
     pending    a request that has not returned does not fit, does not exceed the capacity,
                and its deadline is still ahead   ("granted as soon as it fits", "refused
                when over capacity / terminated", "returns at its deadline")
     try        TryAcquire answers exactly "fits", immediately
     release    an over-release reports (held, w) once and resets held to 0
     processing Processing() = held                                                      *)
From Coq Require Import NArith ZArith List Bool.
From LV Require Import model.Semaphore.
Import ListNotations.

Definition fitsb (h w c : metric) : bool :=
  ((mnum h + mnum w <=? mnum c) && (msize h + msize w <=? msize c))%N.
Definition exceedsb (w c : metric) : bool := ((mnum c <? mnum w) || (msize c <? msize w))%N.
Definition meqb (a b : metric) : bool := ((mnum a =? mnum b) && (msize a =? msize b))%N.
Definition mplus (a b : metric) : metric := mkM (mnum a + mnum b) (msize a + msize b).

Record digest := mkD {
  d_rets : list (N * (bool * Z));                 (* Acquire id returned ok at instant t; absent = never *)
  d_tries : list bool;                            (* TryAcquire results, in script order *)
  d_rels : list (option (metric * metric));       (* per Release: the warning, if any *)
  d_procs : list metric                           (* Processing() values, in script order *)
}.

Fixpoint lookup_ret (id : N) (l : list (N * (bool * Z))) : option (bool * Z) :=
  match l with
  | [] => None
  | (i, r) :: l' => if (i =? id)%N then Some r else lookup_ret id l'
  end.

Record pend := mkP { pid : N; pw : metric; pdl : Z }.

Record sst := mkSS {
  g_held : metric; g_cap0 : metric; g_cap : metric; g_pend : list pend;
  g_tries : list bool; g_rels : list (option (metric * metric)); g_procs : list metric
}.

(* the scripted call of this instant *)
Definition spec_op (s : sst) (t : Z) (op : sop) : option sst :=
  match op with
  | SAcq id w timeout =>
    Some (mkSS (g_held s) (g_cap0 s) (g_cap s) (g_pend s ++ [mkP id w (Z.add t timeout)]) (g_tries s) (g_rels s) (g_procs s))
  | STry w =>
    match g_tries s with
    | b :: r =>
      if Bool.eqb b (fitsb (g_held s) w (g_cap s))
      then Some (mkSS (if b then mplus (g_held s) w else g_held s) (g_cap0 s) (g_cap s) (g_pend s) r (g_rels s) (g_procs s))
      else None
    | [] => None
    end
  | SRel w =>
    match g_rels s with
    | x :: r =>
      if mlt_any (g_held s) w
      then match x with
           | Some (h', w') => if meqb h' (g_held s) && meqb w' w
                              then Some (mkSS mzero (g_cap0 s) (g_cap s) (g_pend s) (g_tries s) r (g_procs s)) else None
           | None => None
           end
      else match x with
           | None => Some (mkSS (msub (g_held s) w) (g_cap0 s) (g_cap s) (g_pend s) (g_tries s) r (g_procs s))
           | Some _ => None
           end
    | [] => None
    end
  | STerm => Some (mkSS (g_held s) (g_cap0 s) mzero (g_pend s) (g_tries s) (g_rels s) (g_procs s))
  | SProc =>
    match g_procs s with
    | m :: r => if meqb m (g_held s) then Some (mkSS (g_held s) (g_cap0 s) (g_cap s) (g_pend s) (g_tries s) (g_rels s) r) else None
    | [] => None
    end
  end.

(* classification of a pending request at instant t *)
Inductive cls := Granted | Refused | Pending | Bad.
Definition classify (rets : list (N * (bool * Z))) (t : Z) (p : pend) : cls :=
  match lookup_ret (pid p) rets with
  | None => Pending
  | Some (ok, t') =>
    if Z.eqb t' t then (if ok then Granted else Refused)
    else if Z.ltb t t' then Pending else Bad     (* returned before this instant but still pending: before its call *)
  end.

Definition is_cls (c d : cls) : bool :=
  match c, d with Granted, Granted | Refused, Refused | Pending, Pending | Bad, Bad => true | _, _ => false end.

Definition sum_w (l : list pend) : metric := fold_right (fun p a => mplus (pw p) a) mzero l.

Definition spec_returns (rets : list (N * (bool * Z))) (s : sst) (t : Z) : option sst :=
  let cl := fun c => filter (fun p => is_cls (classify rets t p) c) (g_pend s) in
  let h_end := mplus (g_held s) (sum_w (cl Granted)) in
  let c := g_cap s in
  if negb (match cl Bad with [] => true | _ => false end) then None
  else if negb (fitsb h_end mzero (g_cap0 s)) then None                          (* bound *)
  else if negb (match cl Granted with [] => true | _ => fitsb h_end mzero c end) then None   (* grants fit *)
  else if negb (forallb (fun p => negb (fitsb h_end (pw p) c) &&
                                  (exceedsb (pw p) c || Z.leb (pdl p) t)) (cl Refused)) then None
  else if negb (forallb (fun p => negb (fitsb h_end (pw p) c) &&
                                  negb (exceedsb (pw p) c) && Z.ltb t (pdl p)) (cl Pending)) then None
  else Some (mkSS h_end (g_cap0 s) c (cl Pending) (g_tries s) (g_rels s) (g_procs s)).

Fixpoint find_op (t : Z) (sc : list (Z * sop)) : option sop :=
  match sc with
  | [] => None
  | (t', op) :: r => if Z.eqb t' t then Some op else find_op t r
  end.

Definition spec_instant rets (sc : list (Z * sop)) (s : sst) (t : Z) : option sst :=
  match find_op t sc with
  | Some op => match spec_op s t op with Some s' => spec_returns rets s' t | None => None end
  | None => spec_returns rets s t
  end.

Fixpoint spec_run rets sc (s : sst) (ts : list Z) : option sst :=
  match ts with
  | [] => Some s
  | t :: r => match spec_instant rets sc s t with Some s' => spec_run rets sc s' r | None => None end
  end.

(* sorted, duplicate-free list of instants *)
Fixpoint insertZ (x : Z) (l : list Z) : list Z :=
  match l with
  | [] => [x]
  | y :: r => if Z.ltb x y then x :: l else if Z.eqb x y then l else y :: insertZ x r
  end.
Definition sortZ (l : list Z) : list Z := fold_right insertZ [] l.

Definition deadlines (sc : list (Z * sop)) : list Z :=
  flat_map (fun x => match snd x with SAcq _ _ timeout => [Z.add (fst x) timeout] | _ => [] end) sc.

Definition instants (sc : list (Z * sop)) (d : digest) : list Z :=
  sortZ (map fst sc ++ deadlines sc ++ map (fun x => snd (snd x)) (d_rets d)).

Definition spec_check (c : metric) (sc : list (Z * sop)) (d : digest) : bool :=
  match spec_run (d_rets d) sc (mkSS mzero c c [] (d_tries d) (d_rels d) (d_procs d)) (instants sc d) with
  | Some s => match g_pend s, g_tries s, g_rels s, g_procs s with
              | [], [], [], [] => true
              | _, _, _, _ => false
              end
  | None => false
  end.

(* digest of a chronological observation list (as produced by the model's scheduler) *)
Fixpoint digest_of (ob : list sobs) : digest :=
  match ob with
  | [] => mkD [] [] [] []
  | x :: r =>
    let d := digest_of r in
    match x with
    | BRet id ok t => mkD ((id, (ok, t)) :: d_rets d) (d_tries d) (d_rels d) (d_procs d)
    | BNever _ => d
    | BTry ok => mkD (d_rets d) (ok :: d_tries d) (d_rels d) (d_procs d)
    | BWarn h w =>
      (* the warning belongs to the BRelDone that follows it *)
      match d_rels d with
      | None :: rr => mkD (d_rets d) (d_tries d) (Some (h, w) :: rr) (d_procs d)
      | _ => mkD (d_rets d) (d_tries d) (Some (h, w) :: d_rels d) (d_procs d)   (* stray warning: counted as a release *)
      end
    | BRelDone => mkD (d_rets d) (d_tries d) (None :: d_rels d) (d_procs d)
    | BProc m => mkD (d_rets d) (d_tries d) (d_rels d) (m :: d_procs d)
    end
  end.

(* ---------- Prop-level vocabulary for the theorems (props/C30.v) ---------- *)

(* component-wise, in unbounded arithmetic *)
Definition fits (h w c : metric) : Prop := (mnum h + mnum w <= mnum c)%N /\ (msize h + msize w <= msize c)%N.
Definition exceeds (w c : metric) : Prop := (mnum c < mnum w)%N \/ (msize c < msize w)%N.
Definition covers (h w : metric) : Prop := (mnum w <= mnum h)%N /\ (msize w <= msize h)%N.
Definition mle (a b : metric) : Prop := (mnum a <= mnum b)%N /\ (msize a <= msize b)%N.

(* what one run of the Acquire loop body must do, given only (held, capacity, weight, deadline, clock) *)
Inductive decision := DGrant | DRefuse | DBlock.
Definition decide (h c w : metric) (dl now : Z) : decision :=
  if fitsb h w c then DGrant
  else if exceedsb w c || (dl <=? now)%Z then DRefuse
  else DBlock.

(* events whose weights are Go values (uint32 / uint64) *)
Definition ev_wf (ev : event) : Prop :=
  match ev with
  | ECall _ w _ _ | ETry w | ERelease w => m_wf w
  | _ => True
  end.

(* every state the repaired semaphore can be in: any interleaving of calls, releases,
   terminations, timer callbacks and wake-ups, at any times *)
Inductive reachable (c : metric) : state -> Prop :=
| reach_init : reachable c (init c)
| reach_step st now ev : reachable c st -> ev_wf ev -> reachable c (fst (step true st now ev)).

Definition pending (st : state) : list waiter := waiting st ++ woken st.

(* goroutine ids are unique: an Acquire call never reuses the id of a caller that has not returned *)
Fixpoint fresh_run (st : state) (tr : list (Z * event)) : Prop :=
  match tr with
  | [] => True
  | (now, ev) :: tr' =>
    match ev with
    | ECall id _ _ _ => ~ In id (map wid (pending st))
    | _ => True
    end /\ fresh_run (fst (step true st now ev)) tr'
  end.

Definition times_from (t : Z) (tr : list (Z * event)) : Prop := forall now ev, In (now, ev) tr -> (t <= now)%Z.

(* reachable states when, in addition, every Acquire call carries a goroutine id that no pending
   caller has (goroutine identity) *)
Inductive reachable_u (c : metric) : state -> Prop :=
| reach_u_init : reachable_u c (init c)
| reach_u_step st now ev : reachable_u c st -> ev_wf ev ->
    match ev with ECall id _ _ _ => ~ In id (map wid (pending st)) | _ => True end ->
    reachable_u c (fst (step true st now ev)).
