(* Independent executable specification for the consensus properties C02 C03 C04 C07 C08 C09,
   written from the rules (ancestry closure, seq-forks, frame rule), not from the code:
   no vector clocks, no caches, no election.  It is evaluated on TRACES (operation, observation)
   -- the implementation's by the correspondence driver, the model's by the theorems.
   The graph keeps, per accepted event, its ancestors-or-self set (built parents-first), so that
   forkless cause can be evaluated quickly; [fc_graph] is meant to be the same definition as
   spec/FcSpec.v [fc_spec]; the equality is not proved, the driver of C04 cross-checks the two on all
   pairs of every generated DAG with at most 24 accepted events (extract/C02/abft_drv.ml fc_defs_agree). *)
From Coq Require Import List Arith NArith Bool.
From LV Require Import model.VecIndex model.Abft model.AbftRun.
Import ListNotations.
Open Scope N_scope.

(* ---------- the graph of accepted events of one epoch ---------- *)
Record sev := { s_ev : aevent; s_spf : N (* frame of the self-parent, 0 if none *);
                s_anc : list N (* ids of ancestors-or-self *) }.
Definition graph := list (N * sev).
Definition g_get (G : graph) (id : N) : option sev := alookup id G.
Definition union (a b : list N) : list N := fold_left (fun acc x => if mem x acc then acc else x :: acc) b a.
Definition g_anc (G : graph) (id : N) : list N := match g_get G id with Some s => s_anc s | None => [] end.
Definition g_add (G : graph) (e : aevent) : graph :=
  let spf := match a_self_parent e with
             | Some sp => match g_get G sp with Some s => a_frame (s_ev s) | None => 0 end
             | None => 0 end in
  let anc := fold_left (fun acc p => union acc (g_anc G p)) (a_parents e) [a_id e] in
  (a_id e, {| s_ev := e; s_spf := spf; s_anc := anc |}) :: G.

(* validators (by ID) having two different events with equal seq among A *)
Definition evs_of (G : graph) (A : list N) : list aevent :=
  fold_right (fun x acc => match g_get G x with Some s => s_ev s :: acc | None => acc end) [] A.
Definition is_forker (evs : list aevent) (v : N) : bool :=
  existsb (fun x => (a_creator x =? v) &&
     existsb (fun y => (a_creator y =? v) && (a_seq x =? a_seq y) && negb (a_id x =? a_id y)) evs) evs.

(* forkless cause by the graph definition: A = anc*(a); b's creator is not seen forking by a, and the
   non-forking validators having an event in A that has b among its ancestors hold a quorum *)
Definition fc_graph (G : graph) (v : vals) (a b : N) : bool :=
  let A := g_anc G a in
  let evs := evs_of G A in
  match g_get G b with
  | None => false
  | Some sb =>
    negb (is_forker evs (a_creator (s_ev sb))) &&
    (v_quorum v <=? fold_left N.add
       (map (fun p : N * N => if negb (is_forker evs (fst p)) &&
                                 existsb (fun x => (a_creator x =? fst p) && mem b (g_anc G (a_id x))) evs
                              then snd p else 0) v) 0)
  end.

(* frame rule.  An accepted event r occupies the root slots of the frames g with spf(r) < g <= frame(r). *)
Definition slots (G : graph) (g : N) : list aevent :=
  map (fun p => s_ev (snd p)) (filter (fun p => (s_spf (snd p) <? g) && (g <=? a_frame (s_ev (snd p)))) G).
Definition quorum_on (G : graph) (v : vals) (a : N) (g : N) : bool :=
  (* roots are previously accepted events: the candidate itself does not count *)
  let rs := filter (fun r => negb (a_id r =? a) && fc_graph G v a (a_id r)) (slots G g) in
  v_quorum v <=? fold_left N.add
    (map (fun p : N * N => if existsb (fun r => a_creator r =? fst p) rs then snd p else 0) v) 0.
(* the least g >= from without a quorum (fuel: a frame with a quorum has a slot, slots are finite) *)
Fixpoint first_fail (fuel : nat) (G : graph) (v : vals) (a : N) (g : N) : N :=
  match fuel with O => g | S fu => if quorum_on G v a g then first_fail fu G v a (g + 1) else g end.
Definition spec_fuel (G : graph) : nat := (length G + 3)%nat.
(* G must already contain the candidate a (with its self-parent frame) *)
Definition highest_allowed (G : graph) (v : vals) (a : N) : N :=
  match g_get G a with
  | None => 0
  | Some s => match a_self_parent (s_ev s) with
              | None => 1
              | Some _ => first_fail (spec_fuel G) G v a (s_spf s) end
  end.
Definition allowed (G : graph) (v : vals) (a : N) (F : N) : bool :=
  match g_get G a with
  | None => false
  | Some s => match a_self_parent (s_ev s) with
              | None => F =? 1
              | Some _ => (s_spf s <=? F) && (F <=? highest_allowed G v a) end
  end.
Definition build_frame_spec (G : graph) (v : vals) (a : N) : N :=
  match g_get G a with
  | None => 0
  | Some s => match a_self_parent (s_ev s) with
              | None => 1
              | Some _ => N.min (highest_allowed G v a) (s_spf s + 100) end
  end.

(* ---------- trace checkers ---------- *)
Record chk := { k_G : graph; k_vals : vals; k_epoch : N; k_nb : N (* blocks of this epoch so far *);
                k_del : list N (* delivered in this epoch so far *) }.
Definition chk_start (epoch : N) (raw : list (N * N)) : chk :=
  {| k_G := []; k_vals := mk_vals raw; k_epoch := epoch; k_nb := 0; k_del := [] |}.
Definition chk_new_epoch (epoch : N) (v : vals) : chk :=
  {| k_G := []; k_vals := v; k_epoch := epoch; k_nb := 0; k_del := [] |}.

Definition subset (a b : list N) : bool := forallb (fun x => mem x b) a.
Fixpoint nodup_b (l : list N) : bool := match l with [] => true | x :: t => negb (mem x t) && nodup_b t end.
Fixpoint list_eqb (a b : list N) : bool :=
  match a, b with [] , [] => true | x :: a', y :: b' => (x =? y) && list_eqb a' b' | _, _ => false end.

(* a block for which the application installed no ApplyEvent listener: nothing is observed about its
   delivery (the driver encodes this as the one-element list [unlistened]); its events are confirmed all the same *)
Definition unlistened : N := 2 ^ 256.
Definition is_unlistened (b : block) : bool := match b_delivered b with [x] => x =? unlistened | _ => false end.
Definition fresh_of (G : graph) (del : list N) (b : block) : list N :=
  filter (fun x => negb (mem x del)) (g_anc G (b_atropos b)).
(* C02 for one block, the k-th of its epoch *)
Definition c02_block (G : graph) (k : N) (del : list N) (b : block) : bool :=
  let A := g_anc G (b_atropos b) in
  let fresh := filter (fun x => negb (mem x del)) A in
  (is_unlistened b || (nodup_b (b_delivered b) && subset (b_delivered b) fresh && subset fresh (b_delivered b))) &&
  match g_get G (b_atropos b) with
  | Some s => (s_spf s <? k) && (k <=? a_frame (s_ev s))         (* the Atropos is a root of frame k *)
  | None => false end.
(* C03 for one block *)
Definition c03_block (G : graph) (v : vals) (b : block) : bool :=
  let evs := evs_of G (g_anc G (b_atropos b)) in
  list_eqb (b_cheaters b) (filter (fun id => is_forker evs id) (v_ids v)).

(* walk the blocks emitted by one call: returns (all ok, state after) ; a seal must be the last block *)
Fixpoint blocks_walk (c02 c03 : bool) (k : chk) (bl : list block) : bool * chk :=
  match bl with
  | [] => (true, k)
  | b :: t =>
    let nb := k_nb k + 1 in
    let ok := (if c02 then c02_block (k_G k) nb (k_del k) b else true) &&
              (if c03 then c03_block (k_G k) (k_vals k) b else true) in
    match b_seal b with
    | Some nv => (ok && match t with [] => true | _ => false end, chk_new_epoch (k_epoch k + 1) nv)
    | None =>
      let '(ok', k') := blocks_walk c02 c03
            {| k_G := k_G k; k_vals := k_vals k; k_epoch := k_epoch k; k_nb := nb;
               k_del := (if is_unlistened b then fresh_of (k_G k) (k_del k) b else b_delivered b) ++ k_del k |} t in
      (ok && ok', k')
    end
  end.

Definition with_G (k : chk) (G : graph) : chk :=
  {| k_G := G; k_vals := k_vals k; k_epoch := k_epoch k; k_nb := k_nb k; k_del := k_del k |}.

(* which checks are on *)
Record which := { w_c02 : bool; w_c03 : bool; w_c04 : bool }.

(* one step of the trace: (ok, next checker state).  Skipped operations say nothing. *)
Definition chk_step (w : which) (k : chk) (o : op) (ob : obs) : bool * chk :=
  match o, ob with
  | OpP e, ObsP r bl ldf ep =>
    let G' := g_add (k_G k) e in
    let frame_ok := if w_c04 w then
        match r with
        | None => allowed G' (k_vals k) (a_id e) (a_frame e)
        | Some EWrongFrame => negb (allowed G' (k_vals k) (a_id e) (a_frame e))
        | Some _ => false end else true in
    match r with
    | None =>
      let '(ok, k') := blocks_walk (w_c02 w) (w_c03 w) (with_G k G') bl in
      (frame_ok && ok && (if w_c02 w then (ldf =? k_nb k') && (ep =? k_epoch k') else true), k')
    | Some _ =>
      (frame_ok && (if w_c02 w then match bl with [] => (ldf =? k_nb k) && (ep =? k_epoch k) | _ => false end else true), k)
    end
  | OpB e, ObsB (Ok f) =>
    if w_c04 w then
      let e' := set_id e 0 in                        (* any id not used by an accepted event *)
      (f =? build_frame_spec (g_add (k_G k) e') (k_vals k) 0, k)
    else (true, k)
  | OpB _, ObsB (Err _) => (negb (w_c04 w), k)
  | OpV, ObsV vs =>
    (if w_c02 w then list_eqb (map fst vs) (map fst (k_vals k)) && list_eqb (map snd vs) (map snd (k_vals k)) else true, k)
  | OpQ a b, ObsQ r => (if w_c04 w then Bool.eqb r (fc_graph (k_G k) (k_vals k) a b) else true, k)
  | OpR, ObsR r bl ldf ep =>
    (if w_c02 w then match r, bl with None, [] => (ldf =? k_nb k) && (ep =? k_epoch k) | _, _ => false end else true, k)
  | OpReset ep raw, ObsReset ldf ep' =>
    (if w_c02 w then (ldf =? 0) && (ep' =? ep) else true, chk_new_epoch ep (mk_vals raw))
  | _, _ => (true, k)
  end.

Fixpoint chk_trace (w : which) (k : chk) (tr : list (op * obs)) : bool :=
  match tr with
  | [] => true
  | (o, ob) :: t => let '(ok, k') := chk_step w k o ob in ok && chk_trace w k' t
  end.

Definition c02_trace := chk_trace {| w_c02 := true; w_c03 := false; w_c04 := false |}.
Definition c03_trace := chk_trace {| w_c02 := false; w_c03 := true; w_c04 := false |}.
Definition c04_trace := chk_trace {| w_c02 := false; w_c03 := false; w_c04 := true |}.
