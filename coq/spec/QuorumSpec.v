(* Specification of the quorum indexer's observables, written from the property text:
   median(v) = the largest s such that observers holding at least a quorum of weight report
   an observation >= s ; metric = (sum over validators of diff) wrapped to 64 bits. *)
From Coq Require Import List Arith NArith Bool.
From LV Require Import model.VecIndex.
Import ListNotations.
Open Scope N_scope.

(* weight of the observers whose observation is at least s *)
Definition weight_ge (ws : list N) (obs : list N) (s : N) : N := wsum ws (map (fun o => s <=? o) obs).
(* the property, as a predicate *)
Definition is_quorum_median (ws : list N) (q : N) (obs : list N) (m : N) : Prop :=
  q <= weight_ge ws obs m /\ forall s, q <= weight_ge ws obs s -> s <= m.
(* executable form: candidates are 0 and the observations themselves *)
Definition median_spec (ws : list N) (q : N) (obs : list N) : N :=
  fold_left N.max (filter (fun s => q <=? weight_ge ws obs s) obs) 0.
Definition metric_spec (diff : N -> N -> N -> nat -> N) (med self upd : list N) (n : nat) : N :=
  (fold_left N.add (map (fun v => diff (nth v med 0) (nth v self 0) (nth v upd 0) v) (List.seq 0 n)) 0)
  mod 18446744073709551616.
(* observation reported for a merged-clock entry of the graph specification (fork, max seq) *)
Definition obs_of_spec (x : bool * N) : N := if fst x then 2147483646 else snd x.
