(* Independent specification for C19: the property's sentence about a result of ChooseParents,
   as Props and as an executable verdict for the correspondence driver. *)
From Coq Require Import NArith List Bool.
Import ListNotations.
Local Open Scope N_scope.

Definition memb (x : N) (l : list N) : bool := existsb (N.eqb x) l.
Fixpoint nodupb (l : list N) : bool :=
  match l with [] => true | x :: r => negb (memb x r) && nodupb r end.

Section Spec.
  Variables existing options : list N.
  Variable nstrat : nat.             (* number of strategies *)
  Variable result : list N.

  Definition added : list N := skipn (length existing) result.
  (* an option that is still offered: among the options and not an existing parent *)
  Definition offered (x : N) : Prop := In x options /\ ~ In x existing.

  (* "returns the given existing parents first and in order, followed by at most one new option per
      strategy, never repeats a parent, adds only offered options, stops early only when no options
      remain" *)
  Definition wf_result : Prop :=
    result = existing ++ added /\
    (length added <= nstrat)%nat /\
    NoDup added /\
    (forall x, In x added -> offered x) /\
    ((length added < nstrat)%nat -> forall x, offered x -> In x added).

  Definition wf_result_b : bool :=
    (if list_eq_dec N.eq_dec (firstn (length existing) result) existing then true else false) &&
    Nat.eqb (length result) (length existing + length added) &&
    Nat.leb (length added) nstrat &&
    nodupb added &&
    forallb (fun x => memb x options && negb (memb x existing)) added &&
    (if Nat.ltb (length added) nstrat
     then forallb (fun x => memb x existing || memb x added) options else true).
End Spec.

(* "The metric strategy always picks an option of maximal metric" *)
Definition maximal (metric : N -> N) (opts : list N) (i : nat) : Prop :=
  exists o, nth_error opts i = Some o /\ forall x, In x opts -> metric x <= metric o.
Definition maximal_b (metric : N -> N) (opts : list N) (i : nat) : bool :=
  match nth_error opts i with
  | None => false
  | Some o => forallb (fun x => metric x <=? metric o) opts
  end.

(* same elements, no duplicates: what a map-order slice of a set may look like *)
Definition same_set_b (a b : list N) : bool :=
  nodupb a && Nat.eqb (length a) (length b) && forallb (fun x => memb x b) a.

(* trace verdict: every strategy call was shown (a) the parents chosen so far, (b) exactly the options
   still offered (any order, no duplicates), answered an index in range, and that option was appended *)
Fixpoint rounds_ok (parents s : list N) (rounds : list (list N * list N * nat)) (added : list N) : bool :=
  match rounds, added with
  | [], [] => true
  | (ps, l, k) :: rr, b :: aa =>
    (if list_eq_dec N.eq_dec ps parents then true else false) &&
    same_set_b l s &&
    (match nth_error l k with Some b' => b' =? b | None => false end) &&
    rounds_ok (parents ++ [b]) (filter (fun y => negb (y =? b)) s) rr aa
  | _, _ => false
  end.
Fixpoint dedupe (l : list N) : list N :=
  match l with [] => [] | x :: r => x :: filter (fun y => negb (y =? x)) (dedupe r) end.
Definition offered_set (existing options : list N) : list N :=
  filter (fun x => negb (memb x existing)) (dedupe options).
Definition trace_ok (existing options : list N) (rounds : list (list N * list N * nat)) (result : list N) : bool :=
  rounds_ok existing (offered_set existing options) rounds (skipn (length existing) result).
