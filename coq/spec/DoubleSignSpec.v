(* Independent specification for C21, in exact integer arithmetic (no saturation, no wrap-around
   except the final cap the property itself names).  Time is the exact number of nanoseconds
   since year 1; "t lies at least th in the past" is  now - t >= th  over Z. *)
From Coq Require Import ZArith List Bool.
From LV Require Import model.DoubleSign.
Import ListNotations.
Local Open Scope Z_scope.

Definition ns (t : gtime) : Z := sec t * giga + nsec t.
(* representable wall-clock values *)
Definition wf_time (t : gtime) : Prop := min64 <= sec t <= max64 /\ 0 <= nsec t < giga.
Definition wf_status (s : status) : Prop :=
  wf_time (now s) /\ wf_time (startup s) /\ wf_time (connected s) /\ wf_time (synced s) /\
  wf_time (became s) /\ wf_time (created s) /\ wf_time (detected s).
Definition is_dur (th : Z) : Prop := min64 <= th <= max64.

(* exact elapsed time and exact remaining time of one stamp *)
Definition elapsed (s : status) (t : gtime) : Z := ns (now s) - ns t.
Definition remaining (s : status) (th : Z) (t : gtime) : Z := th - elapsed s t.

Definition five (s : status) : list gtime := [detected s; created s; became s; connected s; synced s].

(* "has a peer, has finished P2P sync, and each of the five stamps lies at least th in the past" *)
Definition may_emit (s : status) (th : Z) : Prop :=
  peers s <> 0 /\ ns (synced s) <> 0 /\ forall t, In t (five s) -> th <= elapsed s t.

(* the longest remaining time *)
Definition longest (s : status) (th : Z) : Z :=
  fold_right Z.max (remaining s th (synced s))
             [remaining s th (detected s); remaining s th (created s);
              remaining s th (became s); remaining s th (connected s)].

(* "capped at the largest representable duration" *)
Definition capped (z : Z) : Z := Z.min z max64.

(* a parallel instance is reported exactly when ... *)
Definition parallel (s : status) (th : Z) : Prop :=
  ns (startup s) <= ns (created s) /\ elapsed s (created s) < th.

(* ---- executable forms used by the correspondence driver on the implementation's answers *)
Definition may_emit_b (s : status) (th : Z) : bool :=
  negb (peers s =? 0) && negb (ns (synced s) =? 0) && forallb (fun t => th <=? elapsed s t) (five s).
Definition parallel_b (s : status) (th : Z) : bool :=
  (ns (startup s) <=? ns (created s)) && (elapsed s (created s) <? th).

(* which error value goes with the reported wait: the first stamp (in the order external-detected,
   external-created, became-validator, last-connected, p2p-synced) whose capped remaining time is
   the reported wait *)
Fixpoint first_with (s : status) (th w : Z) (l : list (gtime * werr)) : werr :=
  match l with
  | [] => NoErr
  | (t, e) :: r => if capped (remaining s th t) =? w then e else first_with s th w r
  end.

(* the answer (wait, error) the property prescribes, for thresholds >= 0 *)
Definition expected (s : status) (th : Z) : Z * werr :=
  if peers s =? 0 then (0, ErrNoConnections)
  else if ns (synced s) =? 0 then (0, ErrP2PSyncOngoing)
  else if longest s th <=? 0 then (0, NoErr)
  else (capped (longest s th), first_with s th (capped (longest s th)) (stamps s)).

(* ---- the verdict on an answer (wait, error) of SyncedToEmit: the literal property, for EVERY
   threshold: the answer must be [expected] (exact integers; nothing here follows the saturating
   arithmetic of the code).
   One place where [expected] follows the code rather than the property's wording: without a peer /
   before P2P sync has finished the code returns wait 0 with the error; the property's "positive wait
   equal to the longest remaining time" has no referent there (no stamp needs to be waited for), see
   `partial` in checks/C21.json. *)
Definition werr_eqb (a b : werr) : bool := werr_code a =? werr_code b.
Definition answer_ok (s : status) (th : Z) (a : Z * werr) : bool :=
  (fst a =? fst (expected s th)) && werr_eqb (snd a) (snd (expected s th)).

(* some stamp is more than 2^63 ns ahead of now: Time.Sub saturates at MinInt64 and the exact distance
   is lost to the code *)
Definition saturated_b (s : status) : bool :=
  negb (forallb (fun t => min64 <=? elapsed s t) (five s)).
