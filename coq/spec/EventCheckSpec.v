(* Independent specification for C13: the property's sentence, clause by clause, as a Prop
   ([wf_event]) and as an executable decision procedure ([wf_event_b], [first_failure]) used by
   the correspondence driver on the implementation's answers.  Only the record types of the
   model are shared; nothing here follows the order or the mechanism of the checkers. *)
From Coq Require Import NArith List Bool.
From LV Require Import model.EventCheck.
Import ListNotations.
Local Open Scope N_scope.

(* "non-zero and below 2^31-2" *)
Definition in_range (x : N) : Prop := 1 <= x /\ x < 2147483646.

Definition list_max (l : list N) : N := fold_right N.max 0 l.

Section Clauses.
  Variable cur : N.            (* the current epoch *)
  Variable vals : list N.      (* ids of the current validators *)
  Variable e : event.
  Variable ps : list parent.   (* the parents of e, in the order of e_parents *)

  (* C1: sequence, epoch, frame and Lamport values are all non-zero and below 2^31-2 *)
  Definition c_range : Prop :=
    in_range (e_seq e) /\ in_range (e_epoch e) /\ in_range (e_frame e) /\ in_range (e_lamport e).
  (* C2: parents are present whenever the sequence exceeds 1 *)
  Definition c_present : Prop := 1 < e_seq e -> e_parents e <> [].
  (* C3: parents are distinct *)
  Definition c_distinct : Prop := NoDup (e_parents e).
  (* C4: its epoch is the current one *)
  Definition c_epoch : Prop := e_epoch e = cur.
  (* C5: its creator is a current validator *)
  Definition c_creator : Prop := In (e_creator e) vals.
  (* C6: Lamport time is one more than the largest parent Lamport time (0 when no parents) *)
  Definition c_lamport : Prop := e_lamport e = list_max (map p_lamport ps) + 1.
  (* C7: the only parent by its own creator is the first parent, present exactly when seq > 1 *)
  Definition c_selfparent : Prop :=
    forall i p, nth_error ps i = Some p ->
                (p_creator p = e_creator e <-> (i = 0%nat /\ 1 < e_seq e)).
  (* C8: ... and carrying a sequence one lower *)
  Definition c_seq : Prop :=
    1 < e_seq e -> exists p0 rest, ps = p0 :: rest /\ e_seq e = p_seq p0 + 1.

  Definition wf_event : Prop :=
    c_range /\ c_present /\ c_distinct /\ c_epoch /\ c_creator /\ c_lamport /\ c_selfparent /\ c_seq.

  (* ----- executable versions *)
  Definition in_range_b (x : N) : bool := (1 <=? x) && (x <? 2147483646).
  Definition c_range_b : bool :=
    in_range_b (e_seq e) && in_range_b (e_epoch e) && in_range_b (e_frame e) && in_range_b (e_lamport e).
  Definition c_present_b : bool :=
    if 1 <? e_seq e then match e_parents e with [] => false | _ => true end else true.
  Fixpoint nodup_b (l : list N) : bool :=
    match l with [] => true | x :: r => negb (existsb (N.eqb x) r) && nodup_b r end.
  Definition c_distinct_b : bool := nodup_b (e_parents e).
  Definition c_epoch_b : bool := e_epoch e =? cur.
  Definition c_creator_b : bool := existsb (N.eqb (e_creator e)) vals.
  Definition c_lamport_b : bool := e_lamport e =? list_max (map p_lamport ps) + 1.
  Fixpoint selfparent_from (i : nat) (l : list parent) : bool :=
    match l with
    | [] => true
    | p :: r => Bool.eqb (p_creator p =? e_creator e) (Nat.eqb i 0 && (1 <? e_seq e))
                && selfparent_from (S i) r
    end.
  Definition c_selfparent_b : bool := selfparent_from 0 ps.
  Definition c_seq_b : bool :=
    if 1 <? e_seq e then match ps with [] => false | p0 :: _ => e_seq e =? p_seq p0 + 1 end else true.

  Definition wf_event_b : bool :=
    c_range_b && c_present_b && c_distinct_b && c_epoch_b && c_creator_b && c_lamport_b
    && c_selfparent_b && c_seq_b.

  (* which clause an error value blames; HugeValue/NotInited split C1 into its two halves *)
  Definition all_below : Prop :=
    e_seq e < 2147483646 /\ e_epoch e < 2147483646 /\ e_frame e < 2147483646 /\ e_lamport e < 2147483646.
  Definition all_below_b : bool :=
    (e_seq e <? 2147483646) && (e_epoch e <? 2147483646) && (e_frame e <? 2147483646)
    && (e_lamport e <? 2147483646).

  (* [blames k]: the clause named by error k is violated and every clause that comes before it in
     the property's sentence (range, presence, distinctness, epoch, creator, Lamport, self-parent,
     sequence) holds.  Exactly one of "wf_event" / "blames k" for one k is true (theorem). *)
  Definition blames (k : err) : Prop :=
    match k with
    | HugeValue => ~ all_below
    | NotInited => all_below /\ ~ c_range
    | NoParents => c_range /\ ~ c_present
    | DoubleParents => c_range /\ c_present /\ ~ c_distinct
    | NotRelevant => c_range /\ c_present /\ c_distinct /\ ~ c_epoch
    | Auth => c_range /\ c_present /\ c_distinct /\ c_epoch /\ ~ c_creator
    | WrongLamport => c_range /\ c_present /\ c_distinct /\ c_epoch /\ c_creator /\ ~ c_lamport
    | WrongSelfParent =>
      c_range /\ c_present /\ c_distinct /\ c_epoch /\ c_creator /\ c_lamport /\ ~ c_selfparent
    | WrongSeq =>
      c_range /\ c_present /\ c_distinct /\ c_epoch /\ c_creator /\ c_lamport /\ c_selfparent /\ ~ c_seq
    | PanicLen => False
    end.

  Definition blames_b (k : err) : bool :=
    match k with
    | HugeValue => negb all_below_b
    | NotInited => all_below_b && negb c_range_b
    | NoParents => c_range_b && negb c_present_b
    | DoubleParents => c_range_b && c_present_b && negb c_distinct_b
    | NotRelevant => c_range_b && c_present_b && c_distinct_b && negb c_epoch_b
    | Auth => c_range_b && c_present_b && c_distinct_b && c_epoch_b && negb c_creator_b
    | WrongLamport =>
      c_range_b && c_present_b && c_distinct_b && c_epoch_b && c_creator_b && negb c_lamport_b
    | WrongSelfParent =>
      c_range_b && c_present_b && c_distinct_b && c_epoch_b && c_creator_b && c_lamport_b
      && negb c_selfparent_b
    | WrongSeq =>
      c_range_b && c_present_b && c_distinct_b && c_epoch_b && c_creator_b && c_lamport_b
      && c_selfparent_b && negb c_seq_b
    | PanicLen => false
    end.

  (* the verdict the property prescribes for an answer of the implementation *)
  Definition answer_ok (r : result) : bool :=
    match r with Ok => wf_event_b | Err k => blames_b k end.
End Clauses.

(* typing assumptions: uint32 fields; the caller passes the parents of e *)
Definition u32 (x : N) : Prop := x < 4294967296.
Definition typed (e : event) (ps : list parent) : Prop :=
  u32 (e_seq e) /\ u32 (e_lamport e) /\ Forall (fun p => u32 (p_seq p) /\ u32 (p_lamport p)) ps.
Definition parents_of (e : event) (ps : list parent) : Prop := map p_id ps = e_parents e.

(* ---- without the caller's contract.  What the checkers themselves verify of it: the lengths agree
   (otherwise parentscheck panics) and, when a self-parent is expected, the first event passed is the
   one named first in the id list. *)
Definition c_firstid (e : event) (ps : list parent) : Prop :=
  1 < e_seq e -> exists h0 r p0 r', e_parents e = h0 :: r /\ ps = p0 :: r' /\ p_id p0 = h0.
Definition c_firstid_b (e : event) (ps : list parent) : bool :=
  if 1 <? e_seq e
  then match e_parents e, ps with h0 :: _, p0 :: _ => p_id p0 =? h0 | _, _ => false end
  else true.
Definition len_eq_b (e : event) (ps : list parent) : bool := Nat.eqb (length (e_parents e)) (length ps).

(* the verdict on an answer for ANY call (no [parents_of]) *)
Definition answer_ok_gen (cur : N) (vals : list N) (e : event) (ps : list parent) (r : result) : bool :=
  let pre := c_range_b e && c_present_b e && c_distinct_b e && c_epoch_b cur e && c_creator_b vals e in
  match r with
  | Ok => len_eq_b e ps && wf_event_b cur vals e ps && c_firstid_b e ps
  | Err PanicLen => pre && negb (len_eq_b e ps)
  | Err WrongLamport => pre && len_eq_b e ps && negb (c_lamport_b e ps)
  | Err WrongSelfParent =>
    pre && len_eq_b e ps && c_lamport_b e ps && negb (c_selfparent_b e ps && c_firstid_b e ps)
  | Err WrongSeq =>
    pre && len_eq_b e ps && c_lamport_b e ps && c_selfparent_b e ps && c_firstid_b e ps
    && negb (c_seq_b e ps)
  | Err k => blames_b cur vals e ps k      (* basiccheck / epochcheck errors do not look at ps *)
  end.
