(* Naive reference implementation of the Lachesis rules (C10 / C01), written from the rule
   text of property C10, not from the structure of abft/.  No caches, no incremental election
   state: every frame is decided from scratch from the event set.

   Input: validators (id, weight) — creator index = position in that list — and the events
   (FcSpec/VecIndex [event] + claimed frame) in some parents-first order.

   1. ancestry view: per event its ancestor set, the validators it sees forking and, per
      validator, everything reachable through that validator's events (graph definitions,
      tabulated once per event);
   2. forkless cause from that view (the formula of FcSpec.fc_spec);
   3. frame rule, roots, votes, decisions, Atropos, blocks — generic in the event type and in
      the forkless-cause relation (Section Rules), so that the BFT theory (proofs/BftCore*.v)
      and the executable reference share one definition. *)
From Coq Require Import List Arith NArith Bool.
From LV Require Import model.VecIndex spec.FcSpec.
Import ListNotations.
Open Scope N_scope.

(* ================= 1. input and ancestry view ================= *)
Record fev := { fe : event; ffr : N }.            (* event + claimed frame *)

Definition mem (x : N) (l : list N) : bool := existsb (N.eqb x) l.
(* union of two ascending lists (any lists: every element of both is kept) *)
Fixpoint umerge (a : list N) : list N -> list N :=
  fix inner (b : list N) : list N :=
    match a, b with
    | [], _ => b
    | _, [] => a
    | x :: a', y :: b' =>
      match x ?= y with
      | Lt => x :: umerge a' b
      | Eq => x :: umerge a' b'
      | Gt => y :: inner b'
      end
    end.

Record node := {
  nd_id : N; nd_cr : nat; nd_seq : N; nd_fr : N;
  nd_spf : N;                 (* frame of the self-parent, 0 if none *)
  nd_hassp : bool;
  nd_anc : list N;            (* ancestors, itself included *)
  nd_forks : list bool;       (* per validator: two different ancestors with equal creator and seq *)
  nd_reach : list (list N) }. (* per validator v: union of the ancestries of v's events among the ancestors *)

Definition nlookup (x : N) (T : list node) : option node := find (fun n => nd_id n =? x) T.

Definition mk_node (nv : nat) (T : list node) (e : fev) : node :=
  let id := eid (fe e) in
  let A := umerge [id] (fold_left (fun acc p => match nlookup p T with Some n => umerge acc (nd_anc n) | None => acc end)
                                  (epar (fe e)) []) in
  let below := flat_map (fun x => match nlookup x T with Some n => [n] | None => [] end) A in
  let pts := (id, ecr (fe e), eseq (fe e)) :: map (fun n => (nd_id n, nd_cr n, nd_seq n)) below in
  {| nd_id := id; nd_cr := ecr (fe e); nd_seq := eseq (fe e); nd_fr := ffr e;
     nd_spf := match self_parent (fe e) with
               | Some p => match nlookup p T with Some n => nd_fr n | None => 0 end
               | None => 0 end;
     nd_hassp := match self_parent (fe e) with Some _ => true | None => false end;
     nd_anc := A;
     nd_forks := map (fun v =>
        let l := filter (fun p : N * nat * N => Nat.eqb (snd (fst p)) v) pts in
        existsb (fun x => existsb (fun y => negb (fst (fst x) =? fst (fst y)) && (snd x =? snd y)) l) l) (seq 0 nv);
     nd_reach := map (fun v =>
        fold_left (fun acc n => if Nat.eqb (nd_cr n) v then umerge acc (nd_anc n) else acc) below
                  (if Nat.eqb (ecr (fe e)) v then A else [])) (seq 0 nv) |}.

Definition sees_fork_n (a : node) (v : nat) : bool := nth v (nd_forks a) false.

(* a forkless-causes b: a sees no fork of b's creator, and validators holding a quorum, none of
   them seen forking by a, each have an event x with  b <= x <= a *)
Definition fc_n (ws : list N) (q : N) (a b : node) : bool :=
  negb (sees_fork_n a (nd_cr b)) &&
  (q <=? wsum ws (map (fun v => negb (sees_fork_n a v) && mem (nd_id b) (nth v (nd_reach a) []))
                      (seq 0 (length ws)))).

(* ================= 2. the rules ================= *)
Inductive outcome := Undecided | Atropos (a : N) | AllNo | NoRoot.

Section Rules.
Variable X : Type.
Variables (xid : X -> N) (cr : X -> nat) (fr spf : X -> N) (hassp : X -> bool).
Variable fc : X -> X -> bool.
Variables (ws : list N) (q : N).
Variable order : list nat.             (* validator indices, canonical order: weight desc, id asc *)
Let nv := length ws.

Definition wsumP (P : nat -> bool) : N := wsum ws (map P (seq 0 nv)).
(* some element of l created by u satisfies P *)
Definition by_cr (l : list X) (P : X -> bool) (u : nat) : bool := existsb (fun r => Nat.eqb (cr r) u && P r) l.

Section OnEvents.
Variable evs : list X.

(* an event is a root of every frame in (self-parent's frame, own frame] *)
Definition is_root_at (f : N) (e : X) : bool := (spf e <? f) && (f <=? fr e).
Definition roots_at (f : N) : list X := filter (is_root_at f) evs.
Definition obs (r : X) (f : N) : list X := filter (fc r) (roots_at f).
Definition quorum_on (e : X) (f : N) : bool := q <=? wsumP (by_cr (obs e f) (fun _ => true)).

(* ---- frame rule: from the self-parent's frame upwards while forkless-caused by a quorum of roots ---- *)
Fixpoint climb (fuel : nat) (e : X) (g : N) : N :=
  match fuel with O => g | S k => if quorum_on e g then climb k e (g + 1) else g end.
Definition frame_high (e : X) : N := if hassp e then climb 100 e (spf e) else 1.
Definition frame_ok (e : X) : bool :=
  if hassp e then (spf e <=? fr e) && (fr e <=? climb (N.to_nat (fr e - spf e)) e (spf e))
  else fr e =? 1.

(* ---- election of frame f0 ---- *)
Section Elect.
Variable f0 : N.
Definition vtab := list (N * list bool).       (* root of the round's frame -> vote per subject *)
Definition yes_of (t : vtab) (r : X) (v : nat) : bool :=
  match alookup (xid r) t with Some l => nth v l false | None => false end.
(* round 1: yes iff the root forkless-causes a root of the subject in the frame being decided *)
Definition round1 : vtab :=
  map (fun r => (xid r, map (by_cr (obs r f0) (fun _ => true)) (seq 0 nv))) (roots_at (f0 + 1)).
Definition yesW (t : vtab) (o : list X) (v : nat) : N := wsumP (by_cr o (fun r' => yes_of t r' v)).
Definition noW (t : vtab) (o : list X) (v : nat) : N := wsumP (by_cr o (fun r' => negb (yes_of t r' v))).
(* round k+1 (roots of frame f0+k+1) from round k: weighted majority of the observed roots, tie = yes *)
Definition next_round (k : N) (t : vtab) : vtab :=
  map (fun r => let o := obs r (f0 + k) in (xid r, map (fun v => noW t o v <=? yesW t o v) (seq 0 nv)))
      (roots_at (f0 + k + 1)).
(* ... and a decision once one side holds a quorum *)
Definition decisions (k : N) (t : vtab) : list (list (option bool)) :=
  map (fun r => let o := obs r (f0 + k) in
         map (fun v => if q <=? yesW t o v then Some true else if q <=? noW t o v then Some false else None) (seq 0 nv))
      (roots_at (f0 + k + 1)).
Fixpoint merge_dec (a b : list (option bool)) : list (option bool) :=
  match a, b with
  | x :: a', y :: b' => (match x with Some _ => x | None => y end) :: merge_dec a' b'
  | _, _ => a
  end.

(* the root voted for: the subject's root in frame f0 that a first-round root forkless-causes *)
Definition voted_root (v : nat) : option X :=
  find (fun a => Nat.eqb (cr a) v && existsb (fun r => fc r a) (roots_at (f0 + 1))) (roots_at f0).
(* Atropos: first validator in canonical order decided yes, all before it decided no *)
Fixpoint choose (dec : list (option bool)) (ord : list nat) : outcome :=
  match ord with
  | [] => AllNo
  | v :: rest =>
    match nth v dec None with
    | None => Undecided
    | Some true => match voted_root v with Some a => Atropos (xid a) | None => NoRoot end
    | Some false => choose dec rest
    end
  end.

(* rounds 2,3,... until the Atropos is known (later rounds cannot change an outcome other than
   Undecided: decisions only accumulate) or no frames are left *)
Fixpoint run_rounds (fuel : nat) (k : N) (t : vtab) (dec : list (option bool)) : outcome :=
  match fuel with
  | O => choose dec order
  | S fu =>
    let dec' := fold_left merge_dec (decisions k t) dec in
    match choose dec' order with
    | Undecided => run_rounds fu (k + 1) (next_round k t) dec'
    | o => o
    end
  end.
Definition decide (maxf : N) : outcome := run_rounds (N.to_nat (maxf - f0)) 1 round1 (repeat None nv).
End Elect.

(* ---- blocks: decide the next frame while decidable ---- *)
Definition max_frame : N := fold_left (fun m e => N.max m (fr e)) evs 0.
Fixpoint blocks_from (fuel : nat) (f : N) : list (N * N) :=
  match fuel with
  | O => []
  | S fu => match decide f max_frame with Atropos a => (f, a) :: blocks_from fu (f + 1) | _ => [] end
  end.
Definition blocks_spec : list (N * N) := blocks_from (N.to_nat max_frame) 1.
End OnEvents.
End Rules.

(* ================= 3. the executable reference ================= *)
(* canonical validator order: weight descending, then id ascending *)
Definition vbefore (a b : nat * (N * N)) : bool :=
  if snd (snd a) =? snd (snd b) then fst (snd a) <? fst (snd b) else snd (snd b) <? snd (snd a).
Fixpoint vinsert (x : nat * (N * N)) (l : list (nat * (N * N))) :=
  match l with [] => [x] | y :: t => if vbefore x y then x :: l else y :: vinsert x t end.
Definition canon_order (vals : list (N * N)) : list nat :=
  map fst (fold_right vinsert [] (combine (seq 0 (length vals)) vals)).

Definition total_weight (ws : list N) : N := fold_left N.add ws 0.
Definition quorum_of (ws : list N) : N := total_weight ws * 2 / 3 + 1.

Section Reference.
Variable vals : list (N * N).
Let ws := map snd vals.
Let q := quorum_of ws.
Let nv := length vals.
Let ord := canon_order vals.

Definition r_frame_ok (T : list node) (n : node) : bool :=
  frame_ok node nd_cr nd_fr nd_spf nd_hassp (fc_n ws q) ws q T n.
Definition r_frame_high (T : list node) (n : node) : N :=
  frame_high node nd_cr nd_fr nd_spf nd_hassp (fc_n ws q) ws q T n.

(* input validation (the facts of property C13 the rules rely on): seq >= 1, and for seq > 1 the
   first parent is the self-parent: same creator, seq - 1 *)
Definition ev_wf_b (T : list node) (e : fev) : bool :=
  (1 <=? eseq (fe e)) &&
  (if 1 <? eseq (fe e) then
     match self_parent (fe e) with
     | Some sp => match nlookup sp T with
                  | Some n => Nat.eqb (nd_cr n) (ecr (fe e)) && (nd_seq n + 1 =? eseq (fe e))
                  | None => false end
     | None => false end
   else true).

(* events are taken in the given parents-first order; an event enters the DAG iff its parents are
   in and its claimed frame is allowed w.r.t. the roots known before it.
   result code: 0 accepted, 1 wrong frame, 2 unknown parent / duplicate / unknown creator,
   3 malformed (not a valid event in the sense of C13; outside the property) *)
Definition add_event (T : list node) (e : fev) : list node * (N * N) :=
  let n := mk_node nv T e in
  if existsb (fun p => match nlookup p T with None => true | Some _ => false end) (epar (fe e))
     || (match nlookup (eid (fe e)) T with Some _ => true | None => false end)
     || negb (Nat.ltb (ecr (fe e)) nv)
  then (T, (2, 0))
  else if negb (ev_wf_b T e) then (T, (3, 0))
  else if r_frame_ok T n then (n :: T, (0, r_frame_high T n)) else (T, (1, r_frame_high T n)).
Fixpoint add_events (T : list node) (D : list fev) : list node * list (N * N) :=
  match D with
  | [] => (T, [])
  | e :: D' => let '(T1, r) := add_event T e in let '(T2, rs) := add_events T1 D' in (T2, r :: rs)
  end.

Definition r_blocks (T : list node) : list (N * N) :=
  blocks_spec node nd_id nd_cr nd_fr nd_spf (fc_n ws q) ws q ord T.
Definition cheaters_of (T : list node) (a : N) : list N :=
  match nlookup a T with
  | None => []
  | Some n => map (fun v => fst (nth v vals (0, 0))) (filter (sees_fork_n n) ord)
  end.

(* per event (code, highest allowed frame); blocks (frame, Atropos, cheaters) *)
Definition reference (D : list fev) : list (N * N) * list (N * N * list N) :=
  let '(T, rs) := add_events [] D in
  (rs, map (fun b => (fst b, snd b, cheaters_of T (snd b))) (r_blocks T)).

(* cross-check of section 1/2 against FcSpec.fc_spec, for small inputs (the driver runs it) *)
Definition fc_crosscheck (D : list fev) : bool :=
  let T := fst (add_events [] D) in
  let E := map (fun e => (eid (fe e), fe e)) (filter (fun e => match nlookup (eid (fe e)) T with Some _ => true | None => false end) D) in
  forallb (fun a => forallb (fun b => Bool.eqb (fc_n ws q a b) (fc_spec ws q nv E (nd_id a) (nd_id b))) T) T.
End Reference.

(* ================= 4. epochs ================= *)
(* The application seals an epoch when the block of frame [seal] is applied (0 = never); the next
   epoch starts from an empty DAG with the validators chosen by the sealing policy:
   0 unchanged, 1 weights mutated, 2 the last validator in canonical order removed. *)
Definition next_vals (pol : N) (vals : list (N * N)) (epoch : N) : list (N * N) :=
  match pol with
  | 1 => map (fun p => (fst p, snd p * (500 + (fst p + 7 * epoch) mod 500) / 1000 + 1)) vals
  | 2 => match rev (canon_order vals) with
         | k :: _ :: _ => firstn k vals ++ skipn (S k) vals
         | _ => vals
         end
  | _ => vals
  end.
(* blocks up to and including the sealing frame; whether it was reached *)
Fixpoint seal_cut {A} (seal : N) (bs : list (N * N * A)) : list (N * N * A) * bool :=
  match bs with
  | [] => ([], false)
  | b :: rest => if (fst (fst b) =? seal) && negb (seal =? 0) then ([b], true)
                 else let '(l, s) := seal_cut seal rest in (b :: l, s)
  end.
(* the sealing point of an epoch's event sequence: the least number m of events whose blocks reach the
   sealing frame (bisection; the blocks of a prefix are a prefix of the blocks: C01_prefix_agreement).
   Events after that point are not fed to the instance any more (result code 7 = "not fed") *)
Definition reaches (vals : list (N * N)) (seal : N) (D : list fev) : bool :=
  snd (seal_cut seal (snd (reference vals D))).
Fixpoint seal_point (fuel : nat) (vals : list (N * N)) (seal : N) (D : list fev) (lo hi : nat) : nat :=
  match fuel with
  | O => hi
  | S f => if Nat.leb hi (S lo) then hi
           else let mid := Nat.div2 (lo + hi) in
                if reaches vals seal (firstn mid D) then seal_point f vals seal D lo mid
                else seal_point f vals seal D mid hi
  end.
(* per epoch: per-event results, blocks, sealed? — an epoch's events are judged against its own DAG *)
Fixpoint reference_epochs (seal pol : N) (vals : list (N * N)) (epoch : N) (Ds : list (list fev))
  : list (list (N * N) * list (N * N * list N) * bool) :=
  match Ds with
  | [] => []
  | D :: rest =>
    let '(rs, bs) := reference vals D in
    let '(bs', sealed) := seal_cut seal bs in
    let rs' := if sealed then let m := seal_point (length D) vals seal D 0 (length D) in
                              firstn m rs ++ repeat (7, 0) (length D - m)
               else rs in
    (rs', bs', sealed) :: (if sealed then reference_epochs seal pol (next_vals pol vals epoch) (epoch + 1) rest else [])
  end.

(* ================= 5. delivered events ================= *)
(* each block delivers the ancestry of its Atropos minus what earlier blocks of the epoch delivered
   (as ascending id lists; the order of delivery inside a block is not specified here) *)
Fixpoint delivered_from (T : list node) (seen : list N) (bs : list (N * N)) : list (list N) :=
  match bs with
  | [] => []
  | b :: r =>
    let A := match nlookup (snd b) T with Some n => nd_anc n | None => [] end in
    filter (fun x => negb (mem x seen)) A :: delivered_from T (umerge seen A) r
  end.
Definition delivered_spec (vals : list (N * N)) (D : list fev) : list (list N) :=
  let T := fst (add_events vals [] D) in delivered_from T [] (r_blocks vals T).
