(* C25 — model of kvdb/flushable/synced_pool.go (+ lazy_flushable.go, flushable.go: flush).

   Per database name the pool holds a wrapper = a LazyFlushable: [w_inited] says whether the
   underlying database has been produced (producer.OpenDB was called), [w_cache] is the
   red-black tree `modified` as a strictly sorted association list (None = deleted key).
   Nothing is durable before Flush except the creation of a database by GetUnderlying.

   flush(id) is modelled as THE LIST OF DURABLE OPERATIONS it performs, in the order the
   code performs them; each of its four loops ranges over a Go map, the visiting order is an
   oracle list (see CrashBase.arrange).  Definitions only. *)
From Coq Require Import NArith List Bool.
From LV Require Import lib.Bytes model.CrashBase.
Import ListNotations.
Local Open Scope N_scope.

Definition cache := list write.

(* rbt.Put(string(key), value) with the string comparator *)
Fixpoint cput (k : bytes) (ov : option bytes) (c : cache) : cache :=
  match c with
  | [] => [(k, ov)]
  | (k', ov') :: t =>
      match lex_compare k k' with
      | Lt => (k, ov) :: c
      | Eq => (k, ov) :: t
      | Gt => (k', ov') :: cput k ov t
      end
  end.
Fixpoint cget (k : bytes) (c : cache) : option (option bytes) :=
  match c with
  | [] => None
  | (k', ov) :: t => if bytes_eqb k' k then Some ov else cget k t
  end.

Record wrapper := mkWr { w_inited : bool; w_cache : cache }.
Record pool := mkPool { p_wr : list (name * wrapper); p_queued : list name }.
Definition pool_init : pool := mkPool [] [].

Fixpoint pget (n : name) (l : list (name * wrapper)) : option wrapper :=
  match l with
  | [] => None
  | (n', x) :: t => if n' =? n then Some x else pget n t
  end.
Fixpoint pset (n : name) (x : wrapper) (l : list (name * wrapper)) : list (name * wrapper) :=
  match l with
  | [] => [(n, x)]
  | (n', x') :: t => if n' =? n then (n, x) :: t else (n', x') :: pset n x t
  end.
Fixpoint pdel (n : name) (l : list (name * wrapper)) : list (name * wrapper) :=
  match l with
  | [] => []
  | (n', x') :: t => if n' =? n then pdel n t else (n', x') :: pdel n t
  end.

(* getDB: the wrapper of a name, created (not initialised, empty cache) when absent *)
Definition get_db (n : name) (p : pool) : pool * wrapper :=
  match pget n (p_wr p) with
  | Some x => (p, x)
  | None => let x := mkWr false [] in (mkPool (pset n x (p_wr p)) (p_queued p), x)
  end.

Definition cache_write (n : name) (k : bytes) (ov : option bytes) (p : pool) : pool :=
  let '(p, x) := get_db n p in
  mkPool (pset n (mkWr (w_inited x) (cput k ov (w_cache x))) (p_wr p)) (p_queued p).

(* ---------- Flushable.flush: the batches written to the underlying database.
   The recording batch of the harness reports ValueSize() = (sum of key and value lengths) * scale,
   so that the split `batch.ValueSize() > kvdb.IdealBatchSize` is reachable with small values. *)
Definition IDEAL : N := 102400.
Definition wsize (w : write) : N :=
  N.of_nat (length (fst w)) + match snd w with Some v => N.of_nat (length v) | None => 0 end.
Fixpoint batches (scale : N) (n : name) (c : cache) (cur : list write) (size : N) : list dop :=
  match c with
  | [] => [DBatch n (rev cur)]                      (* the final batch.Write(), possibly empty *)
  | w :: t =>
      let size' := size + wsize w in
      if IDEAL <? size' * scale
      then DBatch n (rev (w :: cur)) :: batches scale n t [] 0
      else batches scale n t (w :: cur) size'
  end.

(* ---------- flush(id) *)
(* phase 1: close and drop the queued databases *)
Fixpoint phase1 (ns : list name) (wr : list (name * wrapper)) : list (name * wrapper) * list dop :=
  match ns with
  | [] => (wr, [])
  | n :: t =>
      match pget n wr with
      | None => phase1 t wr
      | Some x =>
          let '(wr', ops) := phase1 t (pdel n wr) in
          (wr', (if w_inited x then [DDrop n] else []) ++ ops)
      end
  end.
(* phase 2: InitUnderlyingDb + dirty mark *)
Fixpoint phase2 (fk id : bytes) (ns : list name) (wr : list (name * wrapper))
  : list (name * wrapper) * list dop :=
  match ns with
  | [] => (wr, [])
  | n :: t =>
      match pget n wr with
      | None => phase2 fk id t wr
      | Some x =>
          let '(wr', ops) := phase2 fk id t (pset n (mkWr true (w_cache x)) wr) in
          (wr', (if w_inited x then [] else [DOpen n]) ++ DPut n fk (mark_of DIRTY id) :: ops)
      end
  end.
(* phase 3: flush the caches *)
Fixpoint phase3 (scale : N) (ns : list name) (wr : list (name * wrapper))
  : list (name * wrapper) * list dop :=
  match ns with
  | [] => (wr, [])
  | n :: t =>
      match pget n wr with
      | None => phase3 scale t wr
      | Some x =>
          let '(wr', ops) := phase3 scale t (pset n (mkWr true []) wr) in
          (wr', (if w_inited x then [] else [DOpen n]) ++ batches scale n (w_cache x) [] 0 ++ ops)
      end
  end.
(* phase 4: clean marks *)
Fixpoint phase4 (fk id : bytes) (ns : list name) : list dop :=
  match ns with
  | [] => []
  | n :: t => DPut n fk (mark_of CLEAN id) :: phase4 fk id t
  end.

Fixpoint dedup (l : list name) : list name :=
  match l with
  | [] => []
  | n :: t => if nmem n t then dedup t else n :: dedup t
  end.

Definition flush (fk : bytes) (scale : N) (id : bytes) (os : list (list name)) (p : pool)
  : pool * list dop :=
  let '(wr1, ops1) := phase1 (arrange (nth_order os 0) (dedup (p_queued p))) (p_wr p) in
  let '(wr2, ops2) := phase2 fk id (arrange (nth_order os 1) (map fst wr1)) wr1 in
  let '(wr3, ops3) := phase3 scale (arrange (nth_order os 2) (map fst wr2)) wr2 in
  let ops4 := phase4 fk id (arrange (nth_order os 3) (map fst wr3)) in
  (mkPool wr3 [], ops1 ++ ops2 ++ ops3 ++ ops4).

Fixpoint cache_writes (n : name) (ws : list write) (p : pool) : pool :=
  match ws with
  | [] => p
  | w :: t => cache_writes n t (cache_write n (fst w) (snd w) p)
  end.

(* one user operation: new pool state and the durable operations it performs *)
Definition pool_step (fk : bytes) (scale : N) (p : pool) (o : hop) : pool * list dop :=
  match o with
  | HOpen n => (fst (get_db n p), [])
  | HUnder n =>
      let '(p, x) := get_db n p in
      if w_inited x then (p, [])
      else (mkPool (pset n (mkWr true (w_cache x)) (p_wr p)) (p_queued p), [DOpen n])
  | HPut n k v => (cache_write n k (Some v) p, [])
  | HDel n k => (cache_write n k None p, [])
  | HBatch n ws => (cache_writes n ws (fst (get_db n p)), [])
  | HDrop n => let p := fst (get_db n p) in (mkPool (p_wr p) (n :: p_queued p), [])
  | HFlush id os => flush fk scale id os p
  end.

(* the run of a history: durable log, flush records (specification snapshots), final states *)
Record run_state := mkRun {
  rs_pool : pool;
  rs_spec : spec_state;
  rs_log : list dop;
  rs_recs : list flush_rec
}.
Definition run_init : run_state := mkRun pool_init spec_init [] [].

Definition run_step (fk : bytes) (scale : N) (s : run_state) (o : hop) : run_state :=
  let '(p, ops) := pool_step fk scale (rs_pool s) o in
  let '(sp, snap) := spec_step fk false (rs_spec s) o in
  let log := rs_log s ++ ops in
  mkRun p sp log
        (match snap with
         | Some (id, dbs) => rs_recs s ++ [mkRec (length log) id dbs]
         | None => rs_recs s
         end).
Definition run_pool (fk : bytes) (scale : N) (h : list hop) : run_state :=
  fold_left (run_step fk scale) h run_init.

(* ---------- several sessions: crash after the first k durable operations, then a new SyncedPool over the
   surviving databases and Initialize(names, nil) (names in the order o): every name is opened, then
   CheckDBsSynced; when it fails the application does not start (None).  Unflushed writes and queued
   drops are lost; the specification's contents become the surviving contents; flushes that had not
   completed by k never completed. *)
Definition pool_of_world (w : world) : pool :=
  mkPool (map (fun nc => (fst nc, mkWr true [])) w) [].
Definition restart_pool (fk : bytes) (s : run_state) (k : nat) (o : list name) : option run_state :=
  let w := crash (rs_log s) k in
  match check_synced fk w with
  | COk _ =>
      Some (mkRun (pool_of_world w) (mkSpec w [])
                  (firstn k (rs_log s) ++ map DOpen (arrange o (map fst w)))
                  (filter (fun rc => Nat.leb (r_pos rc) k) (rs_recs s)))
  | _ => None
  end.
(* sessions = (history, crash point, Initialize order); the state the next session starts in *)
Fixpoint run_sessions (fk : bytes) (scale : N) (s : run_state)
                      (ss : list (list hop * nat * list name)) : option run_state :=
  match ss with
  | [] => Some s
  | (h, k, o) :: rest =>
      match restart_pool fk (fold_left (run_step fk scale) h s) k o with
      | Some s' => run_sessions fk scale s' rest
      | None => None
      end
  end.
