(* Model of emitter/ancestor/search.go (ChooseParents) and weighted.go (MetricStrategy.Choose).
   Event ids are opaque numbers.  hash.EventsSet (a Go map) is a duplicate-free list; the order in
   which optionsSet.Slice() ranges over the map is an ORACLE ([shuf], any permutation), and so is a
   SearchStrategy ([choose]); rand.go's RandomStrategy is one such oracle. *)
From Coq Require Import NArith List Bool.
Import ListNotations.
Local Open Scope N_scope.

Definition mem (x : N) (l : list N) : bool := existsb (N.eqb x) l.

(* options.Set(): the distinct ids *)
Fixpoint uniq (l : list N) : list N :=
  match l with
  | [] => []
  | x :: r => if mem x r then uniq r else x :: uniq r
  end.

(* optionsSet.Erase(p) *)
Definition erase (x : N) (s : list N) : list N := filter (fun y => negb (y =? x)) s.

Record strategy := {
  shuf : list N -> list N;              (* optionsSet.Slice(): map iteration order *)
  choose : list N -> list N -> nat      (* SearchStrategy.Choose(existingParents, options) *)
}.

(* what a recording strategy sees: the parents so far and the options it was shown; and the index
   it answered *)
Definition round := (list N * list N * nat)%type.

Inductive outcome :=
| Done (parents : list N)
| PanicIndex (parents : list N).   (* curOptions[best]: index out of range *)

(* for i := 0; i < len(strategies) && len(optionsSet) > 0; i++ {
     curOptions := optionsSet.Slice(); best := strategies[i].Choose(parents, curOptions)
     parents = append(parents, curOptions[best]); optionsSet.Erase(curOptions[best]) } *)
Fixpoint loop (strats : list strategy) (parents : list N) (s : list N) (log : list round)
  : list round * outcome :=
  match strats with
  | [] => (rev log, Done parents)
  | st :: rest =>
    match s with
    | [] => (rev log, Done parents)
    | _ =>
      let cur := shuf st s in
      let best := choose st parents cur in
      match nth_error cur best with
      | None => (rev ((parents, cur, best) :: log), PanicIndex parents)
      | Some b => loop rest (parents ++ [b]) (erase b s) ((parents, cur, best) :: log)
      end
    end
  end.

(* optionsSet := options.Set(); for _, p := range existingParents { optionsSet.Erase(p) } *)
Definition initial_set (existing options : list N) : list N :=
  fold_left (fun s p => erase p s) existing (uniq options).

Definition choose_parents_log (existing options : list N) (strats : list strategy)
  : list round * outcome :=
  loop strats existing (initial_set existing options) [].

Definition choose_parents (existing options : list N) (strats : list strategy) : outcome :=
  snd (choose_parents_log existing options strats).

(* MetricStrategy.Choose:
     var maxI int; var maxWeight Metric
     for i, opt := range options { weight := st.metricFn(opt)
        if maxWeight == 0 || weight > maxWeight { maxI = i; maxWeight = weight } }
     return maxI *)
Definition metric_step (metric : N -> N) (acc : nat * N * nat) (opt : N) : nat * N * nat :=
  let '(maxI, maxW, i) := acc in
  let w := metric opt in
  if (maxW =? 0) || (maxW <? w) then (i, w, S i) else (maxI, maxW, S i).

Definition metric_choose (metric : N -> N) (options : list N) : nat :=
  fst (fst (fold_left (metric_step metric) options (0%nat, 0, 0%nat))).

Definition metric_strategy (sh : list N -> list N) (metric : N -> N) : strategy :=
  {| shuf := sh; choose := fun _ opts => metric_choose metric opts |}.

(* ---------------------------------------------------------------- metric_cache.go
   MetricCache.GetMetricOf(id): if the id is stored return the stored value, otherwise compute
   metricFn(id), store it (the wlru may evict other entries: WHICH ones is an oracle) and return it. *)
Definition mcache := list (N * N).
Fixpoint mc_lookup (id : N) (c : mcache) : option N :=
  match c with
  | [] => None
  | (k, m) :: r => if k =? id then Some m else mc_lookup id r
  end.
Definition memo_step (f : N -> N) (evict : mcache -> mcache) (c : mcache) (id : N) : N * mcache :=
  match mc_lookup id c with
  | Some m => (m, c)
  | None => let m := f id in (m, (id, m) :: evict c)
  end.
(* a sequence of look-ups through one cache *)
Fixpoint memo_run (f : N -> N) (evict : mcache -> mcache) (c : mcache) (ids : list N) : list N * mcache :=
  match ids with
  | [] => ([], c)
  | id :: r => let '(m, c') := memo_step f evict c id in
               let '(ms, c'') := memo_run f evict c' r in (m :: ms, c'')
  end.
