(* C28 — generic model of an object protected by one mutex (sync.Mutex / sync.RWMutex semantics) and
   the definitions of linearizability and race freedom.  DEFINITIONS ONLY; proofs are in proofs/LinSim.v, proofs/LinHW.v, proofs/Lin.v.

   The object.  Abstract types [state] (the guarded fields), [op] (a method call with its arguments),
   [ret], and [local] (the locals of a running method body).  A method body is a small-step program over
   the shared state: [mstep o l s = (l', s')] is one atomic access-level step, [fin o l = Some r] says the
   body is finished with result [r], [linit o] are the initial locals.  Bodies may loop; nothing is
   assumed about termination.  The SEQUENTIAL specification of the object is its bodies run alone:
   [seq_exec o s s' r].

   The lock discipline ("every operation executes its whole effect inside one critical section of the
   object's mutex, exclusive for mutators, shared only for read-only operations") is [kind]:
     KExcl   the body runs between Lock and Unlock;
     KShared the body runs between RLock and RUnlock   (premise: the body does not write the state);
     KNone   the body takes no lock                     (premise: the body does not touch the state).
   The two premises are [shared_readonly] and [none_stateless]; they are what the regenerated lock table
   establishes for the real code (proofs/LinTable.v).

   Condition variables.  [waits o l = true] says that the body, at locals l inside its critical section,
   calls sync.Cond.Wait: the mutex is released (action [Wait t]), the thread has to acquire it again and
   continues with locals [wstep o l].  Wake-ups are not modelled (a waiter may re-acquire at any time:
   spurious wake-ups are allowed, which is sound for safety properties).  In the SEQUENTIAL specification a
   wait is a step that only changes the locals (the body retries).

   The concurrent machine.  Threads (goroutines) are natural numbers.  A trace is a list of actions
     Inv t o | Acq t | Body t | Wait t | Rel t | Ret t r.
   Mutual exclusion is NOT proved, it is the semantics of the mutex and therefore a well-formedness
   condition of traces ([step], cases [Acq]): an exclusive acquisition needs no holder at all, a shared
   acquisition needs no exclusive holder — readers may overlap each other.  Every interleaving of
   body steps of different threads that respects this is a trace. *)
From Coq Require Import List Arith Lia.
Import ListNotations.

Definition tid := nat.

Inductive lkind := KExcl | KShared | KNone.

Section Object.
  Variables state op ret local : Type.
  Variable linit : op -> local.
  Variable mstep : op -> local -> state -> local * state.
  Variable fin : op -> local -> option ret.
  Variable waits : op -> local -> bool.     (* the body calls Cond.Wait here *)
  Variable wstep : op -> local -> local.    (* locals after the wait *)
  Variable kind : op -> lkind.

  (* steps of a body inside ONE critical section (no wait) *)
  Inductive sect_run (o : op) : local -> state -> local -> state -> Prop :=
  | sr_refl : forall l s, sect_run o l s l s
  | sr_step : forall l s l1 s1 l2 s2,
      fin o l = None -> waits o l = false -> mstep o l s = (l1, s1) -> sect_run o l1 s1 l2 s2 ->
      sect_run o l s l2 s2.

  (* ---------- sequential specification: the bodies run alone (a wait = retry) *)
  Inductive body_run (o : op) : local -> state -> local -> state -> Prop :=
  | br_refl : forall l s, body_run o l s l s
  | br_step : forall l s l1 s1 l2 s2,
      fin o l = None -> waits o l = false -> mstep o l s = (l1, s1) -> body_run o l1 s1 l2 s2 ->
      body_run o l s l2 s2
  | br_wait : forall l s l2 s2,
      fin o l = None -> waits o l = true -> body_run o (wstep o l) s l2 s2 -> body_run o l s l2 s2.

  Definition seq_exec (o : op) (s s' : state) (r : ret) : Prop :=
    exists l', body_run o (linit o) s l' s' /\ fin o l' = Some r.

  Fixpoint seq_legal (s : state) (ops : list (op * ret)) : Prop :=
    match ops with
    | [] => True
    | (o, r) :: rest => exists s', seq_exec o s s' r /\ seq_legal s' rest
    end.

  (* ---------- premises of the theorem (the lock discipline) *)
  Definition shared_readonly : Prop :=
    forall o, kind o = KShared -> forall l s, snd (mstep o l s) = s.
  Definition none_stateless : Prop :=
    forall o, kind o = KNone -> forall l s s', mstep o l s = (fst (mstep o l s'), s).
  (* Cond.Wait only under the exclusive mutex, never in a lock-free body *)
  Definition wait_excl : Prop := forall o l, waits o l = true -> kind o = KExcl.

  (* Operations that wait: the premise is an invariant [resumable o l] of the locals with which a thread
     (re-)enters its critical section.  A section that ends in a wait must leave the guarded state unchanged
     (a failed attempt), and a section that finishes from a resumable point must have the effect and result of
     a COMPLETE sequential run on the state it found.  For bodies that never wait, [fun o l => l = linit o]
     is such an invariant (proofs/LinSim.v: nowait_resumable). *)
  Record resumable_inv (resumable : op -> local -> Prop) : Prop := {
    res_init : forall o, resumable o (linit o);
    res_wait : forall o l0 s l s', resumable o l0 -> sect_run o l0 s l s' -> fin o l = None ->
                 waits o l = true -> s' = s /\ resumable o (wstep o l);
    res_fin : forall o l0 s l s' r, resumable o l0 -> sect_run o l0 s l s' -> fin o l = Some r ->
                 seq_exec o s s' r
  }.

  (* ---------- the fine-grained concurrent machine *)
  Inductive action :=
  | Inv (t : tid) (o : op)
  | Acq (t : tid)
  | Body (t : tid)
  | Wait (t : tid)     (* sync.Cond.Wait: releases the mutex; the thread must acquire it again *)
  | Rel (t : tid)      (* Unlock / RUnlock; for a KNone operation: the end of the body *)
  | Ret (t : tid) (r : ret).

  Inductive tstat :=
  | Idle
  | Invoked (o : op) (l : local)     (* called; lock not (yet) held.  KNone bodies run here *)
  | InCS (o : op) (l : local)        (* inside the critical section *)
  | Released (o : op) (r : ret).     (* body finished and lock released, not yet returned *)

  Record config := mkc { sh : state; th : tid -> tstat }.

  Definition upd (f : tid -> tstat) (t : tid) (v : tstat) : tid -> tstat :=
    fun t' => if Nat.eqb t' t then v else f t'.

  (* who holds the mutex *)
  Definition holds (c : config) (t : tid) : Prop := exists o l, th c t = InCS o l.
  Definition holds_excl (c : config) (t : tid) : Prop := exists o l, th c t = InCS o l /\ kind o = KExcl.

  Inductive step : config -> action -> config -> Prop :=
  | s_inv : forall c t o, th c t = Idle ->
      step c (Inv t o) (mkc (sh c) (upd (th c) t (Invoked o (linit o))))
  | s_acq_excl : forall c t o l, th c t = Invoked o l -> kind o = KExcl ->
      (forall t', ~ holds c t') ->                                   (* sync.Mutex / RWMutex.Lock *)
      step c (Acq t) (mkc (sh c) (upd (th c) t (InCS o l)))
  | s_acq_shared : forall c t o l, th c t = Invoked o l -> kind o = KShared ->
      (forall t', ~ holds_excl c t') ->                              (* RWMutex.RLock *)
      step c (Acq t) (mkc (sh c) (upd (th c) t (InCS o l)))
  | s_body : forall c t o l l' s', th c t = InCS o l -> fin o l = None -> waits o l = false ->
      mstep o l (sh c) = (l', s') ->
      step c (Body t) (mkc s' (upd (th c) t (InCS o l')))
  | s_wait : forall c t o l, th c t = InCS o l -> fin o l = None -> waits o l = true ->
      step c (Wait t) (mkc (sh c) (upd (th c) t (Invoked o (wstep o l))))
  | s_body_none : forall c t o l l' s', th c t = Invoked o l -> kind o = KNone -> fin o l = None ->
      waits o l = false -> mstep o l (sh c) = (l', s') ->
      step c (Body t) (mkc s' (upd (th c) t (Invoked o l')))
  | s_rel : forall c t o l r, th c t = InCS o l -> fin o l = Some r ->
      step c (Rel t) (mkc (sh c) (upd (th c) t (Released o r)))
  | s_rel_none : forall c t o l r, th c t = Invoked o l -> kind o = KNone -> fin o l = Some r ->
      step c (Rel t) (mkc (sh c) (upd (th c) t (Released o r)))
  | s_ret : forall c t o r, th c t = Released o r ->
      step c (Ret t r) (mkc (sh c) (upd (th c) t Idle)).

  Variable s0 : state.
  Definition init : config := mkc s0 (fun _ => Idle).

  (* traces grow at the end, so positions of earlier actions are stable *)
  Inductive exec : list action -> config -> Prop :=
  | e_nil : exec [] init
  | e_snoc : forall tr c a c', exec tr c -> step c a c' -> exec (tr ++ [a]) c'.

  (* a segment of a trace, from one configuration to another *)
  Inductive run : config -> list action -> config -> Prop :=
  | r_nil : forall c, run c [] c
  | r_cons : forall c a c1 tr c2, step c a c1 -> run c1 tr c2 -> run c (a :: tr) c2.

  (* ---------- the atomic object: the canonical specification every linearizable object refines *)
  Inductive aaction := AInv (t : tid) (o : op) | ALin (t : tid) | ARet (t : tid) (r : ret).
  Inductive astat := AIdle | APending (o : op) | ADone (o : op) (r : ret).
  Record aconfig := mka { ash : state; ath : tid -> astat }.
  Definition aupd (f : tid -> astat) (t : tid) (v : astat) : tid -> astat :=
    fun t' => if Nat.eqb t' t then v else f t'.

  Inductive astep : aconfig -> aaction -> aconfig -> Prop :=
  | a_inv : forall c t o, ath c t = AIdle -> astep c (AInv t o) (mka (ash c) (aupd (ath c) t (APending o)))
  | a_lin : forall c t o s' r, ath c t = APending o -> seq_exec o (ash c) s' r ->
      astep c (ALin t) (mka s' (aupd (ath c) t (ADone o r)))
  | a_ret : forall c t o r, ath c t = ADone o r -> astep c (ARet t r) (mka (ash c) (aupd (ath c) t AIdle)).

  Definition ainit : aconfig := mka s0 (fun _ => AIdle).
  Inductive aexec : list aaction -> aconfig -> Prop :=
  | ae_nil : aexec [] ainit
  | ae_snoc : forall tr c a c', aexec tr c -> astep c a c' -> aexec (tr ++ [a]) c'.

  (* ---------- histories (what a client can observe) *)
  Inductive hev := HInv (t : tid) (o : op) | HRet (t : tid) (r : ret).

  Definition hist_of_action (a : action) : list hev :=
    match a with Inv t o => [HInv t o] | Ret t r => [HRet t r] | _ => [] end.
  Definition hist (tr : list action) : list hev := flat_map hist_of_action tr.

  Definition hist_of_aaction (a : aaction) : list hev :=
    match a with AInv t o => [HInv t o] | ARet t r => [HRet t r] | ALin _ => [] end.
  Definition ahist (tr : list aaction) : list hev := flat_map hist_of_aaction tr.

  (* abstraction of a fine-grained trace: the unlock is the linearization point *)
  Definition abs_action (a : action) : list aaction :=
    match a with
    | Inv t o => [AInv t o] | Rel t => [ALin t] | Ret t r => [ARet t r] | Acq _ | Body _ | Wait _ => []
    end.
  Definition abs (tr : list action) : list aaction := flat_map abs_action tr.

  (* ---------- linearizability (Herlihy & Wing), on a history [h] *)
  (* the invocation at position i is answered at position j with result r *)
  Definition matching (h : list hev) (i j : nat) (t : tid) (o : op) (r : ret) : Prop :=
    nth_error h i = Some (HInv t o) /\ nth_error h j = Some (HRet t r) /\ i < j /\
    forall k r', i < k -> k < j -> nth_error h k <> Some (HRet t r').
  (* the invocation at position i is still pending at the end of h *)
  Definition pending (h : list hev) (i : nat) (t : tid) (o : op) : Prop :=
    nth_error h i = Some (HInv t o) /\ forall k r', i < k -> nth_error h k <> Some (HRet t r').

  (* le_inv: position of the invocation in h (identifies the operation); le_pt: the linearization point,
     as a position in h (the operation takes effect between positions le_pt-1 and le_pt) *)
  Record lin_entry := mkle { le_inv : nat; le_pt : nat; le_tid : tid; le_op : op; le_ret : ret }.

  (* [S] is a linearization of [h]:
     - its entries are distinct operations of h: completed ones with their actual result, or pending
       ones (which are given some result);
     - every completed operation of h is in S;
     - every entry takes effect inside its interval: after its invocation, not after its response;
     - real-time order: an operation that returned before another one was invoked comes first;
     - S is a legal sequential execution from the initial state. *)
  Definition before {A} (l : list A) (x y : A) : Prop :=
    exists l1 l2 l3, l = l1 ++ x :: l2 ++ y :: l3.

  Definition linearization (h : list hev) (S : list lin_entry) : Prop :=
    NoDup (map le_inv S) /\
    (forall e, In e S ->
       (exists j, matching h (le_inv e) j (le_tid e) (le_op e) (le_ret e)) \/
       pending h (le_inv e) (le_tid e) (le_op e)) /\
    (forall i j t o r, matching h i j t o r -> exists pt, In (mkle i pt t o r) S) /\
    (forall e, In e S -> le_inv e < le_pt e /\
       forall j, matching h (le_inv e) j (le_tid e) (le_op e) (le_ret e) -> le_pt e <= j) /\
    (forall e1 e2 j1, before S e2 e1 ->
       matching h (le_inv e1) j1 (le_tid e1) (le_op e1) (le_ret e1) -> ~ j1 < le_inv e2) /\
    seq_legal s0 (map (fun e => (le_op e, le_ret e)) S).

  Definition linearizable (h : list hev) : Prop := exists S, linearization h S.

  (* ---------- data races *)
  (* thread t is about to perform an access to the guarded state; [w] = the access may be a write.
     (KNone bodies do not touch the state: premise [none_stateless].)  A data race is a reachable
     configuration in which two threads have an access enabled and at least one may write. *)
  Definition access_enabled (c : config) (t : tid) (w : bool) : Prop :=
    exists o l, th c t = InCS o l /\ fin o l = None /\ waits o l = false /\
                w = match kind o with KExcl => true | _ => false end.
  Definition race (c : config) : Prop :=
    exists t t' w w', t <> t' /\ access_enabled c t w /\ access_enabled c t' w' /\ (w = true \/ w' = true).
End Object.
