(* C22, snapshot clause (round 2): the MUTABLE objects behind one flushable.Flushable over an engine.
   The run model (KvStack.v) is purely functional, so there a snapshot is a copied value by
   construction; this file models what GetSnapshot has to get right for that to be true:
     - w.modified is a pointer to a tree OBJECT that Put/Delete/Clear() mutate in place,
     - GetSnapshot copies that tree into a NEW object and pairs it with a parent SNAPSHOT handle
       (an immutable version of the engine), not with the live parent,
   and the two ways to get it wrong (share the tree object / read through the live parent).
   Objects are addressed by their index in the heap.  Definitions only. *)
From Coq Require Import NArith List Bool.
From LV Require Import lib.Bytes lib.SortedMap spec.KvSpec spec.KvOps model.PrefixRange model.Flushable.
Import ListNotations.

Record heap := {
  h_trees : list tree;      (* tree objects; index = identity *)
  h_cur : kvmap;            (* the engine's live content *)
  h_snaps : list kvmap      (* the engine's snapshots (immutable once taken) *)
}.

(* the Flushable's [modified] field: it always points to object [t] (Clear() empties it in place) *)
Definition tree_at (H : heap) (i : nat) : tree := nth i (h_trees H) [].
Definition set_tree (H : heap) (i : nat) (x : tree) : heap :=
  {| h_trees := set_nth i x [] (h_trees H); h_cur := h_cur H; h_snaps := h_snaps H |}.

Inductive hop :=
| HPut (k : key) (v : val) | HDel (k : key)          (* through the flushable *)
| HFlush | HDrop
| HParentPut (k : key) (v : val) | HParentDel (k : key)   (* directly on the engine *)
| HSnapshot.                                          (* a further GetSnapshot *)

Record snapobj := { s_tree : nat; s_parent : option nat (* None = the LIVE engine (wrong) *) }.

(* GetSnapshot as coded: parentSnap := underlying.GetSnapshot(); modifiedCopy := copy of the tree *)
Definition get_snapshot (t : nat) (H : heap) : heap * snapobj :=
  ({| h_trees := h_trees H ++ [tree_at H t]; h_cur := h_cur H; h_snaps := h_snaps H ++ [h_cur H] |},
   {| s_tree := length (h_trees H); s_parent := Some (length (h_snaps H)) |}).
(* wrong variant 1: the snapshot shares the live tree object *)
Definition get_snapshot_shared_tree (t : nat) (H : heap) : heap * snapobj :=
  ({| h_trees := h_trees H; h_cur := h_cur H; h_snaps := h_snaps H ++ [h_cur H] |},
   {| s_tree := t; s_parent := Some (length (h_snaps H)) |}).
(* wrong variant 2: the snapshot reads through the live parent *)
Definition get_snapshot_live_parent (t : nat) (H : heap) : heap * snapobj :=
  ({| h_trees := h_trees H ++ [tree_at H t]; h_cur := h_cur H; h_snaps := h_snaps H |},
   {| s_tree := length (h_trees H); s_parent := None |}).

Definition hstep (t : nat) (H : heap) (o : hop) : heap :=
  match o with
  | HPut k v => set_tree H t (flu_put (tree_at H t) k v)
  | HDel k => set_tree H t (flu_del (tree_at H t) k)
  | HFlush => {| h_trees := set_nth t [] [] (h_trees H);
                 h_cur := kv_write (h_cur H) (flu_ops (tree_at H t)); h_snaps := h_snaps H |}
  | HDrop => set_tree H t []
  | HParentPut k v => {| h_trees := h_trees H; h_cur := sm_put (h_cur H) k v; h_snaps := h_snaps H |}
  | HParentDel k => {| h_trees := h_trees H; h_cur := sm_del (h_cur H) k; h_snaps := h_snaps H |}
  | HSnapshot => fst (get_snapshot t H)
  end.
Definition hrun (t : nat) (H : heap) (ops : list hop) : heap := fold_left (hstep t) ops H.

(* reads of a snapshot object, at whatever later time *)
Definition snap_parent (H : heap) (sn : snapobj) : kvmap :=
  match s_parent sn with Some j => nth j (h_snaps H) [] | None => h_cur H end.
Definition snap_get (H : heap) (sn : snapobj) (k : key) : option val :=
  flu_get (tree_at H (s_tree sn)) (sm_get (snap_parent H sn)) k.
Definition snap_iter (H : heap) (sn : snapobj) (p s : okey) : list (key * val) :=
  flu_iterate (tree_at H (s_tree sn)) (kv_iterate (snap_parent H sn) (ob p) (ob s)) p s.
