(* Gallina port of vecengine/vecfc: global branches (fillGlobalBranchID), HighestBefore /
   LowestAfter vectors (CollectFrom, fork detection passes, pruned LowestAfter DFS),
   forklessCause and the merged clock (GatherFrom).  Promoted from the design-round sketch;
   the graph specification lives in spec/FcSpec.v.  Interface contract for other files:
   existing definitions keep their names and types; additions only. *)
From Coq Require Import List Arith NArith Bool Lia.
Import ListNotations.
Open Scope N_scope.

(* ---------- events ---------- *)
Record event := { eid : N; ecr : nat (*validator idx*); eseq : N; epar : list N }.
Definition self_parent (e : event) : option N :=
  if (eseq e <=? 1) then None else match epar e with [] => None | p :: _ => Some p end.

Definition FORKM : N := 2147483647.
Definition hbs := (N * N)%type.           (* (Seq, MinSeq) ; fork marker = (0, FORKM) *)
Definition is_fork (x : hbs) := (fst x =? 0) && (snd x =? FORKM).
Definition hb_get (v : list hbs) (i : nat) : hbs := nth i v (0, 0).
Definition la_get (v : list N) (i : nat) : N := nth i v 0.
Fixpoint set_nth {A} (d : A) (l : list A) (i : nat) (x : A) : list A :=
  match i, l with
  | O, [] => [x] | O, _ :: t => x :: t
  | S i', [] => d :: set_nth d [] i' x | S i', h :: t => h :: set_nth d t i' x end.
Definition hb_set v i x := set_nth (0,0) v i x.
Definition la_set v i x := set_nth 0 v i x.

Fixpoint alookup {A} (k : N) (l : list (N * A)) : option A :=
  match l with [] => None | (k', v) :: t => if k =? k' then Some v else alookup k t end.
Definition aput {A} (k : N) (v : A) (l : list (N * A)) := (k, v) :: l.

Record vidx := { nvals : nat;
  br_last : list N; br_cr : list nat; by_cr : list (list nat);
  hb : list (N * list hbs); la : list (N * list N); ebr : list (N * nat); evs : list (N * event) }.

Definition init (n : nat) : vidx :=
  {| nvals := n; br_last := repeat 0 n; br_cr := seq 0 n; by_cr := map (fun i => [i]) (seq 0 n);
     hb := []; la := []; ebr := []; evs := [] |}.

Definition nbr (s : vidx) := length (br_cr s).
Definition at_least_one_fork (s : vidx) := Nat.ltb (nvals s) (nbr s).

(* fillGlobalBranchID *)
Definition fill_branch (s : vidx) (e : event) : nat * vidx :=
  let me := ecr e in
  let newfork :=
    let nb := nbr s in
    (nb, {| nvals := nvals s; br_last := br_last s ++ [eseq e]; br_cr := br_cr s ++ [me];
            by_cr := set_nth [] (by_cr s) me (nth me (by_cr s) [] ++ [nb]);
            hb := hb s; la := la s; ebr := ebr s; evs := evs s |}) in
  let cont b := (b, {| nvals := nvals s; br_last := set_nth 0 (br_last s) b (eseq e); br_cr := br_cr s; by_cr := by_cr s;
                       hb := hb s; la := la s; ebr := ebr s; evs := evs s |}) in
  match self_parent e with
  | None => if nth me (br_last s) 0 =? 0 then cont me else newfork
  | Some sp => match alookup sp (ebr s) with
               | None => newfork (* crit in Go; excluded by parents-first *)
               | Some b => if nth b (br_last s) 0 + 1 =? eseq e then cont b else newfork end
  end.

(* HighestBeforeSeq.CollectFrom *)
Definition collect_from (num : nat) (mine his : list hbs) : list hbs :=
  fold_left (fun mine b =>
    let h := hb_get his b in
    if (fst h =? 0) && negb (is_fork h) then mine else
    let m := hb_get mine b in
    if is_fork m then mine else
    if is_fork h then hb_set mine b (0, FORKM) else
      let m1 := if (fst m =? 0) || (snd h <? snd m) then (fst m, snd h) else m in
      let m2 := if fst m1 <? fst h then (fst h, snd m1) else m1 in
      if (fst m =? 0) || (snd h <? snd m) || (fst m1 <? fst h) then hb_set mine b m2 else mine)
    (List.seq 0 num) mine.

Definition set_fork_creator (s : vidx) (v : list hbs) (cr : nat) : list hbs :=
  fold_left (fun v b => hb_set v b (0, FORKM)) (nth cr (by_cr s) []) v.
(* Engine.setForkDetected(before, branchID): creator of the branch, then every branch of that creator.
   fillEventVectors calls it with the validator index n used as a branch id (branch n < nvals is
   the first branch of validator n). *)
Definition set_fork_detected (s : vidx) (v : list hbs) (branch : nat) : list hbs :=
  set_fork_creator s v (nth branch (br_cr s) 0%nat).
Definition is_empty (v : list hbs) b := let x := hb_get v b in negb (is_fork x) && (fst x =? 0).

Definition detect_forks (s : vidx) (v : list hbs) : list hbs :=
  if negb (at_least_one_fork s) then v else
  let v1 := fold_left (fun v n =>
      let brs := nth n (by_cr s) [] in
      if Nat.leb (length brs) 1 then v
      else if existsb (fun b => is_fork (hb_get v b)) brs then set_fork_detected s v n else v)
    (List.seq 0 (nvals s)) v in
  fold_left (fun v n =>
      if is_fork (hb_get v n) then v else
      let brs := nth n (by_cr s) [] in
      if existsb (fun a => existsb (fun b => negb (Nat.eqb a b) && negb (is_empty v a) && negb (is_empty v b)
                      && (snd (hb_get v a) <=? fst (hb_get v b)) && (snd (hb_get v b) <=? fst (hb_get v a))) brs) brs
      then set_fork_detected s v n else v)
    (List.seq 0 (nvals s)) v1.

(* DfsSubgraph with LowestAfter.Visit; explicit stack, fuel *)
Fixpoint dfs_la (fuel : nat) (s : vidx) (me : nat) (sq : N) (stack : list N) (lam : list (N * list N)) : list (N * list N) :=
  match fuel with O => lam | S f =>
  match stack with
  | [] => lam
  | w :: rest =>   (* head of the list = top of the Go stack (Pop takes the last pushed) *)
    match alookup w lam with
    | None => dfs_la f s me sq rest lam
    | Some v => if negb (la_get v me =? 0) then dfs_la f s me sq rest lam
                else let lam' := aput w (la_set v me sq) lam in
                     match alookup w (evs s) with
                     | None => dfs_la f s me sq rest lam'
                     | Some ev => dfs_la f s me sq (rev (epar ev) ++ rest) lam' end
    end
  end end.

(* Fuel: every iteration pops one stack entry; entries are pushed once for the head's parents and
   once per visited (newly marked) event, so #pops <= |parents e| + sum of all parent-list lengths.
   proofs/VecDfs.v shows the stack is empty when the fuel below is used (dfs_la_fuel_enough). *)
Definition total_parents (E : list (N * event)) : nat :=
  fold_right (fun p acc => (length (epar (snd p)) + acc)%nat) 0%nat E.
Definition dfs_fuel (s : vidx) (e : event) : nat := S (length (epar e) + total_parents (evs s)).

Definition add (s : vidx) (e : event) : option vidx :=
  let nb0 := nbr s in
  let '(me, s1) := fill_branch s e in
  let pvecs := map (fun p => alookup p (hb s1)) (epar e) in
  if existsb (fun o => match o with None => true | _ => false end) pvecs then None else
  let before0 := hb_set (repeat (0,0) nb0) me (eseq e, eseq e) in
  let after0 := la_set (repeat 0 nb0) me (eseq e) in
  let before1 := fold_left (fun b o => match o with Some pv => collect_from (nbr s1) b pv | None => b end) pvecs before0 in
  let before2 := detect_forks s1 before1 in
  let lam := dfs_la (dfs_fuel s1 e) s1 me (eseq e) (rev (epar e)) (la s1) in
  Some {| nvals := nvals s1; br_last := br_last s1; br_cr := br_cr s1; by_cr := by_cr s1;
          hb := aput (eid e) before2 (hb s1); la := aput (eid e) after0 lam;
          ebr := aput (eid e) me (ebr s1); evs := aput (eid e) e (evs s1) |}.

(* weights & forklessCause *)
Definition wsum (ws : list N) (cnt : list bool) : N :=
  fold_left N.add (map (fun p : N * bool => if snd p then fst p else 0) (combine ws cnt)) 0.
Definition fc (ws : list N) (q : N) (s : vidx) (a b : N) : bool :=
  match alookup a (hb s), alookup b (la s), alookup b (ebr s) with
  | Some av, Some bv, Some bbr =>
    if at_least_one_fork s && is_fork (hb_get av bbr) then false else
    let counted := fold_left (fun cnt br =>
         let bl := la_get bv br in let ah := hb_get av br in
         if (bl <=? fst ah) && negb (bl =? 0) && negb (is_fork ah)
         then set_nth false cnt (nth br (br_cr s) 0%nat) true else cnt)
       (List.seq 0 (nbr s)) (repeat false (nvals s)) in
    q <=? wsum ws counted
  | _, _, _ => false end.
Definition merged (s : vidx) (a : N) : list hbs :=
  match alookup a (hb s) with None => [] | Some av =>
  if at_least_one_fork s then
    map (fun brs => fold_left (fun hi br => if is_fork hi then hi else
                                let x := hb_get av br in if is_fork x then x else if fst hi <? fst x then x else hi) brs (0,0)) (by_cr s)
  else map (fun i => hb_get av i) (List.seq 0 (nvals s)) end.


(* ---------- additions (round 2): quorum, crit-aware query, the ForklessCause LRU, Add/Drop protocol ---------- *)

(* pos.Validators.Quorum = TotalWeight*2/3 + 1 *)
Definition total_weight (ws : list N) : N := fold_left N.add ws 0.
Definition quorum_of (ws : list N) : N := total_weight ws * 2 / 3 + 1.

(* Index.forklessCause with the crit paths visible: None = crit("Event A/B not found"). *)
Definition fc_res (ws : list N) (q : N) (s : vidx) (a b : N) : option bool :=
  match alookup a (hb s), alookup b (la s), alookup b (ebr s) with
  | Some _, Some _, Some _ => Some (fc ws q s a b)
  | _, _, _ => None end.

(* simplewlru.Cache as used for cache.ForklessCause: New(uint(n), n), every entry has weight 1,
   so normalize() evicts from the back while Len() > n.  Most recently used first. *)
Definition fckey := (N * N)%type.
Definition fckey_eqb (x y : fckey) : bool := (fst x =? fst y) && (snd x =? snd y).
Record fcache := { fc_cap : nat; fc_items : list (fckey * bool) }.
Definition fcache_new (n : nat) : fcache := {| fc_cap := n; fc_items := [] |}.
Fixpoint fcache_find (k : fckey) (l : list (fckey * bool)) : option bool :=
  match l with [] => None | (k', v) :: t => if fckey_eqb k k' then Some v else fcache_find k t end.
Fixpoint fcache_remove (k : fckey) (l : list (fckey * bool)) : list (fckey * bool) :=
  match l with [] => [] | (k', v) :: t => if fckey_eqb k k' then t else (k', v) :: fcache_remove k t end.
(* Get: hit moves the entry to the front *)
Definition fcache_get (k : fckey) (c : fcache) : option bool * fcache :=
  match fcache_find k (fc_items c) with
  | Some v => (Some v, {| fc_cap := fc_cap c; fc_items := (k, v) :: fcache_remove k (fc_items c) |})
  | None => (None, c) end.
(* Add: existing entry is updated and moved to the front, else pushed to the front; then normalize *)
Definition fcache_add (k : fckey) (v : bool) (c : fcache) : fcache :=
  {| fc_cap := fc_cap c; fc_items := firstn (fc_cap c) ((k, v) :: fcache_remove k (fc_items c)) |}.
Definition fcache_purge (c : fcache) : fcache := {| fc_cap := fc_cap c; fc_items := [] |}.

(* Index.ForklessCause: cache lookup first, else compute and remember. *)
Definition fc_query (ws : list N) (q : N) (s : vidx) (c : fcache) (a b : N) : bool * fcache :=
  match fcache_get (a, b) c with
  | (Some r, c') => (r, c')
  | (None, _) => let r := fc ws q s a b in (r, fcache_add (a, b) r c) end.

(* The caller protocol of Engine.Add: on success Flush(), on error DropNotFlushed() which
   discards every write of the failed call (and reloads BranchesInfo): the state is unchanged. *)
Definition add_or_drop (s : vidx) (e : event) : bool * vidx :=
  match add s e with Some s' => (true, s') | None => (false, s) end.
Definition index_all (n : nat) (o : list event) : vidx :=
  fold_left (fun s e => snd (add_or_drop s e)) o (init n).

(* ---------- Flush / DropNotFlushed (vecengine.Engine over kvdb/flushable) ----------
   The engine writes vectors, branch ids and (on Flush) BranchesInfo through a flushable store;
   DropNotFlushed discards every write since the last Flush, reloads BranchesInfo and purges the
   HB/LA caches.  Two-level state: what has been flushed, and the current (possibly unflushed) view.
   vs_add mirrors the caller protocol of the harness / abft: a failed Add is followed by DropNotFlushed. *)
Record vstore := { vs_flushed : vidx; vs_cur : vidx }.
Definition vs_init (n : nat) : vstore := {| vs_flushed := init n; vs_cur := init n |}.
Definition vs_add (st : vstore) (e : event) : bool * vstore :=
  match add (vs_cur st) e with
  | Some s' => (true, {| vs_flushed := vs_flushed st; vs_cur := s' |})
  | None => (false, {| vs_flushed := vs_flushed st; vs_cur := vs_flushed st |}) end.
Definition vs_flush (st : vstore) : vstore := {| vs_flushed := vs_cur st; vs_cur := vs_cur st |}.
Definition vs_drop (st : vstore) : vstore := {| vs_flushed := vs_flushed st; vs_cur := vs_flushed st |}.
