(* C23x — the remaining kvdb wrappers as a stack over one base store:
     kvdb/batched, kvdb/skipkeys, kvdb/nokeyiserr, kvdb/readonlystore, kvdb/skiperrors,
     kvdb/fallible, kvdb/devnulldb, kvdb/cachedproducer (store side: StoreWithFn).

   A stack is written top-down; operations enter at the top, as in Go where every wrapper embeds or
   holds the store below it.  The base is an ordered map (spec/KvSpec.kvmap: memorydb) or devnulldb.
   [WErr] is the harness's test double (a store failing with a fixed error code on every key with a
   given prefix) needed to exercise skiperrors.

   What each wrapper forwards and what it changes is transcribed from the Go files:
   - batched.Store: Put/Delete first MayFlush() (flush when batch.ValueSize() > IdealBatchSize), then
     add to its own batch = NewBatch() of the store below; reads are the embedded store's, i.e. they
     do NOT see buffered writes; Flush = Write+Reset; Close = Flush, then Close below; Drop, NewBatch
     and GetSnapshot are the embedded store's (a Drop loses the buffer).
   - skipkeys.Store: Has/Get answer absent for keys with the prefix; the iterator skips them; Put,
     Delete, NewBatch, GetSnapshot are the embedded store's (the SNAPSHOT does not hide the prefix).
   - nokeyiserr.Wrapper: Get turns (nil,nil) into errNotFound, also in its snapshots; Has unchanged.
   - readonlystore.Store: Put/Delete fail with ErrUnsupportedOp, NewBatch returns a batch whose
     Put/Delete fail likewise; everything else (Drop and Close included) is the embedded store's.
   - skiperrors: a listed error of Has/Get/Put/Delete/Close below becomes "absent"/success; iterators
     and batches are not wrapped; snapshots are.
   - fallible.Fallible: Put, Close and Drop decrement the counter and panic when it drops below 0;
     Delete and batches are not counted.
   - devnulldb: accepts and forgets everything (its batch, too).
   - cachedproducer: the store returned by OpenDB forwards all data ops; Close goes through the
     producer's reference count (refs > 1: just decrement; refs = 1: really close below; refs = 0:
     error "called Close more times than OpenDB"), Drop through its drop-once flag (set again by every
     OpenDB); [WCached refs notDropped u].
   - [WMem m closed] is the REAL memorydb as base (flushable over devnull): Close empties it and
     closes; when closed Get/Has/Close/Batch.Write answer errClosed, an iterator is empty, Put/Delete/
     GetSnapshot panic (nil tree), Drop works; Drop of an OPEN memorydb panics ("close db first").
     [WBase m] is the harness's double of it: Close is a no-op and Drop empties it.
   Every NewBatch reaches the base's own batch (through readonly wrappers): a batch write bypasses
   buffers, counters and the error double.  Definitions only. *)
From Coq Require Import NArith ZArith List Bool.
From LV Require Import lib.Bytes lib.SortedMap spec.KvSpec.
Import ListNotations.
Local Open Scope N_scope.

Inductive res (A : Type) := ROk (a : A) | RErr (e : N) | RPanic.
Arguments ROk {A} a. Arguments RErr {A} e. Arguments RPanic {A}.

Definition E_UNSUPPORTED : N := 1.    (* kvdb.ErrUnsupportedOp *)
Definition E_NOTFOUND : N := 2.       (* nokeyiserr.errNotFound ("not found") *)
Definition E_CLOSEMORE : N := 5.      (* cachedproducer: "called Close more times than OpenDB" *)
Definition E_CLOSED : N := 6.         (* flushable.errClosed ("database closed") *)

Inductive wst :=
| WBase (m : kvmap)
| WMem (m : kvmap) (closed : bool)
| WNull
| WErr (bad : key) (e : N) (u : wst)
| WBatched (pend : list wop) (u : wst)
| WSkip (p : key) (u : wst)
| WNoKey (u : wst)
| WRO (u : wst)
| WSkipErr (listed : list N) (u : wst)
| WFall (n : Z) (u : wst)
| WCached (refs : N) (notDropped : bool) (u : wst).

Fixpoint nmemb (e : N) (l : list N) : bool :=
  match l with [] => false | x :: t => (x =? e) || nmemb e t end.

(* ---------- reads *)
Fixpoint wget (s : wst) (k : key) : res (option val) :=
  match s with
  | WBase m => ROk (kv_get m k)
  | WMem m c => if c then RErr E_CLOSED else ROk (kv_get m k)
  | WNull => ROk None
  | WErr bad e u => if has_prefix bad k then RErr e else wget u k
  | WBatched _ u => wget u k
  | WSkip p u => if has_prefix p k then ROk None else wget u k
  | WNoKey u => match wget u k with ROk None => RErr E_NOTFOUND | r => r end
  | WRO u => wget u k
  | WSkipErr l u => match wget u k with RErr e => if nmemb e l then ROk None else RErr e | r => r end
  | WFall _ u => wget u k
  | WCached _ _ u => wget u k
  end.

Fixpoint whas (s : wst) (k : key) : res bool :=
  match s with
  | WBase m => ROk (kv_has m k)
  | WMem m c => if c then RErr E_CLOSED else ROk (kv_has m k)
  | WNull => ROk false
  | WErr bad e u => if has_prefix bad k then RErr e else whas u k
  | WBatched _ u => whas u k
  | WSkip p u => if has_prefix p k then ROk false else whas u k
  | WNoKey u => whas u k
  | WRO u => whas u k
  | WSkipErr l u => match whas u k with RErr e => if nmemb e l then ROk false else RErr e | r => r end
  | WFall _ u => whas u k
  | WCached _ _ u => whas u k
  end.

(* a fully drained NewIterator(prefix, start) *)
Fixpoint witer (s : wst) (p st : key) : list (key * val) :=
  match s with
  | WBase m => kv_iterate m p st
  | WMem m c => if c then [] else kv_iterate m p st
  | WNull => []
  | WSkip q u => filter (fun kv => negb (has_prefix q (fst kv))) (witer u p st)
  | WErr _ _ u | WBatched _ u | WNoKey u | WRO u | WSkipErr _ u | WFall _ u | WCached _ _ u => witer u p st
  end.

(* GetSnapshot: the frozen reader a snapshot taken at the top is (which layers still act on it) *)
Fixpoint wsnap (s : wst) : wst :=
  match s with
  | WBase m => WBase m
  | WMem m _ => WBase m
  | WNull => WNull
  | WErr bad e u => WErr bad e (wsnap u)
  | WNoKey u => WNoKey (wsnap u)
  | WSkipErr l u => WSkipErr l (wsnap u)
  | WBatched _ u | WSkip _ u | WRO u | WFall _ u | WCached _ _ u => wsnap u
  end.

(* ---------- the base, reached by every batch *)
Fixpoint has_ro (s : wst) : bool :=
  match s with
  | WBase _ | WMem _ _ | WNull => false
  | WRO _ => true
  | WErr _ _ u | WBatched _ u | WSkip _ u | WNoKey u | WSkipErr _ u | WFall _ u | WCached _ _ u => has_ro u
  end.
Fixpoint is_null (s : wst) : bool :=
  match s with
  | WBase _ | WMem _ _ => false
  | WNull => true
  | WErr _ _ u | WBatched _ u | WSkip _ u | WNoKey u | WRO u | WSkipErr _ u | WFall _ u | WCached _ _ u => is_null u
  end.
(* the real memorydb at the bottom has been closed *)
Fixpoint base_closed (s : wst) : bool :=
  match s with
  | WBase _ | WNull => false
  | WMem _ c => c
  | WErr _ _ u | WBatched _ u | WSkip _ u | WNoKey u | WRO u | WSkipErr _ u | WFall _ u | WCached _ _ u => base_closed u
  end.
Fixpoint wbase (s : wst) : kvmap :=
  match s with
  | WBase m => m
  | WMem m c => if c then [] else m
  | WNull => []
  | WErr _ _ u | WBatched _ u | WSkip _ u | WNoKey u | WRO u | WSkipErr _ u | WFall _ u | WCached _ _ u => wbase u
  end.
(* Batch.Write of the base's batch (errClosed and no effect when the memorydb is closed) *)
Fixpoint wbase_write (s : wst) (ops : list wop) : wst :=
  match s with
  | WBase m => WBase (kv_write m ops)
  | WMem m c => if c then s else WMem (kv_write m ops) false
  | WNull => WNull
  | WErr b e u => WErr b e (wbase_write u ops)
  | WBatched pd u => WBatched pd (wbase_write u ops)
  | WSkip p u => WSkip p (wbase_write u ops)
  | WNoKey u => WNoKey (wbase_write u ops)
  | WRO u => WRO (wbase_write u ops)
  | WSkipErr l u => WSkipErr l (wbase_write u ops)
  | WFall n u => WFall n (wbase_write u ops)
  | WCached r d u => WCached r d (wbase_write u ops)
  end.
Definition wbase_write_res (s : wst) : res unit := if base_closed s then RErr E_CLOSED else ROk tt.

(* Batch.ValueSize of the base's batch: memorydb counts key+value bytes of a put, key bytes of a
   delete; the harness scales it so that the IdealBatchSize threshold is reachable *)
Definition IDEAL : N := 102400.
Definition wop_size (o : wop) : N :=
  match o with
  | WPut k v => N.of_nat (length k) + N.of_nat (length v)
  | WDel k => N.of_nat (length k)
  end.
Definition ops_size (ops : list wop) : N := fold_left (fun a o => a + wop_size o) ops 0.

Section Scale.
  Variable scale : N.

  (* batched.Store.MayFlush / Flush on the layer [WBatched pend u] *)
  Definition over_threshold (pend : list wop) (u : wst) : bool :=
    if is_null u then false else IDEAL <? ops_size pend * scale.
  Definition b_mayflush (pend : list wop) (u : wst) : list wop * wst :=
    if over_threshold pend u then ([], wbase_write u pend) else (pend, u).

  (* a Put/Delete entering at the top *)
  Fixpoint wwrite (s : wst) (o : wop) : wst * res unit :=
    match s with
    | WBase m => (WBase (kv_apply m o), ROk tt)
    | WMem m c => if c then (s, RPanic) else (WMem (kv_apply m o) false, ROk tt)
    | WNull => (WNull, ROk tt)
    | WErr bad e u =>
        if has_prefix bad (wop_key o) then (s, RErr e)
        else let '(u', r) := wwrite u o in (WErr bad e u', r)
    | WBatched pend u =>
        if over_threshold pend u && base_closed u then (s, RErr E_CLOSED)    (* the flush inside MayFlush fails *)
        else
          let '(pend1, u1) := b_mayflush pend u in
          if has_ro u1 then (WBatched pend1 u1, RErr E_UNSUPPORTED)
          else if is_null u1 then (WBatched pend1 u1, ROk tt)               (* devnulldb's batch forgets *)
          else (WBatched (pend1 ++ [o]) u1, ROk tt)
    | WSkip p u => let '(u', r) := wwrite u o in (WSkip p u', r)
    | WNoKey u => let '(u', r) := wwrite u o in (WNoKey u', r)
    | WRO u => (s, RErr E_UNSUPPORTED)
    | WSkipErr l u =>
        let '(u', r) := wwrite u o in
        (WSkipErr l u', match r with RErr e => if nmemb e l then ROk tt else RErr e | _ => r end)
    | WFall n u =>
        match o with
        | WPut _ _ =>
            if (n - 1 <? 0)%Z then (WFall (n - 1) u, RPanic)
            else let '(u', r) := wwrite u o in (WFall (n - 1) u', r)
        | WDel _ => let '(u', r) := wwrite u o in (WFall n u', r)
        end
    | WCached rf d u => let '(u', r) := wwrite u o in (WCached rf d u', r)
    end.

  (* Close entering at the top.  A batched layer flushes (its batch writes straight to the base) and
     then closes the store below; [wclose_c] collects those writes in the order they happen. *)
  Fixpoint wclose_c (s : wst) : wst * res unit * list wop :=
    match s with
    | WBase m => (s, ROk tt, [])
    | WMem m c => if c then (s, RErr E_CLOSED, []) else (WMem [] true, ROk tt, [])
    | WNull => (s, ROk tt, [])
    | WErr bad e u => let '(u', r, ws) := wclose_c u in (WErr bad e u', r, ws)
    | WBatched pend u =>
        if base_closed u then (s, RErr E_CLOSED, [])        (* Flush fails: the store below is not closed *)
        else let '(u', r, ws) := wclose_c u in (WBatched [] u', r, pend ++ ws)
    | WSkip p u => let '(u', r, ws) := wclose_c u in (WSkip p u', r, ws)
    | WNoKey u => let '(u', r, ws) := wclose_c u in (WNoKey u', r, ws)
    | WRO u => let '(u', r, ws) := wclose_c u in (WRO u', r, ws)
    | WSkipErr l u =>
        let '(u', r, ws) := wclose_c u in
        (WSkipErr l u', match r with RErr e => if nmemb e l then ROk tt else RErr e | _ => r end, ws)
    | WFall n u =>
        if (n - 1 <? 0)%Z then (WFall (n - 1) u, RPanic, [])
        else let '(u', r, ws) := wclose_c u in (WFall (n - 1) u', r, ws)
    | WCached rf d u =>
        if rf =? 0 then (s, RErr E_CLOSEMORE, [])
        else if rf =? 1 then let '(u', r, ws) := wclose_c u in (WCached 0 d u', r, ws)
        else (WCached (rf - 1) d u, ROk tt, [])
    end.
  (* the collected flushes reach the base before it is closed: for the real memorydb they are
     gone with the rest (Close empties it), for the double they stay *)
  Definition wclose (s : wst) : wst * res unit :=
    let '(s', r, ws) := wclose_c s in (wbase_write s' ws, r).

  (* Drop entering at the top: reaches the base (through readonly, too) unless fallible panics or
     the cached producer has dropped already *)
  Fixpoint wdrop (s : wst) : wst * res unit :=
    match s with
    | WBase m => (WBase [], ROk tt)
    | WMem m c => if c then (WMem [] true, ROk tt) else (s, RPanic)       (* "close db first" *)
    | WNull => (s, ROk tt)
    | WErr bad e u => let '(u', r) := wdrop u in (WErr bad e u', r)
    | WBatched pend u => let '(u', r) := wdrop u in (WBatched pend u', r)
    | WSkip p u => let '(u', r) := wdrop u in (WSkip p u', r)
    | WNoKey u => let '(u', r) := wdrop u in (WNoKey u', r)
    | WRO u => let '(u', r) := wdrop u in (WRO u', r)
    | WSkipErr l u => let '(u', r) := wdrop u in (WSkipErr l u', r)
    | WFall n u =>
        if (n - 1 <? 0)%Z then (WFall (n - 1) u, RPanic)
        else let '(u', r) := wdrop u in (WFall (n - 1) u', r)
    | WCached rf d u =>
        if d then let '(u', r) := wdrop u in (WCached rf false u', r) else (s, ROk tt)
    end.

  (* operations addressed to the layer at depth d (0 = top) *)
  Definition wsub (s : wst) : option wst :=
    match s with
    | WBase _ | WMem _ _ | WNull => None
    | WErr _ _ u | WBatched _ u | WSkip _ u | WNoKey u | WRO u | WSkipErr _ u | WFall _ u | WCached _ _ u => Some u
    end.
  Fixpoint wfind (d : nat) (s : wst) : option wst :=
    match d with
    | O => Some s
    | S d' => match wsub s with Some u => wfind d' u | None => None end
    end.
  Fixpoint wat (d : nat) (f : wst -> wst) (s : wst) : wst :=
    match d with
    | O => f s
    | S d' =>
        match s with
        | WBase _ | WMem _ _ | WNull => s
        | WErr b e u => WErr b e (wat d' f u)
        | WBatched pd u => WBatched pd (wat d' f u)
        | WSkip p u => WSkip p (wat d' f u)
        | WNoKey u => WNoKey (wat d' f u)
        | WRO u => WRO (wat d' f u)
        | WSkipErr l u => WSkipErr l (wat d' f u)
        | WFall n u => WFall n (wat d' f u)
        | WCached r dd u => WCached r dd (wat d' f u)
        end
    end.
  (* batched.Store: Flush = Write + Reset (nothing happens when the write fails), MayFlush, Write, Reset *)
  Definition l_flush (s : wst) : wst :=
    match s with
    | WBatched pend u => if base_closed u then s else WBatched [] (wbase_write u pend)
    | _ => s
    end.
  Definition l_mayflush (s : wst) : wst :=
    match s with
    | WBatched pend u => if over_threshold pend u then l_flush s else s
    | _ => s
    end.
  Definition l_write (s : wst) : wst :=
    match s with WBatched pend u => WBatched pend (wbase_write u pend) | _ => s end.
  Definition l_reset (s : wst) : wst :=
    match s with WBatched _ u => WBatched [] u | _ => s end.
  Definition l_setcount (n : Z) (s : wst) : wst :=
    match s with WFall _ u => WFall n u | _ => s end.
  (* another OpenDB of the same name on the cached producer *)
  Definition l_reopen (s : wst) : wst :=
    match s with WCached r _ u => WCached (r + 1) true u | _ => s end.

  (* ---------- histories *)
  Inductive xop :=
  | XPut (k : key) (v : val)
  | XDel (k : key)
  | XGet (k : key)
  | XHas (k : key)
  | XIter (p st : key)
  | XBNew (b : nat)                 (* top.NewBatch() into slot b *)
  | XBPut (b : nat) (k : key) (v : val)
  | XBDel (b : nat) (k : key)
  | XBWrite (b : nat)
  | XBReset (b : nat)
  | XSnap (i : nat)                 (* top.GetSnapshot() into slot i *)
  | XSGet (i : nat) (k : key)
  | XSHas (i : nat) (k : key)
  | XSIter (i : nat) (p st : key)
  | XFlush (d : nat)                (* batched.Store.Flush of the layer at depth d *)
  | XMayFlush (d : nat)
  | XLWrite (d : nat)               (* batched.Store.Write *)
  | XLReset (d : nat)               (* batched.Store.Reset *)
  | XLReplay (d : nat)              (* batched.Store.Replay into a recording writer *)
  | XSetCount (d : nat) (n : Z)     (* fallible.SetWriteCount *)
  | XGetCount (d : nat)             (* fallible.GetWriteCount *)
  | XReopen (d : nat)               (* cachedproducer: OpenDB of the same name again *)
  | XClose
  | XDrop.

  Inductive xobs :=
  | BUnit (r : res unit)
  | BVal (r : res (option val))
  | BBool (r : res bool)
  | BList (l : list (key * val))
  | BOps (l : list wop)
  | BCount (n : Z)
  | BEnd (r : res unit) (base : kvmap)   (* Close / Drop: the result and the base store's contents *)
  | BNone.

  Record xstate := mkX {
    x_st : wst;
    x_batches : list (option (list wop));
    x_snaps : list (option wst)
  }.
  Definition x_init (s : wst) : xstate := mkX s [] [].

  Fixpoint set_nth {A} (n : nat) (x : A) (d : A) (l : list A) : list A :=
    match n, l with
    | O, [] => [x]
    | O, _ :: l' => x :: l'
    | S n', [] => d :: set_nth n' x d []
    | S n', y :: l' => y :: set_nth n' x d l'
    end.
  Definition get_slot {A} (n : nat) (l : list (option A)) : option A := nth n l None.

  Definition xstep (x : xstate) (o : xop) : xstate * xobs :=
    let s := x_st x in
    match o with
    | XPut k v => let '(s', r) := wwrite s (WPut k v) in (mkX s' (x_batches x) (x_snaps x), BUnit r)
    | XDel k => let '(s', r) := wwrite s (WDel k) in (mkX s' (x_batches x) (x_snaps x), BUnit r)
    | XGet k => (x, BVal (wget s k))
    | XHas k => (x, BBool (whas s k))
    | XIter p st => (x, BList (witer s p st))
    | XBNew b => (mkX s (set_nth b (Some []) None (x_batches x)) (x_snaps x), BUnit (ROk tt))
    | XBPut b k v =>
        match get_slot b (x_batches x) with
        | None => (x, BNone)
        | Some ops =>
            if has_ro s then (x, BUnit (RErr E_UNSUPPORTED))
            else if is_null s then (x, BUnit (ROk tt))
            else (mkX s (set_nth b (Some (ops ++ [WPut k v])) None (x_batches x)) (x_snaps x), BUnit (ROk tt))
        end
    | XBDel b k =>
        match get_slot b (x_batches x) with
        | None => (x, BNone)
        | Some ops =>
            if has_ro s then (x, BUnit (RErr E_UNSUPPORTED))
            else if is_null s then (x, BUnit (ROk tt))
            else (mkX s (set_nth b (Some (ops ++ [WDel k])) None (x_batches x)) (x_snaps x), BUnit (ROk tt))
        end
    | XBWrite b =>
        match get_slot b (x_batches x) with
        | None => (x, BNone)
        | Some ops => (mkX (wbase_write s ops) (x_batches x) (x_snaps x), BUnit (wbase_write_res s))
        end
    | XBReset b =>
        match get_slot b (x_batches x) with
        | None => (x, BNone)
        | Some _ => (mkX s (set_nth b (Some []) None (x_batches x)) (x_snaps x), BUnit (ROk tt))
        end
    | XSnap i =>
        if base_closed s then (x, BUnit RPanic)
        else (mkX s (x_batches x) (set_nth i (Some (wsnap s)) None (x_snaps x)), BUnit (ROk tt))
    | XSGet i k => match get_slot i (x_snaps x) with Some sn => (x, BVal (wget sn k)) | None => (x, BNone) end
    | XSHas i k => match get_slot i (x_snaps x) with Some sn => (x, BBool (whas sn k)) | None => (x, BNone) end
    | XSIter i p st => match get_slot i (x_snaps x) with Some sn => (x, BList (witer sn p st)) | None => (x, BNone) end
    | XFlush d => (mkX (wat d l_flush s) (x_batches x) (x_snaps x), BUnit (ROk tt))
    | XMayFlush d => (mkX (wat d l_mayflush s) (x_batches x) (x_snaps x), BUnit (ROk tt))
    | XLWrite d =>
        match wfind d s with
        | Some (WBatched _ u) => (mkX (wat d l_write s) (x_batches x) (x_snaps x), BUnit (wbase_write_res u))
        | _ => (x, BNone)
        end
    | XLReset d => (mkX (wat d l_reset s) (x_batches x) (x_snaps x), BUnit (ROk tt))
    | XLReplay d =>
        match wfind d s with Some (WBatched pend _) => (x, BOps pend) | _ => (x, BNone) end
    | XSetCount d n => (mkX (wat d (l_setcount n) s) (x_batches x) (x_snaps x), BUnit (ROk tt))
    | XGetCount d => match wfind d s with Some (WFall n _) => (x, BCount n) | _ => (x, BNone) end
    | XReopen d => (mkX (wat d l_reopen s) (x_batches x) (x_snaps x), BUnit (ROk tt))
    | XClose => let '(s', r) := wclose s in (mkX s' (x_batches x) (x_snaps x), BEnd r (wbase s'))
    | XDrop => let '(s', r) := wdrop s in (mkX s' (x_batches x) (x_snaps x), BEnd r (wbase s'))
    end.

  Fixpoint xrun (x : xstate) (ops : list xop) : list xobs :=
    match ops with
    | [] => []
    | o :: rest => let '(x', b) := xstep x o in b :: xrun x' rest
    end.
End Scale.
