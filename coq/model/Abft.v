(* Executable model of the consensus core (DESIGN 5.0): a line-by-line port of
     abft/lachesis.go  indexed_lachesis.go  event_processing.go  frame_decide.go  traversal.go
     bootstrap.go  store_roots.go (without the LRU: that is C33)  store_event_confirmed.go
     abft/election/election.go  election_math.go   inter/pos (validators, weight counter)
   over the shared vector-index model model/VecIndex.v (imported, not edited).
   Added here: the forkless-cause answer cache of vecfc.Index.ForklessCause (an LRU keyed by the
   two event ids which is purged only by Index.Reset, never by DropNotFlushed), the temporary
   event id of IndexedLachesis.Build (uniqueID.sample), the application callback EndBlock as a
   parameter, the error enum, crit as an error result.
   Definitions only; no proofs (the model keeps running when a proof breaks). *)
From Coq Require Import List Arith NArith Bool.
From LV Require Import lib.Bytes model.Codec model.VecIndex.
Import ListNotations.
Open Scope N_scope.

(* ---------- results ---------- *)
Inductive err :=
| EWrongFrame      (* ErrWrongFrame *)
| EFork2Yes        (* "forkless caused by 2 fork roots" (two different yes-roots of one subject) *)
| EFork2Count      (* "forkless caused by 2 fork roots" (allVotes.Count returned false) *)
| EVoteMissing     (* "every root must vote for every not decided subject" *)
| ENoQuorumPrev    (* "root must be forkless caused by at least 2/3W of prev roots" *)
| EAllNo           (* "all the roots are decided as 'no'" *)
| ECrit            (* crit(...) was called: index inconsistency, event not found, wrong epoch/creator in Build *)
| EPanic           (* the Go code would panic (nil event, counter too wide for FillBytes) *)
| EFuel.           (* model ran out of fuel; unreachable: proofs/AbftFuel.v (process/build/bootstrap never return it) *)
Inductive result (A : Type) := Ok (a : A) | Err (e : err).
Arguments Ok {A} a. Arguments Err {A} e.

(* ---------- events, ids ---------- *)
Record aevent := { a_id : N; a_epoch : N; a_creator : N (*validator ID*); a_seq : N; a_lamport : N;
                   a_frame : N; a_parents : list N }.
(* dag.BaseEvent.SelfParent *)
Definition a_self_parent (e : aevent) : option N :=
  if a_seq e <=? 1 then None else match a_parents e with [] => None | p :: _ => Some p end.
Definition set_id (e : aevent) (id : N) : aevent :=
  {| a_id := id; a_epoch := a_epoch e; a_creator := a_creator e; a_seq := a_seq e; a_lamport := a_lamport e;
     a_frame := a_frame e; a_parents := a_parents e |}.
Definition set_frame (e : aevent) (f : N) : aevent :=
  {| a_id := a_id e; a_epoch := a_epoch e; a_creator := a_creator e; a_seq := a_seq e; a_lamport := a_lamport e;
     a_frame := f; a_parents := a_parents e |}.

(* MutableBaseEvent.SetID: id = epoch(4, BE) | lamport(4, BE) | tail(24); ids are handled as numbers *)
Definition mk_id_bytes (epoch lamport : N) (tail : list N) : N := unbe (event_id epoch lamport tail).
Definition mk_id (epoch lamport tail : N) : N := mk_id_bytes epoch lamport (be 24 tail).

(* uniqueID.sample.  Repaired code: u.counter.FillBytes(id[:]) = fixed-width big-endian, panics
   when the counter needs more than 24 bytes.  Pinned code (kept as [sample_old]):
   copy(id[:], u.counter.Bytes()) = minimal big-endian bytes, LEFT aligned, truncated to 24. *)
Definition nbytes (c : N) : nat := Nat.div (N.size_nat c + 7) 8.
Definition sample (c : N) : option (list N) :=
  if 2 ^ 192 <=? c then None else Some (be 24 c).
Definition sample_old (c : N) : option (list N) :=
  Some (firstn 24 (be (nbytes c) c ++ repeat 0 24)).

(* ---------- inter/pos: validators (canonical order: weight desc, id asc) and counters ---------- *)
Definition vals := list (N * N).           (* (validator ID, weight) in SortedIDs order *)
Definition v_ids (v : vals) : list N := map fst v.
Definition v_weights (v : vals) : list N := map snd v.
Definition v_total (v : vals) : N := fold_left N.add (v_weights v) 0.
Definition v_quorum (v : vals) : N := ((v_total v * 2) mod 2 ^ 32) / 3 + 1.   (* uint32: TotalWeight()*2/3 + 1 *)
Fixpoint v_find (v : vals) (id : N) (i : nat) : option nat :=
  match v with [] => None | (x, _) :: t => if x =? id then Some i else v_find t id (S i) end.
Definition v_exists (v : vals) (id : N) : bool := match v_find v id 0 with Some _ => true | None => false end.
Definition v_idx (v : vals) (id : N) : nat := match v_find v id 0 with Some i => i | None => 0%nat end. (* Go map default *)
Definition val_lt (a b : N * N) : bool := if snd a =? snd b then fst a <? fst b else snd b <? snd a.
Fixpoint v_insert (x : N * N) (l : vals) : vals :=
  match l with [] => [x] | y :: t => if val_lt x y then x :: y :: t else y :: v_insert x t end.
Definition builder_set (b : list (N * N)) (id w : N) : list (N * N) :=
  let b' := filter (fun p => negb (fst p =? id)) b in if w =? 0 then b' else (id, w) :: b'.
(* ValidatorsBuilder.Set ... ; Build() *)
Definition mk_vals (l : list (N * N)) : vals :=
  fold_right v_insert [] (fold_left (fun b p => builder_set b (fst p) (snd p)) l []).

Record counter := { c_already : list bool; c_sum : N }.
Definition new_counter (v : vals) : counter := {| c_already := repeat false (length v); c_sum := 0 |}.
Definition count_idx (v : vals) (c : counter) (i : nat) : bool * counter :=
  if nth i (c_already c) false then (false, c)
  else (true, {| c_already := set_nth false (c_already c) i true; c_sum := c_sum c + nth i (v_weights v) 0 |}).
Definition count_id (v : vals) (c : counter) (id : N) : bool * counter := count_idx v c (v_idx v id).
Definition has_quorum (v : vals) (c : counter) : bool := v_quorum v <=? c_sum c.

(* ---------- forkless-cause answer cache (vecfc.Index.cache.ForklessCause, a simplewlru) ---------- *)
Definition fccache := list ((N * N) * bool).      (* head = most recently used *)
Definition pair_eqb (x y : N * N) : bool := (fst x =? fst y) && (snd x =? snd y).
Fixpoint cache_get (k : N * N) (l : fccache) : option bool :=
  match l with [] => None | (k', v) :: t => if pair_eqb k k' then Some v else cache_get k t end.
Definition cache_remove (k : N * N) (l : fccache) : fccache := filter (fun p => negb (pair_eqb k (fst p))) l.
Definition cache_touch (k : N * N) (v : bool) (l : fccache) : fccache := (k, v) :: cache_remove k l.
Definition cache_add (cap : nat) (k : N * N) (v : bool) (l : fccache) : fccache := firstn cap (cache_touch k v l).

(* ---------- election state ---------- *)
Record vote := { vt_decided : bool; vt_yes : bool; vt_obs : N (*observedRoot; 0 = zero hash*) }.
Definition root := (N * N * N)%type.                (* RootAndSlot: (frame, validator ID, event id) *)
Definition r_frame (r : root) : N := fst (fst r).
Definition r_val (r : root) : N := snd (fst r).
Definition r_id (r : root) : N := snd r.
Definition root_eqb (a b : root) : bool := (r_frame a =? r_frame b) && (r_val a =? r_val b) && (r_id a =? r_id b).
Record election := { el_frame : N; el_vals : vals;
                     el_decided : list (N * vote);            (* decidedRoots: validator ID -> vote *)
                     el_votes : list ((root * N) * vote) }.   (* votes: (fromRoot, forValidator) -> vote *)
Definition el_reset (v : vals) (f : N) : election :=
  {| el_frame := f; el_vals := v; el_decided := []; el_votes := [] |}.
Fixpoint votes_get (k : root * N) (l : list ((root * N) * vote)) : option vote :=
  match l with [] => None
  | (k', v) :: t => if root_eqb (fst k) (fst k') && (snd k =? snd k') then Some v else votes_get k t end.

(* ---------- the instance state ---------- *)
Record lstate := {
  l_epoch : N; l_vals : vals; l_ldf : N;      (* main DB: EpochState, LastDecidedState *)
  l_roots : list root;                         (* epoch DB table "r", kept in key order (frame, validator, id) *)
  l_conf : list (N * N);                       (* epoch DB table "C": event id -> confirmed-on frame *)
  l_idx : vidx;                                (* epoch DB table "v" seen through the flushable wrapper *)
  l_fcc : fccache;                             (* in-memory forkless-cause cache of the index object *)
  l_el : election;                             (* in-memory election *)
  l_ctr : N }.                                 (* in-memory uniqueDirtyID counter *)

Definition set_idx (st : lstate) (s : vidx) : lstate :=
  {| l_epoch := l_epoch st; l_vals := l_vals st; l_ldf := l_ldf st; l_roots := l_roots st; l_conf := l_conf st;
     l_idx := s; l_fcc := l_fcc st; l_el := l_el st; l_ctr := l_ctr st |}.
Definition set_fcc (st : lstate) (c : fccache) : lstate :=
  {| l_epoch := l_epoch st; l_vals := l_vals st; l_ldf := l_ldf st; l_roots := l_roots st; l_conf := l_conf st;
     l_idx := l_idx st; l_fcc := c; l_el := l_el st; l_ctr := l_ctr st |}.
Definition set_el (st : lstate) (e : election) : lstate :=
  {| l_epoch := l_epoch st; l_vals := l_vals st; l_ldf := l_ldf st; l_roots := l_roots st; l_conf := l_conf st;
     l_idx := l_idx st; l_fcc := l_fcc st; l_el := e; l_ctr := l_ctr st |}.
Definition set_roots (st : lstate) (r : list root) : lstate :=
  {| l_epoch := l_epoch st; l_vals := l_vals st; l_ldf := l_ldf st; l_roots := r; l_conf := l_conf st;
     l_idx := l_idx st; l_fcc := l_fcc st; l_el := l_el st; l_ctr := l_ctr st |}.
Definition set_conf (st : lstate) (c : list (N * N)) : lstate :=
  {| l_epoch := l_epoch st; l_vals := l_vals st; l_ldf := l_ldf st; l_roots := l_roots st; l_conf := c;
     l_idx := l_idx st; l_fcc := l_fcc st; l_el := l_el st; l_ctr := l_ctr st |}.
Definition set_ctr (st : lstate) (c : N) : lstate :=
  {| l_epoch := l_epoch st; l_vals := l_vals st; l_ldf := l_ldf st; l_roots := l_roots st; l_conf := l_conf st;
     l_idx := l_idx st; l_fcc := l_fcc st; l_el := l_el st; l_ctr := c |}.

(* the event source of the application (EventSource.GetEvent) *)
Definition estore := list (N * aevent).
Definition get_event (es : estore) (id : N) : option aevent := alookup id es.

(* event as the vector index sees it (creator -> validator index; map default 0) *)
Definition vev (v : vals) (e : aevent) : event :=
  {| eid := a_id e; ecr := v_idx v (a_creator e); eseq := a_seq e; epar := a_parents e |}.

(* vecfc.Index.ForklessCause: cache first, else compute and remember *)
Section Model.
Variable fcc_cap : nat.                         (* IndexCacheConfig.ForklessCausePairs *)

Definition fc_cached (st : lstate) (a b : N) : bool * lstate :=
  match cache_get (a, b) (l_fcc st) with
  | Some r => (r, set_fcc st (cache_touch (a, b) r (l_fcc st)))
  | None => let r := fc (v_weights (l_vals st)) (v_quorum (l_vals st)) (l_idx st) a b in
            (r, set_fcc st (cache_add fcc_cap (a, b) r (l_fcc st)))
  end.

(* ---------- store_roots.go (no cache) ---------- *)
Definition root_lt (a b : root) : bool :=
  if r_frame a =? r_frame b then (if r_val a =? r_val b then r_id a <? r_id b else r_val a <? r_val b)
  else r_frame a <? r_frame b.
Fixpoint root_insert (r : root) (l : list root) : list root :=
  match l with [] => [r]
  | x :: t => if root_eqb r x then l else if root_lt r x then r :: l else x :: root_insert r t end.
Definition get_frame_roots (st : lstate) (f : N) : list root := filter (fun r => r_frame r =? f) (l_roots st).
(* Store.AddRoot: for f := selfParentFrame+1; f <= root.Frame(); f++ *)
Fixpoint add_roots_loop (fuel : nat) (rs : list root) (e : aevent) (f : N) : list root :=
  match fuel with O => rs | S fu =>
    if a_frame e <? f then rs else add_roots_loop fu (root_insert (f, a_creator e, a_id e) rs) e (f + 1) end.
Definition add_roots (st : lstate) (spf : N) (e : aevent) : lstate :=
  set_roots st (add_roots_loop (S (N.to_nat (a_frame e - spf))) (l_roots st) e (spf + 1)).

(* ---------- election.go / election_math.go ---------- *)
Fixpoint choose_atropos_loop (ids : list N) (dec : list (N * vote)) (frame : N) : result (option (N * N)) :=
  match ids with
  | [] => Err EAllNo
  | v :: t => match alookup v dec with
              | None => Ok None
              | Some vt => if vt_yes vt then Ok (Some (frame, vt_obs vt)) else choose_atropos_loop t dec frame end
  end.
Definition choose_atropos (el : election) : result (option (N * N)) :=
  choose_atropos_loop (v_ids (el_vals el)) (el_decided el) (el_frame el).

Definition not_decided (el : election) : list N :=
  filter (fun v => match alookup v (el_decided el) with Some _ => false | None => true end) (v_ids (el_vals el)).

(* observedRoots: the roots of [frame] (in GetFrameRoots order) which forkless-cause [root] *)
Fixpoint observed_loop (st : lstate) (rid : N) (frs : list root) (acc : list root) : list root * lstate :=
  match frs with
  | [] => (rev acc, st)
  | fr :: t => let '(b, st1) := fc_cached st rid (r_id fr) in
               observed_loop st1 rid t (if b then fr :: acc else acc)
  end.
Definition observed_roots (st : lstate) (rid : N) (frame : N) : list root * lstate :=
  observed_loop st rid (get_frame_roots st frame) [].
(* observedRootsMap[validator]: the LAST observed root of that validator wins (map overwrite) *)
Definition observed_map_get (obs : list root) (v : N) : option root :=
  find (fun r => r_val r =? v) (rev obs).

(* the inner loop over observedRoots for one subject (round > 1) *)
Fixpoint tally (ev : vals) (votes : list ((root * N) * vote)) (subj : N) (obs : list root)
               (sh : option N) (yes no all : counter) : result (option N * counter * counter * counter) :=
  match obs with
  | [] => Ok (sh, yes, no, all)
  | r :: t =>
    match votes_get (r, subj) votes with
    | None => Err EVoteMissing
    | Some vt =>
      if vt_yes vt && (match sh with Some h => negb (h =? vt_obs vt) | None => false end) then Err EFork2Yes else
      let sh' := if vt_yes vt then Some (vt_obs vt) else sh in
      let yes' := if vt_yes vt then snd (count_id ev yes (r_val r)) else yes in
      let no' := if vt_yes vt then no else snd (count_id ev no (r_val r)) in
      let '(fresh, all') := count_id ev all (r_val r) in
      if negb fresh then Err EFork2Count else tally ev votes subj t sh' yes' no' all'
    end
  end.

(* the loop over notDecidedRoots; the election maps are mutated in place, so on an error the
   entries written for earlier subjects stay *)
Fixpoint vote_subjects (round1 : bool) (obs : list root) (nr : root) (subjects : list N) (el : election)
  : option err * election :=
  match subjects with
  | [] => (None, el)
  | s :: t =>
    let ev := el_vals el in
    let rv : result (vote * bool) :=
      if round1 then
        match observed_map_get obs s with
        | Some r => Ok ({| vt_decided := false; vt_yes := true; vt_obs := r_id r |}, false)
        | None => Ok ({| vt_decided := false; vt_yes := false; vt_obs := 0 |}, false) end
      else
        match tally ev (el_votes el) s obs None (new_counter ev) (new_counter ev) (new_counter ev) with
        | Err x => Err x
        | Ok (sh, yes, no, all) =>
          if negb (has_quorum ev all) then Err ENoQuorumPrev else
          let y := c_sum no <=? c_sum yes in
          let o := match sh with Some h => if y then h else 0 | None => 0 end in
          let d := has_quorum ev yes || has_quorum ev no in
          Ok ({| vt_decided := d; vt_yes := y; vt_obs := o |}, d)
        end in
    match rv with
    | Err x => (Some x, el)
    | Ok (vt, dec) =>
      let el' := {| el_frame := el_frame el; el_vals := el_vals el;
                    el_decided := if dec then aput s vt (el_decided el) else el_decided el;
                    el_votes := ((nr, s), vt) :: el_votes el |} in
      vote_subjects round1 obs nr t el'
    end
  end.

(* Election.ProcessRoot *)
Definition process_root (st : lstate) (nr : root) : result (option (N * N)) * lstate :=
  let el := l_el st in
  match choose_atropos el with
  | Err x => (Err x, st)
  | Ok (Some r) => (Ok (Some r), st)
  | Ok None =>
    if r_frame nr <=? el_frame el then (Ok None, st) else
    let round := r_frame nr - el_frame el in
    let subjects := not_decided el in
    let '(obs, st1) := observed_roots st (r_id nr) (r_frame nr - 1) in
    let '(e, el') := vote_subjects (round =? 1) obs nr subjects el in
    let st2 := set_el st1 el' in
    match e with
    | Some x => (Err x, st2)
    | None => (choose_atropos el', st2)
    end
  end.

(* ---------- lachesis.go: confirmEvents over traversal.go: dfsSubgraph ---------- *)
Definition conf_get (c : list (N * N)) (id : N) : N := match alookup id c with Some f => f | None => 0 end.
Fixpoint dfs_confirm (fuel : nat) (es : estore) (frame : N) (stack : list N) (conf : list (N * N)) (acc : list N)
  : result (list N * list (N * N)) :=
  match fuel with O => Err EFuel | S fu =>
  match stack with
  | [] => Ok (rev acc, conf)
  | w :: rest =>
    match get_event es w with
    | None => Err ECrit                                   (* "event not found" -> p.crit(err) *)
    | Some ev =>
      if negb (conf_get conf w =? 0) then dfs_confirm fu es frame rest conf acc
      else dfs_confirm fu es frame (rev (a_parents ev) ++ rest) (aput w frame conf) (w :: acc)
    end
  end end.
Definition confirm_fuel (es : estore) : nat :=
  S (fold_left (fun n p => (n + 1 + length (a_parents (snd p)))%nat) es 1%nat).

Record block := { b_frame : N; b_atropos : N; b_cheaters : list N; b_delivered : list N;
                  b_seal : option vals }.

(* the application: EndBlock.  epoch, decided frame, atropos, cheaters, delivered -> new validators *)
Variable end_block : N -> N -> N -> list N -> list N -> option vals.

(* Lachesis.applyAtropos *)
Definition cheaters_of (st : lstate) (atropos : N) : list N :=
  let clock := merged (l_idx st) atropos in
  map fst (filter (fun p => is_fork (hb_get clock (snd p)))
                  (combine (v_ids (l_vals st)) (seq 0 (length (l_vals st))))).
Definition apply_atropos (es : estore) (st : lstate) (frame atropos : N) : result block * lstate :=
  let ch := cheaters_of st atropos in
  match dfs_confirm (confirm_fuel es) es frame [atropos] (l_conf st) [] with
  | Err x => (Err x, st)
  | Ok (delivered, conf') =>
    let st1 := set_conf st conf' in
    (Ok {| b_frame := frame; b_atropos := atropos; b_cheaters := ch; b_delivered := delivered;
           b_seal := end_block (l_epoch st) frame atropos ch delivered |}, st1)
  end.

(* frame_decide.go: onFrameDecided (+ sealEpoch, resetEpochStore, EpochDBLoaded -> index Reset) *)
Definition on_frame_decided (es : estore) (st : lstate) (frame atropos : N) : result (bool * block) * lstate :=
  match apply_atropos es st frame atropos with
  | (Err x, st1) => (Err x, st1)
  | (Ok blk, st1) =>
    match b_seal blk with
    | Some nv =>
      (Ok (true, blk),
       {| l_epoch := l_epoch st1 + 1; l_vals := nv; l_ldf := 0; l_roots := []; l_conf := [];
          l_idx := init (length nv); l_fcc := []; l_el := el_reset nv 1; l_ctr := l_ctr st1 |})
    | None =>
      (Ok (false, blk),
       {| l_epoch := l_epoch st1; l_vals := l_vals st1; l_ldf := frame; l_roots := l_roots st1; l_conf := l_conf st1;
          l_idx := l_idx st1; l_fcc := l_fcc st1; l_el := el_reset (l_vals st1) (frame + 1); l_ctr := l_ctr st1 |})
    end
  end.

(* ---------- event_processing.go ---------- *)
(* processKnownRoots: for f := LastDecidedFrame+1; ; f++ { for roots of f: ProcessRoot ...; if none: break } *)
Fixpoint pkr_frame (st : lstate) (frs : list root) : result (option (N * N)) * lstate :=
  match frs with
  | [] => (Ok None, st)
  | r :: t => match process_root st r with
              | (Err x, st1) => (Err x, st1)
              | (Ok (Some d), st1) => (Ok (Some d), st1)
              | (Ok None, st1) => pkr_frame st1 t end
  end.
Fixpoint process_known_roots (fuel : nat) (st : lstate) (f : N) : result (option (N * N)) * lstate :=
  match fuel with O => (Err EFuel, st) | S fu =>
    let frs := get_frame_roots st f in
    match pkr_frame st frs with
    | (Err x, st1) => (Err x, st1)
    | (Ok (Some d), st1) => (Ok (Some d), st1)
    | (Ok None, st1) => match frs with [] => (Ok None, st1) | _ => process_known_roots fu st1 (f + 1) end
    end
  end.
Definition roots_fuel (st : lstate) : nat := S (S (length (l_roots st))).

(* bootstrapElection *)
Fixpoint bootstrap_election (fuel : nat) (es : estore) (st : lstate) (blocks : list block)
  : result bool * list block * lstate :=
  match fuel with O => (Err EFuel, blocks, st) | S fu =>
    match process_known_roots (roots_fuel st) st (l_ldf st + 1) with
    | (Err x, st1) => (Err x, blocks, st1)
    | (Ok None, st1) => (Ok false, blocks, st1)
    | (Ok (Some (df, atr)), st1) =>
      match on_frame_decided es st1 df atr with
      | (Err x, st2) => (Err x, blocks, st2)
      | (Ok (sealed, blk), st2) =>
        if sealed then (Ok true, blocks ++ [blk], st2)
        else bootstrap_election fu es st2 (blocks ++ [blk])
      end
    end
  end.

(* handleElection: for f := selfParentFrame+1; f <= root.Frame(); f++ *)
Fixpoint handle_election (fuel : nat) (es : estore) (st : lstate) (e : aevent) (f : N) (blocks : list block)
  : result unit * list block * lstate :=
  match fuel with O => (Err EFuel, blocks, st) | S fu =>
    if a_frame e <? f then (Ok tt, blocks, st) else
    match process_root st (f, a_creator e, a_id e) with
    | (Err x, st1) => (Err x, blocks, st1)
    | (Ok None, st1) => handle_election fu es st1 e (f + 1) blocks
    | (Ok (Some (df, atr)), st1) =>
      match on_frame_decided es st1 df atr with
      | (Err x, st2) => (Err x, blocks, st2)
      | (Ok (sealed, blk), st2) =>
        if sealed then (Ok tt, blocks ++ [blk], st2) else
        match bootstrap_election (roots_fuel st2) es st2 (blocks ++ [blk]) with
        | (Err x, bl, st3) => (Err x, bl, st3)
        | (Ok sealed2, bl, st3) => if sealed2 then (Ok tt, bl, st3) else handle_election fu es st3 e (f + 1) bl
        end
      end
    end
  end.

(* forklessCausedByQuorumOn, with the early break once the quorum is reached *)
Fixpoint fcq_loop (st : lstate) (eid_ : N) (frs : list root) (c : counter) : bool * lstate :=
  match frs with
  | [] => (has_quorum (l_vals st) c, st)
  | r :: t => let '(b, st1) := fc_cached st eid_ (r_id r) in
              let c' := if b then snd (count_id (l_vals st) c (r_val r)) else c in
              if has_quorum (l_vals st) c' then (true, st1) else fcq_loop st1 eid_ t c'
  end.
Definition fc_by_quorum_on (st : lstate) (e : aevent) (f : N) : bool * lstate :=
  fcq_loop st (a_id e) (get_frame_roots st f) (new_counter (l_vals st)).

(* calcFrameIdx: for f = selfParentFrame; f < maxFrameToCheck && forklessCausedByQuorumOn(e, f); f++ {} *)
Fixpoint calc_loop (fuel : nat) (st : lstate) (e : aevent) (f maxf : N) : option N * lstate :=
  match fuel with O => (None, st) | S fu =>
    if negb (f <? maxf) then (Some f, st) else
    let '(b, st1) := fc_by_quorum_on st e f in
    if b then calc_loop fu st1 e (f + 1) maxf else (Some f, st1)
  end.
Definition calc_frame (es : estore) (st : lstate) (e : aevent) (check_only : bool)
  : result (N * N) * lstate :=
  let spf_r : result N := match a_self_parent e with
                          | None => Ok 0
                          | Some sp => match get_event es sp with Some pe => Ok (a_frame pe) | None => Err EPanic end end in
  match spf_r with
  | Err x => (Err x, st)
  | Ok spf =>
    let maxf := if check_only then a_frame e else spf + 100 in
    match calc_loop (roots_fuel st) st e spf maxf with
    | (None, st1) => (Err EFuel, st1)
    | (Some f, st1) => (Ok (spf, if f =? 0 then 1 else f), st1)
    end
  end.

(* IndexedLachesis.Process = index Add; Orderer.Process (checkAndSaveEvent; handleElection); Flush
   -- with the deferred DropNotFlushed: on any error the index keeps its flushed value *)
Definition process (es : estore) (st : lstate) (e : aevent) : result unit * list block * lstate :=
  let old := l_idx st in
  match add old (vev (l_vals st) e) with
  | None => (Err ECrit, [], st)
  | Some s' =>
    match calc_frame es (set_idx st s') e true with
    | (Err x, st1) => (Err x, [], set_idx st1 old)
    | (Ok (spf, fr), st1) =>
      if negb (a_frame e =? fr) then (Err EWrongFrame, [], set_idx st1 old) else
      let st2 := if spf =? fr then st1 else add_roots st1 spf e in
      match handle_election (S (S (N.to_nat (a_frame e - spf)))) es st2 e (spf + 1) [] with
      | (Err x, bl, st3) => (Err x, bl, st3)
      | (Ok _, bl, st3) => (Ok tt, bl, st3)
      end
    end
  end.

(* IndexedLachesis.Build, parameterised by the temporary-id sampler *)
Definition build_with (smp : N -> option (list N)) (es : estore) (st : lstate) (e0 : aevent) : result N * lstate :=
  let c := l_ctr st + 1 in
  let st0 := set_ctr st c in
  match smp c with
  | None => (Err EPanic, st0)
  | Some tail =>
    let e := set_id e0 (mk_id_bytes (a_epoch e0) (a_lamport e0) tail) in
    let old := l_idx st0 in
    match add old (vev (l_vals st0) e) with
    | None => (Err ECrit, st0)
    | Some s' =>
      if negb (a_epoch e =? l_epoch st0) || negb (v_exists (l_vals st0) (a_creator e)) then (Err ECrit, st0) else
      match calc_frame es (set_idx st0 s') e false with
      | (Err x, st1) => (Err x, set_idx st1 old)
      | (Ok (_, fr), st1) => (Ok fr, set_idx st1 old)
      end
    end
  end.
Definition build := build_with sample.
Definition build_old := build_with sample_old.

(* ---------- bootstrap.go ---------- *)
(* what survives a restart: the two databases *)
Record persisted := { p_epoch : N; p_vals : vals; p_ldf : N; p_roots : list root; p_conf : list (N * N); p_idx : vidx }.
Definition persist (st : lstate) : persisted :=
  {| p_epoch := l_epoch st; p_vals := l_vals st; p_ldf := l_ldf st; p_roots := l_roots st; p_conf := l_conf st;
     p_idx := l_idx st |}.
(* Orderer.Bootstrap over a fresh index object (Reset: empty FC cache) and a fresh IndexedLachesis (counter 0) *)
Definition bootstrap (es : estore) (p : persisted) : result bool * list block * lstate :=
  let st := {| l_epoch := p_epoch p; l_vals := p_vals p; l_ldf := p_ldf p; l_roots := p_roots p; l_conf := p_conf p;
               l_idx := p_idx p; l_fcc := []; l_el := el_reset (p_vals p) (p_ldf p + 1); l_ctr := 0 |} in
  bootstrap_election (roots_fuel st) es st [].
(* Store.ApplyGenesis + Bootstrap on empty databases *)
Definition genesis (epoch : N) (v : vals) : lstate :=
  {| l_epoch := epoch; l_vals := v; l_ldf := 0; l_roots := []; l_conf := []; l_idx := init (length v);
     l_fcc := []; l_el := el_reset v 1; l_ctr := 0 |}.
(* Orderer.Reset *)
Definition reset (st : lstate) (epoch : N) (v : vals) : lstate :=
  {| l_epoch := epoch; l_vals := v; l_ldf := 0; l_roots := []; l_conf := []; l_idx := init (length v);
     l_fcc := []; l_el := el_reset v 1; l_ctr := l_ctr st |}.

End Model.
