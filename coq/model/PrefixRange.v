(* Backend glue of kvdb/leveldb/leveldb.go and kvdb/pebble/pebble.go (C23):
   - util.BytesPrefix / bytesPrefix: the upper limit loop (scan from the last byte for one < 0xff),
   - bytesPrefixRange(prefix, start) of both files, including Go's nil-vs-empty slices
     ([okey]: None = nil slice),
   - the engine's range scan as the trusted ordered-map behaviour [eng_range],
   - the iterator protocol: goleveldb's Next-from-fresh and pebble.go's First-then-Next adapter.
   The engines themselves (goleveldb, pebble) are NOT modelled: [eng_range] over the abstract
   map is what they are assumed (and differential-tested) to do.  Definitions only. *)
From Coq Require Import NArith List Bool.
From LV Require Import lib.Bytes lib.SortedMap spec.KvSpec spec.KvOps.
Import ListNotations.
Local Open Scope N_scope.


(* for i := len(prefix)-1; i >= 0; i-- { c := prefix[i]; if c < 0xff { limit = prefix[:i+1]; limit[i] = c+1; break } } *)
Fixpoint bp_limit_rev (r : list N) : option key :=
  match r with
  | [] => None
  | c :: r' => if c <? 255 then Some (rev r' ++ [c + 1]) else bp_limit_rev r'
  end.
Definition bytes_prefix_limit (p : key) : okey := bp_limit_rev (rev p).

(* Go's append(a, b...): nil only when a is nil and b is empty *)
Definition go_append (a : okey) (b : key) : okey :=
  match a with
  | Some x => Some (x ++ b)
  | None => match b with [] => None | _ => Some b end
  end.

(* leveldb.go (repaired, fixes/C23.patch):
     r := util.BytesPrefix(prefix); r.Start = append(append([]byte(nil), r.Start...), start...) *)
Definition ldb_range (prefix start : okey) : okey * okey :=
  (go_append (go_append None (ob prefix)) (ob start), bytes_prefix_limit (ob prefix)).

(* pebble.go (repaired): nil options when both are nil; LowerBound = []byte{} when prefix is nil;
     r.LowerBound = append(append([]byte{}, r.LowerBound...), start...) *)
Definition pbl_range (prefix start : okey) : option (okey * okey) :=
  match prefix, start with
  | None, None => None
  | _, _ =>
      let lohi := match prefix with
                  | Some p => (Some p, bytes_prefix_limit p)
                  | None => (Some [], None)
                  end in
      Some (go_append (go_append (Some []) (ob (fst lohi))) (ob start), snd lohi)
  end.

(* ---- the caller's buffer (C23 finding, repaired) ----
   A tiny model of Go slices over a memory of byte arrays: an array is addressed by its index in
   the memory, its length is its capacity; a slice is (array, length) starting at offset 0.
   append(s, b...) writes IN PLACE into s's array when the capacity suffices and allocates a new
   array otherwise; append([]byte(nil), s...) allocates an exact copy. *)
Definition memory := list (list N).
Record gslice := { g_arr : nat; g_len : nat }.
Definition slice_bytes (m : memory) (s : gslice) : key := firstn (g_len s) (nth (g_arr s) m []).

Definition go_append_mem (m : memory) (s : gslice) (b : key) : memory * gslice :=
  let arr := nth (g_arr s) m [] in
  if Nat.leb (g_len s + length b) (length arr)
  then (set_nth (g_arr s) (firstn (g_len s) arr ++ b ++ skipn (g_len s + length b) arr) [] m,
        {| g_arr := g_arr s; g_len := g_len s + length b |})
  else (m ++ [firstn (g_len s) arr ++ b],
        {| g_arr := length m; g_len := g_len s + length b |}).
Definition go_copy_mem (m : memory) (s : gslice) : memory * gslice :=
  (m ++ [slice_bytes m s], {| g_arr := length m; g_len := g_len s |}).

(* pinned tree: r.Start = append(r.Start, start...) where r.Start IS the caller's prefix *)
Definition range_start_old (m : memory) (prefix : gslice) (start : key) : memory * gslice :=
  go_append_mem m prefix start.
(* repaired: r.Start = append(append([]byte(nil), r.Start...), start...) *)
Definition range_start (m : memory) (prefix : gslice) (start : key) : memory * gslice :=
  let '(m1, c) := go_copy_mem m prefix in go_append_mem m1 c start.

(* the engines: keys k with lo <= k < hi (a nil bound = unbounded), ascending *)
Definition in_bounds (lo hi : okey) (k : key) : bool :=
  (match lo with Some l => lex_leb l k | None => true end) &&
  (match hi with Some h => lex_ltb k h | None => true end).
Definition eng_range (m : kvmap) (lo hi : okey) : list (key * val) := sm_filter (in_bounds lo hi) m.

(* engine cursor over the materialised range; c_pos = None: not positioned yet *)
Record cursor := { c_items : list (key * val); c_pos : option nat }.
Definition cur_new (items : list (key * val)) : cursor := {| c_items := items; c_pos := None |}.
Definition cur_kv (c : cursor) : option (key * val) :=
  match c_pos c with Some i => nth_error (c_items c) i | None => None end.
Definition cur_first (c : cursor) : cursor := {| c_items := c_items c; c_pos := Some O |}.
(* fresh_is_first: goleveldb's Next on a fresh iterator moves to the first entry;
   pebble's Next on an unpositioned iterator is not specified: modelled as invalid *)
Definition cur_next (fresh_is_first : bool) (c : cursor) : cursor :=
  match c_pos c with
  | Some i => {| c_items := c_items c; c_pos := Some (S i) |}
  | None => if fresh_is_first then cur_first c
            else {| c_items := c_items c; c_pos := Some (length (c_items c)) |}
  end.

(* pebble.go iterator: isStarted flag; First() on the first Next() *)
Definition pit_next (sc : bool * cursor) : bool * cursor :=
  if fst sc then (true, cur_next false (snd sc)) else (true, cur_first (snd sc)).

(* for it.Next() { emit it.Key(), it.Value() }  — fuel = number of Next calls allowed *)
Fixpoint ldb_drain (fuel : nat) (c : cursor) : list (key * val) :=
  match fuel with
  | O => []
  | S f => let c' := cur_next true c in
           match cur_kv c' with Some kv => kv :: ldb_drain f c' | None => [] end
  end.
Fixpoint pbl_drain (fuel : nat) (sc : bool * cursor) : list (key * val) :=
  match fuel with
  | O => []
  | S f => let sc' := pit_next sc in
           match cur_kv (snd sc') with Some kv => kv :: pbl_drain f sc' | None => [] end
  end.

Inductive eng := ELdb | EPbl.

Definition eng_iter (e : eng) (m : kvmap) (prefix start : okey) : list (key * val) :=
  match e with
  | ELdb => let r := ldb_range prefix start in
            let items := eng_range m (fst r) (snd r) in
            ldb_drain (S (length items)) (cur_new items)
  | EPbl => let items := match pbl_range prefix start with
                         | Some r => eng_range m (fst r) (snd r)
                         | None => eng_range m None None
                         end in
            pbl_drain (S (length items)) (false, cur_new items)
  end.
