(* Model of utils/workers (Workers: a buffered task channel, n worker goroutines, a shared quit
   channel), as a labelled transition system.  Used by the seeder (one Workers with Start(1) per
   sender thread) and by the dag processor.

     WEnqueue t     Enqueue(t): `select { case tasks <- t: ; case <-quit: errTerminated }`
                    - the send is enabled while the channel has room (also after quit: select
                      chooses at random between two ready cases);
     WRefuse t      Enqueue(t) returning errTerminated: enabled once quit is closed;
     WTake i        worker i, idle: `case job := <-tasks` (also enabled after quit, see above);
     WFinish i      worker i: job() returns;
     WExit i        worker i, idle: `case <-quit: return`;
     WDrain         Drain(): empties the channel (tasks already taken keep running);
     WQuit          close(quit).

   A label that is not enabled returns None.  Tasks are numbers (identities of closures).
   Definitions only; proofs in proofs/WorkersProofs.v. *)
From Coq Require Import NArith List Bool.
Import ListNotations.

Inductive wslot := WIdle | WBusy (t : N) | WGone.

Record wstate := mkW {
  w_cap : nat;               (* maxTasks *)
  w_tasks : list N;          (* channel content, oldest first *)
  w_workers : list wslot;    (* Start(n) *)
  w_quit : bool;
  (* ghost *)
  w_accepted : list N;       (* tasks whose Enqueue returned nil, in order *)
  w_started : list N;        (* tasks taken by a worker, in order *)
  w_executed : list N;       (* tasks whose job() has returned, in order *)
  w_drained : list N         (* tasks removed by Drain *)
}.

Definition w_init (cap n : nat) : wstate := mkW cap [] (repeat WIdle n) false [] [] [] [].

Inductive wop := WEnqueue (t : N) | WRefuse (t : N) | WTake (i : nat) | WFinish (i : nat) | WExit (i : nat)
               | WDrain | WQuit.

Fixpoint set_nth {A} (i : nat) (x : A) (l : list A) : list A :=
  match l, i with
  | [], _ => []
  | _ :: r, O => x :: r
  | y :: r, S j => y :: set_nth j x r
  end.

Definition wstep (s : wstate) (o : wop) : option wstate :=
  match o with
  | WEnqueue t =>
      (* an unbuffered channel (cap 0) hands the task directly to a worker waiting in select:
         modelled as room for one task when some worker is idle *)
      let room := if Nat.ltb (length (w_tasks s)) (w_cap s) then true
                  else (Nat.eqb (w_cap s) 0) && (Nat.eqb (length (w_tasks s)) 0)
                       && existsb (fun w => match w with WIdle => true | _ => false end) (w_workers s) in
      if room then
        Some (mkW (w_cap s) (w_tasks s ++ [t]) (w_workers s) (w_quit s) (w_accepted s ++ [t])
                  (w_started s) (w_executed s) (w_drained s))
      else None
  | WRefuse t => if w_quit s then Some s else None
  | WTake i =>
      match nth i (w_workers s) WGone, w_tasks s with
      | WIdle, t :: rest =>
          Some (mkW (w_cap s) rest (set_nth i (WBusy t) (w_workers s)) (w_quit s) (w_accepted s)
                    (w_started s ++ [t]) (w_executed s) (w_drained s))
      | _, _ => None
      end
  | WFinish i =>
      match nth i (w_workers s) WGone with
      | WBusy t =>
          Some (mkW (w_cap s) (w_tasks s) (set_nth i WIdle (w_workers s)) (w_quit s) (w_accepted s)
                    (w_started s) (w_executed s ++ [t]) (w_drained s))
      | _ => None
      end
  | WExit i =>
      match nth i (w_workers s) WGone with
      | WIdle => if w_quit s then
                   Some (mkW (w_cap s) (w_tasks s) (set_nth i WGone (w_workers s)) (w_quit s) (w_accepted s)
                             (w_started s) (w_executed s) (w_drained s))
                 else None
      | _ => None
      end
  | WDrain =>
      Some (mkW (w_cap s) [] (w_workers s) (w_quit s) (w_accepted s) (w_started s) (w_executed s)
                (w_drained s ++ w_tasks s))
  | WQuit =>
      Some (mkW (w_cap s) (w_tasks s) (w_workers s) true (w_accepted s) (w_started s) (w_executed s)
                (w_drained s))
  end.

Fixpoint wrun (s : wstate) (ops : list wop) : wstate :=
  match ops with
  | [] => s
  | o :: r => match wstep s o with Some s' => wrun s' r | None => wrun s r end
  end.

(* the tasks currently inside job() *)
Definition w_running (s : wstate) : list N :=
  flat_map (fun w => match w with WBusy t => [t] | _ => [] end) (w_workers s).
