(* Model of utils/workers (Workers: a buffered task channel, n worker goroutines, a shared quit
   channel), as a labelled transition system.  Used by the seeder (one Workers with Start(1) per
   sender thread) and by the dag processor.

     WEnqueue t     Enqueue(t): `select { case tasks <- t: ; case <-quit: errTerminated }`
                    - the buffered send is enabled while the channel has room (also after quit:
                      select chooses at random between two ready cases);
     WHandoff t i   Enqueue(t) on a channel with NO free buffer slot meeting worker i blocked in
                    its select: the rendezvous of an unbuffered channel (maxTasks = 0) - the task
                    is accepted and worker i runs it, in one step; there is never a task "in" an
                    unbuffered channel, so a worker cannot exit and strand it;
     WHandoffDrain t  the same rendezvous with Drain()'s receive: accepted and dropped at once;
     WRefuse t      Enqueue(t) returning errTerminated: enabled once quit is closed;
     WTake i        worker i, idle: `case job := <-tasks` (also enabled after quit, see above);
     WFinish i      worker i: job() returns;
     WExit i        worker i, idle: `case <-quit: return`;
     WDrain         Drain(): empties the channel (tasks already taken keep running);
     WQuit          close(quit).

   A label that is not enabled returns None.  Tasks are numbers (identities of closures).
   Definitions only; proofs in proofs/WorkersFifoProofs.v. *)
From Coq Require Import NArith List Bool.
Import ListNotations.

Inductive wslot := WIdle | WBusy (t : N) | WGone.

Record wstate := mkW {
  w_cap : nat;               (* maxTasks *)
  w_tasks : list N;          (* channel content, oldest first *)
  w_workers : list wslot;    (* Start(n) *)
  w_quit : bool;
  (* ghost *)
  w_accepted : list N;       (* tasks whose Enqueue returned nil, in order *)
  w_started : list N;        (* tasks taken by a worker, in order *)
  w_executed : list N;       (* tasks whose job() has returned, in order *)
  w_drained : list N         (* tasks removed by Drain *)
}.

Definition w_init (cap n : nat) : wstate := mkW cap [] (repeat WIdle n) false [] [] [] [].

Inductive wop := WEnqueue (t : N) | WHandoff (t : N) (i : nat) | WHandoffDrain (t : N) | WRefuse (t : N)
               | WTake (i : nat) | WFinish (i : nat) | WExit (i : nat) | WDrain | WQuit.

Fixpoint set_nth {A} (i : nat) (x : A) (l : list A) : list A :=
  match l, i with
  | [], _ => []
  | _ :: r, O => x :: r
  | y :: r, S j => y :: set_nth j x r
  end.

Definition wstep (s : wstate) (o : wop) : option wstate :=
  match o with
  | WEnqueue t =>
      if Nat.ltb (length (w_tasks s)) (w_cap s) then
        Some (mkW (w_cap s) (w_tasks s ++ [t]) (w_workers s) (w_quit s) (w_accepted s ++ [t])
                  (w_started s) (w_executed s) (w_drained s))
      else None
  | WHandoff t i =>
      (* a sender can meet a receiver directly only when nothing is buffered *)
      match w_tasks s, nth i (w_workers s) WGone with
      | [], WIdle =>
          Some (mkW (w_cap s) [] (set_nth i (WBusy t) (w_workers s)) (w_quit s) (w_accepted s ++ [t])
                    (w_started s ++ [t]) (w_executed s) (w_drained s))
      | _, _ => None
      end
  | WHandoffDrain t =>
      match w_tasks s with
      | [] => if Nat.eqb (w_cap s) 0 then
                Some (mkW (w_cap s) [] (w_workers s) (w_quit s) (w_accepted s ++ [t])
                          (w_started s) (w_executed s) (w_drained s ++ [t]))
              else None
      | _ => None
      end
  | WRefuse t => if w_quit s then Some s else None
  | WTake i =>
      match nth i (w_workers s) WGone, w_tasks s with
      | WIdle, t :: rest =>
          Some (mkW (w_cap s) rest (set_nth i (WBusy t) (w_workers s)) (w_quit s) (w_accepted s)
                    (w_started s ++ [t]) (w_executed s) (w_drained s))
      | _, _ => None
      end
  | WFinish i =>
      match nth i (w_workers s) WGone with
      | WBusy t =>
          Some (mkW (w_cap s) (w_tasks s) (set_nth i WIdle (w_workers s)) (w_quit s) (w_accepted s)
                    (w_started s) (w_executed s ++ [t]) (w_drained s))
      | _ => None
      end
  | WExit i =>
      match nth i (w_workers s) WGone with
      | WIdle => if w_quit s then
                   Some (mkW (w_cap s) (w_tasks s) (set_nth i WGone (w_workers s)) (w_quit s) (w_accepted s)
                             (w_started s) (w_executed s) (w_drained s))
                 else None
      | _ => None
      end
  | WDrain =>
      Some (mkW (w_cap s) [] (w_workers s) (w_quit s) (w_accepted s) (w_started s) (w_executed s)
                (w_drained s ++ w_tasks s))
  | WQuit =>
      Some (mkW (w_cap s) (w_tasks s) (w_workers s) true (w_accepted s) (w_started s) (w_executed s)
                (w_drained s))
  end.

Fixpoint wrun (s : wstate) (ops : list wop) : wstate :=
  match ops with
  | [] => s
  | o :: r => match wstep s o with Some s' => wrun s' r | None => wrun s r end
  end.

(* the tasks currently inside job() *)
Definition w_running (s : wstate) : list N :=
  flat_map (fun w => match w with WBusy t => [t] | _ => [] end) (w_workers s).
