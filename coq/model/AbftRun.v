(* The application around one consensus instance, as the Go harness plays it (harness/abfth):
   own event store (insert before Process, remove when Process fails), parents-first /
   current-epoch guard in front of Process and Build, EndBlock sealing policy given as data,
   restart = Bootstrap over what the databases hold, and the observation of every operation.
   Definitions only. *)
From Coq Require Import List Arith NArith Bool.
From LV Require Import model.VecIndex model.Abft.
Import ListNotations.
Open Scope N_scope.

Record inst := { i_st : lstate; i_es : estore;
                 i_proc : list N (* ids accepted in the current epoch (the application's "connected" set) *) }.

Inductive op :=
| OpP (e : aevent)                       (* Process; ops P and X of the case file (the event carries its claimed frame) *)
| OpB (e : aevent)                       (* speculative Build (a_id and a_frame of e are ignored) *)
| OpR                                    (* restart: new Store over the same DBs, fresh index, Bootstrap *)
| OpReset (epoch : N) (raw : list (N * N))
| OpM (id : N)                           (* merged highest-before clock of a processed event *)
| OpG (f : N)                            (* GetFrameRoots *)
| OpQ (a b : N)                          (* ForklessCause(a, b) asked of the instance's index (both processed) *)
| OpV.                                   (* Store.GetValidators: the current validator set (ids and weights) *)

Inductive obs :=
| ObsSkip (why : N)                      (* 1 already processed, 2 other epoch, 3 parent not processed, 4 creator unknown *)
| ObsP (r : option err) (bl : list block) (ldf epoch : N)
| ObsB (r : result N)
| ObsR (r : option err) (bl : list block) (ldf epoch : N)
| ObsReset (ldf epoch : N)
| ObsM (clock : list (bool * N))
| ObsG (rs : list (N * N))
| ObsQ (r : bool)
| ObsV (v : vals).

(* sealing policy as data: (epoch, decided frame, new validators as Builder.Set calls) *)
Definition policy := list (N * N * list (N * N)).
Definition policy_fn (p : policy) (epoch frame _atropos : N) (_ch _dl : list N) : option vals :=
  match find (fun x => (fst (fst x) =? epoch) && (snd (fst x) =? frame)) p with
  | Some x => Some (mk_vals (snd x)) | None => None end.

Definition es_remove (id : N) (es : estore) : estore := filter (fun p => negb (fst p =? id)) es.
Definition mem (x : N) (l : list N) : bool := existsb (N.eqb x) l.
Definition sealed_in (bl : list block) : bool :=
  existsb (fun b => match b_seal b with Some _ => true | None => false end) bl.
Definition fatal (e : err) : bool := match e with EWrongFrame => false | _ => true end.

Section Run.
Variable fcc_cap : nat.
Variable pol : policy.
Variable smp : N -> option (list N).

Definition guard (i : inst) (e : aevent) (check_dup : bool) : option N :=
  let st := i_st i in
  if check_dup && mem (a_id e) (i_proc i) then Some 1
  else if negb (a_epoch e =? l_epoch st) then Some 2
  else if negb (forallb (fun p => mem p (i_proc i)) (a_parents e)) then Some 3
  else if negb (v_exists (l_vals st) (a_creator e)) then Some 4
  else None.

(* one operation: observation, next instance, and whether the instance is dead (crit/panic) *)
Definition step (i : inst) (o : op) : obs * inst * bool :=
  let st := i_st i in
  match o with
  | OpP e =>
    match guard i e true with
    | Some w => (ObsSkip w, i, false)
    | None =>
      let es1 := aput (a_id e) e (i_es i) in
      match process fcc_cap (policy_fn pol) es1 st e with
      | (Err x, bl, st') =>
        (ObsP (Some x) bl (l_ldf st') (l_epoch st'),
         {| i_st := st'; i_es := es_remove (a_id e) (i_es i); i_proc := i_proc i |}, fatal x)
      | (Ok _, bl, st') =>
        (ObsP None bl (l_ldf st') (l_epoch st'),
         {| i_st := st'; i_es := es1; i_proc := if sealed_in bl then [] else a_id e :: i_proc i |}, false)
      end
    end
  | OpB e =>
    match guard i e false with
    | Some w => (ObsSkip w, i, false)
    | None =>
      let '(r, st') := build_with fcc_cap smp (i_es i) st e in
      (ObsB r, {| i_st := st'; i_es := i_es i; i_proc := i_proc i |},
       match r with Err x => fatal x | Ok _ => false end)
    end
  | OpR =>
    match bootstrap fcc_cap (policy_fn pol) (i_es i) (persist st) with
    | (Err x, bl, st') => (ObsR (Some x) bl (l_ldf st') (l_epoch st'),
                           {| i_st := st'; i_es := i_es i; i_proc := i_proc i |}, true)
    | (Ok _, bl, st') => (ObsR None bl (l_ldf st') (l_epoch st'),
                          {| i_st := st'; i_es := i_es i; i_proc := if sealed_in bl then [] else i_proc i |}, false)
    end
  | OpReset ep raw =>
    let st' := reset st ep (mk_vals raw) in
    (ObsReset (l_ldf st') (l_epoch st'), {| i_st := st'; i_es := i_es i; i_proc := [] |}, false)
  | OpM id =>
    if mem id (i_proc i)
    then (ObsM (map (fun x => (is_fork x, fst x)) (merged (l_idx st) id)), i, false)
    else (ObsSkip 3, i, false)
  | OpG f => (ObsG (map (fun r => (r_val r, r_id r)) (get_frame_roots st f)), i, false)
  | OpQ a b =>
    if mem a (i_proc i) && mem b (i_proc i)
    then let '(r, st') := fc_cached fcc_cap st a b in
         (ObsQ r, {| i_st := st'; i_es := i_es i; i_proc := i_proc i |}, false)
    else (ObsSkip 3, i, false)
  | OpV => (ObsV (l_vals st), i, false)
  end.

Fixpoint run (i : inst) (ops : list op) : list obs :=
  match ops with
  | [] => []
  | o :: t => let '(ob, i', dead) := step i o in
              ob :: (if dead then [] else run i' t)
  end.

(* final instance after a run (for theorems) *)
Fixpoint run_inst (i : inst) (ops : list op) : inst :=
  match ops with
  | [] => i
  | o :: t => let '(_, i', dead) := step i o in if dead then i' else run_inst i' t
  end.

Definition start (epoch : N) (raw : list (N * N)) : inst :=
  {| i_st := genesis epoch (mk_vals raw); i_es := []; i_proc := [] |}.
End Run.
