(* Model of inter/pos/stake_bigint.go with stakes as the Go type has them: *big.Int, i.e.
   signed (Z) or nil (None).  Definitions only.
   math/big as modelled (trusted): Add = Z.add, Sign, BitLen = bit length of |x|,
   Rsh = arithmetic shift (floor, Z.shiftr), Uint64() = low 64 bits of |x|.
   model/Pos.v keeps the restriction of these definitions to non-negative stakes (big_total,
   big_shift, big_weight, big_sets, big_build over N); proofs/PosBigZProofs.v shows that the two
   coincide when every stake is >= 0, which is the domain of property C12 ("stakes up to 2^256"). *)
From Coq Require Import NArith ZArith List Bool.
From LV Require Import lib.WordArith model.Pos.
Import ListNotations.
Local Open Scope N_scope.

Definition bmap := list (N * Z).            (* map[idx.ValidatorID]*big.Int (non-nil entries) *)

Fixpoint bremove (id : N) (m : bmap) : bmap :=
  match m with
  | [] => []
  | (i, w) :: r => if i =? id then bremove id r else (i, w) :: bremove id r
  end.

(* if weight == nil || weight.Sign() == 0 { delete(vv, id) } else { vv[id] = weight } *)
Definition bset (m : bmap) (id : N) (w : option Z) : bmap :=
  match w with
  | None => bremove id m
  | Some z => if (z =? 0)%Z then bremove id m else (id, z) :: bremove id m
  end.

Definition apply_bsets (ops : list (N * option Z)) (m : bmap) : bmap :=
  fold_left (fun m p => bset m (fst p) (snd p)) ops m.

(* TotalWeight(): sum of the (signed) stakes *)
Definition zbig_total (m : bmap) : Z := fold_right (fun p acc => (snd p + acc)%Z) 0%Z m.
(* BitLen(): length of the absolute value in bits *)
Definition zbitlen (z : Z) : N := N.size (Z.abs_N z).
Definition zbig_shift (m : bmap) : N :=
  let tb := zbitlen (zbig_total m) in if 31 <? tb then tb - 31 else 0.
(* Weight(new(big.Int).Rsh(w, shift).Uint64()) *)
Definition zbig_weight (shift : N) (w : Z) : N :=
  wrap32 (wrap64 (Z.abs_N (Z.shiftr w (Z.of_N shift)))).
Definition zbig_sets (m : bmap) : list (N * N) :=
  let s := zbig_shift m in map (fun p => (fst p, zbig_weight s (snd p))) m.
(* Build(): range over the map, Set each scaled weight on a small builder, Build *)
Definition zbig_build (ops : list (N * option Z)) : option validators :=
  build (zbig_sets (apply_bsets ops [])).
