(* Model of utils/datasemaphore/semaphore.go (DataSemaphore).

   The Go object is a mutex-protected pair (processing, maxProcessing) plus a sync.Cond.
   Every method body runs under the mutex, so the model is a state machine whose steps are
   the critical sections:

     ECall id w tcall timeout   Acquire(w, timeout) entered by goroutine [id]: the deadline was
                                computed at [tcall] (before the lock), the loop body runs at [now]
     ETry w                     TryAcquire(w)
     ERelease w                 Release(w)            (ends with cond.Broadcast)
     ETerminate                 Terminate()           (ends with cond.Broadcast)
     ETimer id                  the time.AfterFunc callback armed by the blocking Acquire [id]
                                (repaired code only): lock; cond.Broadcast
     EWake id                   goroutine [id], woken by a broadcast, re-acquires the mutex inside
                                cond.Wait() and re-runs the loop body

   sync.Cond is MODELLED, not verified: a goroutine inside cond.Wait() ([waiting]) re-runs its
   loop body only after a Broadcast moved it to [woken] (Go's Cond has no spurious wake-ups),
   and the woken goroutines take the mutex one at a time in an arbitrary order (an [EWake]
   event each).  The clock [now] is carried by every event (time.Now() under the lock).

   [fx = true]  is the repaired code (fixes/C30.patch): overflow-checked tryAcquire,
                deadline test [!Now().Before(deadline)], timer-driven broadcast.
   [fx = false] is the pinned tree: wrapping add, [Now().After(deadline)], no timer (ETimer
                is a no-op, and the scheduler [simulate] never produces it).          *)
From Coq Require Import NArith ZArith List Bool.
Import ListNotations.

(* dag.Metric{Num idx.Event (uint32); Size uint64} *)
Record metric := mkM { mnum : N; msize : N }.

Definition two32 : N := 4294967296%N.
Definition two64 : N := 18446744073709551616%N.
Definition mzero : metric := mkM 0 0.
Definition m_wf (a : metric) : Prop := (mnum a < two32)%N /\ (msize a < two64)%N.
Definition m_wfb (a : metric) : bool := ((mnum a <? two32) && (msize a <? two64))%N.

(* tmp.Num += metric.Num; tmp.Size += metric.Size   (uint32 / uint64 wrap-around) *)
Definition madd_wrap (a b : metric) : metric :=
  mkM ((mnum a + mnum b) mod two32)%N ((msize a + msize b) mod two64)%N.
(* only used when a >= b component-wise (the else-branch of Release) *)
Definition msub (a b : metric) : metric := mkM (mnum a - mnum b)%N (msize a - msize b)%N.
(* a.Num > b.Num || a.Size > b.Size *)
Definition mgt_any (a b : metric) : bool := ((mnum b <? mnum a) || (msize b <? msize a))%N.
(* a.Num < b.Num || a.Size < b.Size *)
Definition mlt_any (a b : metric) : bool := ((mnum a <? mnum b) || (msize a <? msize b))%N.

(* tryAcquire: None = false, Some h = true with processing := h *)
Definition try_acquire (fx : bool) (held cap w : metric) : option metric :=
  let tmp := madd_wrap held w in
  if fx && mlt_any tmp w then None            (* repaired: overflow *)
  else if mgt_any tmp cap then None
  else Some tmp.

Record waiter := mkW { wid : N; ww : metric; wdl : Z }.

Record state := mkS {
  held : metric;            (* s.processing *)
  cap : metric;             (* s.maxProcessing (zero after Terminate) *)
  waiting : list waiter;    (* goroutines inside cond.Wait(), in arrival order *)
  woken : list waiter       (* signalled by a broadcast, not yet re-run *)
}.

Definition init (c : metric) : state := mkS mzero c [] [].

Inductive event :=
| ECall (id : N) (w : metric) (tcall timeout : Z)
| ETry (w : metric)
| ERelease (w : metric)
| ETerminate
| ETimer (id : N)
| EWake (id : N).

Inductive output :=
| ORet (id : N) (ok : bool)      (* Acquire of goroutine id returns ok *)
| OBlock (id : N)                (* goroutine id enters cond.Wait() *)
| OTry (ok : bool)               (* TryAcquire returns ok *)
| OWarn (h w : metric).          (* s.warning(processing, processing, releasing) *)

(* repaired: !time.Now().Before(deadline)   pinned: time.Now().After(deadline) *)
Definition expired (fx : bool) (now dl : Z) : bool :=
  if fx then Z.leb dl now else Z.ltb dl now.

(* one iteration of   for !s.tryAcquire(weight) { if ... {return false}; s.cond.Wait() }  *)
Definition loop_body (fx : bool) (st : state) (now : Z) (wt : waiter) : state * list output :=
  match try_acquire fx (held st) (cap st) (ww wt) with
  | Some h' => (mkS h' (cap st) (waiting st) (woken st), [ORet (wid wt) true])
  | None =>
    if mgt_any (ww wt) (cap st) || expired fx now (wdl wt)
    then (st, [ORet (wid wt) false])
    else (mkS (held st) (cap st) (waiting st ++ [wt]) (woken st), [OBlock (wid wt)])
  end.

Definition broadcast (st : state) : state :=
  mkS (held st) (cap st) [] (woken st ++ waiting st).

Definition release (st : state) (w : metric) : state * list output :=
  if mlt_any (held st) w
  then (mkS mzero (cap st) (waiting st) (woken st), [OWarn (held st) w])
  else (mkS (msub (held st) w) (cap st) (waiting st) (woken st), []).

Fixpoint take_waiter (id : N) (l : list waiter) : option (waiter * list waiter) :=
  match l with
  | [] => None
  | x :: r => if (wid x =? id)%N then Some (x, r)
              else match take_waiter id r with
                   | Some (y, r') => Some (y, x :: r')
                   | None => None
                   end
  end.

Definition step (fx : bool) (st : state) (now : Z) (ev : event) : state * list output :=
  match ev with
  | ECall id w tcall timeout => loop_body fx st now (mkW id w (Z.add tcall timeout))
  | ETry w =>
    match try_acquire fx (held st) (cap st) w with
    | Some h' => (mkS h' (cap st) (waiting st) (woken st), [OTry true])
    | None => (st, [OTry false])
    end
  | ERelease w => let '(st', o) := release st w in (broadcast st', o)
  | ETerminate => (broadcast (mkS (held st) mzero (waiting st) (woken st)), [])
  | ETimer _ => if fx then (broadcast st, []) else (st, [])
  | EWake id =>
    match take_waiter id (woken st) with
    | Some (wt, rest) => loop_body fx (mkS (held st) (cap st) (waiting st) rest) now wt
    | None => (st, [])         (* not enabled: goroutine id is not runnable *)
    end
  end.

(* a trace is a list of (now, event); the log keeps the time of every output *)
Fixpoint run (fx : bool) (st : state) (tr : list (Z * event)) : state * list (Z * output) :=
  match tr with
  | [] => (st, [])
  | (now, ev) :: tr' =>
    let '(st1, o) := step fx st now ev in
    let '(st2, log) := run fx st1 tr' in
    (st2, map (fun x => (now, x)) o ++ log)
  end.

(* ------------------------------------------------------------------------------------ *)
(* A fair scheduler over [step], used to replay harness scripts.

   A script is a list of (time, operation) with increasing times, one operation per
   instant.  Between two script instants the scheduler fires the timer of every blocked
   waiter whose deadline has been reached (repaired code only), in deadline order, and after
   every event it lets every woken goroutine run (timer and scheduler fairness: this is the
   assumption about the Go runtime).  The order in which woken goroutines get the mutex is
   not determined by the code; [prefer] lists goroutine ids that are to run first.      *)

Inductive sop :=
| SAcq (id : N) (w : metric) (timeout : Z)
| STry (w : metric)
| SRel (w : metric)
| STerm
| SProc.

Inductive sobs :=
| BRet (id : N) (ok : bool) (t : Z)   (* Acquire id returned ok at instant t *)
| BNever (id : N)                     (* Acquire id never returns *)
| BTry (ok : bool)
| BWarn (h w : metric)               (* warning callback, emitted just before the BRelDone of its Release *)
| BRelDone                           (* a scripted Release returned *)
| BProc (m : metric).

Definition obs_of (now : Z) (o : output) : list sobs :=
  match o with
  | ORet id ok => [BRet id ok now]
  | OBlock _ => []
  | OTry ok => [BTry ok]
  | OWarn h w => [BWarn h w]
  end.

Definition memN (x : N) (l : list N) : bool := existsb (N.eqb x) l.

(* next goroutine to get the mutex: the first preferred one, else the first in the list *)
Definition pick (prefer : list N) (l : list waiter) : option N :=
  match find (fun x => memN (wid x) prefer) l with
  | Some x => Some (wid x)
  | None => match l with x :: _ => Some (wid x) | [] => None end
  end.

(* the simulator threads (state, events chosen so far (reversed), observations (reversed)) *)
Definition sim := (state * list (Z * event) * list sobs)%type.

Definition sim_step (fx : bool) (s : sim) (now : Z) (ev : event) : sim :=
  let '(st, tr, ob) := s in
  let '(st', o) := step fx st now ev in
  (st', (now, ev) :: tr, rev (flat_map (obs_of now) o) ++ ob).

Fixpoint drain (fx : bool) (prefer : list N) (fuel : nat) (s : sim) (now : Z) : sim :=
  match fuel with
  | O => s
  | S f =>
    match pick prefer (woken (fst (fst s))) with
    | None => s
    | Some id => drain fx prefer f (sim_step fx s now (EWake id)) now
    end
  end.

Definition drain_all (fx : bool) (prefer : list N) (s : sim) (now : Z) : sim :=
  drain fx prefer (length (woken (fst (fst s)))) s now.

(* the blocked waiter with the smallest deadline (first one on ties) *)
Fixpoint min_waiter (l : list waiter) : option waiter :=
  match l with
  | [] => None
  | x :: r => match min_waiter r with
              | Some y => if Z.ltb (wdl y) (wdl x) then Some y else Some x
              | None => Some x
              end
  end.

(* fire due timers: [upto = Some T] fires those with deadline <= T, [None] all of them *)
Fixpoint fire_timers (fx : bool) (prefer : list N) (fuel : nat) (s : sim) (upto : option Z) : sim :=
  match fuel with
  | O => s
  | S f =>
    match min_waiter (waiting (fst (fst s))) with
    | None => s
    | Some x =>
      let due := match upto with Some T => Z.leb (wdl x) T | None => true end in
      if due
      then fire_timers fx prefer f
             (drain_all fx prefer (sim_step fx s (wdl x) (ETimer (wid x))) (wdl x)) upto
      else s
    end
  end.

Definition timers (fx : bool) (prefer : list N) (s : sim) (upto : option Z) : sim :=
  if fx then fire_timers fx prefer (S (length (waiting (fst (fst s))))) s upto else s.

Definition sim_op (fx : bool) (prefer : list N) (s : sim) (now : Z) (op : sop) : sim :=
  match op with
  | SAcq id w timeout => drain_all fx prefer (sim_step fx s now (ECall id w now timeout)) now
  | STry w => drain_all fx prefer (sim_step fx s now (ETry w)) now
  | SRel w =>
    let '(st, tr, ob) := sim_step fx s now (ERelease w) in
    drain_all fx prefer (st, tr, BRelDone :: ob) now
  | STerm => drain_all fx prefer (sim_step fx s now ETerminate) now
  | SProc => let '(st, tr, ob) := s in (st, tr, BProc (held st) :: ob)
  end.

Fixpoint sim_script (fx : bool) (prefer : list N) (s : sim) (sc : list (Z * sop)) : sim :=
  match sc with
  | [] => timers fx prefer s None
  | (now, op) :: sc' =>
    sim_script fx prefer (sim_op fx prefer (timers fx prefer s (Some now)) now op) sc'
  end.

(* result: the chosen trace, and the observations in order, then BNever for whoever is
   still blocked at the end (possible only without timers) *)
Definition simulate (fx : bool) (c : metric) (prefer : list N) (sc : list (Z * sop))
  : list (Z * event) * list sobs :=
  let '(st, tr, ob) := sim_script fx prefer (init c, [], []) sc in
  (rev tr, rev ob ++ map (fun x => BNever (wid x)) (waiting st ++ woken st)).
