(* C25 — shared definitions for the crash-consistency models (SyncedPool.v, Flagged.v).

   - raw database contents: association lists of byte strings (self-contained, no other map library);
   - the durable world: database name -> contents, changed only by *durable operations*
     (open-or-create, drop, put, delete, batch write), which is what a recording
     kvdb.DBProducer sees in the harness;
   - crash = apply a prefix of the durable operation log to the empty world;
   - recovery = flushable.CheckDBsSynced over the surviving databases, in any order
     (it ranges over a Go map);
   - the independent specification of "the contents a database had when a flush completed":
     an abstract per-database map driven directly by the user operations of the history.

   Definitions only. *)
From Coq Require Import NArith List Bool.
From LV Require Import lib.Bytes.
Import ListNotations.
Local Open Scope N_scope.

Definition bytes := list N.
Definition name := N.

Definition DIRTY : N := 222.   (* flushable.DirtyPrefix = 0xde *)
Definition CLEAN : N := 0.     (* flushable.CleanPrefix = 0x00 *)
(* flushable.MarkFlushID: append([]byte{prefix}, flushID...) *)
Definition mark_of (prefix : N) (id : bytes) : bytes := prefix :: id.
Definition is_dirty (m : bytes) : bool := has_prefix [DIRTY] m.   (* bytes.HasPrefix(mark, {DirtyPrefix}) *)

(* ---------- raw contents of one database *)
Definition db := list (bytes * bytes).

Fixpoint dget (k : bytes) (c : db) : option bytes :=
  match c with
  | [] => None
  | (k', v) :: t => if bytes_eqb k' k then Some v else dget k t
  end.
Fixpoint dremove (k : bytes) (c : db) : db :=
  match c with
  | [] => []
  | (k', v) :: t => if bytes_eqb k' k then dremove k t else (k', v) :: dremove k t
  end.
Definition dput (k v : bytes) (c : db) : db := (k, v) :: dremove k c.
Definition ddel (k : bytes) (c : db) : db := dremove k c.

(* one write of a batch / one entry of a flushable cache: None = delete *)
Definition write := (bytes * option bytes)%type.
Definition apply_write (c : db) (w : write) : db :=
  match snd w with
  | Some v => dput (fst w) v c
  | None => ddel (fst w) c
  end.
Definition apply_writes (ws : list write) (c : db) : db := fold_left apply_write ws c.

(* two contents are the same map *)
Definition db_eq (a b : db) : Prop := forall k, dget k a = dget k b.
Definition db_empty (a : db) : Prop := forall k, dget k a = None.

(* ---------- the durable world *)
Definition world := list (name * db).

Fixpoint wget (n : name) (w : world) : option db :=
  match w with
  | [] => None
  | (n', c) :: t => if n' =? n then Some c else wget n t
  end.
Fixpoint wset (n : name) (c : db) (w : world) : world :=
  match w with
  | [] => [(n, c)]
  | (n', c') :: t => if n' =? n then (n, c) :: t else (n', c') :: wset n c t
  end.
Fixpoint wdel (n : name) (w : world) : world :=
  match w with
  | [] => []
  | (n', c') :: t => if n' =? n then wdel n t else (n', c') :: wdel n t
  end.

Inductive dop :=
| DOpen (n : name)                       (* DBProducer.OpenDB: creates the database when absent *)
| DDrop (n : name)                       (* Store.Drop *)
| DPut (n : name) (k v : bytes)          (* Store.Put *)
| DDel (n : name) (k : bytes)            (* Store.Delete *)
| DBatch (n : name) (ws : list write).   (* Batch.Write *)

Definition on_db (n : name) (f : db -> db) (w : world) : world :=
  match wget n w with
  | Some c => wset n (f c) w
  | None => w          (* no such database: the protocols never do this (theorem DB_ops_on_open) *)
  end.

Definition apply_dop (w : world) (o : dop) : world :=
  match o with
  | DOpen n => match wget n w with Some _ => w | None => wset n [] w end
  | DDrop n => wdel n w
  | DPut n k v => on_db n (dput k v) w
  | DDel n k => on_db n (ddel k) w
  | DBatch n ws => on_db n (apply_writes ws) w
  end.
Definition apply_dops (ops : list dop) (w : world) : world := fold_left apply_dop ops w.

(* the world a crash after the first k durable operations leaves behind *)
Definition crash (log : list dop) (k : nat) : world := apply_dops (firstn k log) [].

(* ---------- recovery: flushable.CheckDBsSynced(dbs, flushIDKey, flushID) *)
Inductive cres := COk (id : option bytes) | CDirty | CNotSynced | CNonInit.

Fixpoint check_loop (fk : bytes) (l : list (name * db)) (fid : option bytes) (nonInit : bool) : cres :=
  match l with
  | [] => match fid with
          | Some _ => if nonInit then CNonInit else COk fid
          | None => COk None
          end
  | (_, c) :: t =>
      match dget fk c with
      | None => check_loop fk t fid true
      | Some mark =>
          if is_dirty mark then CDirty
          else let f := match fid with None => mark | Some f => f end in
               if bytes_eqb mark f then check_loop fk t (Some f) nonInit else CNotSynced
      end
  end.
(* Initialize(names, nil) of a fresh SyncedPool / flaggedproducer over the surviving databases *)
Definition check_synced (fk : bytes) (l : list (name * db)) : cres := check_loop fk l None false.

(* l is the surviving databases of w listed in some order (Go map iteration) *)
Definition lists_world (l : list (name * db)) (w : world) : Prop :=
  forall n c, In (n, c) l <-> wget n w = Some c.

(* ---------- oracle orders: a Go `range` over a map visits the key set in some order.
   [arrange o s] = the names of s in the order given by the oracle list o (names of o that are
   not in s, and repetitions, are skipped), followed by the names of s that o does not mention. *)
Fixpoint nmem (n : name) (l : list name) : bool :=
  match l with
  | [] => false
  | x :: t => (x =? n) || nmem n t
  end.
Fixpoint pick (o s seen : list name) : list name :=
  match o with
  | [] => []
  | n :: t => if nmem n s && negb (nmem n seen) then n :: pick t s (n :: seen) else pick t s seen
  end.
Definition arrange (o s : list name) : list name :=
  let p := pick o s [] in p ++ filter (fun n => negb (nmem n p)) s.
Definition nth_order (os : list (list name)) (i : nat) : list name := nth i os [].

(* ---------- histories (shared by both producers) *)
Inductive hop :=
| HOpen (n : name)                         (* producer.OpenDB(name) *)
| HUnder (n : name)                        (* SyncedPool.GetUnderlying(name)  (flagged: = HOpen) *)
| HPut (n : name) (k v : bytes)            (* OpenDB(name).Put *)
| HDel (n : name) (k : bytes)              (* OpenDB(name).Delete *)
| HBatch (n : name) (ws : list write)      (* OpenDB(name).NewBatch(); ...; Write() *)
| HDrop (n : name)                         (* s := OpenDB(name); s.Close(); s.Drop() *)
| HFlush (id : bytes) (orders : list (list name)).  (* Flush(id); orders = map-iteration oracles *)

(* user keys differ from the flush-ID key *)
Definition writes_avoid (fk : bytes) (ws : list write) : bool :=
  forallb (fun w => negb (bytes_eqb (fst w) fk)) ws.
Definition hop_avoids (fk : bytes) (o : hop) : bool :=
  match o with
  | HPut _ k _ | HDel _ k => negb (bytes_eqb k fk)
  | HBatch _ ws => writes_avoid fk ws
  | _ => true
  end.
Definition history_avoids (fk : bytes) (h : list hop) : bool := forallb (hop_avoids fk) h.

(* ---------- the specification of "contents at a completed flush".
   Abstract state: for every open database its user-visible contents (an abstract map driven by
   the user's puts and deletes only) and the set of databases whose drop is pending.
   [drop_now] = true: a drop takes effect at once (flagged producer); false: at the next flush
   (SyncedPool queues drops). *)
Record spec_state := mkSpec { sp_dbs : world; sp_doomed : list name }.
Definition spec_init : spec_state := mkSpec [] [].

Definition sp_open (n : name) (s : spec_state) : spec_state :=
  match wget n (sp_dbs s) with
  | Some _ => s
  | None => mkSpec (wset n [] (sp_dbs s)) (sp_doomed s)
  end.
Definition sp_write (n : name) (f : db -> db) (s : spec_state) : spec_state :=
  let s := sp_open n s in mkSpec (on_db n f (sp_dbs s)) (sp_doomed s).

Record flush_rec := mkRec {
  r_pos : nat;          (* length of the durable log when Flush returned *)
  r_id : bytes;         (* the flush ID *)
  r_snap : world        (* contents of every database open at that moment *)
}.

Definition remove_all (ns : list name) (w : world) : world := fold_left (fun w n => wdel n w) ns w.
(* every database carries the clean mark of the flush after it *)
Definition with_marks (fk id : bytes) (w : world) : world :=
  map (fun nc => (fst nc, dput fk (mark_of CLEAN id) (snd nc))) w.

Definition spec_step (fk : bytes) (drop_now : bool) (s : spec_state) (o : hop)
  : spec_state * option (bytes * world) :=
  match o with
  | HOpen n | HUnder n => (sp_open n s, None)
  | HPut n k v => (sp_write n (dput k v) s, None)
  | HDel n k => (sp_write n (ddel k) s, None)
  | HBatch n ws => (sp_write n (apply_writes ws) s, None)
  | HDrop n =>
      let s := sp_open n s in
      if drop_now then (mkSpec (wdel n (sp_dbs s)) (sp_doomed s), None)
      else (mkSpec (sp_dbs s) (n :: sp_doomed s), None)
  | HFlush id _ =>
      let dbs := with_marks fk id (remove_all (sp_doomed s) (sp_dbs s)) in
      (mkSpec dbs [], Some (id, dbs))
  end.

(* ---------- the property, as a predicate on one crash world *)
Definition crash_consistent (fk : bytes) (recs : list flush_rec) (k : nat) (w : world)
                            (l : list (name * db)) : Prop :=
  match check_synced fk l with
  | COk None => forall n c, wget n w = Some c -> db_empty c
  | COk (Some m) =>
      exists rc, In rc recs /\ (r_pos rc <= k)%nat /\ m = mark_of CLEAN (r_id rc) /\
                 forall n c, wget n w = Some c ->
                   match wget n (r_snap rc) with
                   | Some s => db_eq c s
                   | None => db_empty c
                   end
  | _ => True     (* dirty / not synced / non-initialised is reported *)
  end.

(* The same with "the flush in progress" allowed: the record completed at or before k, or it is the
   first record of the history to complete after k. *)
Definition rec_at (recs : list flush_rec) (k : nat) (rc : flush_rec) : Prop :=
  (r_pos rc <= k)%nat \/
  ((k < r_pos rc)%nat /\ forall rc', In rc' recs -> (k < r_pos rc')%nat -> (r_pos rc <= r_pos rc')%nat).

Definition crash_consistent_ip (fk : bytes) (recs : list flush_rec) (k : nat) (w : world)
                               (l : list (name * db)) : Prop :=
  match check_synced fk l with
  | COk None => forall n c, wget n w = Some c -> db_empty c
  | COk (Some m) =>
      exists rc, In rc recs /\ rec_at recs k rc /\ m = mark_of CLEAN (r_id rc) /\
                 forall n c, wget n w = Some c ->
                   match wget n (r_snap rc) with
                   | Some s => db_eq c s
                   | None => db_empty c
                   end
  | _ => True
  end.
