(* A scheduler over model/Fetcher.v [step] that turns a harness script into the log the MODEL would
   produce with an ideal runtime (timer delivered and taken exactly at its due time, requests called at
   the moment they are issued, first announcer chosen, map scanned in model order).  Used by the C16
   driver to evaluate the executable specification on model-generated logs (model vs spec).
   Definitions only. *)
From Coq Require Import NArith ZArith List Bool.
From LV Require Import model.Fetcher spec.FetcherSpec.
Import ListNotations.

Inductive fop :=
| FNotify (peer : N) (ids : list N) (atime : Z)
| FReceived (ids : list N)
| FInterest (id : N) (b : bool)
| FSuspend (b : bool)
| FEnd.

Record fsim := mkFS {
  fs_st : state;
  fs_notint : list N;      (* ids OnlyInterested currently rejects *)
  fs_susp : bool;
  fs_log : list lentry;    (* reversed *)
  fs_tr : list (Z * event) (* the events chosen so far, reversed *)
}.

Definition interesting (s : fsim) (ids : list N) : list N :=
  filter (fun id => negb (memN id (fs_notint s))) ids.

Definition log_reqs (t : Z) (rq : list request) : list lentry :=
  rev (map (fun r => LReq t (fst r) (snd r)) rq).

(* timer passes that are due up to (and including) time T, each at its due time *)
Fixpoint fire_passes (c : cfg) (fuel : nat) (s : fsim) (T : Z) : fsim :=
  match fuel with
  | O => s
  | S f =>
    match timer_due (fs_st s) with
    | Some due =>
      if (due <=? T)%Z then
        let '(st1, _) := step true c (fs_st s) due ETick in
        let all := keys_now st1 in
        let ints := interesting s all in
        let '(st2, rq) := step true c st1 due (ETimer ints [] []) in
        fire_passes c f (mkFS st2 (fs_notint s) (fs_susp s)
                           (log_reqs due rq ++ LPass due all ints :: fs_log s)
                           ((due, ETimer ints [] []) :: (due, ETick) :: fs_tr s)) T
      else s
    | None => s
    end
  end.

Definition sim_fop (c : cfg) (fuel : nat) (s0 : fsim) (T : Z) (op : fop) : fsim :=
  let s := fire_passes c fuel s0 T in
  match op with
  | FNotify peer ids atime =>
    let ints := interesting s ids in
    let '(st1, rq) := step true c (fs_st s) T (ENotify peer ids atime ints (fs_susp s) []) in
    mkFS st1 (fs_notint s) (fs_susp s) (log_reqs T rq ++ LNotify T peer atime ints :: fs_log s)
         ((T, ENotify peer ids atime ints (fs_susp s) []) :: fs_tr s)
  | FReceived ids =>
    let '(st1, _) := step true c (fs_st s) T (EReceived ids) in
    mkFS st1 (fs_notint s) (fs_susp s) (LRecv T ids :: fs_log s) ((T, EReceived ids) :: fs_tr s)
  | FInterest id b =>
    if b then mkFS (fs_st s) (filter (fun x => negb (x =? id)%N) (fs_notint s)) (fs_susp s) (fs_log s) (fs_tr s)
    else mkFS (fs_st s) (id :: fs_notint s) (fs_susp s) (LUninterest T id :: fs_log s) (fs_tr s)
  | FSuspend b =>
    mkFS (fs_st s) (fs_notint s) b (if b then fs_log s else LUnsuspend T :: fs_log s) (fs_tr s)
  | FEnd => mkFS (fs_st s) (fs_notint s) (fs_susp s) (LEnd T :: fs_log s) (fs_tr s)
  end.

Definition sim_fetcher (c : cfg) (fuel : nat) (sc : list (Z * fop)) : fsim :=
  fold_left (fun s x => sim_fop c fuel s (fst x) (snd x)) sc (mkFS (init 0%Z) [] false [] []).
Definition simulate_fetcher (c : cfg) (fuel : nat) (sc : list (Z * fop)) : list lentry :=
  rev (fs_log (sim_fetcher c fuel sc)).
