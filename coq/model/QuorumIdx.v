(* Gallina port of emitter/ancestor/quorum_indexer.go (QuorumIndexer: global matrix, self-parent
   observations, cached weighted medians with the dirty flag, GetMetricOf, MetricStrategy.Choose)
   and utils/wmedian/median.go (Of).  The vector clock comes from model/VecIndex.v (merged).
   Go's sort.Slice is not stable: the model sorts with a stable insertion sort and
   proofs/QuorumProofs.v shows the median does not depend on which descending arrangement is used. *)
From Coq Require Import List Arith NArith Bool.
From LV Require Import model.VecIndex.
Import ListNotations.
Open Scope N_scope.

Definition FORKSEQ : N := 2147483646.          (* math.MaxUint32/2 - 1 *)
Definition seq_of (x : hbs) : N := if is_fork x then FORKSEQ else fst x.   (* seqOf *)
Definition W64 : N := 18446744073709551616.

(* weightedSeq = (seq, weight) *)
Definition wseq := (N * N)%type.
(* sort.Slice(pairs, a.seq > b.seq): one particular descending arrangement *)
Fixpoint insert_desc (p : wseq) (l : list wseq) : list wseq :=
  match l with [] => [p] | h :: t => if fst h <? fst p then p :: l else h :: insert_desc p t end.
Definition sort_desc (l : list wseq) : list wseq := fold_right insert_desc [] l.
(* wmedian.Of(values, stop): None = panic("invalid median") *)
Fixpoint wmedian_from (cur : N) (l : list wseq) (stop : N) : option wseq :=
  match l with [] => None
  | p :: t => let cur' := cur + snd p in if stop <=? cur' then Some p else wmedian_from cur' t stop end.
Definition wmedian_of (l : list wseq) (stop : N) : option wseq := wmedian_from 0 l stop.

Record qidx := { qn : nat; qmat : list (list N) (* row = observed validator, column = observer *);
                 qself : list N; qmed : list N; qdirty : bool }.
Definition qi_new (n : nat) : qidx :=
  {| qn := n; qmat := repeat (repeat 0 n) n; qself := repeat 0 n; qmed := repeat 0 n; qdirty := true |}.

(* in-range slice write (out of range = Go panics; reported by qi_process as None) *)
Fixpoint upd_nth {A} (l : list A) (i : nat) (x : A) : list A :=
  match l, i with [] , _ => [] | _ :: t, O => x :: t | h :: t, S i' => h :: upd_nth t i' x end.

(* ProcessEvent(event, selfEvent): clock = GetMergedHighestBefore(event.ID()), creator = its index *)
Definition qi_process (st : qidx) (clock : list hbs) (creator : nat) (self : bool) : option qidx :=
  if Nat.leb (qn st) creator && negb (Nat.eqb (qn st) 0) then None else
  let seqs := map (fun v => seq_of (hb_get clock v)) (List.seq 0 (qn st)) in
  Some {| qn := qn st;
          qmat := map (fun rs : list N * N => upd_nth (fst rs) creator (snd rs)) (combine (qmat st) seqs);
          qself := if self then seqs else qself st;
          qmed := qmed st; qdirty := true |}.

(* recacheState: one weighted median per row; None = wmedian.Of panicked *)
Definition row_median (ws : list N) (q : N) (row : list N) : option N :=
  match wmedian_of (sort_desc (combine row ws)) q with Some p => Some (fst p) | None => None end.
Fixpoint all_some {A} (l : list (option A)) : option (list A) :=
  match l with [] => Some [] | None :: _ => None
  | Some x :: t => match all_some t with Some r => Some (x :: r) | None => None end end.
Definition qi_recache (ws : list N) (q : N) (st : qidx) : option qidx :=
  match all_some (map (row_median ws q) (qmat st)) with
  | None => None
  | Some meds => Some {| qn := qn st; qmat := qmat st; qself := qself st; qmed := meds; qdirty := false |} end.
Definition qi_fresh ws q st : option qidx := if qdirty st then qi_recache ws q st else Some st.

(* GetGlobalMedianSeqs *)
Definition qi_medians ws q st : option (list N * qidx) :=
  match qi_fresh ws q st with Some st' => Some (qmed st', st') | None => None end.

(* GetMetricOf(id): clock = merged clock of id; Metric is uint64, += wraps *)
Definition metric_sum (diff : N -> N -> N -> nat -> N) (med self : list N) (clock : list hbs) (n : nat) : N :=
  fold_left (fun acc v => (acc + diff (nth v med 0) (nth v self 0) (seq_of (hb_get clock v)) v) mod W64)
            (List.seq 0 n) 0.
Definition qi_metric diff ws q st (clock : list hbs) : option (N * qidx) :=
  match qi_fresh ws q st with
  | Some st' => Some (metric_sum diff (qmed st') (qself st') clock (qn st'), st')
  | None => None end.

(* MetricStrategy.Choose over the metrics of the options: first maximum, where a zero running
   maximum is always replaced (maxWeight == 0 || weight > maxWeight) *)
Definition choose_max (ms : list N) : nat :=
  fst (fst (fold_left (fun st m => let '(maxi, maxw, i) := st in
        if (maxw =? 0) || (maxw <? m) then (i, m, S i) else (maxi, maxw, S i)) ms (0%nat, 0, 0%nat))).

(* the diff-metric family used by the harness (test fixture, mirrors harness/cmd/vh/c20.go) *)
Definition diff_family (k : N) (median current update : N) (v : nat) : N :=
  match k with
  | 0 => 1
  | 1 => if update <=? current then 0
         else (N.min update median) - (N.min current median)        (* progress towards the median *)
  | 2 => ((update * 2305843009213693952) mod W64 + (median * 1099511627776) mod W64) mod W64   (* <<61, <<40: overflows *)
  | 3 => (((update + W64 - current) mod W64) * (N.of_nat v + 1)) mod W64   (* wrapping subtraction *)
  | _ => if median <? update then 18446744073709551615 else update        (* saturates the sum *)
  end.

(* ProcessEvent of an event whose creator is not in the validator set: validators.GetIdx reads a Go map
   and returns the zero value, so column 0 is silently overwritten (outside the property: creators are
   validators by C13; kept in the model so that the correspondence covers it) *)
Definition qi_process_id (st : qidx) (clock : list hbs) (creator : option nat) (self : bool) : option qidx :=
  qi_process st clock (match creator with Some c => c | None => 0%nat end) self.
