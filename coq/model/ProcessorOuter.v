(* C15, round 2: Enqueue as TWO steps around the core step machine of model/Processor.v.

   Go's Enqueue is  Acquire(events.Metric())  ;  checker.Enqueue(..)  ;  orderedInserter.Enqueue(..).
   Between the first and the other two the caller already holds its semaphore share but the batch
   is not yet known to the workers; once Stop() has closed `quit`, workers.Enqueue's
   `select { case w.tasks <- fn: ; case <-w.quit: return errTerminated }` may refuse the batch.
     OAcq b         Acquire as one tryAcquire against EVERYTHING the semaphore holds (core +
                    pending + leaked); refused once quit is closed (Terminate);
     OQueue id      the queueing succeeds: the batch becomes a core SEnq (its share moves from
                    [opend] to the core's [held]); once Stop() has begun the task is queued for
                    workers that are leaving: the model counts it as never handled, its share stays
                    held for ever ([ostuck]) (if a worker does pick it up, that run is the one in
                    which the batch was queued just before quit);
     OQueueFail id  (only after OQuit) errTerminated: the batch is refused;
                    repaired code (fixes/C15.patch): the share is released;
                    code as found ([fixedq = false]): the share stays acquired ([oleak]);
     OQuit          = OCore SQuit: close(quit) + semaphore.Terminate(); the workers may still make core
                    moves (SConsume/SArrive/SAbort) until OCore SStop;
     OCore x        a step of the core machine (SEnq b = OAcq b; OQueue (b_id b) without anything
                    in between; its Acquire is checked against the full semaphore here).
   [otrace] is ghost: the core steps taken so far (newest first); the core state is exactly the
   core run of that trace, so every theorem of props/C15.v applies to it. *)
From Coq Require Import NArith List Bool.
From LV Require Import model.Buffer model.Processor.
Import ListNotations.
Local Open Scope N_scope.

Record ost := mkOst {
  ocore : pst;
  opend : list batch;
  oquit : bool;
  ostuck_n : N; ostuck_s : N;
  oleak_n : N; oleak_s : N;
  otrace : list pstep
}.

Definition pend_n (l : list batch) : N := fold_right (fun b a => batch_num b + a) 0 l.
Definition pend_s (l : list batch) : N := fold_right (fun b a => batch_size b + a) 0 l.
(* DataSemaphore.processing as the real semaphore sees it *)
Definition osem_n (o : ost) : N := held_n (ocore o) + pend_n (opend o) + ostuck_n o + oleak_n o.
Definition osem_s (o : ost) : N := held_s (ocore o) + pend_s (opend o) + ostuck_s o + oleak_s o.

Fixpoint take_pend (id : N) (l : list batch) : option (batch * list batch) :=
  match l with
  | [] => None
  | x :: r => if b_id x =? id then Some (x, r)
              else match take_pend id r with Some (y, r') => Some (y, x :: r') | None => None end
  end.

Inductive ostep := OCore (x : pstep) | OAcq (b : batch) | OQueue (id : N) | OQueueFail (id : N) | OQuit.

Section O.
  Variable fc fp : list out -> entry -> bool.
  Variable cap_n cap_s lim_n lim_s : N.
  Variable fixedq : bool.

  Definition core_step (o : ost) (x : pstep) : ost :=
    mkOst (pstep_run fc fp cap_n cap_s lim_n lim_s (ocore o) x) (opend o)
          (match x with SStop | SQuit => true | _ => oquit o end)
          (ostuck_n o) (ostuck_s o) (oleak_n o) (oleak_s o) (x :: otrace o).

  Definition fits (o : ost) (b : batch) : bool :=
    negb ((cap_n <? osem_n o + batch_num b) || (cap_s <? osem_s o + batch_size b)).

  Definition ostep_run (o : ost) (x : ostep) : ost :=
    match x with
    | OCore (SEnq b) =>
      if oquit o || negb (fits o b) then o else core_step o (SEnq b)
    | OCore y => core_step o y
    | OAcq b =>
      if oquit o || negb (fits o b) then o
      else mkOst (ocore o) (opend o ++ [b]) (oquit o) (ostuck_n o) (ostuck_s o) (oleak_n o) (oleak_s o) (otrace o)
    | OQueue id =>
      match take_pend id (opend o) with
      | None => o
      | Some (b, pd) =>
        let o1 := mkOst (ocore o) pd (oquit o) (ostuck_n o) (ostuck_s o) (oleak_n o) (oleak_s o) (otrace o) in
        if stopped (ocore o) || quitf (ocore o) then
          mkOst (ocore o) pd (oquit o) (ostuck_n o + batch_num b) (ostuck_s o + batch_size b)
                (oleak_n o) (oleak_s o) (otrace o)
        else core_step o1 (SEnq b)
      end
    | OQueueFail id =>
      if negb (oquit o) then o else
      match take_pend id (opend o) with
      | None => o
      | Some (b, pd) =>
        if fixedq then mkOst (ocore o) pd (oquit o) (ostuck_n o) (ostuck_s o) (oleak_n o) (oleak_s o) (otrace o)
        else mkOst (ocore o) pd (oquit o) (ostuck_n o) (ostuck_s o)
                   (oleak_n o + batch_num b) (oleak_s o + batch_size b) (otrace o)
      end
    | OQuit => core_step o SQuit
    end.

  Definition ost0 (h0 : N) : ost := mkOst (pst0 h0) [] false 0 0 0 0 [].
  Definition orun (h0 : N) (steps : list ostep) : ost := fold_left ostep_run steps (ost0 h0).
End O.
