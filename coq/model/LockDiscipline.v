(* C28 — the lock-discipline table: data format and the executable check.

   [gen/LockTable.v] is REGENERATED FROM THE GO SOURCE on every run by harness/cmd/lockscan
   (go/ast).  It contains one [lock_row] per (function, object, mutex): what the translator saw
   the function do to the fields guarded by that mutex.  This file fixes the row format and the
   decidable predicate [method_ok]; props/C28.v proves [forallb method_ok lock_table = true]
   by computation on the regenerated table, and proofs/LinTable.v turns that boolean into the
   premise of the generic linearizability theorem of proofs/Lin.v.

   Definitions only (no proofs): the model keeps running when a proof breaks. *)
From Coq Require Import String List NArith Bool.
Import ListNotations.
Local Open Scope N_scope.

(* how a function holds a mutex *)
Inductive lmode := LNone | LShared | LExcl.

Definition lmode_eqb (a b : lmode) : bool :=
  match a, b with LNone, LNone | LShared, LShared | LExcl, LExcl => true | _, _ => false end.

Record lock_row := mk_row {
  r_type    : string;   (* receiver type of the reported function ("-" for a plain function) *)
  r_method  : string;   (* function name *)
  r_exported: bool;     (* an exported method of one of the reported thread-safe types *)
  r_owner   : string;   (* the object whose fields are accessed: "self" = the receiver, otherwise the
                           access path (another object of a thread-safe type reached through a field/local) *)
  r_mutex   : string;   (* the mutex guarding the fields counted in this row ("" : the function touches no guarded field and takes no mutex) *)
  r_mode    : lmode;    (* strongest mode in which the function (or a same-object helper it calls) takes r_mutex *)
  r_reads   : N;        (* guarded-field read accesses (helpers inlined) *)
  r_writes  : N;        (* guarded-field write accesses: assignment, inc/dec, map store/delete, mutating method of the pointee *)
  r_unlocked_reads  : N;  (* ... of which: performed while r_mutex is not held *)
  r_unlocked_writes : N;
  r_shared_writes   : N;  (* writes performed while r_mutex is held in shared mode only *)
  r_sections : N;       (* number of distinct critical sections of r_mutex containing guarded accesses *)
  r_reacquire: bool;    (* acquires r_mutex while already holding it (self-deadlock) *)
  r_condwait : bool;    (* calls sync.Cond.Wait inside the section (section is split at the wait) *)
  r_quiescent: bool     (* lifecycle function that must not run concurrently with anything (trusted list in lockscan) *)
}.

(* The lock discipline of one row.
   - every guarded access inside a critical section of the guarding mutex;
   - writes only under the exclusive mode;
   - for accesses to the function's own object: ONE critical section (the whole effect is atomic);
     a section split by Cond.Wait is accepted only under the exclusive mutex (sync.Cond semantics:
     the wait releases and re-takes it; the retry loop is then re-validated under the lock);
   - no re-acquisition (sync mutexes are not re-entrant);
   - sync.Cond.Wait only inside a section of the exclusive mutex that accesses the guarded state;
   - the reported mode is consistent with the counts. *)
Definition is_self (r : lock_row) : bool := String.eqb (r_owner r) "self".

Definition accesses (r : lock_row) : N := r_reads r + r_writes r.

Definition method_ok (r : lock_row) : bool :=
  r_quiescent r ||
  ( (r_unlocked_reads r =? 0) && (r_unlocked_writes r =? 0) && (r_shared_writes r =? 0)
    && negb (r_reacquire r)
    && (if is_self r then (r_sections r <=? 1) || (r_condwait r && lmode_eqb (r_mode r) LExcl) else true)
    && (if 0 <? r_writes r then lmode_eqb (r_mode r) LExcl else true)
    && (if 0 <? accesses r then negb (lmode_eqb (r_mode r) LNone) else true)
    && (if r_condwait r then lmode_eqb (r_mode r) LExcl && (0 <? accesses r) else true) ).

(* what the discipline means, as a proposition (used as the premise of the Lin theorem) *)
Inductive op_class := ClsExcl | ClsSharedRO | ClsStateless | ClsQuiescent.

Definition classify (r : lock_row) : op_class :=
  if r_quiescent r then ClsQuiescent
  else if accesses r =? 0 then ClsStateless
  else match r_mode r with
       | LExcl => ClsExcl
       | LShared => ClsSharedRO
       | LNone => ClsStateless     (* unreachable for an ok row with accesses > 0 *)
       end.

Definition row_key (r : lock_row) : string * string := (r_type r, r_method r).

Definition key_eqb (a b : string * string) : bool :=
  String.eqb (fst a) (fst b) && String.eqb (snd a) (snd b).

Definition row_in (ks : list (string * string)) (r : lock_row) : bool :=
  existsb (key_eqb (row_key r)) ks.

(* rows of a table that belong to one reported type and are exported self rows *)
Definition rows_of (t : string) (tbl : list lock_row) : list lock_row :=
  filter (fun r => String.eqb (r_type r) t && r_exported r && is_self r) tbl.

Definition method_names (rows : list lock_row) : list string := map r_method rows.

(* String-free summary of a row for the extracted driver (the OCaml layer cannot see Coq's [string]):
   (character codes of the type, of the method, exported self row?, method_ok).  Extract.v evaluates
   [map row_summary lock_table] inside Coq, so the verdict per row is computed by Coq's VM. *)
Definition codes (s : string) : list N := map Ascii.N_of_ascii (list_ascii_of_string s).

Definition row_summary (r : lock_row) : list N * list N * bool * bool :=
  (codes (r_type r), codes (r_method r), r_exported r, method_ok r).

(* ---- callbacks handed to the objects at construction (regenerated with the table; see lockscan) ---- *)
Record cb_row := mk_cb {
  cb_site : string;       (* file:line of the constructor call *)
  cb_object : string;     (* which object receives the callbacks *)
  cb_literals : N;        (* callbacks that are function literals (inspected) *)
  cb_reentrant : N;       (* calls, from such a literal, on the object being constructed *)
  cb_external : N         (* callbacks supplied from elsewhere (not inspectable here) *)
}.
Definition cb_ok (r : cb_row) : bool := cb_reentrant r =? 0.
