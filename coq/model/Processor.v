(* Model of gossip/dagprocessor/processor.go (Processor) — property C15.

   The processor is three concurrent parts; the model is a step machine whose steps are the
   points at which they interact:
     SEnq b        an Enqueue caller gets through eventsSemaphore.Acquire (modelled as ONE
                   tryAcquire: a blocked Acquire is the step happening later, a timed-out one is
                   a failing step) and queues the batch on the single orderedInserter worker;
     SArrive b pos the `checked` closure of event pos of batch b fires: its result enters the
                   batch's channel checkedC (FIFO; CheckParentless runs on the checker worker, the
                   application decides when and in which order the closures fire);
     SConsume      the inserter worker (there is exactly one, so batches are handled strictly in
                   queue order) takes one result from the head batch's channel and runs the
                   body of the `select` case: the reassembly loop for ordered batches, or
                   `process` directly; when `processed == len(events)` it announces, calls
                   done() and moves on to the next batch;
     SQuit         Stop() begins: close(quit) and semaphore.Terminate(); Enqueue is refused from now on,
                   the workers may still make moves (Go's select between quit and ready work is a
                   coin flip): SConsume, or
     SAbort        the inserter's select takes the quit branch: it leaves the batch at the head of its
                   queue (deferred done(): PAborted) and goes on to the next task;
     SStop         Stop() ends: the workers are gone, buffer.Clear().  Without a preceding SQuit it
                   stands for the whole of Stop(): the inserter leaves the batch it is in.
   Every interleaving of Enqueue callers, check results and the inserter is a sequence of these
   steps; the theorems quantify over all step sequences.

   `process` (reject on check error / far-future drop with uint32 wrap-around / PushEvent into the
   ordering buffer) uses the C14 model (model/Buffer.v, repaired pushEvent).  The Released
   wrapper installed by New (semaphore.Release({1, size}) then the application's Released) is
   applied to every Released of the buffer's log and to the two direct releases of `process`.
   datasemaphore: tryAcquire / Release incl. the clamp-and-warn branch (non-blocking part of C30).

   Application callbacks: Exists/Get/Process as in Buffer.v; HighestLamport() returns the
   highest Lamport time among successfully processed events (at least the initial value) —
   this is what the harness implements.

   Definitions only. *)
From Coq Require Import NArith List Bool.
From LV Require Import model.Buffer.
Import ListNotations.
Local Open Scope N_scope.

Definition w32 (x : N) : N := x mod 4294967296.

Record pevent := mkPev {
  pg : N;               (* global index of this event copy in the script *)
  p_eid : N; p_pars : list N; p_size : N; p_lamport : N;
  p_bad : bool          (* CheckParentless reports an error for it *)
}.
Record batch := mkBatch { b_id : N; b_ordered : bool; b_events : list pevent }.

Record bstate := mkBs {
  bs_batch : batch;
  bs_chan : list nat;          (* checkedC: positions whose result arrived, oldest first *)
  bs_arrived : list nat;       (* all positions that ever arrived (a closure fires once) *)
  bs_results : list bool;      (* orderedResults[i] != nil *)
  bs_processed : nat;
  bs_request : list N          (* toRequest *)
}.

(* error codes as in Buffer.v plus 6 = CheckParentless error *)
Inductive pout :=
| PAccepted (b : N) | PBusy (b : N)
| PHandle (g : N)                       (* process(peer, event, err) entered for copy g *)
| PHighest                              (* HighestLamport() called *)
| PCheck (g e : N) (ok : bool) | PProcess (g e : N) (ok : bool)
| PReleased (g e err : N)
| PAnnounce (b : N) (ids : list N)
| PDone (b : N)
| PAborted (b : N)                      (* done() of a batch cut short by Stop *)
| PStopped.

Record pst := mkPst {
  buf : st;
  pushed : list N;             (* global index of buffer copy 0, 1, 2, ... *)
  tab : list pevent;           (* events of accepted batches *)
  highest : N;
  held_n : N; held_s : N;      (* eventsSemaphore.processing *)
  warned : bool;               (* the semaphore's warning callback fired *)
  queue : list bstate;         (* batches queued on the inserter, head = current *)
  plog : list pout;            (* newest first *)
  stopped : bool;
  poof : bool;                 (* the reassembly loop ran out of fuel with work left (never happens) *)
  quitf : bool                 (* Stop() has begun: quit is closed, the semaphore terminated *)
}.

Definition pemit (s : pst) (o : pout) : pst :=
  mkPst (buf s) (pushed s) (tab s) (highest s) (held_n s) (held_s s) (warned s) (queue s)
        (o :: plog s) (stopped s) (poof s) (quitf s).
Definition set_queue (s : pst) (q : list bstate) : pst :=
  mkPst (buf s) (pushed s) (tab s) (highest s) (held_n s) (held_s s) (warned s) q
        (plog s) (stopped s) (poof s) (quitf s).

Definition batch_num (b : batch) : N := N.of_nat (length (b_events b)).
Definition batch_size (b : batch) : N := fold_right (fun e a => p_size e + a) 0 (b_events b).

(* DataSemaphore.Release *)
Definition sem_release (s : pst) (n sz : N) : pst :=
  if (held_n s <? n) || (held_s s <? sz) then
    mkPst (buf s) (pushed s) (tab s) (highest s) 0 0 true (queue s) (plog s) (stopped s) (poof s) (quitf s)
  else
    mkPst (buf s) (pushed s) (tab s) (highest s) (held_n s - n) (held_s s - sz) (warned s)
          (queue s) (plog s) (stopped s) (poof s) (quitf s).

Definition lookup_g (s : pst) (g : N) : option pevent := find (fun e => pg e =? g) (tab s).
Definition size_of_g (s : pst) (g : N) : N :=
  match lookup_g s g with Some e => p_size e | None => 0 end.
Definition lamport_of_g (s : pst) (g : N) : N :=
  match lookup_g s g with Some e => p_lamport e | None => 0 end.
Definition g_of_cid (s : pst) (c : N) : N := nth (N.to_nat c) (pushed s) 0.

(* the Released wrapper of New: semaphore first, then the application's callback *)
Definition released_cb (s : pst) (g e err : N) : pst :=
  pemit (sem_release s 1 (size_of_g s g)) (PReleased g e err).

Definition set_highest (s : pst) (h : N) : pst :=
  mkPst (buf s) (pushed s) (tab s) h (held_n s) (held_s s) (warned s) (queue s) (plog s) (stopped s) (poof s) (quitf s).

(* replay one buffer callback (oldest first) as the processor's callbacks see it *)
Definition apply_out (s : pst) (o : out) : pst :=
  match o with
  | OCheck c e ok => pemit s (PCheck (g_of_cid s c) e ok)
  | OProcess c e ok =>
    let g := g_of_cid s c in
    let s1 := pemit s (PProcess g e ok) in
    if ok then set_highest s1 (N.max (highest s1) (lamport_of_g s1 g)) else s1
  | OReleased c e err => released_cb s (g_of_cid s c) e err
  | _ => s
  end.

(* the callbacks the buffer made since [old] (both logs newest first) *)
Definition delta (old new : list out) : list out :=
  rev (firstn (length new - length old) new).

Definition set_buf (s : pst) (b : st) (pu : list N) : pst :=
  mkPst b pu (tab s) (highest s) (held_n s) (held_s s) (warned s) (queue s) (plog s) (stopped s) (poof s) (quitf s).

Section Proc.
  Variable fails_check fails_process : list out -> entry -> bool.
  Variable cap_n cap_s : N.        (* eventsSemaphore.maxProcessing *)
  Variable lim_n lim_s : N.        (* cfg.EventsBufferLimit *)

  Definition pst0 (h0 : N) : pst := mkPst st0 [] [] h0 0 0 false [] [] false false false.

  (* Processor.process; returns the parents to request *)
  Definition process (s : pst) (ev : pevent) : pst * list N :=
    if p_bad ev then (released_cb (pemit s (PHandle (pg ev))) (pg ev) (p_eid ev) 6, [])
    else
      (* HighestLamport() is called, then event.Lamport() is read *)
      let s := pemit (pemit s PHighest) (PHandle (pg ev)) in
      let hl := highest s in
      let maxdiff := w32 (1 + w32 lim_n) in
      if w32 (hl + maxdiff) <? p_lamport ev then (released_cb s (pg ev) (p_eid ev) 4, [])
      else
        let b0 := buf s in
        let b1 := push_event fails_check fails_process true lim_n lim_s b0
                             (p_eid ev) (p_pars ev) (p_size ev) in
        let s1 := set_buf s b1 (pushed s ++ [pg ev]) in
        let s2 := fold_left apply_out (delta (log b0) (log b1)) s1 in
        let complete := match log b1 with OPushed _ ok _ _ :: _ => ok | _ => false end in
        if negb complete && (p_lamport ev <=? w32 (hl + maxdiff / 10))
        then (s2, p_pars ev) else (s2, []).

  (* SEnq: Acquire (one tryAcquire) + the two worker queues *)
  Definition enqueue (s : pst) (b : batch) : pst :=
    if quitf s || stopped s then s else      (* after Terminate the semaphore refuses *)
    let n := batch_num b in let sz := batch_size b in
    if (cap_n <? held_n s + n) || (cap_s <? held_s s + sz) then pemit s (PBusy (b_id b))
    else
      let bs := mkBs b [] [] (map (fun _ => false) (b_events b)) 0 [] in
      pemit (mkPst (buf s) (pushed s) (tab s ++ b_events b) (highest s)
                   (held_n s + n) (held_s s + sz) (warned s) (queue s ++ [bs])
                   (plog s) (stopped s) (poof s) (quitf s))
            (PAccepted (b_id b)).

  (* SArrive *)
  Definition memnat (x : nat) (l : list nat) : bool := existsb (Nat.eqb x) l.
  Definition arrive_bs (bs : bstate) (pos : nat) : bstate :=
    if (Nat.ltb pos (length (b_events (bs_batch bs)))) && negb (memnat pos (bs_arrived bs))
    then mkBs (bs_batch bs) (bs_chan bs ++ [pos]) (pos :: bs_arrived bs) (bs_results bs)
              (bs_processed bs) (bs_request bs)
    else bs.
  Definition arrive (s : pst) (b : N) (pos : nat) : pst :=
    if stopped s then s else
    set_queue s (map (fun bs => if b_id (bs_batch bs) =? b then arrive_bs bs pos else bs) (queue s)).

  Fixpoint set_nth {A} (i : nat) (l : list A) (v : A) : list A :=
    match l, i with
    | [], _ => []
    | _ :: r, O => v :: r
    | a :: r, S j => a :: set_nth j r v
    end.

  (* for i := processed; processed < len(orderedResults) && orderedResults[i] != nil; i++ *)
  Definition set_poof (s : pst) : pst :=
    mkPst (buf s) (pushed s) (tab s) (highest s) (held_n s) (held_s s) (warned s) (queue s) (plog s)
          (stopped s) true (quitf s).

  Fixpoint flush (fuel : nat) (s : pst) (bs : bstate) (i : nat) : pst * bstate :=
    match fuel with
    | O => ((if Nat.ltb (bs_processed bs) (length (bs_results bs)) && nth i (bs_results bs) false
             then set_poof s else s), bs)     (* out of fuel with work left: flagged *)
    | S f =>
      if Nat.ltb (bs_processed bs) (length (bs_results bs)) && nth i (bs_results bs) false then
        match nth_error (b_events (bs_batch bs)) i with
        | None => (s, bs)
        | Some ev =>
          let '(s1, rq) := process s ev in
          flush f s1 (mkBs (bs_batch bs) (bs_chan bs) (bs_arrived bs)
                           (set_nth i (bs_results bs) false)
                           (S (bs_processed bs)) (bs_request bs ++ rq)) (S i)
        end
      else (s, bs)
    end.

  (* SConsume: one move of the inserter worker.  If the batch at the head of its queue has
     `processed == len(events)` the loop `for processed < eventsLen` is over: announce, done(),
     next task.  Otherwise one iteration of `select { case res := <-checkedC: ... }`. *)
  Definition consume (s : pst) : pst :=
    if stopped s then s else
    match queue s with
    | [] => s
    | bs :: rest =>
      if Nat.leb (length (b_events (bs_batch bs))) (bs_processed bs) then
        let s2 := match bs_request bs with
                  | [] => s
                  | rq => pemit s (PAnnounce (b_id (bs_batch bs)) rq)
                  end in
        set_queue (pemit s2 (PDone (b_id (bs_batch bs)))) rest
      else
      match bs_chan bs with
      | [] => s                                   (* blocked on checkedC *)
      | pos :: ch =>
        let bs0 := mkBs (bs_batch bs) ch (bs_arrived bs) (bs_results bs) (bs_processed bs)
                        (bs_request bs) in
        let '(s1, bs1) :=
          if b_ordered (bs_batch bs) then
            let bs' := mkBs (bs_batch bs0) (bs_chan bs0) (bs_arrived bs0)
                            (set_nth pos (bs_results bs0) true) (bs_processed bs0)
                            (bs_request bs0) in
            flush (S (length (b_events (bs_batch bs)))) s bs' (bs_processed bs')
          else
            match nth_error (b_events (bs_batch bs)) pos with
            | None => (s, bs0)
            | Some ev =>
              let '(s1, rq) := process s ev in
              (s1, mkBs (bs_batch bs0) (bs_chan bs0) (bs_arrived bs0) (bs_results bs0)
                        (S (bs_processed bs0)) (bs_request bs0 ++ rq))
            end in
        set_queue s1 (bs1 :: rest)
      end
    end.

  (* Stop: quit, Terminate, wg.Wait, buffer.Clear() *)
  Definition stop (s : pst) : pst :=
    if stopped s then s else
    (* the inserter leaves the batch it is in through `case <-f.quit: return`; the deferred
       done() still runs.  (Batches queued behind it are dropped; see design-notes/C15.md.) *)
    let s := match queue s with
             | bs :: _ => if quitf s then s else pemit s (PAborted (b_id (bs_batch bs)))
             | [] => s
             end in
    let b0 := buf s in
    let b1 := clear_buf b0 in
    let s1 := set_buf s b1 (pushed s) in
    let s2 := fold_left apply_out (delta (log b0) (log b1)) s1 in
    pemit (mkPst (buf s2) (pushed s2) (tab s2) (highest s2) (held_n s2) (held_s s2) (warned s2)
                 (queue s2) (plog s2) true (poof s2) true) PStopped.

  (* SQuit: Stop() begins (close(quit), Terminate).  From then on the inserter, whenever its `select`
     takes the quit branch, leaves the batch it is in (or has just taken up): SAbort. *)
  Definition quit (s : pst) : pst :=
    if stopped s then s else
    mkPst (buf s) (pushed s) (tab s) (highest s) (held_n s) (held_s s) (warned s) (queue s) (plog s)
          (stopped s) (poof s) true.
  Definition abort (s : pst) : pst :=
    if stopped s || negb (quitf s) then s else
    match queue s with
    | [] => s
    | bs :: rest => set_queue (pemit s (PAborted (b_id (bs_batch bs)))) rest
    end.

  Inductive pstep := SEnq (b : batch) | SArrive (b : N) (pos : nat) | SConsume | SStop | SQuit | SAbort.

  Definition pstep_run (s : pst) (x : pstep) : pst :=
    match x with
    | SEnq b => enqueue s b
    | SArrive b pos => arrive s b pos
    | SConsume => consume s
    | SStop => stop s
    | SQuit => quit s
    | SAbort => abort s
    end.

  Definition prun (h0 : N) (steps : list pstep) : pst := fold_left pstep_run steps (pst0 h0).
End Proc.

Definition prun_tbl (tc tp : list (N * N)) (cap_n cap_s lim_n lim_s h0 : N) (steps : list pstep) : pst :=
  prun (tbl_check tc) (tbl_process tp) cap_n cap_s lim_n lim_s h0 steps.
