(* C25 — model of kvdb/flaggedproducer (producer.go, store.go).

   The producer keeps, per opened database, the in-memory Dirty flag.  Writes go straight to
   the backend (they are durable operations); the first write after a flush (or after the
   open) is preceded by the dirty mark.  Flush(id) writes the clean mark to every opened
   database (through the flagged store, see f_flush) in Go map order (an oracle list) and
   clears the flags.  Definitions only. *)
From Coq Require Import NArith List Bool.
From LV Require Import lib.Bytes model.CrashBase.
Import ListNotations.
Local Open Scope N_scope.

Definition fstate := list (name * bool).       (* f.dbs: name -> Dirty *)

Fixpoint fget (n : name) (l : fstate) : option bool :=
  match l with
  | [] => None
  | (n', b) :: t => if n' =? n then Some b else fget n t
  end.
Fixpoint fset (n : name) (b : bool) (l : fstate) : fstate :=
  match l with
  | [] => [(n, b)]
  | (n', b') :: t => if n' =? n then (n, b) :: t else (n', b') :: fset n b t
  end.
Fixpoint fdel (n : name) (l : fstate) : fstate :=
  match l with
  | [] => []
  | (n', b') :: t => if n' =? n then fdel n t else (n', b') :: fdel n t
  end.

(* Producer.OpenDB *)
Definition f_open (n : name) (s : fstate) : fstate * list dop :=
  match fget n s with
  | Some _ => (s, [])
  | None => (fset n false s, [DOpen n])
  end.

(* flaggedStore.modified(): the dirty mark is the single byte DirtyPrefix *)
Definition f_modified (fk : bytes) (n : name) (s : fstate) : fstate * list dop :=
  match fget n s with
  | Some false => (fset n true s, [DPut n fk [DIRTY]])
  | _ => (s, [])
  end.

Definition f_write (fk : bytes) (n : name) (o : dop) (s : fstate) : fstate * list dop :=
  let '(s, ops1) := f_open n s in
  let '(s, ops2) := f_modified fk n s in
  (s, ops1 ++ ops2 ++ [o]).

(* Producer.Flush: MarkFlushID is called on the flaggedStore itself, i.e. through
   flaggedStore.Put: a database that is not dirty first gets the dirty mark, then the clean one;
   afterwards Dirty := 0. *)
Fixpoint f_flush (fk id : bytes) (ns : list name) (s : fstate) : fstate * list dop :=
  match ns with
  | [] => (s, [])
  | n :: t =>
      let '(s1, ops1) := f_modified fk n s in
      let '(s', ops) := f_flush fk id t (fset n false s1) in
      (s', ops1 ++ DPut n fk (mark_of CLEAN id) :: ops)
  end.

Definition flagged_step (fk : bytes) (s : fstate) (o : hop) : fstate * list dop :=
  match o with
  | HOpen n | HUnder n => f_open n s
  | HPut n k v => f_write fk n (DPut n k v) s
  | HDel n k => f_write fk n (DDel n k) s
  | HBatch n ws => f_write fk n (DBatch n ws) s
  | HDrop n =>                       (* DropFn: delete(f.dbs,name); db.Close(); db.Drop() *)
      let '(s, ops) := f_open n s in (fdel n s, ops ++ [DDrop n])
  | HFlush id os => f_flush fk id (arrange (nth_order os 0) (map fst s)) s
  end.

Record frun_state := mkFRun {
  fr_st : fstate;
  fr_spec : spec_state;
  fr_log : list dop;
  fr_recs : list flush_rec
}.
Definition frun_init : frun_state := mkFRun [] spec_init [] [].

Definition frun_step (fk : bytes) (s : frun_state) (o : hop) : frun_state :=
  let '(st, ops) := flagged_step fk (fr_st s) o in
  let '(sp, snap) := spec_step fk true (fr_spec s) o in
  let log := fr_log s ++ ops in
  mkFRun st sp log
         (match snap with
          | Some (id, dbs) => fr_recs s ++ [mkRec (length log) id dbs]
          | None => fr_recs s
          end).
Definition run_flagged (fk : bytes) (h : list hop) : frun_state :=
  fold_left (frun_step fk) h frun_init.

(* consecutive flushes use different IDs (hypothesis of the flagged theorem) *)
Fixpoint flush_ids_change (prev : option bytes) (h : list hop) : bool :=
  match h with
  | [] => true
  | HFlush id _ :: t =>
      match prev with
      | Some p => negb (bytes_eqb p id) && flush_ids_change (Some id) t
      | None => flush_ids_change (Some id) t
      end
  | _ :: t => flush_ids_change prev t
  end.

(* ---------- several sessions (see SyncedPool.restart_pool): a new Producer, Initialize(names, nil) *)
Definition restart_flagged (fk : bytes) (s : frun_state) (k : nat) (o : list name) : option frun_state :=
  let w := crash (fr_log s) k in
  match check_synced fk w with
  | COk _ =>
      Some (mkFRun (map (fun nc => (fst nc, false)) w) (mkSpec w [])
                   (firstn k (fr_log s) ++ map DOpen (arrange o (map fst w)))
                   (filter (fun rc => Nat.leb (r_pos rc) k) (fr_recs s)))
  | _ => None
  end.

(* the flush ID a successful recovery reported (the mark without its prefix byte) *)
Definition verdict_id (r : cres) : option bytes :=
  match r with COk (Some (_ :: id)) => Some id | _ => None end.
