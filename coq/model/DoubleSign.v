(* Model of emitter/doublesign/synced_heuristic.go and parallel_instance_heuristic.go, together
   with the parts of Go's time package they go through (time.Time.Sub/Add/Equal/Before/IsZero for
   wall-clock values, go1.23 src/time/time.go), with int64 wrap-around written out.

   A wall-clock time.Time is (sec, nsec): int64 seconds since January 1, year 1 and nanoseconds
   in [0, 1e9).  A time.Duration is an int64 number of nanoseconds.

   REPAIRED code (fixes/C21.patch): the wait [threshold - Since(t)] is computed with a saturating
   subtraction.  The pinned tree computed it with Go's wrapping [-]; that variant is kept as
   [synced_to_emit_old]. *)
From Coq Require Import ZArith List Bool.
Import ListNotations.
Local Open Scope Z_scope.

Definition min64 : Z := -9223372036854775808.
Definition max64 : Z := 9223372036854775807.
Definition two64 : Z := 18446744073709551616.
Definition giga : Z := 1000000000.

(* conversion of a mathematical integer to int64 as Go's arithmetic does: wrap-around *)
Definition wrap64 (z : Z) : Z := (z - min64) mod two64 + min64.
(* saturation *)
Definition sat64 (z : Z) : Z := if z <? min64 then min64 else if max64 <? z then max64 else z.

(* ---------------------------------------------------------------- time.Time (wall clock) *)
Record gtime := { sec : Z; nsec : Z }.

(* addSec: sum := t.ext + d; if (sum > t.ext) == (d > 0) { t.ext = sum } else if d > 0 { max } else { -max } *)
Definition add_sec (s d : Z) : Z :=
  let sum := wrap64 (s + d) in
  if Bool.eqb (s <? sum) (0 <? d) then sum
  else if 0 <? d then max64 else - max64.

(* Time.Add: dsec := int64(d / 1e9); nsec := t.nsec() + int32(d % 1e9); carry; addSec(dsec).
   Go's / and % truncate toward zero: Z.quot / Z.rem.  |dsec| <= 9223372036, so dsec++ / dsec--
   cannot overflow and carry no wrap. *)
Definition go_add (t : gtime) (d : Z) : gtime :=
  let dsec := Z.quot d giga in
  let n := nsec t + Z.rem d giga in
  if giga <=? n then {| sec := add_sec (sec t) (dsec + 1); nsec := n - giga |}
  else if n <? 0 then {| sec := add_sec (sec t) (dsec - 1); nsec := n + giga |}
  else {| sec := add_sec (sec t) dsec; nsec := n |}.

Definition go_equal (t u : gtime) : bool := (sec t =? sec u) && (nsec t =? nsec u).
Definition go_before (t u : gtime) : bool :=
  (sec t <? sec u) || ((sec t =? sec u) && (nsec t <? nsec u)).
Definition go_is_zero (t : gtime) : bool := (sec t =? 0) && (nsec t =? 0).

(* Time.Sub:  d := Duration(t.sec()-u.sec())*Second + Duration(t.nsec()-u.nsec())
              switch { case u.Add(d).Equal(t): return d
                       case t.Before(u): return minDuration
                       default: return maxDuration } *)
Definition go_sub (t u : gtime) : Z :=
  let d := wrap64 (wrap64 (wrap64 (sec t - sec u) * giga) + (nsec t - nsec u)) in
  if go_equal (go_add u d) t then d
  else if go_before t u then min64 else max64.

(* subMono (used by Sub when both values carry a monotonic clock reading; t, u = the readings):
     d := Duration(t - u)
     if d < 0 && t > u { return maxDuration }; if d > 0 && t < u { return minDuration }; return d *)
Definition sub_mono (t u : Z) : Z :=
  let d := wrap64 (t - u) in
  if (d <? 0) && (u <? t) then max64
  else if (0 <? d) && (t <? u) then min64
  else d.

(* ---------------------------------------------------------------- doublesign *)
Inductive werr :=
| NoErr | ErrNoConnections | ErrP2PSyncOngoing | ErrSelfEventsOngoing
| ErrJustBecameValidator | ErrJustConnected | ErrJustP2PSynced.

Record status := {
  peers : Z;               (* PeersNum int *)
  now : gtime; startup : gtime; connected : gtime; synced : gtime; became : gtime;
  created : gtime; detected : gtime }.

Definition since (s : status) (t : gtime) : Z := go_sub (now s) t.

(* maxWaitError.apply: if m.wait < wait { m.wait = wait; m.waitErr = waitErr } *)
Definition apply (m : Z * werr) (wait : Z) (e : werr) : Z * werr :=
  if fst m <? wait then (wait, e) else m.

(* the five guarded stamps in the order of the code, with their error values *)
Definition stamps (s : status) : list (gtime * werr) :=
  [ (detected s, ErrSelfEventsOngoing); (created s, ErrSelfEventsOngoing);
    (became s, ErrJustBecameValidator); (connected s, ErrJustConnected);
    (synced s, ErrJustP2PSynced) ].

(* one  `if s.Since(t) < threshold { max.apply(<wait>, err) }`  step; [sub] is how the wait is
   computed from threshold and Since(t) *)
Definition guard_step (sub : Z -> Z -> Z) (s : status) (th : Z) (m : Z * werr) (te : gtime * werr)
  : Z * werr :=
  let sn := since s (fst te) in
  if sn <? th then apply m (sub th sn) (snd te) else m.

Definition synced_to_emit_with (sub : Z -> Z -> Z) (s : status) (th : Z) : Z * werr :=
  if peers s =? 0 then (0, ErrNoConnections)
  else if go_is_zero (synced s) then (0, ErrP2PSyncOngoing)
  else fold_left (guard_step sub s th) (stamps s) (0, NoErr).

(* repaired: subDuration(a, b):  d := a - b
                                  if (d < a) != (b > 0) { if b > 0 { return MinInt64 }; return MaxInt64 }
                                  return d *)
Definition sub_duration (a b : Z) : Z :=
  let d := wrap64 (a - b) in
  if xorb (d <? a) (0 <? b) then (if 0 <? b then min64 else max64) else d.
Definition synced_to_emit : status -> Z -> Z * werr := synced_to_emit_with sub_duration.

(* pinned tree: Go's wrapping  threshold - s.Since(t) *)
Definition wrap_sub (a b : Z) : Z := wrap64 (a - b).
Definition synced_to_emit_old : status -> Z -> Z * werr := synced_to_emit_with wrap_sub.

(* DetectParallelInstance *)
Definition detect_parallel (s : status) (th : Z) : bool :=
  if go_before (created s) (startup s) then false
  else since s (created s) <? th.

Definition werr_code (e : werr) : Z :=
  match e with
  | NoErr => 0 | ErrNoConnections => 1 | ErrP2PSyncOngoing => 2 | ErrSelfEventsOngoing => 3
  | ErrJustBecameValidator => 4 | ErrJustConnected => 5 | ErrJustP2PSynced => 6
  end.
