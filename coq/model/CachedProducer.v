(* Executable model of kvdb/cachedproducer (producer.go, store.go): both constructors share
   [openDB]; the state is the three Go maps plus the handles handed out so far.

   Each constructor is modelled by its own composite literal: [ctor_maps] lists which of the
   three maps the Go constructor make()s (a field left out of the literal is a nil map), and
   the state remembers which wrapper it is ([kind]: DBProducer or AllDBProducer), so [wrap]
   and [wrap_all] are different states and a defect confined to one constructor is visible
   to the theorems.  Repaired code: [wrap] = Wrap after fixes/C27.patch, [wrap_all] = WrapAll.
   [wrap_old] is Wrap of the pinned tree: refCounter is missing from the literal, so the first
   `c.refCounter[name]++` panics -- while c.mu is held, hence every later call blocks
   ([dead]).  Assigning to ANY nil map panics; reading a nil map yields the zero value and
   delete on it is a no-op, as in Go.

   Names and store identities are numbers.  The underlying producer is a counting producer:
   every successful underlying OpenDB creates a fresh store [uid]; operations return the
   underlying calls they caused ([uevent]).  A handle (the *StoreWithFn returned) is identified
   with the uid of the store it wraps (they are created together).  Mutex interleavings are not
   modelled (C28). *)
From Coq Require Import NArith List Bool.
Import ListNotations.
Local Open Scope N_scope.

Fixpoint alookup {A} (k : N) (m : list (N * A)) : option A :=
  match m with
  | [] => None
  | (k', v) :: r => if k =? k' then Some v else alookup k r
  end.
Fixpoint adel {A} (k : N) (m : list (N * A)) : list (N * A) :=
  match m with
  | [] => []
  | (k', v) :: r => if k =? k' then adel k r else (k', v) :: adel k r
  end.
Definition aset {A} (k : N) (v : A) (m : list (N * A)) : list (N * A) := (k, v) :: adel k m.
Definition nmem (k : N) (l : list N) : bool := existsb (N.eqb k) l.
Definition nrem (k : N) (l : list N) : list N := filter (fun x => negb (k =? x)) l.

Inductive ctor := KWrap | KWrapAll.      (* *DBProducer / *AllDBProducer *)

Record cstate := mkC {
  kind : ctor;
  opened_nil : bool;           (* c.opened == nil *)
  nd_nil : bool;               (* c.notDropped == nil *)
  opened : list (N * N);       (* c.opened : name -> uid of the cached StoreWithFn *)
  ref_nil : bool;              (* c.refCounter == nil *)
  refc : list (N * N);         (* c.refCounter : name -> count (entries are >= 1) *)
  notdropped : list N;         (* names with c.notDropped[name] == true *)
  handles : list (N * N);      (* (uid, name) of every StoreWithFn created, newest first *)
  next_uid : N;                (* underlying producer: next fresh store id *)
  dead : bool }.               (* panicked while holding c.mu *)

(* which maps the constructor's composite literal initialises with make() *)
Record ctor_maps := mkMaps { m_opened : bool; m_refCounter : bool; m_notDropped : bool }.
Definition construct (k : ctor) (m : ctor_maps) : cstate :=
  mkC k (negb (m_opened m)) (negb (m_notDropped m)) [] (negb (m_refCounter m)) [] [] [] 0 false.

(* WrapAll: opened, refCounter, notDropped *)
Definition wrap_all : cstate := construct KWrapAll (mkMaps true true true).
(* Wrap after the repair: opened, refCounter, notDropped *)
Definition wrap : cstate := construct KWrap (mkMaps true true true).
(* Wrap of the pinned tree: opened, notDropped *)
Definition wrap_old : cstate := construct KWrap (mkMaps true false true).

Inductive uevent := UOpen (name uid : N) | UOpenFail (name : N) | UClose (uid : N) | UDrop (uid : N).

Inductive cop :=
| COpen (name : N) (fail : bool)     (* OpenDB(name); [fail]: the underlying OpenDB would return an error *)
| CClose (name : N) | CDrop (name : N)          (* on the newest handle returned for name *)
| CCloseH (uid : N) | CDropH (uid : N)          (* on the handle wrapping store uid (possibly stale) *)
| CCloseE (name : N).   (* Close on the newest handle of name; the underlying Close, if reached, returns an error *)

Inductive cres := RHandle (uid : N) | ROpenErr | ROk | ROverClose | RNoHandle | RPanic | RDead
  | RCloseErr.   (* the underlying Close failed: its error is returned; the entry is already released *)

Definition count_of (name : N) (s : cstate) : N :=
  match alookup name (refc s) with Some n => n | None => 0 end.

(* c.refCounter[name]++ : panics on a nil map *)
Definition ref_incr (name : N) (s : cstate) : option (list (N * N)) :=
  if ref_nil s then None else Some (aset name (count_of name s + 1) (refc s)).

Definition die (s : cstate) : cstate :=
  mkC (kind s) (opened_nil s) (nd_nil s) (opened s) (ref_nil s) (refc s) (notdropped s) (handles s) (next_uid s) true.

Definition open_db (name : N) (fail : bool) (s : cstate) : cstate * cres * list uevent :=
  (* c.notDropped[name] = true *)
  if nd_nil s then (die s, RPanic, []) else
  let nd := if nmem name (notdropped s) then notdropped s else name :: notdropped s in
  match alookup name (opened s) with
  | Some uid =>
      match ref_incr name s with
      | Some rc => (mkC (kind s) (opened_nil s) (nd_nil s) (opened s) (ref_nil s) rc nd (handles s) (next_uid s) false, RHandle uid, [])
      | None => (mkC (kind s) (opened_nil s) (nd_nil s) (opened s) (ref_nil s) (refc s) nd (handles s) (next_uid s) true, RPanic, [])
      end
  | None =>
      if fail then (mkC (kind s) (opened_nil s) (nd_nil s) (opened s) (ref_nil s) (refc s) nd (handles s) (next_uid s) false, ROpenErr, [UOpenFail name])
      else
        let uid := next_uid s in
        let hs := (uid, name) :: handles s in
        (* c.opened[name] = store *)
        if opened_nil s then
          (mkC (kind s) (opened_nil s) (nd_nil s) (opened s) (ref_nil s) (refc s) nd hs (uid + 1) true, RPanic, [UOpen name uid])
        else
        let op' := aset name uid (opened s) in
        match ref_incr name s with
        | Some rc => (mkC (kind s) (opened_nil s) (nd_nil s) op' (ref_nil s) rc nd hs (uid + 1) false, RHandle uid, [UOpen name uid])
        | None => (mkC (kind s) (opened_nil s) (nd_nil s) op' (ref_nil s) (refc s) nd hs (uid + 1) true, RPanic, [UOpen name uid])
        end
  end.

(* openDB as two critical sections: the mutex is released around the underlying p.OpenDB(name).
   [open_begin] = first section (notDropped, cache lookup; a hit finishes the call: Some result);
   [open_finish] = last section, after the underlying open returned store uid.
   Sequentially open_db = begin; underlying open; finish (CachedProducerProofs.open_db_split).
   Between the two sections another goroutine's openDB(name) can run: both miss, both open. *)
Definition open_begin (name : N) (s : cstate) : cstate * option cres :=
  if nd_nil s then (die s, Some RPanic) else
  let nd := if nmem name (notdropped s) then notdropped s else name :: notdropped s in
  match alookup name (opened s) with
  | Some uid =>
      match ref_incr name s with
      | Some rc => (mkC (kind s) (opened_nil s) (nd_nil s) (opened s) (ref_nil s) rc nd (handles s) (next_uid s) false, Some (RHandle uid))
      | None => (mkC (kind s) (opened_nil s) (nd_nil s) (opened s) (ref_nil s) (refc s) nd (handles s) (next_uid s) true, Some RPanic)
      end
  | None => (mkC (kind s) (opened_nil s) (nd_nil s) (opened s) (ref_nil s) (refc s) nd (handles s) (next_uid s) false, None)
  end.

(* the counting producer hands out the next store id *)
Definition under_open (s : cstate) : cstate * N :=
  (mkC (kind s) (opened_nil s) (nd_nil s) (opened s) (ref_nil s) (refc s) (notdropped s) (handles s) (next_uid s + 1) (dead s),
   next_uid s).

Definition open_finish (name uid : N) (s : cstate) : cstate * cres :=
  let hs := (uid, name) :: handles s in
  if opened_nil s then
    (mkC (kind s) (opened_nil s) (nd_nil s) (opened s) (ref_nil s) (refc s) (notdropped s) hs (next_uid s) true, RPanic)
  else
  let op' := aset name uid (opened s) in
  match ref_incr name s with
  | Some rc => (mkC (kind s) (opened_nil s) (nd_nil s) op' (ref_nil s) rc (notdropped s) hs (next_uid s) false, RHandle uid)
  | None => (mkC (kind s) (opened_nil s) (nd_nil s) op' (ref_nil s) (refc s) (notdropped s) hs (next_uid s) true, RPanic)
  end.

(* two OpenDB(name) calls, the second issued while the first is inside the underlying open:
   begin1, under1 (blocks), the whole second call, finish1 *)
Definition open_overlap (name : N) (s : cstate) : cstate * cres * cres * list uevent :=
  match open_begin name s with
  | (s1, Some r1) => let '(s2, r2, ev) := open_db name false s1 in (s2, r1, r2, ev)
  | (s1, None) =>
      let '(s2, u1) := under_open s1 in
      let '(s3, r2, ev2) := open_db name false s2 in
      let '(s4, r1) := open_finish name u1 s3 in
      (s4, r1, r2, UOpen name u1 :: ev2)
  end.

(* CloseFn of the handle (uid, name) *)
Definition close_h (uid name : N) (s : cstate) : cstate * cres * list uevent :=
  let counter := count_of name s in
  if counter =? 0 then (s, ROverClose, [])
  else if counter =? 1 then
    (mkC (kind s) (opened_nil s) (nd_nil s) (adel name (opened s)) (ref_nil s) (adel name (refc s)) (notdropped s) (handles s) (next_uid s) false,
     ROk, [UClose uid])
  else
    (mkC (kind s) (opened_nil s) (nd_nil s) (opened s) (ref_nil s) (aset name (counter - 1) (refc s)) (notdropped s) (handles s) (next_uid s) false,
     ROk, []).

(* DropFn of the handle (uid, name) *)
Definition drop_h (uid name : N) (s : cstate) : cstate * cres * list uevent :=
  let to_drop := nmem name (notdropped s) in
  (mkC (kind s) (opened_nil s) (nd_nil s) (opened s) (ref_nil s) (refc s) (nrem name (notdropped s)) (handles s) (next_uid s) false,
   ROk, if to_drop then [UDrop uid] else []).

Fixpoint newest_handle (name : N) (hs : list (N * N)) : option N :=
  match hs with
  | [] => None
  | (uid, n) :: r => if n =? name then Some uid else newest_handle name r
  end.

Definition cstep (s : cstate) (o : cop) : cstate * cres * list uevent :=
  if dead s then (s, RDead, []) else
  match o with
  | COpen name fail => open_db name fail s
  | CClose name => match newest_handle name (handles s) with
                   | Some uid => close_h uid name s | None => (s, RNoHandle, []) end
  | CDrop name => match newest_handle name (handles s) with
                  | Some uid => drop_h uid name s | None => (s, RNoHandle, []) end
  | CCloseH uid => match alookup uid (handles s) with
                   | Some name => close_h uid name s | None => (s, RNoHandle, []) end
  | CDropH uid => match alookup uid (handles s) with
                  | Some name => drop_h uid name s | None => (s, RNoHandle, []) end
  | CCloseE name =>
      (* CloseFn deletes opened[name] / refCounter[name] BEFORE calling realClose and returns
         realClose()'s error unchanged: the state change is that of a successful last close *)
      match newest_handle name (handles s) with
      | Some uid => let '(s', r, ev) := close_h uid name s in
                    (s', match ev with [] => r | _ => RCloseErr end, ev)
      | None => (s, RNoHandle, [])
      end
  end.

Fixpoint crun (s : cstate) (ops : list cop) : cstate * list (cop * cres * list uevent) :=
  match ops with
  | [] => (s, [])
  | o :: rest =>
      let '(s', r, ev) := cstep s o in
      let '(s'', tr) := crun s' rest in (s'', (o, r, ev) :: tr)
  end.
