(* Executable model of kvdb/cachedproducer (producer.go, store.go): both constructors share
   [openDB]; the state is the three Go maps plus the handles handed out so far.

   Repaired code is modelled ([wrap] = Wrap after fixes/C27.patch, [wrap_all] = WrapAll).
   [wrap_old] is Wrap of the pinned tree: refCounter is a nil map, so the first
   `c.refCounter[name]++` panics -- while c.mu is held, hence every later call blocks
   ([dead]).  Reading a nil map yields 0 and delete on it is a no-op, as in Go.

   Names and store identities are numbers.  The underlying producer is a counting producer:
   every successful underlying OpenDB creates a fresh store [uid]; operations return the
   underlying calls they caused ([uevent]).  A handle (the *StoreWithFn returned) is identified
   with the uid of the store it wraps (they are created together).  Mutex interleavings are not
   modelled (C28). *)
From Coq Require Import NArith List Bool.
Import ListNotations.
Local Open Scope N_scope.

Fixpoint alookup {A} (k : N) (m : list (N * A)) : option A :=
  match m with
  | [] => None
  | (k', v) :: r => if k =? k' then Some v else alookup k r
  end.
Fixpoint adel {A} (k : N) (m : list (N * A)) : list (N * A) :=
  match m with
  | [] => []
  | (k', v) :: r => if k =? k' then adel k r else (k', v) :: adel k r
  end.
Definition aset {A} (k : N) (v : A) (m : list (N * A)) : list (N * A) := (k, v) :: adel k m.
Definition nmem (k : N) (l : list N) : bool := existsb (N.eqb k) l.
Definition nrem (k : N) (l : list N) : list N := filter (fun x => negb (k =? x)) l.

Record cstate := mkC {
  opened : list (N * N);       (* c.opened : name -> uid of the cached StoreWithFn *)
  ref_nil : bool;              (* c.refCounter == nil *)
  refc : list (N * N);         (* c.refCounter : name -> count (entries are >= 1) *)
  notdropped : list N;         (* names with c.notDropped[name] == true *)
  handles : list (N * N);      (* (uid, name) of every StoreWithFn created, newest first *)
  next_uid : N;                (* underlying producer: next fresh store id *)
  dead : bool }.               (* panicked while holding c.mu *)

Definition wrap_all : cstate := mkC [] false [] [] [] 0 false.
Definition wrap : cstate := mkC [] false [] [] [] 0 false.       (* after the repair *)
Definition wrap_old : cstate := mkC [] true [] [] [] 0 false.    (* pinned tree *)

Inductive uevent := UOpen (name uid : N) | UOpenFail (name : N) | UClose (uid : N) | UDrop (uid : N).

Inductive cop :=
| COpen (name : N) (fail : bool)     (* OpenDB(name); [fail]: the underlying OpenDB would return an error *)
| CClose (name : N) | CDrop (name : N)          (* on the newest handle returned for name *)
| CCloseH (uid : N) | CDropH (uid : N).         (* on the handle wrapping store uid (possibly stale) *)

Inductive cres := RHandle (uid : N) | ROpenErr | ROk | ROverClose | RNoHandle | RPanic | RDead.

Definition count_of (name : N) (s : cstate) : N :=
  match alookup name (refc s) with Some n => n | None => 0 end.

(* c.refCounter[name]++ : panics on a nil map *)
Definition ref_incr (name : N) (s : cstate) : option (list (N * N)) :=
  if ref_nil s then None else Some (aset name (count_of name s + 1) (refc s)).

Definition open_db (name : N) (fail : bool) (s : cstate) : cstate * cres * list uevent :=
  let nd := if nmem name (notdropped s) then notdropped s else name :: notdropped s in
  match alookup name (opened s) with
  | Some uid =>
      match ref_incr name s with
      | Some rc => (mkC (opened s) (ref_nil s) rc nd (handles s) (next_uid s) false, RHandle uid, [])
      | None => (mkC (opened s) (ref_nil s) (refc s) nd (handles s) (next_uid s) true, RPanic, [])
      end
  | None =>
      if fail then (mkC (opened s) (ref_nil s) (refc s) nd (handles s) (next_uid s) false, ROpenErr, [UOpenFail name])
      else
        let uid := next_uid s in
        let op' := aset name uid (opened s) in
        let hs := (uid, name) :: handles s in
        match ref_incr name s with
        | Some rc => (mkC op' (ref_nil s) rc nd hs (uid + 1) false, RHandle uid, [UOpen name uid])
        | None => (mkC op' (ref_nil s) (refc s) nd hs (uid + 1) true, RPanic, [UOpen name uid])
        end
  end.

(* CloseFn of the handle (uid, name) *)
Definition close_h (uid name : N) (s : cstate) : cstate * cres * list uevent :=
  let counter := count_of name s in
  if counter =? 0 then (s, ROverClose, [])
  else if counter =? 1 then
    (mkC (adel name (opened s)) (ref_nil s) (adel name (refc s)) (notdropped s) (handles s) (next_uid s) false,
     ROk, [UClose uid])
  else
    (mkC (opened s) (ref_nil s) (aset name (counter - 1) (refc s)) (notdropped s) (handles s) (next_uid s) false,
     ROk, []).

(* DropFn of the handle (uid, name) *)
Definition drop_h (uid name : N) (s : cstate) : cstate * cres * list uevent :=
  let to_drop := nmem name (notdropped s) in
  (mkC (opened s) (ref_nil s) (refc s) (nrem name (notdropped s)) (handles s) (next_uid s) false,
   ROk, if to_drop then [UDrop uid] else []).

Fixpoint newest_handle (name : N) (hs : list (N * N)) : option N :=
  match hs with
  | [] => None
  | (uid, n) :: r => if n =? name then Some uid else newest_handle name r
  end.

Definition cstep (s : cstate) (o : cop) : cstate * cres * list uevent :=
  if dead s then (s, RDead, []) else
  match o with
  | COpen name fail => open_db name fail s
  | CClose name => match newest_handle name (handles s) with
                   | Some uid => close_h uid name s | None => (s, RNoHandle, []) end
  | CDrop name => match newest_handle name (handles s) with
                  | Some uid => drop_h uid name s | None => (s, RNoHandle, []) end
  | CCloseH uid => match alookup uid (handles s) with
                   | Some name => close_h uid name s | None => (s, RNoHandle, []) end
  | CDropH uid => match alookup uid (handles s) with
                  | Some name => drop_h uid name s | None => (s, RNoHandle, []) end
  end.

Fixpoint crun (s : cstate) (ops : list cop) : cstate * list (cop * cres * list uevent) :=
  match ops with
  | [] => (s, [])
  | o :: rest =>
      let '(s', r, ev) := cstep s o in
      let '(s'', tr) := crun s' rest in (s'', (o, r, ev) :: tr)
  end.
