(* C28 — several mutexes and a LOCK ORDER (definitions only; proofs in proofs/LinMulti.v).
   A configuration records, per thread, the (lock, mode) pairs it holds and the lock it is waiting for.
   Discipline: a thread asks for a lock only if its rank is greater than the rank of every lock it holds
   (for the five components: pool mutex < flushing < queuedDropsMu < store lock, buffer mutex < LRU lock; two
   locks of the same class have the same rank, so they are never held together).
   A configuration is DEADLOCKED when there is a non-empty set of threads each waiting for a lock held, in a
   conflicting mode, by another thread of the set. *)
From Coq Require Import List Arith.
From LV Require Import model.Lin.
Import ListNotations.

Inductive lmodeM := MShared | MExcl.
Definition conflicts (a b : lmodeM) : Prop := a = MExcl \/ b = MExcl.

Section Locks.
  Variable lock : Type.
  Variable rank : lock -> nat.

  Record lconfig := mklc { lheld : tid -> list (lock * lmodeM); lwants : tid -> option (lock * lmodeM) }.

  Definition blocks (c : lconfig) (t' : tid) (m : lock) (md : lmodeM) : Prop :=
    exists md', In (m, md') (lheld c t') /\ conflicts md md'.

  Definition ordered (c : lconfig) : Prop :=
    forall t m md, lwants c t = Some (m, md) -> forall m' md', In (m', md') (lheld c t) -> rank m' < rank m.

  Definition deadlocked (c : lconfig) : Prop :=
    exists D : list tid, D <> [] /\
      forall t, In t D -> exists m md t', lwants c t = Some (m, md) /\ In t' D /\ t' <> t /\ blocks c t' m md.

  Definition fupd {A} (f : tid -> A) (t : tid) (v : A) : tid -> A := fun t' => if Nat.eqb t' t then v else f t'.

  Inductive lact := LWant (t : tid) (m : lock) (md : lmodeM) | LGrant (t : tid) | LRelease (t : tid).

  Inductive lstep : lconfig -> lact -> lconfig -> Prop :=
  | ls_want : forall c t m md, lwants c t = None ->
      (forall m' md', In (m', md') (lheld c t) -> rank m' < rank m) ->            (* the lock order *)
      lstep c (LWant t m md) (mklc (lheld c) (fupd (lwants c) t (Some (m, md))))
  | ls_grant : forall c t m md, lwants c t = Some (m, md) ->
      (forall t', t' <> t -> ~ blocks c t' m md) ->                              (* mutex semantics *)
      lstep c (LGrant t) (mklc (fupd (lheld c) t ((m, md) :: lheld c t)) (fupd (lwants c) t None))
  | ls_release : forall c t h', lwants c t = None -> incl h' (lheld c t) ->      (* releases some of its locks *)
      lstep c (LRelease t) (mklc (fupd (lheld c) t h') (lwants c)).

  Definition linit : lconfig := mklc (fun _ => []) (fun _ => None).
  Inductive lreach : lconfig -> Prop :=
  | lr_init : lreach linit
  | lr_step : forall c a c', lreach c -> lstep c a c' -> lreach c'.
End Locks.
