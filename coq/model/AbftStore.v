(* Store-level model of the small abft.Store codecs (abft/store_event_confirmed.go,
   store_last_decided_state.go, store_epoch_state.go, store_roots.go).

   The consensus scenarios of model/AbftRun.v reach these records only with the numbers a short
   run produces (frames below a few dozen), so a codec that is too narrow for the declared type
   (idx.Frame, idx.Epoch, idx.ValidatorID, pos.Weight: all uint32) is invisible to them.  This
   model drives the Store methods DIRECTLY with arbitrary 32-bit numbers.  The persisted form is
   modelled as what the Go code writes: 4-byte big-endian numbers for the confirmed-on frame and
   for the frame / validator parts of a root key; the RLP records (last decided state, epoch
   state) are modelled by their content.  [be4_roundtrip] is the codec fact every read relies on. *)
From Coq Require Import NArith List Bool Lia.
From LV Require Import model.Abft.
Import ListNotations.
Open Scope N_scope.

Definition be4 (x : N) : list N :=
  [ (x / 2 ^ 24) mod 256; (x / 2 ^ 16) mod 256; (x / 2 ^ 8) mod 256; x mod 256 ].
Definition of_be (l : list N) : N := fold_left (fun a b => a * 256 + b) l 0.

Lemma be4_roundtrip x : x < 2 ^ 32 -> of_be (be4 x) = x.
Proof.
  intros Hx. unfold of_be, be4. cbn [fold_left].
  assert (H8 : x = 256 * (x / 2 ^ 8) + x mod 256).
  { change (2 ^ 8) with 256. apply N.div_mod'. }
  assert (H16 : x / 2 ^ 8 = 256 * (x / 2 ^ 16) + (x / 2 ^ 8) mod 256).
  { replace (x / 2 ^ 16) with (x / 2 ^ 8 / 256).
    - apply N.div_mod'.
    - rewrite N.div_div by discriminate. reflexivity. }
  assert (H24 : x / 2 ^ 16 = 256 * (x / 2 ^ 24) + (x / 2 ^ 16) mod 256).
  { replace (x / 2 ^ 24) with (x / 2 ^ 16 / 256).
    - apply N.div_mod'.
    - rewrite N.div_div by discriminate. reflexivity. }
  assert (Hs : (x / 2 ^ 24) mod 256 = x / 2 ^ 24).
  { apply N.mod_small. apply N.div_lt_upper_bound; [discriminate|]. exact Hx. }
  rewrite Hs. lia.
Qed.

Lemma be4_length x : length (be4 x) = 4%nat.
Proof. reflexivity. Qed.

Fixpoint list_eqb (a b : list N) : bool :=
  match a, b with
  | [], [] => true
  | x :: a', y :: b' => (x =? y) && list_eqb a' b'
  | _, _ => false
  end.

(* a root record key: frame(4) | validator(4) | event id; the id part is kept as a number *)
Definition rkey := (list N * N)%type.
Definition rkey_of (f v id : N) : rkey := (be4 f ++ be4 v, id).
Definition rkey_eqb (a b : rkey) : bool := list_eqb (fst a) (fst b) && (snd a =? snd b).
Definition rkey_frame (k : rkey) : N := of_be (firstn 4 (fst k)).
Definition rkey_val (k : rkey) : N := of_be (firstn 4 (skipn 4 (fst k))).

Record sstore := {
  ss_conf : list (N * list N);   (* ConfirmedEvent table: event id -> stored value, newest first *)
  ss_ld : N;                     (* LastDecidedState.LastDecidedFrame *)
  ss_es : N * vals;              (* EpochState: epoch, validators *)
  ss_roots : list rkey           (* Roots table keys *)
}.

(* the harness applies this genesis: epoch 1, validators {1: 1} *)
Definition store_start : sstore :=
  {| ss_conf := []; ss_ld := 0; ss_es := (1, mk_vals [(1, 1)]); ss_roots := [] |}.

Inductive sop :=
| SoCF (e f : N)                 (* SetEventConfirmedOn *)
| SoGC (e : N)                   (* GetEventConfirmedOn *)
| SoLD (f : N)                   (* SetLastDecidedState *)
| SoGL                           (* GetLastDecidedFrame (live store and a fresh Store over the same DB) *)
| SoES (ep : N) (raw : list (N * N))   (* SetEpochState *)
| SoGE                           (* GetEpochState (live and fresh) *)
| SoAR (spf f v id : N)          (* AddRoot(spf, event{frame f, creator v, id}) *)
| SoGR (f : N).                  (* GetFrameRoots *)

Inductive sobs :=
| SbOk
| SbSkip
| SbN (x : N)
| SbES (ep : N) (v : vals)
| SbRoots (l : list (N * N)).    (* (validator, id), ordered by validator then id *)

Fixpoint conf_get (e : N) (l : list (N * list N)) : option (list N) :=
  match l with [] => None | (k, v) :: t => if k =? e then Some v else conf_get e t end.

Fixpoint pair_insert (p : N * N) (l : list (N * N)) : list (N * N) :=
  match l with
  | [] => [p]
  | q :: t => if (fst p <? fst q) || ((fst p =? fst q) && (snd p <=? snd q)) then p :: l else q :: pair_insert p t
  end.
Definition pair_sort (l : list (N * N)) : list (N * N) := fold_right pair_insert [] l.

(* Store.AddRoot: for f := selfParentFrame+1; f <= root.Frame(); f++ *)
Fixpoint sadd_loop (fuel : nat) (rs : list rkey) (top v id f : N) : list rkey :=
  match fuel with O => rs | S fu =>
    if top <? f then rs else sadd_loop fu (rkey_of f v id :: rs) top v id (f + 1) end.

Definition span_max : N := 16.
Fixpoint any_key (fuel : nat) (rs : list rkey) (top v id f : N) : bool :=
  match fuel with O => false | S fu =>
    if top <? f then false else existsb (rkey_eqb (rkey_of f v id)) rs || any_key fu rs top v id (f + 1) end.

(* the cases the harness refuses to run (both sides print "skip"):
   - AddRoot whose loop would wrap (frame 2^32-1) or is long, or that re-adds an existing key (the
     cached list and the table disagree on duplicates; consensus never adds a root twice);
   - SetEpochState with an empty validator set or a total weight the builder rejects *)
Definition sguard (s : sstore) (o : sop) : bool :=
  match o with
  | SoAR spf f v id =>
    (spf <? f) && (f - spf <=? span_max) && (f <=? 2 ^ 32 - 2)
    && negb (any_key (S (N.to_nat (f - spf))) (ss_roots s) f v id (spf + 1))
  | SoES _ raw =>
    negb (N.of_nat (length (mk_vals raw)) =? 0)
    && (fold_left N.add (map snd raw) 0 <=? 2 ^ 31 - 1)
  | _ => true
  end.

Definition sstep (s : sstore) (o : sop) : sobs * sstore :=
  if negb (sguard s o) then (SbSkip, s) else
  match o with
  | SoCF e f => (SbOk, {| ss_conf := (e, be4 f) :: ss_conf s; ss_ld := ss_ld s; ss_es := ss_es s; ss_roots := ss_roots s |})
  | SoGC e => (SbN (match conf_get e (ss_conf s) with Some b => of_be b | None => 0 end), s)
  | SoLD f => (SbOk, {| ss_conf := ss_conf s; ss_ld := f; ss_es := ss_es s; ss_roots := ss_roots s |})
  | SoGL => (SbN (ss_ld s), s)
  | SoES ep raw => (SbOk, {| ss_conf := ss_conf s; ss_ld := ss_ld s; ss_es := (ep, mk_vals raw); ss_roots := ss_roots s |})
  | SoGE => (SbES (fst (ss_es s)) (snd (ss_es s)), s)
  | SoAR spf f v id =>
    (SbOk, {| ss_conf := ss_conf s; ss_ld := ss_ld s; ss_es := ss_es s;
              ss_roots := sadd_loop (S (N.to_nat (f - spf))) (ss_roots s) f v id (spf + 1) |})
  | SoGR f =>
    (SbRoots (pair_sort (map (fun k => (rkey_val k, snd k))
                             (filter (fun k => list_eqb (firstn 4 (fst k)) (be4 f)) (ss_roots s)))), s)
  end.

Fixpoint srun (s : sstore) (ops : list sop) : list sobs :=
  match ops with [] => [] | o :: t => let '(ob, s') := sstep s o in ob :: srun s' t end.

(* ---------- the facts a reader of the records relies on ---------- *)
Lemma confirmed_get_after_set s e f : f < 2 ^ 32 ->
  fst (sstep (snd (sstep s (SoCF e f))) (SoGC e)) = SbN f.
Proof.
  intros Hf. cbn. rewrite N.eqb_refl. now rewrite be4_roundtrip.
Qed.

Lemma last_decided_get_after_set s f : fst (sstep (snd (sstep s (SoLD f))) SoGL) = SbN f.
Proof. reflexivity. Qed.

Lemma rkey_frame_of f v id : f < 2 ^ 32 -> rkey_frame (rkey_of f v id) = f.
Proof. intros H. unfold rkey_frame, rkey_of. cbn [fst app be4 firstn]. now apply be4_roundtrip. Qed.

Lemma rkey_val_of f v id : v < 2 ^ 32 -> rkey_val (rkey_of f v id) = v.
Proof. intros H. unfold rkey_val, rkey_of. cbn [fst app be4 firstn skipn]. now apply be4_roundtrip. Qed.

(* ---------- the abstract reading of the same operations (no bytes): the specification ---------- *)
Record astore := {
  as_conf : list (N * N);
  as_ld : N;
  as_es : N * vals;
  as_roots : list (N * N * N)     (* (frame, validator, id) *)
}.
Definition astore_start : astore :=
  {| as_conf := []; as_ld := 0; as_es := (1, mk_vals [(1, 1)]); as_roots := [] |}.

Fixpoint aconf_get (e : N) (l : list (N * N)) : option N :=
  match l with [] => None | (k, v) :: t => if k =? e then Some v else aconf_get e t end.
Definition triple_eqb (a b : N * N * N) : bool :=
  (fst (fst a) =? fst (fst b)) && (snd (fst a) =? snd (fst b)) && (snd a =? snd b).
Fixpoint aadd_loop (fuel : nat) (rs : list (N * N * N)) (top v id f : N) : list (N * N * N) :=
  match fuel with O => rs | S fu =>
    if top <? f then rs else aadd_loop fu ((f, v, id) :: rs) top v id (f + 1) end.
Fixpoint aany (fuel : nat) (rs : list (N * N * N)) (top v id f : N) : bool :=
  match fuel with O => false | S fu =>
    if top <? f then false else existsb (triple_eqb (f, v, id)) rs || aany fu rs top v id (f + 1) end.

Definition aguard (s : astore) (o : sop) : bool :=
  match o with
  | SoAR spf f v id =>
    (spf <? f) && (f - spf <=? span_max) && (f <=? 2 ^ 32 - 2)
    && negb (aany (S (N.to_nat (f - spf))) (as_roots s) f v id (spf + 1))
  | SoES _ raw =>
    negb (N.of_nat (length (mk_vals raw)) =? 0)
    && (fold_left N.add (map snd raw) 0 <=? 2 ^ 31 - 1)
  | _ => true
  end.

Definition astep (s : astore) (o : sop) : sobs * astore :=
  if negb (aguard s o) then (SbSkip, s) else
  match o with
  | SoCF e f => (SbOk, {| as_conf := (e, f) :: as_conf s; as_ld := as_ld s; as_es := as_es s; as_roots := as_roots s |})
  | SoGC e => (SbN (match aconf_get e (as_conf s) with Some f => f | None => 0 end), s)
  | SoLD f => (SbOk, {| as_conf := as_conf s; as_ld := f; as_es := as_es s; as_roots := as_roots s |})
  | SoGL => (SbN (as_ld s), s)
  | SoES ep raw => (SbOk, {| as_conf := as_conf s; as_ld := as_ld s; as_es := (ep, mk_vals raw); as_roots := as_roots s |})
  | SoGE => (SbES (fst (as_es s)) (snd (as_es s)), s)
  | SoAR spf f v id =>
    (SbOk, {| as_conf := as_conf s; as_ld := as_ld s; as_es := as_es s;
              as_roots := aadd_loop (S (N.to_nat (f - spf))) (as_roots s) f v id (spf + 1) |})
  | SoGR f =>
    (SbRoots (pair_sort (map (fun t => (snd (fst t), snd t))
                             (filter (fun t => fst (fst t) =? f) (as_roots s)))), s)
  end.

Fixpoint pairs_eqb (a b : list (N * N)) : bool :=
  match a, b with
  | [], [] => true
  | x :: a', y :: b' => (fst x =? fst y) && (snd x =? snd y) && pairs_eqb a' b'
  | _, _ => false
  end.
Definition sobs_eqb (a b : sobs) : bool :=
  match a, b with
  | SbOk, SbOk | SbSkip, SbSkip => true
  | SbN x, SbN y => x =? y
  | SbES e v, SbES e' v' => (e =? e') && pairs_eqb v v'
  | SbRoots l, SbRoots l' => pairs_eqb l l'
  | _, _ => false
  end.

(* the executable specification evaluated on an observed trace: every answer is the abstract one *)
Fixpoint store_trace (s : astore) (tr : list (sop * sobs)) : bool :=
  match tr with
  | [] => true
  | (o, ob) :: t => let '(ob', s') := astep s o in sobs_eqb ob ob' && store_trace s' t
  end.
