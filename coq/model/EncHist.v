(* Histories of encoder calls (common/bigendian, common/littleendian, inter/idx Bytes()) in which the
   caller keeps the returned slices and mutates them (append, overwrite in place, key composition
   append(enc a, enc b...)) before encoding further values.  The encoders return a FRESH slice on
   every call, so the caller's mutations act on the caller's copy only.  Definitions only. *)
From Coq Require Import NArith List Bool.
From LV Require Import lib.Bytes model.Codec.
Import ListNotations.
Local Open Scope N_scope.

Inductive hop :=
  | HEnc (k : nat) (v : N)                  (* s := UintKToBytes(v) / idx.T(v).Bytes(); the caller keeps s *)
  | HLe (k : nat) (v : N)                   (* little-endian encoder, kept likewise *)
  | HAppend (i : nat) (bs : list N)         (* held[i] = append(held[i], bs...) *)
  | HWrite (i : nat) (pos : nat) (b : N)    (* held[i][pos] = b  (ignored when out of range) *)
  | HAppendEnc (i : nat) (k : nat) (v : N)  (* e := enc(v); held[i] = append(held[i], e...); e is kept too *)
  | HDec (k : nat) (i : nat).               (* BytesToUintK(held[i]) when long enough *)

Inductive hout := OBytes (bs : list N) | ONum (n : N) | OShort | ONone.

Fixpoint set_nth_bytes (pos : nat) (b : N) (l : list N) : list N :=
  match l, pos with
  | [], _ => []
  | _ :: r, O => b :: r
  | x :: r, S p => x :: set_nth_bytes p b r
  end.

Fixpoint upd_held (i : nat) (f : list N -> list N) (held : list (list N)) : list (list N) :=
  match held, i with
  | [], _ => []
  | s :: r, O => f s :: r
  | s :: r, S j => s :: upd_held j f r
  end.

(* one step: new list of held slices, and what the call returned *)
Definition hstep (held : list (list N)) (op : hop) : list (list N) * hout :=
  match op with
  | HEnc k v => (held ++ [be k v], OBytes (be k v))
  | HLe k v => (held ++ [le k v], OBytes (le k v))
  | HAppend i bs => (upd_held i (fun s => s ++ bs) held, ONone)
  | HWrite i pos b => (upd_held i (set_nth_bytes pos b) held, ONone)
  | HAppendEnc i k v => (upd_held i (fun s => s ++ be k v) held ++ [be k v], OBytes (be k v))
  | HDec k i =>
      match nth_error held i with
      | Some s => if Nat.ltb (length s) k then (held, OShort) else (held, ONum (unbe_k k s))
      | None => (held, OShort)
      end
  end.

Fixpoint hrun (held : list (list N)) (ops : list hop) : list hout :=
  match ops with
  | [] => []
  | op :: r => let (h', o) := hstep held op in o :: hrun h' r
  end.

(* what an encoder call must return, whatever happened before *)
Definition enc_of (op : hop) : option (list N) :=
  match op with
  | HEnc k v => Some (be k v)
  | HLe k v => Some (le k v)
  | HAppendEnc _ k v => Some (be k v)
  | _ => None
  end.
