(* Model of inter/pos: validators.go, sort.go, stake.go, stake_bigint.go.
   Definitions only.  Weight = uint32, ValidatorID = uint32 (N with explicit wrap32),
   idx.Validator = position (nat).  Go maps are association lists searched front to back
   (an overwrite conses in front), `None` models a Go panic.
   Trusted / only modelled: go-ethereum rlp (the bytes), math/big (Add, BitLen, Rsh, Uint64),
   sort.Sort (any correct sort gives the same array: proofs/PosSortProofs.v). *)
From Coq Require Import NArith List Bool.
From LV Require Import lib.WordArith.
Import ListNotations.
Local Open Scope N_scope.

(* ---------- ValidatorsBuilder : map[ValidatorID]Weight ---------- *)
Definition vmap := list (N * N).

Fixpoint vremove (id : N) (m : vmap) : vmap :=
  match m with
  | [] => []
  | (i, w) :: r => if i =? id then vremove id r else (i, w) :: vremove id r
  end.

(* func (vv ValidatorsBuilder) Set(id, weight): if weight == 0 { delete } else { vv[id] = weight } *)
Definition vset (m : vmap) (id w : N) : vmap :=
  if w =? 0 then vremove id m else (id, w) :: vremove id m.

Fixpoint vget (m : vmap) (id : N) : N :=
  match m with
  | [] => 0
  | (i, w) :: r => if i =? id then w else vget r id
  end.

Fixpoint vmem (m : vmap) (id : N) : bool :=
  match m with
  | [] => false
  | (i, _) :: r => (i =? id) || vmem r id
  end.

(* a sequence of Set calls *)
Definition apply_sets (ops : list (N * N)) (m : vmap) : vmap :=
  fold_left (fun m p => vset m (fst p) (snd p)) ops m.

(* ---------- sort.go : Less ---------- *)
(* if vv[i].Weight != vv[j].Weight { return vv[i].Weight > vv[j].Weight }; return vv[i].ID < vv[j].ID *)
Definition vless (a b : N * N) : bool :=
  if negb (snd a =? snd b) then snd b <? snd a else fst a <? fst b.

(* the model's sort: insertion sort by Less (sort.Sort is pdqsort; see PosSortProofs.sorted_unique) *)
Fixpoint vinsert (x : N * N) (l : list (N * N)) : list (N * N) :=
  match l with
  | [] => [x]
  | y :: r => if vless y x then y :: vinsert x r else x :: y :: r
  end.
Definition vsort (l : list (N * N)) : list (N * N) := fold_right vinsert [] l.

(* sortedArray(): the map's entries, sorted *)
Definition sorted_array (values : vmap) : list (N * N) := vsort values.

(* ---------- caches ---------- *)
Record cache := mkCache {
  c_indexes : list (N * nat);   (* map[ValidatorID]idx.Validator *)
  c_weights : list N;
  c_ids : list N;
  c_total : N }.

Record validators := mkValidators { v_values : vmap; v_cache : cache }.

Definition half_max_u32 : N := 2147483647.   (* math.MaxUint32/2 *)

(* the loop of calcCaches; None = panic("validators weight overflow") inside the loop *)
Fixpoint calc_loop (arr : list (N * N)) (i : nat) (c : cache) : option cache :=
  match arr with
  | [] => Some c
  | (id, wt) :: r =>
      let before := c_total c in
      let t := add32 before wt in
      if t <? before then None
      else calc_loop r (S i)
             (mkCache ((id, i) :: c_indexes c) (c_weights c ++ [wt]) (c_ids c ++ [id]) t)
  end.

Definition calc_caches (values : vmap) : option cache :=
  match calc_loop (sorted_array values) 0%nat (mkCache [] [] [] 0) with
  | None => None
  | Some c => if half_max_u32 <? c_total c then None else Some c
  end.

(* newValidators: copy through Set (drops zero entries), then calcCaches *)
Definition new_validators (values : vmap) : option validators :=
  let copy := apply_sets values [] in
  match calc_caches copy with
  | None => None
  | Some c => Some (mkValidators copy c)
  end.

(* builder.Build() after a sequence of Set calls on a fresh builder *)
Definition build (ops : list (N * N)) : option validators := new_validators (apply_sets ops []).

Definition v_len (vs : validators) : nat := length (v_values vs).
Definition total_weight (vs : validators) : N := c_total (v_cache vs).
Definition sorted_ids (vs : validators) : list N := c_ids (v_cache vs).
Definition sorted_weights (vs : validators) : list N := c_weights (v_cache vs).

Fixpoint idx_lookup (m : list (N * nat)) (id : N) : nat :=
  match m with
  | [] => 0%nat             (* missing key: Go map zero value *)
  | (i, k) :: r => if i =? id then k else idx_lookup r id
  end.
Definition get_idx (vs : validators) (id : N) : nat := idx_lookup (c_indexes (v_cache vs)) id.
Definition get_id (vs : validators) (i : nat) : option N := nth_error (sorted_ids vs) i.
Definition get_weight_by_idx (vs : validators) (i : nat) : option N := nth_error (sorted_weights vs) i.
Definition get (vs : validators) (id : N) : N := vget (v_values vs) id.
Definition exists_id (vs : validators) (id : N) : bool := vmem (v_values vs) id.

(* ---------- Quorum ---------- *)
(* vv.TotalWeight()*2/3 + 1 on uint32 *)
Definition quorum32 (W : N) : N := add32 (mul32 W 2 / 3) 1.
Definition quorum (vs : validators) : N := quorum32 (total_weight vs).

(* ---------- WeightCounter (stake.go) ---------- *)
Record counter := mkCounter {
  k_vals : validators;
  k_already : list bool;
  k_quorum : N;
  k_sum : N }.

Definition new_counter (vs : validators) : counter :=
  mkCounter vs (repeat false (v_len vs)) (quorum vs) 0.

Fixpoint set_true (i : nat) (l : list bool) : list bool :=
  match l, i with
  | [], _ => []
  | _ :: r, O => true :: r
  | b :: r, S i' => b :: set_true i' r
  end.

(* CountByIdx; None = index-out-of-range panic *)
Definition count_by_idx (k : counter) (i : nat) : option (counter * bool) :=
  match nth_error (k_already k) i with
  | None => None
  | Some true => Some (k, false)
  | Some false =>
      match get_weight_by_idx (k_vals k) i with
      | None => None
      | Some wt => Some (mkCounter (k_vals k) (set_true i (k_already k)) (k_quorum k)
                                   (add32 (k_sum k) wt), true)
      end
  end.

Definition count (k : counter) (id : N) : option (counter * bool) :=
  count_by_idx k (get_idx (k_vals k) id).

Definition has_quorum (k : counter) : bool := k_quorum k <=? k_sum k.
Definition num_counted (k : counter) : nat := length (filter (fun b => b) (k_already k)).

(* call sequences *)
Inductive cop := OpIdx (i : nat) | OpId (id : N) | OpHas | OpSum.
Inductive cres := RBool (b : bool) | RNum (n : N) | RPanic.

Fixpoint run_counter (k : counter) (ops : list cop) : list cres * option counter :=
  match ops with
  | [] => ([], Some k)
  | op :: r =>
      match op with
      | OpIdx i =>
          match count_by_idx k i with
          | None => ([RPanic], None)
          | Some (k', b) => let (o, f) := run_counter k' r in (RBool b :: o, f)
          end
      | OpId id =>
          match count k id with
          | None => ([RPanic], None)
          | Some (k', b) => let (o, f) := run_counter k' r in (RBool b :: o, f)
          end
      | OpHas => let (o, f) := run_counter k r in (RBool (has_quorum k) :: o, f)
      | OpSum => let (o, f) := run_counter k r in (RNum (k_sum k) :: o, f)
      end
  end.

(* ---------- RLP glue ---------- *)
(* EncodeRLP writes sortedArray(); DecodeRLP reads an array and rebuilds through the builder *)
Definition encode (vs : validators) : list (N * N) := sorted_array (v_values vs).
Definition decode (arr : list (N * N)) : option validators := build arr.

(* ---------- ValidatorsBigBuilder (stake_bigint.go) ---------- *)
(* stakes are non-negative big integers; Set deletes on zero exactly like the small builder *)
Definition big_total (m : vmap) : N := fold_right (fun p acc => snd p + acc) 0 m.
Definition bitlen (n : N) : N := N.size n.
Definition big_shift (m : vmap) : N :=
  let tb := bitlen (big_total m) in if 31 <? tb then tb - 31 else 0.
(* Weight(new(big.Int).Rsh(w, shift).Uint64()) : low 64 bits, then truncated to uint32 *)
Definition big_weight (shift w : N) : N := wrap32 (wrap64 (N.shiftr w shift)).
Definition big_sets (m : vmap) : list (N * N) :=
  let s := big_shift m in map (fun p => (fst p, big_weight s (snd p))) m.
Definition big_build (ops : list (N * N)) : option validators :=
  build (big_sets (apply_sets ops [])).
