(* Model of common/bigendian, common/littleendian, inter/idx Bytes()/BytesToX and the
   event-id layout of inter/dag.MutableBaseEvent.Build/SetID + hash.Event.Epoch/Lamport.
   encoding/binary's Put/Get are modelled as digit recursion (trusted: encoding/binary). *)
From Coq Require Import NArith List.
From LV Require Import lib.Bytes.
Import ListNotations.
Local Open Scope N_scope.

(* little-endian digits, k bytes; the value is truncated to k bytes as a Go uintK is *)
Fixpoint le (k : nat) (n : N) : list N :=
  match k with
  | O => []
  | S k' => (n mod 256) :: le k' (n / 256)
  end.

Fixpoint unle (l : list N) : N :=
  match l with
  | [] => 0
  | b :: l' => b + 256 * unle l'
  end.

Definition be (k : nat) (n : N) : list N := rev (le k n).
Definition unbe (l : list N) : N := unle (rev l).

(* decoders as the Go code uses them: read exactly the first k bytes *)
Definition unbe_k (k : nat) (l : list N) : N := unbe (firstn k l).
Definition unle_k (k : nat) (l : list N) : N := unle (firstn k l).

(* event id: copy(id[0:4], epoch.Bytes()); copy(id[4:8], lamport.Bytes()); copy(id[8:], rID) *)
Definition event_id (epoch lamport : N) (tail : list N) : list N :=
  be 4 epoch ++ be 4 lamport ++ tail.
Definition id_epoch (id : list N) : N := unbe (firstn 4 id).
Definition id_lamport (id : list N) : N := unbe (firstn 4 (skipn 4 id)).

(* the specification order on (epoch, lamport, tail) triples *)
Definition triple_compare (a b : N * N * list N) : comparison :=
  let '(e1, l1, t1) := a in
  let '(e2, l2, t2) := b in
  match N.compare e1 e2 with
  | Eq => match N.compare l1 l2 with
          | Eq => lex_compare t1 t2
          | c => c
          end
  | c => c
  end.

Definition cmp_to_N (c : comparison) : N :=
  match c with Lt => 0 | Eq => 1 | Gt => 2 end.

(* ---- the mutable event builder (inter/dag.MutableBaseEvent): the id is (re)stamped with the
   epoch and Lamport time current at the moment of SetID / Build, whatever happened before ---- *)
Record builder := { b_epoch : N; b_lamport : N; b_id : list N }.
Inductive bop := BSetEpoch (e : N) | BSetLamport (l : N) | BSetID (t : list N) | BBuild (t : list N).
Definition builder0 : builder := {| b_epoch := 0; b_lamport := 0; b_id := repeat 0 32 |}.

(* returns the new builder and the id observed (ID() after SetID; Build(..).ID()) *)
Definition bstep (b : builder) (o : bop) : builder * option (list N) :=
  match o with
  | BSetEpoch e => ({| b_epoch := e; b_lamport := b_lamport b; b_id := b_id b |}, None)
  | BSetLamport l => ({| b_epoch := b_epoch b; b_lamport := l; b_id := b_id b |}, None)
  | BSetID t => let id := event_id (b_epoch b) (b_lamport b) t in
                ({| b_epoch := b_epoch b; b_lamport := b_lamport b; b_id := id |}, Some id)
  | BBuild t => (b, Some (event_id (b_epoch b) (b_lamport b) t))   (* Build works on a copy *)
  end.

Fixpoint brun (b : builder) (ops : list bop) : list (list N) :=
  match ops with
  | [] => []
  | o :: r => let '(b', out) := bstep b o in
              match out with Some id => id :: brun b' r | None => brun b' r end
  end.

(* specification: the (epoch, lamport) current when each id was produced *)
Fixpoint bspec (e l : N) (ops : list bop) : list (N * N) :=
  match ops with
  | [] => []
  | BSetEpoch e' :: r => bspec e' l r
  | BSetLamport l' :: r => bspec e l' r
  | BSetID _ :: r => (e, l) :: bspec e l r
  | BBuild _ :: r => (e, l) :: bspec e l r
  end.
