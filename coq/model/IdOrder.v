(* Model of hash.OrderedEvents (hash/event_hash.go): Less = bytes.Compare(a, b) < 0 on the 32-byte
   event ids, ByEpochAndLamport = sort.Sort by Less (modelled as insertion sort; any correct sort
   gives the same list, proofs/IdOrderProofs.id_sort_unique).  Definitions only. *)
From Coq Require Import NArith List Bool.
From LV Require Import lib.Bytes model.Codec.
Import ListNotations.
Local Open Scope N_scope.

Definition less_ids (a b : list N) : bool := lex_ltb a b.

Fixpoint id_insert (x : list N) (l : list (list N)) : list (list N) :=
  match l with
  | [] => [x]
  | y :: r => if less_ids y x then y :: id_insert x r else x :: y :: r
  end.
Definition id_sort (l : list (list N)) : list (list N) := fold_right id_insert [] l.

(* the specification order on (epoch, lamport, tail) triples and the sort by it *)
Definition tless (a b : N * N * list N) : bool :=
  match triple_compare a b with Lt => true | _ => false end.
Fixpoint tinsert (x : N * N * list N) (l : list (N * N * list N)) : list (N * N * list N) :=
  match l with
  | [] => [x]
  | y :: r => if tless y x then y :: tinsert x r else x :: y :: r
  end.
Definition tsort (l : list (N * N * list N)) : list (N * N * list N) := fold_right tinsert [] l.
Definition mk_id (t : N * N * list N) : list N := event_id (fst (fst t)) (snd (fst t)) (snd t).
(* adjacent elements in (epoch, lamport, tail) order: the executable check used on the implementation *)
Fixpoint triples_sorted (l : list (N * N * list N)) : bool :=
  match l with
  | a :: ((b :: _) as r) => negb (tless b a) && triples_sorted r
  | _ => true
  end.
