(* Model of gossip/dagordering/event_buffer.go (EventsBuffer) — property C14.

   What is modelled, line by line:
     PushEvent      -> push_event   (duplicate test by Peek, pushEvent, spillIncompletes(limit))
     pushEvent      -> push_rec     (Exists branch, completeEventParents, processCompleteEvent,
                                     releaseEvent, the loop over the *stale* snapshot taken by the
                                     outermost successful call, final Remove)
     processCompleteEvent -> process_complete   (Check, Process, e.err, dropEvent)
     spillIncompletes -> spill      (RemoveOldest while over the limit)
     dropEvent / releaseEvent -> drop / release (first error wins; Released fires once per copy)
     Clear          -> clear_buf    (spillIncompletes(Metric{}))
     Total          -> total_num / total_size

   `incompletes` (utils/wlru keyed by event id, only Add of absent keys / Peek / Remove /
   RemoveOldest / Keys / Len / Weight are used) is a list of entries, OLDEST FIRST: Add appends,
   Peek does not touch recency, Keys() lists oldest to newest.  The wlru is built with bounds
   the widest bounds (fixes/C14b.patch; originally MaxInt32/MaxInt32, finding C14-wlru-bounds); the
   model assumes they are never reached.

   A pushed copy (`*event` in Go, with its mutable `released`/`err` fields shared through the
   snapshot slice) is an [entry] with a copy id [cid]; the mutable fields live in the state
   ([released], [errs]) because the snapshot holds pointers.

   Callbacks: Exists/Get read [connected]; a successful Process adds the event to it (this is
   what the application does); [OpConnect] models an event connected by another route.
   Check/Process failures are oracles that may depend on the whole callback log so far.

   The pinned tree has a defect (DESIGN §6 #2): the loop re-pushes children from a stale
   snapshot even when they were already released.  [fixed = true] is the repaired code
   (`if child.released { continue }`), [fixed = false] the code as found ([push_event_old]).

   Optional callbacks.  Callback.Released and Callback.Check may be nil.  The code sets the
   per-copy `released` flag whether or not Released exists (`releaseEvent`), and skips the check
   when Check is nil.  The model's OReleased entry is the moment the flag is set and OCheck the
   moment the check would run: without the callback they are internal events, projected out of the
   observation by the driver (a buffer without Check = the oracle [fails_check] constantly false).
   The snapshot loop's `if child.released` depends on the flag, not on the callback.

   Definitions only; proofs are in proofs/Buffer*.v. *)
From Coq Require Import NArith List Bool.
Import ListNotations.
Local Open Scope N_scope.

Record entry := mkEntry { cid : N; eid : N; pars : list N; esize : N }.

(* error codes of Released: 0 nil, 1 ErrAlreadyConnectedEvent, 2 Check error, 3 Process error,
   4 ErrSpilledEvent, 5 ErrDuplicateEvent *)
Inductive out :=
| OCheck (c e : N) (ok : bool)
| OProcess (c e : N) (ok : bool)
| OReleased (c e : N) (err : N)
| OConnect (e : N)                         (* event connected outside the buffer *)
| OPushed (c : N) (complete : bool) (num size : N)   (* PushEvent returned; Total() after it *)
| OCleared (num size : N).                 (* Clear returned; Total() after it *)

Record st := mkSt {
  inc : list entry;            (* incompletes, oldest first *)
  connected : list N;          (* event ids for which Exists/Get answer yes *)
  released : list N;           (* copy ids whose `released` flag is set *)
  errs : list (N * N);         (* copy id -> e.err (absent = nil) *)
  log : list out;              (* callback log, NEWEST FIRST *)
  next : N;                    (* number of PushEvent calls so far = next copy id *)
  oof : bool                   (* fuel ran out (never happens with the fuel push_event gives) *)
}.

Definition st0 : st := mkSt [] [] [] [] [] 0 false.

Definition memN (x : N) (l : list N) : bool := existsb (N.eqb x) l.

Definition emit (s : st) (o : out) : st :=
  mkSt (inc s) (connected s) (released s) (errs s) (o :: log s) (next s) (oof s).
Definition set_oof (s : st) : st :=
  mkSt (inc s) (connected s) (released s) (errs s) (log s) (next s) true.
Definition err_of (s : st) (c : N) : N :=
  match find (fun p => fst p =? c) (errs s) with Some p => snd p | None => 0 end.
(* e.err = err *)
Definition set_err (s : st) (c err : N) : st :=
  mkSt (inc s) (connected s) (released s)
       ((c, err) :: filter (fun p => negb (fst p =? c)) (errs s)) (log s) (next s) (oof s).
(* dropEvent: if e.err == nil { e.err = err } *)
Definition drop (s : st) (c err : N) : st :=
  if err_of s c =? 0 then set_err s c err else s.
(* releaseEvent: callback unless already released; set the flag *)
Definition release (s : st) (x : entry) : st :=
  if memN (cid x) (released s) then s
  else mkSt (inc s) (connected s) (cid x :: released s) (errs s)
            (OReleased (cid x) (eid x) (err_of s (cid x)) :: log s) (next s) (oof s).
(* incompletes.Remove(id) *)
Definition remove_inc (s : st) (e : N) : st :=
  mkSt (filter (fun y => negb (eid y =? e)) (inc s)) (connected s) (released s) (errs s)
       (log s) (next s) (oof s).
(* incompletes.Add(id, e, size) for an absent id *)
Definition add_inc (s : st) (x : entry) : st :=
  mkSt (inc s ++ [x]) (connected s) (released s) (errs s) (log s) (next s) (oof s).
Definition connect (s : st) (e : N) : st :=
  mkSt (inc s) (e :: connected s) (released s) (errs s) (log s) (next s) (oof s).
Definition set_inc (s : st) (l : list entry) : st :=
  mkSt l (connected s) (released s) (errs s) (log s) (next s) (oof s).
Definition bump (s : st) : st :=
  mkSt (inc s) (connected s) (released s) (errs s) (log s) (next s + 1) (oof s).

Definition is_connected (s : st) (e : N) : bool := memN e (connected s).
(* completeEventParents(e) != nil *)
Definition complete (s : st) (x : entry) : bool := forallb (is_connected s) (pars x).

Definition total_size (l : list entry) : N := fold_right (fun y a => esize y + a) 0 l.
Definition total_num (l : list entry) : N := N.of_nat (length l).

Section Buf.
  (* failure oracles: given the callback log so far (newest first) and the copy *)
  Variable fails_check fails_process : list out -> entry -> bool.
  (* true = repaired code (skip released snapshot entries), false = code as found *)
  Variable fixed : bool.

  (* processCompleteEvent *)
  Definition process_complete (s : st) (x : entry) : st * bool :=
    if fails_check (log s) x then
      (drop (emit s (OCheck (cid x) (eid x) false)) (cid x) 2, false)
    else
      let s1 := emit s (OCheck (cid x) (eid x) true) in
      if fails_process (log s1) x then
        (set_err (emit s1 (OProcess (cid x) (eid x) false)) (cid x) 3, false)
      else
        (connect (emit s1 (OProcess (cid x) (eid x) true)) (eid x), true).

  (* pushEvent(e, incompleteEventsList, recheck); [snap = None] is the nil slice *)
  Fixpoint push_rec (fuel : nat) (s : st) (x : entry) (snap : option (list entry))
           (recheck : bool) : st * bool :=
    match fuel with
    | O => (set_oof s, false)
    | S f =>
      if is_connected s (eid x) then
        let s1 := remove_inc s (eid x) in
        let s2 := if recheck then s1 else drop s1 (cid x) 1 in
        (release s2 x, false)
      else if negb (complete s x) then
        ((if recheck then s else add_inc s x), false)
      else
        let '(s1, ok) := process_complete s x in
        let s2 := release s1 x in
        let s3 :=
          if ok then
            let snap' := match snap with Some l => l | None => inc s2 end in
            fold_left (fun sa child =>
                         if memN (eid x) (pars child)
                            && negb (fixed && memN (cid child) (released sa))
                         then fst (push_rec f sa child (Some snap') true)
                         else sa) snap' s2
          else s2 in
        (remove_inc s3 (eid x), ok)
    end.

  (* spillIncompletes(limit): which entries go (oldest first) and which stay *)
  Definition over (limN limS : N) (l : list entry) : bool :=
    (limN <? total_num l) || (limS <? total_size l).
  Fixpoint spill_split (limN limS : N) (l : list entry) : list entry * list entry :=
    match l with
    | [] => ([], [])
    | y :: r => if over limN limS l
                then let '(sp, k) := spill_split limN limS r in (y :: sp, k)
                else ([], l)
    end.
  Definition spill_one (s : st) (y : entry) : st := release (drop s (cid y) 4) y.
  Definition spill (limN limS : N) (s : st) : st :=
    let '(sp, k) := spill_split limN limS (inc s) in
    fold_left spill_one sp (set_inc s k).

  (* PushEvent *)
  Definition push_event (limN limS : N) (s : st) (e : N) (ps : list N) (sz : N) : st :=
    let x := mkEntry (next s) e ps sz in
    let s := bump s in
    let '(s', ok) :=
      if existsb (fun y => eid y =? e) (inc s) then
        (release (drop s (cid x) 5) x, false)
      else
        let '(s1, ok) := push_rec (S (length (inc s))) s x None false in
        (spill limN limS s1, ok) in
    emit s' (OPushed (cid x) ok (total_num (inc s')) (total_size (inc s'))).

  (* Clear *)
  Definition clear_buf (s : st) : st :=
    let s' := spill 0 0 s in
    emit s' (OCleared (total_num (inc s')) (total_size (inc s'))).

  Definition connect_ext (s : st) (e : N) : st := connect (emit s (OConnect e)) e.

  Inductive op := OpPush (e : N) (ps : list N) (sz : N) | OpClear | OpConnect (e : N).

  Definition step (limN limS : N) (s : st) (o : op) : st :=
    match o with
    | OpPush e ps sz => push_event limN limS s e ps sz
    | OpClear => clear_buf s
    | OpConnect e => connect_ext s e
    end.

  Definition run_from (limN limS : N) (s : st) (ops : list op) : st :=
    fold_left (step limN limS) ops s.
  Definition run (limN limS : N) (ops : list op) : st := run_from limN limS st0 ops.
End Buf.

(* the two versions *)
Definition run_fixed fc fp := run fc fp true.
Definition run_old fc fp := run fc fp false.
Definition push_event_old fc fp := push_event fc fp false.

(* Table oracles used by the correspondence: an entry (e, k) makes the callback fail for event
   id e — on every call when k = 0, on the k-th call (1-based) for that event id otherwise. *)
Definition calls_check (e : N) (l : list out) : N :=
  N.of_nat (length (filter (fun o => match o with OCheck _ e' _ => e' =? e | _ => false end) l)).
Definition calls_process (e : N) (l : list out) : N :=
  N.of_nat (length (filter (fun o => match o with OProcess _ e' _ => e' =? e | _ => false end) l)).
Definition tbl_hit (tbl : list (N * N)) (e nth : N) : bool :=
  existsb (fun p => (fst p =? e) && ((snd p =? 0) || (snd p =? nth))) tbl.
Definition tbl_check (tbl : list (N * N)) (l : list out) (x : entry) : bool :=
  tbl_hit tbl (eid x) (calls_check (eid x) l + 1).
Definition tbl_process (tbl : list (N * N)) (l : list out) (x : entry) : bool :=
  tbl_hit tbl (eid x) (calls_process (eid x) l + 1).

Definition run_tbl (fixed : bool) (tc tp : list (N * N)) (limN limS : N) (ops : list op) : st :=
  run (tbl_check tc) (tbl_process tp) fixed limN limS ops.
