(* Model of utils/workers/workers.go (the pool that runs the fetcher's and the processor's request
   closures) together with its owner's stop sequence (close(quit); Drain(); wg.Wait()).

     Enqueue(fn):  select { case tasks <- fn: nil ; case <-quit: errTerminated }
     worker:       for { select { case <-quit: return ; case job := <-tasks: job() } }
     Drain():      for { select { case <-tasks: continue ; default: return } }

   One event per select that fires.  When both cases of a select are ready Go picks one at random:
   that choice is the oracle [pick_quit] of the event.  Modelled, not verified: channels (a FIFO of
   capacity maxTasks, a closed-flag for quit), sync.WaitGroup (Wait returns when every worker has
   exited).  Ghost fields: [p_accepted] (ids whose Enqueue returned nil), [p_ran] (ids whose closure
   was started, in order). *)
From Coq Require Import NArith List Bool.
Import ListNotations.

Inductive wst := WIdle | WRun (id : N) | WExit.

Record pool := mkPool {
  p_cap : nat; p_queue : list N; p_quit : bool; p_workers : list wst;
  p_accepted : list N; p_ran : list N
}.

Definition pool_init (cap workers : nat) : pool := mkPool cap [] false (repeat WIdle workers) [] [].

Inductive wev :=
| WEnqueue (id : N) (pick_quit : bool)
| WTake (w : nat) (pick_quit : bool)
| WDone (w : nat)
| WQuit
| WDrainOne
| WHandToDrain (id : N).     (* unbuffered pool only: a blocked Enqueue rendezvous with Drain's receive *)

Inductive wout := OEnq (id : N) (ok : bool) | OStart (id : N) | ONone.

Fixpoint set_nth {A} (n : nat) (x : A) (l : list A) : list A :=
  match l, n with
  | [], _ => []
  | _ :: r, O => x :: r
  | a :: r, S m => a :: set_nth m x r
  end.

(* an idle worker is parked in its select: with an unbuffered channel (maxTasks = 0) a send can only
   complete as a rendezvous with such a worker, which then runs the closure at once *)
Fixpoint first_idle (ws : list wst) : option nat :=
  match ws with
  | [] => None
  | WIdle :: _ => Some O
  | _ :: r => match first_idle r with Some n => Some (S n) | None => None end
  end.

Definition wstep (s : pool) (ev : wev) : pool * wout :=
  match ev with
  | WEnqueue id pq =>
    let room := Nat.ltb (length (p_queue s)) (p_cap s) in
    let meet := match p_cap s with O => first_idle (p_workers s) | S _ => None end in
    let can := room || match meet with Some _ => true | None => false end in
    if p_quit s && (negb can || pq) then (s, OEnq id false)
    else if room then
      (mkPool (p_cap s) (p_queue s ++ [id]) (p_quit s) (p_workers s) (p_accepted s ++ [id]) (p_ran s), OEnq id true)
    else match meet with
         | Some w =>                                         (* rendezvous: the parked worker starts it *)
           (mkPool (p_cap s) (p_queue s) (p_quit s) (set_nth w (WRun id) (p_workers s))
                   (p_accepted s ++ [id]) (p_ran s ++ [id]), OEnq id true)
         | None => (s, ONone)                                (* blocked: full and not terminated *)
         end
  | WTake w pq =>
    match nth_error (p_workers s) w with
    | Some WIdle =>
      match p_queue s with
      | [] => if p_quit s then (mkPool (p_cap s) [] true (set_nth w WExit (p_workers s)) (p_accepted s) (p_ran s), ONone)
              else (s, ONone)                                (* blocked: nothing to do *)
      | h :: r =>
        if p_quit s && pq
        then (mkPool (p_cap s) (p_queue s) true (set_nth w WExit (p_workers s)) (p_accepted s) (p_ran s), ONone)
        else (mkPool (p_cap s) r (p_quit s) (set_nth w (WRun h) (p_workers s)) (p_accepted s) (p_ran s ++ [h]), OStart h)
      end
    | _ => (s, ONone)
    end
  | WDone w =>
    match nth_error (p_workers s) w with
    | Some (WRun _) => (mkPool (p_cap s) (p_queue s) (p_quit s) (set_nth w WIdle (p_workers s)) (p_accepted s) (p_ran s), ONone)
    | _ => (s, ONone)
    end
  | WQuit => (mkPool (p_cap s) (p_queue s) true (p_workers s) (p_accepted s) (p_ran s), ONone)
  | WDrainOne => (mkPool (p_cap s) (tl (p_queue s)) (p_quit s) (p_workers s) (p_accepted s) (p_ran s), ONone)
  | WHandToDrain id =>
    match p_cap s with
    | O => (mkPool (p_cap s) (p_queue s) (p_quit s) (p_workers s) (p_accepted s ++ [id]) (p_ran s), OEnq id true)
    | S _ => (s, ONone)
    end
  end.

Fixpoint wrun (s : pool) (tr : list wev) : pool * list wout :=
  match tr with
  | [] => (s, [])
  | ev :: r => let '(s1, o) := wstep s ev in let '(s2, os) := wrun s1 r in (s2, o :: os)
  end.

(* the owner's Stop has returned: quit is closed and wg.Wait() has seen every worker exit *)
Definition stopped (s : pool) : Prop := p_quit s = true /\ forall w, In w (p_workers s) -> w = WExit.

(* callers use fresh task ids *)
Fixpoint fresh_ids (s : pool) (tr : list wev) : Prop :=
  match tr with
  | [] => True
  | ev :: r => match ev with WEnqueue id _ | WHandToDrain id => ~ In id (p_accepted s) | _ => True end /\ fresh_ids (fst (wstep s ev)) r
  end.

(* executable check of an observed run (harness): [runs] = (id, how often its closure ran),
   [enq] = (id, Enqueue returned nil, was called after close(quit)), [late] = a closure ran after Stop returned *)
Definition wk_check (runs : list (N * nat)) (enq : list (N * (bool * bool))) (late : bool) : bool :=
  negb late &&
  forallb (fun r => Nat.leb (snd r) 1) runs &&
  forallb (fun e => let '(id, (ok, afterq)) := e in
             (ok || match find (fun r => N.eqb (fst r) id) runs with Some r => Nat.eqb (snd r) 0 | None => true end)
             && (ok || afterq)) enq.

(* what the harness would observe of a model run: per Enqueue call (id, returned nil, called after
   close(quit)); whether a closure was started after Stop had returned *)
Fixpoint wk_enqs (s : pool) (tr : list wev) : list (N * (bool * bool)) :=
  match tr with
  | [] => []
  | ev :: r =>
    match snd (wstep s ev) with
    | OEnq id ok => (id, (ok, p_quit s)) :: wk_enqs (fst (wstep s ev)) r
    | _ => wk_enqs (fst (wstep s ev)) r
    end
  end.
Definition all_exited (s : pool) : bool :=
  p_quit s && forallb (fun w => match w with WExit => true | _ => false end) (p_workers s).
Fixpoint wk_late (s : pool) (tr : list wev) : bool :=
  match tr with
  | [] => false
  | ev :: r =>
    (all_exited s && match snd (wstep s ev) with OStart _ => true | _ => false end) || wk_late (fst (wstep s ev)) r
  end.
Definition count_occ_N (x : N) (l : list N) : nat := length (filter (N.eqb x) l).
Definition wk_runs (s : pool) (ids : list N) : list (N * nat) := map (fun id => (id, count_occ_N id (p_ran s))) ids.
Definition enq_ids (tr : list wev) : list N :=
  flat_map (fun ev => match ev with WEnqueue id _ | WHandToDrain id => [id] | _ => [] end) tr.
