(* Model of gossip/basestream/basestreamseeder/seeder.go (BaseSeeder) with gossip/basestream/types.go.

   Three kinds of goroutines exist: callers of NotifyRequestReceived / UnregisterPeer, the reader
   loop, and one sender worker per sender thread (utils/workers with Start(1)).  The model is a
   labelled transition system whose labels are the atomic steps of those goroutines:

     ORequest rq    NotifyRequestReceived: chunk-count check, limit sanitising, channel send
     OUnregister p  UnregisterPeer: channel send
     OReadReq       reader, idle: receive from notifyReceivedRequest
     OReadUnreg     reader, idle: receive from notifyUnregisteredPeer and drop the peer's sessions
     OReader        reader, busy: next step of the request being processed (see [rpc]); the
                    addition to pendingResponsesSize and the Enqueue that may block are two steps
     ODeliver i     sender worker i: run the task at the head of its queue
                    (sendChunk callback, then pendingResponsesSize -= memSize; one label: the state
                    between the two has the pending size of the state before the label)

   A step that is not enabled (empty channel, full channel, pending size at its limit, sender
   queue full) returns None.  Every interleaving of the goroutines is a sequence of labels, so
   "for all schedules" = "for all label sequences".  What is modelled and not verified: Go
   channels (FIFO, bounded), the atomicity of each label (reader state is private to the reader
   goroutine, pendingResponsesSize is accessed atomically), the worker pool (one FIFO per
   sender), select's choice between the two input channels (labels OReadReq / OReadUnreg).
   Stop() is not modelled (histories end before it).

   Locators are numbers, Inc = +1, Compare = numeric order.  The application callback
   ForEachItem is the canonical iterator over a key-sorted item list (what the harness supplies);
   the two closures the seeder passes to it (onKey, onAppended) are inlined in [foreach].

   The model is of the REPAIRED code (fixes/C17.patch): the oldest session is pruned only when a
   new session is created, and a new session is stored in the session table at creation.  The
   pinned tree's behaviour is the variant [v_old].  Definitions only. *)
From Coq Require Import NArith List Bool.
Import ListNotations.
Local Open Scope N_scope.

Record item := mkItem { it_key : N; it_size : N; it_mem : N }.

Record config := mkCfg {
  c_threads : N;        (* SenderThreads (>= 1) *)
  c_maxtasks : N;       (* MaxSenderTasks *)
  c_limit : N;          (* MaxPendingResponsesSize *)
  c_maxnum : N;         (* MaxResponsePayloadNum *)
  c_maxsize : N;        (* MaxResponsePayloadSize *)
  c_maxchunks : N;      (* MaxResponseChunks *)
  c_membase : N         (* application: TotalMemSize() of an empty payload *)
}.

Record request := mkReq {
  r_peer : N; r_sid : N; r_start : N; r_stop : N;
  r_num : N; r_size : N; r_chunks : N;
  r_serial : N          (* ghost: ordinal of the NotifyRequestReceived call *)
}.

Record sess := mkSess {
  s_orig : N; s_next : N; s_stop : N; s_done : bool;
  s_sender : nat;       (* senderI *)
  s_inc : N;            (* ghost: incarnation = value of sessionsCounter at creation *)
  s_creator : N         (* ghost: serial of the creating request (identity of the captured
                           sendChunk closure) *)
}.

Record resp := mkResp {
  rs_peer : N; rs_sid : N; rs_done : bool; rs_items : list item;
  rs_inc : N; rs_creator : N;   (* ghost: incarnation / captured sendChunk *)
  rs_req : request              (* ghost: the request being served, as the reader sees it *)
}.

(* reader program counter *)
Inductive rpc :=
| RIdle                                           (* in select *)
| RTop (rq : request)                             (* received; at the first waitPendingResponsesBelowLimit *)
| RChunk (rq : request) (i : N) (ss : sess)       (* at the loop head, iteration i, local [session] = ss *)
| RSend (rq : request) (i : N) (ss : sess) (r : resp)  (* response built; at the second waitPendingResponsesBelowLimit *)
| REnq (rq : request) (i : N) (ss : sess) (r : resp).  (* memSize added to pendingResponsesSize; at Enqueue (blocks while the sender's task channel is full) *)

Record state := mkSt {
  st_sessions : list ((N * N) * sess);    (* s.sessions, key (peer, sid) *)
  st_peersess : list (N * list N);        (* s.peerSessions *)
  st_counter : N;                         (* s.sessionsCounter, unwrapped *)
  st_chreq : list request;                (* notifyReceivedRequest, cap 16 *)
  st_chunreg : list N;                    (* notifyUnregisteredPeer, cap 128 *)
  st_reader : rpc;
  st_senders : list (list resp);          (* per sender: running task (head) and queued tasks *)
  st_pending : N;                         (* pendingResponsesSize *)
  st_serial : N                           (* ghost: number of NotifyRequestReceived calls *)
}.

Inductive event :=
| ESent (r : resp)                          (* Peer.SendChunk(r) *)
| EMisb (peer serial : N)                   (* Peer.Misbehaviour(ErrSelectorMismatch) *)
| ETooMany (peer serial : N)                (* NotifyRequestReceived returned ErrTooManyChunks *)
| ECreated (inc peer sid start stop creator : N)   (* ghost: a session incarnation was created *)
| EUnreg (peer : N)                         (* ghost: the reader dropped the peer's sessions *)
| EEnq (r : resp).                          (* ghost: the reader handed r to its sender worker *)

Inductive op :=
| ORequest (rq : request) | OUnregister (p : N)
| OReadReq | OReadUnreg | OReader | ODeliver (i : nat).

(* code variants: the pinned tree prunes on every request and stores a new session only when
   its first chunk is produced *)
Record variant := mkVar { prune_always : bool; store_on_create : bool }.
Definition v_fixed : variant := mkVar false true.
Definition v_old : variant := mkVar true false.

(* ---------- maps as association lists ---------- *)
Definition key_eqb (a b : N * N) : bool := (fst a =? fst b) && (snd a =? snd b).

Fixpoint sess_get (k : N * N) (m : list ((N * N) * sess)) : option sess :=
  match m with
  | [] => None
  | (k', v) :: r => if key_eqb k k' then Some v else sess_get k r
  end.
Definition sess_del (k : N * N) (m : list ((N * N) * sess)) : list ((N * N) * sess) :=
  filter (fun kv => negb (key_eqb k (fst kv))) m.
Definition sess_put (k : N * N) (v : sess) (m : list ((N * N) * sess)) : list ((N * N) * sess) :=
  sess_del k m ++ [(k, v)].

Fixpoint ps_get (p : N) (m : list (N * list N)) : list N :=
  match m with
  | [] => []
  | (p', l) :: r => if p =? p' then l else ps_get p r
  end.
Definition ps_del (p : N) (m : list (N * list N)) : list (N * list N) :=
  filter (fun kv => negb (p =? fst kv)) m.
Definition ps_put (p : N) (l : list N) (m : list (N * list N)) : list (N * list N) :=
  ps_del p m ++ [(p, l)].

Fixpoint list_upd {A} (i : nat) (f : A -> A) (l : list A) : list A :=
  match l, i with
  | [], _ => []
  | x :: r, O => f x :: r
  | x :: r, S j => x :: list_upd j f r
  end.

(* ---------- payloads ---------- *)
Fixpoint sum_size (l : list item) : N := match l with [] => 0 | x :: r => it_size x + sum_size r end.
Fixpoint sum_mem (l : list item) : N := match l with [] => 0 | x :: r => it_mem x + sum_mem r end.
Definition resp_mem (cfg : config) (r : resp) : N := c_membase cfg + sum_mem (rs_items r).

(* ForEachItem(start, _, onKey, onAppended) over the sorted item list, with
     onKey(key):       if key >= stop {return false}; lastKey = key; return true
     onAppended(items): if len(items) >= MaxPayloadNum || TotalSize >= MaxPayloadSize
                           {allConsumed = false; return false}; return true
   result: (payload, lastKey, allConsumed) *)
Fixpoint foreach (l : list item) (start stop maxnum maxsize : N)
                 (acc : list item) (last : N) : list item * N * bool :=
  match l with
  | [] => (acc, last, true)
  | x :: r =>
      if it_key x <? start then foreach r start stop maxnum maxsize acc last
      else if stop <=? it_key x then (acc, last, true)
      else
        let acc' := acc ++ [x] in
        if (maxnum <=? N.of_nat (length acc')) || (maxsize <=? sum_size acc')
        then (acc', it_key x, false)
        else foreach r start stop maxnum maxsize acc' (it_key x)
  end.

(* ---------- the reader ---------- *)
Definition sender_of (cfg : config) (counter : N) : nat :=
  N.to_nat ((counter mod 4294967296) mod c_threads cfg).

(* "prune oldest session" *)
Definition prune (p : N) (sessions : list N) (table : list ((N * N) * sess))
  : list N * list ((N * N) * sess) :=
  match sessions with
  | oldest :: rest => if 2 <? N.of_nat (length sessions) then (rest, sess_del (p, oldest) table)
                      else (sessions, table)
  | [] => (sessions, table)
  end.

Definition set_reader (st : state) (pc : rpc) : state :=
  mkSt (st_sessions st) (st_peersess st) (st_counter st) (st_chreq st) (st_chunreg st) pc
       (st_senders st) (st_pending st) (st_serial st).

(* reader at RTop: from "prune oldest session" to the sanity check *)
Definition reader_top (v : variant) (cfg : config) (st : state) (rq : request) : state * list event :=
  let p := r_peer rq in
  let key := (p, r_sid rq) in
  let sessions0 := ps_get p (st_peersess st) in
  let '(sessions1, table1) :=
    if prune_always v then prune p sessions0 (st_sessions st) else (sessions0, st_sessions st) in
  match sess_get key table1 with
  | Some ss =>
      if s_orig ss =? r_start rq then
        (mkSt table1 (st_peersess st) (st_counter st) (st_chreq st) (st_chunreg st)
              (RChunk rq 0 ss) (st_senders st) (st_pending st) (st_serial st), [])
      else
        (mkSt table1 (st_peersess st) (st_counter st) (st_chreq st) (st_chunreg st)
              RIdle (st_senders st) (st_pending st) (st_serial st), [EMisb p (r_serial rq)])
  | None =>
      let '(sessions2, table2) :=
        if prune_always v then (sessions1, table1) else prune p sessions1 table1 in
      let ss := mkSess (r_start rq) (r_start rq) (r_stop rq) false
                       (sender_of cfg (st_counter st)) (st_counter st) (r_serial rq) in
      let table3 := if store_on_create v then sess_put key ss table2 else table2 in
      (mkSt table3 (ps_put p (sessions2 ++ [r_sid rq]) (st_peersess st)) (st_counter st + 1)
            (st_chreq st) (st_chunreg st) (RChunk rq 0 ss) (st_senders st) (st_pending st)
            (st_serial st),
       [ECreated (st_counter st) p (r_sid rq) (r_start rq) (r_stop rq) (r_serial rq)])
  end.

(* reader at the loop head *)
Definition reader_chunk (db : list item) (st : state) (rq : request) (i : N) (ss : sess) : state :=
  if (i <? r_chunks rq) && negb (s_done ss) then
    let '(items, last, allc) :=
      foreach db (s_next ss) (s_stop ss) (r_num rq) (r_size rq) [] (s_next ss) in
    let ss' := mkSess (s_orig ss) (last + 1) (s_stop ss) allc (s_sender ss) (s_inc ss) (s_creator ss) in
    let r := mkResp (r_peer rq) (r_sid rq) allc items (s_inc ss) (s_creator ss) rq in
    mkSt (sess_put (r_peer rq, r_sid rq) ss' (st_sessions st)) (st_peersess st) (st_counter st)
         (st_chreq st) (st_chunreg st) (RSend rq i ss' r) (st_senders st) (st_pending st)
         (st_serial st)
  else set_reader st RIdle.

(* reader at the second wait: atomic.AddInt64(&s.pendingResponsesSize, memSize) once the
   pending size is below the limit *)
Definition reader_add (cfg : config) (st : state) (rq : request) (i : N) (ss : sess) (r : resp)
  : option state :=
  if st_pending st <? c_limit cfg then
    Some (mkSt (st_sessions st) (st_peersess st) (st_counter st) (st_chreq st) (st_chunreg st)
               (REnq rq i ss r) (st_senders st) (st_pending st + resp_mem cfg r) (st_serial st))
  else None.

(* reader at s.senders[session.senderI].Enqueue(...): blocks while the worker's task channel is
   full.  An index out of range would panic and kill the reader: modelled as "not enabled"
   (cannot happen when SenderThreads >= 1). *)
Definition reader_send (cfg : config) (st : state) (rq : request) (i : N) (ss : sess) (r : resp)
  : option state :=
  if (N.of_nat (length (nth (s_sender ss) (st_senders st) [])) <=? c_maxtasks cfg) &&
     (Nat.ltb (s_sender ss) (length (st_senders st))) then
    Some (mkSt (st_sessions st) (st_peersess st) (st_counter st) (st_chreq st) (st_chunreg st)
               (RChunk rq (i + 1) ss)
               (list_upd (s_sender ss) (fun q => q ++ [r]) (st_senders st))
               (st_pending st) (st_serial st))
  else None.

Fixpoint del_all (p : N) (sids : list N) (table : list ((N * N) * sess)) : list ((N * N) * sess) :=
  match sids with
  | [] => table
  | sid :: r => del_all p r (sess_del (p, sid) table)
  end.

Definition sanitize (cfg : config) (serial : N) (rq : request) : request :=
  mkReq (r_peer rq) (r_sid rq) (r_start rq) (r_stop rq)
        (if c_maxnum cfg <? r_num rq then c_maxnum cfg else r_num rq)
        (if c_maxsize cfg <? r_size rq then c_maxsize cfg else r_size rq)
        (r_chunks rq) serial.

Definition step (v : variant) (cfg : config) (db : list item) (st : state) (o : op)
  : option (state * list event) :=
  match o with
  | ORequest rq =>
      if c_maxchunks cfg <? r_chunks rq then
        Some (mkSt (st_sessions st) (st_peersess st) (st_counter st) (st_chreq st) (st_chunreg st)
                   (st_reader st) (st_senders st) (st_pending st) (st_serial st + 1),
              [ETooMany (r_peer rq) (st_serial st)])
      else if 16 <=? N.of_nat (length (st_chreq st)) then None
      else Some (mkSt (st_sessions st) (st_peersess st) (st_counter st)
                      (st_chreq st ++ [sanitize cfg (st_serial st) rq]) (st_chunreg st)
                      (st_reader st) (st_senders st) (st_pending st) (st_serial st + 1), [])
  | OUnregister p =>
      if 128 <=? N.of_nat (length (st_chunreg st)) then None
      else Some (mkSt (st_sessions st) (st_peersess st) (st_counter st) (st_chreq st)
                      (st_chunreg st ++ [p]) (st_reader st) (st_senders st) (st_pending st)
                      (st_serial st), [])
  | OReadReq =>
      match st_reader st, st_chreq st with
      | RIdle, rq :: rest =>
          Some (mkSt (st_sessions st) (st_peersess st) (st_counter st) rest (st_chunreg st)
                     (RTop rq) (st_senders st) (st_pending st) (st_serial st), [])
      | _, _ => None
      end
  | OReadUnreg =>
      match st_reader st, st_chunreg st with
      | RIdle, p :: rest =>
          Some (mkSt (del_all p (ps_get p (st_peersess st)) (st_sessions st))
                     (ps_del p (st_peersess st)) (st_counter st) (st_chreq st) rest
                     RIdle (st_senders st) (st_pending st) (st_serial st), [EUnreg p])
      | _, _ => None
      end
  | OReader =>
      match st_reader st with
      | RIdle => None
      | RTop rq => if st_pending st <? c_limit cfg then Some (reader_top v cfg st rq) else None
      | RChunk rq i ss => Some (reader_chunk db st rq i ss, [])
      | RSend rq i ss r =>
          match reader_add cfg st rq i ss r with Some st' => Some (st', []) | None => None end
      | REnq rq i ss r =>
          match reader_send cfg st rq i ss r with Some st' => Some (st', [EEnq r]) | None => None end
      end
  | ODeliver i =>
      match nth i (st_senders st) [] with
      | r :: _ =>
          Some (mkSt (st_sessions st) (st_peersess st) (st_counter st) (st_chreq st) (st_chunreg st)
                     (st_reader st) (list_upd i (fun q => tl q) (st_senders st))
                     (st_pending st - resp_mem cfg r) (st_serial st), [ESent r])
      | [] => None
      end
  end.

Definition init (cfg : config) : state :=
  mkSt [] [] 0 [] [] RIdle (repeat [] (N.to_nat (c_threads cfg))) 0 0.

(* a schedule = a list of labels; labels that are not enabled are skipped (the goroutine is
   blocked / has nothing to do at that moment) *)
Fixpoint run (v : variant) (cfg : config) (db : list item) (st : state) (ops : list op)
  : state * list event :=
  match ops with
  | [] => (st, [])
  | o :: r =>
      match step v cfg db st o with
      | Some (st1, e1) => let '(st2, e2) := run v cfg db st1 r in (st2, e1 ++ e2)
      | None => run v cfg db st r
      end
  end.

(* ---------------------------------------------------------------------------------- *)
(* The schedules the harness enforces (glue, no seeder logic): every harness operation is   *)
(* expanded into a label sequence by simulating the model.                                 *)
(* ---------------------------------------------------------------------------------- *)
Inductive hop :=
| HReq (rq : request)        (* a request followed by a sentinel request *)
| HUnreg (p : N)
| HHold                      (* the harness blocks every SendChunk from now on *)
| HFlush                     (* ... and releases them *)
| HRace (p : N) (reqs : list request) (pos : nat).
    (* the two input channels of the reader raced for real: the harness blocks the reader inside
       the ForEachItem callback of a blocker request, puts the requests [reqs] (each followed by
       a sentinel), an unregistration of p and a last sentinel in flight, and releases the
       reader; [pos] = how many entries of the request channel select took before it took the
       unregistration (read off the implementation's log by the driver) *)

(* sentinel: peer 0 opens session 0 at locator 0 once; a later request with Start = 1 is a
   selector mismatch whose Misbehaviour callback tells the harness that the reader has finished
   everything submitted before *)
(* with MaxResponseChunks = 0 a request for one chunk would be refused: the sentinel session is
   then opened by a request for zero chunks (the repaired code registers it all the same) *)
Definition sentinel_open (cfg : config) : request :=
  mkReq 0 0 0 0 1 1 (if c_maxchunks cfg =? 0 then 0 else 1) 0.
Definition sentinel_ping : request := mkReq 0 0 1 1 1 1 0 0.

Definition blocker_peer : N := 999999.
Definition blocker_req (serial : N) : request := mkReq blocker_peer serial 0 0 1 1 1 0.

(* reader steps until it is blocked or idle with empty channels *)
Fixpoint sched_reader (fuel : nat) (v : variant) (cfg : config) (db : list item) (st : state)
  : list op * state :=
  match fuel with
  | O => ([], st)
  | S f =>
      let o := match st_reader st with
               | RIdle => match st_chunreg st with _ :: _ => OReadUnreg | [] => OReadReq end
               | _ => OReader
               end in
      match step v cfg db st o with
      | Some (st', _) => let '(ops, st'') := sched_reader f v cfg db st' in (o :: ops, st'')
      | None => ([], st)
      end
  end.

Fixpoint first_busy (i : nat) (qs : list (list resp)) : option nat :=
  match qs with
  | [] => None
  | [] :: r => first_busy (S i) r
  | _ :: _ => Some i
  end.

(* reader and senders until nothing moves *)
Fixpoint sched_drain (fuel : nat) (v : variant) (cfg : config) (db : list item) (st : state)
  : list op * state :=
  match fuel with
  | O => ([], st)
  | S f =>
      let '(ops1, st1) := sched_reader 200 v cfg db st in
      match first_busy 0 (st_senders st1) with
      | None => (ops1, st1)
      | Some i =>
          match step v cfg db st1 (ODeliver i) with
          | Some (st2, _) => let '(ops2, st3) := sched_drain f v cfg db st2 in
                             (ops1 ++ ODeliver i :: ops2, st3)
          | None => (ops1, st1)
          end
      end
  end.

Definition drain_fuel : nat := 2000.

(* after a race: the reader runs on; whenever it is in select with both channels non-empty it
   takes a request while pos > 0 and the unregistration when pos = 0; sender workers deliver
   whenever the reader is blocked, and at the end *)
Fixpoint sched_race (fuel : nat) (pos : nat) (v : variant) (cfg : config) (db : list item) (st : state)
  : list op * state :=
  match fuel with
  | O => ([], st)
  | S f =>
      let go (o : op) (pos' : nat) :=
        match step v cfg db st o with
        | Some (st', _) => let '(ops, st'') := sched_race f pos' v cfg db st' in (o :: ops, st'')
        | None => ([], st)
        end in
      match st_reader st with
      | RIdle =>
          match st_chunreg st, st_chreq st with
          | [], [] => sched_drain drain_fuel v cfg db st
          | _ :: _, [] => go OReadUnreg pos
          | [], _ :: _ => go OReadReq pos
          | _ :: _, _ :: _ => match pos with O => go OReadUnreg O | S k => go OReadReq k end
          end
      | _ =>
          match step v cfg db st OReader with
          | Some (st', _) => let '(ops, st'') := sched_race f pos v cfg db st' in (OReader :: ops, st'')
          | None =>
              match first_busy 0 (st_senders st) with
              | Some i => go (ODeliver i) pos
              | None => ([], st)
              end
          end
      end
  end.

Definition sched (v : variant) (cfg : config) (db : list item) (held : bool) (st : state) (h : hop)
  : list op * bool :=
  match h with
  | HReq rq =>
      let pre := [ORequest rq; ORequest sentinel_ping] in
      let st1 := fst (run v cfg db st pre) in
      if held then (pre ++ fst (sched_reader 200 v cfg db st1), true)
      else (pre ++ fst (sched_drain drain_fuel v cfg db st1), false)
  | HUnreg p =>
      (* while holding, with the reader idle and nothing left in the request channel, the harness
         unregisters without releasing the held responses (they stay in the sender queues while
         the peer's sessions are dropped); otherwise it flushes first, so that the two input
         channels are never raced.  With a small MaxSenderTasks the reader may be blocked in
         Enqueue, which the harness cannot observe: it always flushes then. *)
      let idle := match st_reader st, st_chreq st with RIdle, [] => true | _, _ => false end in
      if held && idle && (128 <=? c_maxtasks cfg) then
        let st1 := fst (run v cfg db st [OUnregister p]) in
        (OUnregister p :: fst (sched_reader 200 v cfg db st1), true)
      else
        let '(ops0, st0) := sched_drain drain_fuel v cfg db st in
        let st1 := fst (run v cfg db st0 [OUnregister p]) in
        (ops0 ++ OUnregister p :: fst (sched_reader 200 v cfg db st1), false)
  | HHold => ([], true)
  | HFlush => (fst (sched_drain drain_fuel v cfg db st), false)
  | HRace p reqs pos =>
      let '(ops0, st0) := if held then sched_drain drain_fuel v cfg db st else ([], st) in
      (* blocker taken by the reader, which stops inside ForEachItem (= before its RChunk step) *)
      let pre := [ORequest (blocker_req (st_serial st0)); OReadReq; OReader]
                 ++ flat_map (fun rq => [ORequest rq; ORequest sentinel_ping]) reqs
                 ++ [OUnregister p; ORequest sentinel_ping] in
      let st1 := fst (run v cfg db st0 pre) in
      (ops0 ++ pre ++ fst (sched_race drain_fuel pos v cfg db st1), false)
  end.

(* run harness operations; per operation the pending size afterwards is reported (the harness
   samples it in held mode) *)
Fixpoint hrun (v : variant) (cfg : config) (db : list item) (held : bool) (st : state)
              (hs : list hop) : list (bool * N) * state * list event :=
  match hs with
  | [] => ([], st, [])
  | h :: r =>
      let '(ops, held') := sched v cfg db held st h in
      let '(st1, e1) := run v cfg db st ops in
      let '(qs, st2, e2) := hrun v cfg db held' st1 r in
      ((held', st_pending st1) :: qs, st2, e1 ++ e2)
  end.

(* whole history: sentinel session first, final flush last *)
Definition hhistory (v : variant) (cfg : config) (db : list item) (hs : list hop)
  : list (bool * N) * state * list event :=
  let st0 := init cfg in
  let ops0 := ORequest (sentinel_open cfg) :: fst (sched_drain drain_fuel v cfg db
                                               (fst (run v cfg db st0 [ORequest (sentinel_open cfg)]))) in
  let '(st1, e0) := run v cfg db st0 ops0 in
  let '(qs, st2, e1) := hrun v cfg db false st1 (hs ++ [HFlush]) in
  (qs, st2, e0 ++ e1).
