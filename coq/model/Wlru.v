(* Executable model of utils/simplewlru (and of utils/wlru, which wraps every method in a
   mutex and adds ContainsOrAdd / PeekOrAdd).  Definitions only; proofs are in
   proofs/WlruProofs.v.  Self-contained (stdlib only): reused by the roots cache (C33), the
   items fetcher (C16) and the forkless-cause cache.

   Go state                      model
   ---------------------------   ------------------------------------------------------
   evictList (container/list)    c_entries, NEWEST FIRST (list front = head)
   items (map key -> element)    lookups walk c_entries (first entry with the key)
   weight  uint                  c_weight, arithmetic mod 2^64 written out (wadd / wsub)
   maxWeight uint, maxSize int   c_max_weight, c_max_size : N  (negative sizes: see [new], [resize], [resize_old])
   onEvict callback (optional)   every operation returns the list of (key, value) pairs the
                                 callback is called with, in call order.  The callback may be nil
                                 (New / wlru.New): the state and every result are by definition
                                 independent of it -- the model computes the log in either case
                                 and the harness runs both kinds of constructor, hiding the log
                                 for the callback-less one

   c_stuck records that the real [normalize] loop would not terminate (empty list but
   weight > maxWeight): it is proved unreachable (WlruProofs.reach_not_stuck). *)
From Coq Require Import NArith ZArith List Bool.
Import ListNotations.
Local Open Scope N_scope.

Definition two64 : N := 18446744073709551616.
(* Go uint (64 bit) addition and subtraction *)
Definition wadd (a b : N) : N := (a + b) mod two64.
Definition wsub (a b : N) : N := (a + two64 - b mod two64) mod two64.

(* sign test and truncation of a Go int, by cases (keeps Coq's Z module out of the extraction,
   where its name would shadow Zarith's in the common driver layer) *)
Definition z_neg (z : Z) : bool := match z with Zneg _ => true | _ => false end.
Definition z_to_N (z : Z) : N := match z with Zpos p => Npos p | _ => 0 end.

Section Wlru.
  Context {K V : Type}.
  Variable keqb : K -> K -> bool.

  Record entry := mkEntry { e_key : K; e_val : V; e_weight : N }.

  Record cache := mkCache {
    c_entries : list entry;     (* newest first *)
    c_weight : N;
    c_max_weight : N;
    c_max_size : N;
    c_stuck : bool }.

  Definition kv (e : entry) : K * V := (e_key e, e_val e).

  (* NewWithEvict: a negative size is rejected (maxWeight is unsigned: its check is dead code) *)
  Definition new (mw : N) (ms : Z) : option cache :=
    if z_neg ms then None else Some (mkCache [] 0 mw (z_to_N ms) false).

  Fixpoint find_entry (k : K) (l : list entry) : option entry :=
    match l with
    | [] => None
    | e :: r => if keqb k (e_key e) then Some e else find_entry k r
    end.

  Fixpoint remove_key (k : K) (l : list entry) : list entry :=
    match l with
    | [] => []
    | e :: r => if keqb k (e_key e) then r else e :: remove_key k r
    end.

  (* loop condition of normalize: c.weight > c.maxWeight || c.Len() > c.maxSize *)
  Definition over (mw ms : N) (len : nat) (w : N) : bool := (mw <? w) || (ms <? N.of_nat len).

  Record evres := mkEv { ev_log : list entry; ev_kept : list entry; ev_w : N; ev_stuck : bool }.

  (* normalize's loop, walking from the OLDEST entry ([old] = oldest first).  Each iteration
     is removeOldest = removeElement(Back()): weight -= kv.weight, callback.  On an empty list
     removeOldest does nothing and the Go loop spins forever if the condition still holds. *)
  Fixpoint evict_loop (mw ms : N) (old : list entry) (w : N) : evres :=
    match old with
    | [] => mkEv [] [] w (over mw ms 0 w)
    | e :: rest =>
        if over mw ms (length old) w then
          let r := evict_loop mw ms rest (wsub w (e_weight e)) in
          mkEv (e :: ev_log r) (ev_kept r) (ev_w r) (ev_stuck r)
        else mkEv [] old w false
    end.

  (* normalize: returns the new cache, the callback log and the number of iterations *)
  Definition normalize (c : cache) : cache * list (K * V) * N :=
    let r := evict_loop (c_max_weight c) (c_max_size c) (rev (c_entries c)) (c_weight c) in
    (mkCache (rev (ev_kept r)) (ev_w r) (c_max_weight c) (c_max_size c) (c_stuck c || ev_stuck r),
     map kv (ev_log r), N.of_nat (length (ev_log r))).

  Definition add (k : K) (v : V) (w : N) (c : cache) : cache * list (K * V) * N :=
    match find_entry k (c_entries c) with
    | Some old =>   (* MoveToFront; weight -= existing.weight; weight += weight; overwrite *)
        normalize (mkCache (mkEntry k v w :: remove_key k (c_entries c))
                           (wadd (wsub (c_weight c) (e_weight old)) w)
                           (c_max_weight c) (c_max_size c) (c_stuck c))
    | None =>       (* PushFront; weight += weight *)
        normalize (mkCache (mkEntry k v w :: c_entries c) (wadd (c_weight c) w)
                           (c_max_weight c) (c_max_size c) (c_stuck c))
    end.

  Definition get (k : K) (c : cache) : cache * option V :=
    match find_entry k (c_entries c) with
    | Some e => (mkCache (e :: remove_key k (c_entries c)) (c_weight c) (c_max_weight c)
                         (c_max_size c) (c_stuck c), Some (e_val e))
    | None => (c, None)
    end.

  Definition contains (k : K) (c : cache) : bool :=
    match find_entry k (c_entries c) with Some _ => true | None => false end.

  Definition peek (k : K) (c : cache) : option V :=
    match find_entry k (c_entries c) with Some e => Some (e_val e) | None => None end.

  (* removeElement on the entry with key k *)
  Definition remove (k : K) (c : cache) : cache * list (K * V) * bool :=
    match find_entry k (c_entries c) with
    | Some e => (mkCache (remove_key k (c_entries c)) (wsub (c_weight c) (e_weight e))
                         (c_max_weight c) (c_max_size c) (c_stuck c), [kv e], true)
    | None => (c, [], false)
    end.

  Definition get_oldest (c : cache) : option (K * V) :=
    match rev (c_entries c) with [] => None | e :: _ => Some (kv e) end.

  Definition remove_oldest (c : cache) : cache * list (K * V) * option (K * V) :=
    match rev (c_entries c) with
    | [] => (c, [], None)
    | e :: rest => (mkCache (rev rest) (wsub (c_weight c) (e_weight e))
                            (c_max_weight c) (c_max_size c) (c_stuck c), [kv e], Some (kv e))
    end.

  (* Keys: from Back() following Prev() = oldest to newest *)
  Definition keys (c : cache) : list K := map e_key (rev (c_entries c)).
  Definition len (c : cache) : N := N.of_nat (length (c_entries c)).
  Definition weight (c : cache) : N := c_weight c.

  (* Resize after fixes/C29.patch: a negative maxSize is treated as 0 ([z_to_N]), as the
     constructor would not accept it and Resize has no error result. *)
  Definition resize (mw : N) (ms : Z) (c : cache) : cache * list (K * V) * N :=
    normalize (mkCache (c_entries c) (c_weight c) mw (z_to_N ms) (c_stuck c)).
  (* Resize of the pinned tree: no validation; with a negative maxSize the loop condition
     Len() > maxSize never becomes false and the call does not return (None). *)
  Definition resize_old (mw : N) (ms : Z) (c : cache) : option (cache * list (K * V) * N) :=
    if z_neg ms then None else Some (resize mw ms c).

  (* Purge ranges over the Go map: the callback order is unspecified (compared as a multiset);
     the model reports newest first.  weight -= e.weight for every item. *)
  Definition purge (c : cache) : cache * list (K * V) :=
    (mkCache [] (fold_left (fun w e => wsub w (e_weight e)) (c_entries c) (c_weight c))
             (c_max_weight c) (c_max_size c) (c_stuck c),
     map kv (c_entries c)).

  (* wlru only *)
  Definition contains_or_add (k : K) (v : V) (w : N) (c : cache) : cache * list (K * V) * bool * N :=
    if contains k c then (c, [], true, 0)
    else let '(c', lg, n) := add k v w c in (c', lg, false, n).

  Definition peek_or_add (k : K) (v : V) (w : N) (c : cache) : cache * list (K * V) * option V * N :=
    match peek k c with
    | Some p => (c, [], Some p, 0)
    | None => let '(c', lg, n) := add k v w c in (c', lg, None, n)
    end.

  (* ---- one type of operations, for histories ---- *)
  Inductive op :=
  | OAdd (k : K) (v : V) (w : N) | OGet (k : K) | OPeek (k : K) | OContains (k : K)
  | ORemove (k : K) | ORemoveOldest | OGetOldest | OKeys | OLen | OWeight
  | OResize (mw : N) (ms : Z) | OPurge
  | OContainsOrAdd (k : K) (v : V) (w : N) | OPeekOrAdd (k : K) (v : V) (w : N).

  Inductive res :=
  | RCount (n : N) | RVal (v : option V) | RBool (b : bool) | RKV (p : option (K * V))
  | RKeys (l : list K) | RNum (n : N) | RUnit
  | RFoundCount (b : bool) (n : N) | RPrevCount (p : option V) (n : N).

  (* step c o = (cache after, result, callback log of this operation) *)
  Definition step (c : cache) (o : op) : cache * res * list (K * V) :=
    match o with
    | OAdd k v w => let '(c', lg, n) := add k v w c in (c', RCount n, lg)
    | OGet k => let '(c', r) := get k c in (c', RVal r, [])
    | OPeek k => (c, RVal (peek k c), [])
    | OContains k => (c, RBool (contains k c), [])
    | ORemove k => let '(c', lg, b) := remove k c in (c', RBool b, lg)
    | ORemoveOldest => let '(c', lg, r) := remove_oldest c in (c', RKV r, lg)
    | OGetOldest => (c, RKV (get_oldest c), [])
    | OKeys => (c, RKeys (keys c), [])
    | OLen => (c, RNum (len c), [])
    | OWeight => (c, RNum (weight c), [])
    | OResize mw ms => let '(c', lg, n) := resize mw ms c in (c', RCount n, lg)
    | OPurge => let '(c', lg) := purge c in (c', RUnit, lg)
    | OContainsOrAdd k v w => let '(c', lg, b, n) := contains_or_add k v w c in (c', RFoundCount b n, lg)
    | OPeekOrAdd k v w => let '(c', lg, p, n) := peek_or_add k v w c in (c', RPrevCount p n, lg)
    end.

  Fixpoint run (c : cache) (ops : list op) : cache * list (res * list (K * V)) :=
    match ops with
    | [] => (c, [])
    | o :: rest =>
        let '(c', r, lg) := step c o in
        let '(c'', tr) := run c' rest in (c'', (r, lg) :: tr)
    end.
End Wlru.

Arguments entry : clear implicits.
Arguments cache : clear implicits.
Arguments op : clear implicits.
Arguments res : clear implicits.
Arguments evres : clear implicits.
Arguments mkEntry {K V}.
Arguments mkCache {K V}.
