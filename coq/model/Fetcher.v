(* Model of gossip/itemsfetcher/fetcher.go: the single goroutine [loop] as a state machine

       step : cfg -> state -> now -> event -> state * list request

   over the events the select statement can take.  Everything the loop asks the outside world
   is an oracle carried by the event:

     ENotify peer ids atime interested suspended scan
         a batch from f.notifications; [interested] is the answer of callback.OnlyInterested(ids),
         [suspended] the answer of callback.Suspend(), [scan] the order in which Go's map
         iteration visits f.fetching inside rescheduleFetch;
     EReceived ids
         a batch from f.receivedItems;
     ETick
         the RUNTIME delivers the armed timer into fetchTimer.C (enabled when due <= now);
     ETimer interested choice scan
         the loop receives from fetchTimer.C (enabled when the channel holds a value);
         [interested] answers OnlyInterested(all keys), [choice] gives for an id the index
         drawn by rand.Intn(len(announces)).

   Modelled, not verified: time.Timer (channel of capacity 1 that Reset does not drain - the
   semantics Go uses for modules declaring go < 1.23, which is what lachesis-base declares),
   utils/workers (requests are handed to a pool; the model emits them), Go maps (association
   lists), container/list inside utils/simplewlru (a list, most recently used first).

   [fx = true] is the repaired code (fixes/C16.patch): processNotification re-arms the fetch
   timer when the ANNOUNCE TABLE becomes non-empty; [fx = false] is the pinned tree, which
   looks at f.fetching.                                                                   *)
From Coq Require Import NArith ZArith List Bool.
Import ListNotations.

Record cfg := mkCfg {
  c_arrive : Z;        (* ArriveTimeout *)
  c_arrive8 : Z;       (* ArriveTimeout / 8 *)
  c_slack : Z;         (* GatherSlack *)
  c_forget : Z;        (* ForgetTimeout *)
  c_hash_limit : N;    (* HashLimit: both maxWeight and maxSize of the announces cache *)
  c_max_checks : nat   (* HashLimit / 32 *)
}.

Record announce := mkA { a_time : Z; a_peer : N }.

(* ---------- utils/simplewlru with the evict callback, most recently used first ---------- *)
Record entry := mkE { e_key : N; e_val : list announce; e_weight : N }.
Definition lru := list entry.

Fixpoint lru_find (k : N) (l : lru) : option entry :=
  match l with
  | [] => None
  | e :: r => if (e_key e =? k)%N then Some e else lru_find k r
  end.
Fixpoint lru_del (k : N) (l : lru) : lru :=
  match l with
  | [] => []
  | e :: r => if (e_key e =? k)%N then r else e :: lru_del k r
  end.
(* Get: MoveToFront *)
Definition lru_get (k : N) (l : lru) : option (list announce) * lru :=
  match lru_find k l with
  | Some e => (Some (e_val e), e :: lru_del k l)
  | None => (None, l)
  end.
Definition lru_weight (l : lru) : N := fold_right (fun e a => (e_weight e + a)%N) 0%N l.
Definition lru_len (l : lru) : N := N.of_nat (length l).
(* normalize: for c.weight > c.maxWeight || c.Len() > c.maxSize { removeOldest } ; returns evicted keys *)
Fixpoint lru_normalize (fuel : nat) (limit : N) (l : lru) : lru * list N :=
  match fuel with
  | O => (l, [])
  | S f =>
    if ((limit <? lru_weight l) || (limit <? lru_len l))%N
    then match rev l with
         | [] => (l, [])
         | oldest :: _ =>
           let '(l', ev) := lru_normalize f limit (removelast l) in (l', e_key oldest :: ev)
         end
    else (l, [])
  end.
(* Add: existing -> MoveToFront + overwrite; else PushFront; then normalize *)
Definition lru_add (limit : N) (k : N) (v : list announce) (w : N) (l : lru) : lru * list N :=
  let l1 := mkE k v w :: lru_del k l in
  lru_normalize (S (length l1)) limit l1.
(* Keys: oldest to newest *)
Definition lru_keys (l : lru) : list N := rev (map e_key l).

(* ---------- the fetcher ---------- *)
Record timer := mkT { t_armed : option Z; t_chan : bool }.

Record state := mkSt {
  ann : lru;                          (* f.announces *)
  fetching : list (N * (N * Z));      (* f.fetching: id -> (announce.peer, fetchingTime) *)
  tm : timer
}.

(* loop(): fetchTimer := time.NewTimer(0) at time t0 *)
Definition init (t0 : Z) : state := mkSt [] [] (mkT (Some t0) false).

Inductive event :=
| ENotify (peer : N) (ids : list N) (atime : Z) (interested : list N) (suspended : bool) (scan : list N)
| EReceived (ids : list N)
| ETick
| ETimer (interested : list N) (choice : list (N * nat)) (scan : list N).

Definition request := (N * list N)%type.    (* peer, ids *)

Definition memN (x : N) (l : list N) : bool := existsb (N.eqb x) l.

Fixpoint f_find (id : N) (f : list (N * (N * Z))) : option (N * Z) :=
  match f with
  | [] => None
  | (i, v) :: r => if (i =? id)%N then Some v else f_find id r
  end.
Definition f_del (id : N) (f : list (N * (N * Z))) : list (N * (N * Z)) :=
  filter (fun x => negb (fst x =? id)%N) f.
Definition f_set (id : N) (v : N * Z) (f : list (N * (N * Z))) : list (N * (N * Z)) :=
  match f_find id f with
  | Some _ => map (fun x => if (fst x =? id)%N then (id, v) else x) f
  | None => f ++ [(id, v)]
  end.
Definition f_del_all (ids : list N) (f : list (N * (N * Z))) : list (N * (N * Z)) :=
  fold_left (fun a id => f_del id a) ids f.

(* forgetHash: f.announces.Remove(id); the evict callback deletes f.fetching[id] *)
Definition forget (id : N) (st : state) : state :=
  match lru_find id (ann st) with
  | Some _ => mkSt (lru_del id (ann st)) (f_del id (fetching st)) (tm st)
  | None => st
  end.

(* map iteration order of f.fetching as chosen by the runtime: ids of [scan] first *)
Fixpoint nodupN (l : list N) : list N :=
  match l with
  | [] => []
  | x :: r => if memN x r then nodupN r else x :: nodupN r
  end.
Definition reorder (scan : list N) (f : list (N * (N * Z))) : list (N * (N * Z)) :=
  flat_map (fun id => match f_find id f with Some v => [(id, v)] | None => [] end) (nodupN scan)
  ++ filter (fun x => negb (memN (fst x) scan)) f.

(* rescheduleFetch *)
Definition reschedule (c : cfg) (st : state) (now : Z) (scan : list N) : state :=
  match ann st with
  | [] => st
  | _ =>
    let examined := firstn (S (c_max_checks c)) (reorder scan (fetching st)) in
    let earliest := fold_left (fun e x => if Z.ltb (snd (snd x)) e then snd (snd x) else e) examined now in
    let d := Z.max (Z.sub (c_arrive c) (Z.sub now earliest)) (c_arrive8 c) in
    mkSt (ann st) (fetching st) (mkT (Some (Z.add now d)) (t_chan (tm st)))
  end.

(* one iteration of the loop over notification.ids in processNotification *)
Definition notify_one (c : cfg) (now : Z) (d : announce) (suspended : bool)
           (acc : state * list N) (id : N) : state * list N :=
  let '(st, to_fetch) := acc in
  let '(got, l1) := lru_get id (ann st) in
  let anns := match got with Some v => v | None => [] end ++ [d] in
  let '(l2, evicted) := lru_add (c_hash_limit c) id (anns ++ [d]) (N.of_nat (length anns)) l1 in
  let f1 := f_del_all evicted (fetching st) in
  if suspended then (mkSt l2 f1 (tm st), to_fetch)
  else match f_find id f1 with
       | Some _ => (mkSt l2 f1 (tm st), to_fetch)
       | None => (mkSt l2 (f1 ++ [(id, (a_peer d, now))]) (tm st), to_fetch ++ [id])
       end.

Definition is_nil {A} (l : list A) : bool := match l with [] => true | _ => false end.

Definition process_notification (fx : bool) (c : cfg) (st : state) (now : Z)
           (peer : N) (atime : Z) (interested : list N) (suspended : bool) (scan : list N)
  : state * list request :=
  let first := if fx then is_nil (ann st) else is_nil (fetching st) in
  match interested with
  | [] => (st, [])
  | _ =>
    let '(st1, to_fetch) := fold_left (notify_one c now (mkA atime peer) suspended) interested (st, []) in
    let reqs := if is_nil to_fetch then [] else [(peer, to_fetch)] in
    let rearm := first && negb (if fx then is_nil (ann st1) else is_nil (fetching st1)) in
    (if rearm then reschedule c st1 now scan else st1, reqs)
  end.

Fixpoint choice_of (id : N) (ch : list (N * nat)) : nat :=
  match ch with
  | [] => O
  | (i, k) :: r => if (i =? id)%N then k else choice_of id r
  end.

Fixpoint req_add (peer id : N) (rq : list request) : list request :=
  match rq with
  | [] => [(peer, [id])]
  | (p, ids) :: r => if (p =? peer)%N then (p, ids ++ [id]) :: r else (p, ids) :: req_add peer id r
  end.

(* the body of   for _, id := range notArrived   in the timer branch *)
Definition pass_one (c : cfg) (now : Z) (choice : list (N * nat))
           (acc : state * list request) (id : N) : state * list request :=
  let '(st, rq) := acc in
  let '(got, l1) := lru_get id (ann st) in
  match got with
  | None => acc
  | Some [] => (mkSt l1 (fetching st) (tm st), rq)
  | Some (oldest :: more) =>
    let st1 := mkSt l1 (fetching st) (tm st) in
    if Z.ltb (c_forget c) (Z.sub now (a_time oldest)) then (forget id st1, rq)
    else
      let stale := match f_find id (fetching st1) with
                   | Some (_, ft) => Z.ltb (Z.sub (c_arrive c) (c_slack c)) (Z.sub now ft)
                   | None => true       (* zero fetchingTime: time.Since is huge *)
                   end in
      if stale then
        let anns := oldest :: more in
        let a := nth (Nat.modulo (choice_of id choice) (length anns)) anns oldest in
        (mkSt l1 (f_set id (a_peer a, now) (fetching st1)) (tm st), req_add (a_peer a) id rq)
      else (st1, rq)
  end.

Definition timer_pass (c : cfg) (st : state) (now : Z)
           (interested : list N) (choice : list (N * nat)) (scan : list N) : state * list request :=
  let all := lru_keys (ann st) in
  let '(st1, rq) := fold_left (pass_one c now choice) interested (st, []) in
  let st2 := fold_left (fun s id => if memN id interested then s else forget id s) all st1 in
  (reschedule c st2 now scan, rq).

Definition step (fx : bool) (c : cfg) (st : state) (now : Z) (ev : event) : state * list request :=
  match ev with
  | ENotify peer _ atime interested suspended scan =>
    process_notification fx c st now peer atime interested suspended scan
  | EReceived ids => (fold_left (fun s id => forget id s) ids st, [])
  | ETick =>
    match t_armed (tm st) with
    | Some due => if Z.leb due now then (mkSt (ann st) (fetching st) (mkT None true), []) else (st, [])
    | None => (st, [])
    end
  | ETimer interested choice scan =>
    if t_chan (tm st)
    then timer_pass c (mkSt (ann st) (fetching st) (mkT (t_armed (tm st)) false)) now interested choice scan
    else (st, [])
  end.

Fixpoint run (fx : bool) (c : cfg) (st : state) (tr : list (Z * event)) : state * list (Z * request) :=
  match tr with
  | [] => (st, [])
  | (now, ev) :: tr' =>
    let '(st1, rq) := step fx c st now ev in
    let '(st2, log) := run fx c st1 tr' in
    (st2, map (fun x => (now, x)) rq ++ log)
  end.

(* ---------- helpers for the trace validator (not used by [step]) ---------- *)

(* smallest distance between a time comparison made by this timer pass and its threshold *)
Definition pass_margin (c : cfg) (st : state) (now : Z) (interested : list N) : Z :=
  fold_left (fun m id =>
    match lru_find id (ann st) with
    | Some e =>
      match e_val e with
      | oldest :: _ =>
        let d1 := Z.sub (Z.sub now (a_time oldest)) (c_forget c) in
        let m1 := Z.min m (Z.max d1 (Z.opp d1)) in
        match f_find id (fetching st) with
        | Some (_, ft) => let d2 := Z.sub (Z.sub now ft) (Z.sub (c_arrive c) (c_slack c)) in Z.min m1 (Z.max d2 (Z.opp d2))
        | None => m1
        end
      | [] => m
      end
    | None => m
    end) interested (c_forget c).

Definition keys_now (st : state) : list N := lru_keys (ann st).
Definition fetching_ids (st : state) : list N := map fst (fetching st).
Definition announcers (id : N) (st : state) : list N :=
  match lru_find id (ann st) with Some e => map a_peer (e_val e) | None => [] end.
Definition timer_due (st : state) : option Z := t_armed (tm st).
Definition timer_chan (st : state) : bool := t_chan (tm st).
