(* Model of eventcheck/all.go, basiccheck/basic_check.go, epochcheck/epoch_check.go,
   parentscheck/parents_check.go and the accessors of inter/dag/event.go they use
   (SelfParent, IsSelfParent).  Same order of checks, same error values.

   Fields are Go uint32 (idx.Epoch/Event/Frame/Lamport/ValidatorID); they are [N] here and the
   two places where the code computes [x + 1] on a uint32 carry the wrap explicitly.
   Event ids (hash.Event, 32 bytes) are opaque numbers: only equality is used.
   [ps] is the [parents dag.Events] argument of Validate (what the caller looked up),
   [e_parents] the id list stored in the event. *)
From Coq Require Import NArith List Bool.
Import ListNotations.
Local Open Scope N_scope.

Record parent := { p_id : N; p_creator : N; p_seq : N; p_lamport : N }.
Record event := { e_epoch : N; e_seq : N; e_frame : N; e_creator : N; e_lamport : N;
                  e_parents : list N }.

Inductive err :=
| HugeValue | NotInited | NoParents | DoubleParents      (* basiccheck *)
| NotRelevant | Auth                                      (* epochcheck *)
| WrongLamport | WrongSelfParent | WrongSeq               (* parentscheck *)
| PanicLen.       (* parentscheck: panic("expected event's parents as an argument") *)

Inductive result := Ok | Err (k : err).

Definition wrap32 (n : N) : N := n mod 4294967296.
(* math.MaxInt32 - 1 *)
Definition limit : N := 2147483646.

(* ---------- inter/dag/event.go *)
(* SelfParent: if e.seq <= 1 || len(e.parents) == 0 { return nil }; return &e.parents[0] *)
Definition self_parent (e : event) : option N :=
  if (e_seq e <=? 1) then None else
  match e_parents e with
  | [] => None
  | h :: _ => Some h
  end.

(* IsSelfParent(hash): SelfParent() != nil && *SelfParent() == hash *)
Definition is_self_parent (e : event) (h : N) : bool :=
  match self_parent e with
  | None => false
  | Some s => s =? h
  end.

(* ---------- basiccheck *)
Definition check_limits (e : event) : result :=
  if (limit <=? e_seq e) || (limit <=? e_epoch e) || (limit <=? e_frame e) || (limit <=? e_lamport e)
  then Err HugeValue else Ok.

Definition check_inited (e : event) : result :=
  if (e_seq e <=? 0) || (e_epoch e <=? 0) || (e_frame e <=? 0) || (e_lamport e <=? 0)
  then Err NotInited
  else if (1 <? e_seq e) && (Nat.eqb (length (e_parents e)) 0)
  then Err NoParents else Ok.

(* hash.Events.Set(): insert every id into a map; its len is the number of distinct ids *)
Fixpoint set_of (l : list N) : list N :=
  match l with
  | [] => []
  | x :: r => if existsb (N.eqb x) r then set_of r else x :: set_of r
  end.

Definition basic_validate (e : event) : result :=
  match check_limits e with
  | Err k => Err k
  | Ok =>
    match check_inited e with
    | Err k => Err k
    | Ok => if negb (Nat.eqb (length (set_of (e_parents e))) (length (e_parents e)))
            then Err DoubleParents else Ok
    end
  end.

(* ---------- epochcheck: the Reader returns (validators, epoch); validators.Exists = map lookup *)
Definition epoch_validate (cur : N) (vals : list N) (e : event) : result :=
  if negb (e_epoch e =? cur) then Err NotRelevant
  else if negb (existsb (N.eqb (e_creator e)) vals) then Err Auth
  else Ok.

(* ---------- parentscheck *)
(* idx.MaxLamport(x, y): if x > y { return x }; return y *)
Definition max_lamport2 (x y : N) : N := if y <? x then x else y.

Definition parents_validate (e : event) (ps : list parent) : result :=
  if negb (Nat.eqb (length (e_parents e)) (length ps)) then Err PanicLen else
  let maxl := fold_left (fun m p => max_lamport2 m (p_lamport p)) ps 0 in
  if negb (e_lamport e =? wrap32 (maxl + 1)) then Err WrongLamport else
  (* for i, p := range parents { if (p.Creator() == e.Creator()) != e.IsSelfParent(e.Parents()[i]) *)
  if existsb (fun hp => xorb (p_creator (snd hp) =? e_creator e) (is_self_parent e (fst hp)))
             (combine (e_parents e) ps)
  then Err WrongSelfParent else
  if xorb (e_seq e =? 1) (match self_parent e with None => true | Some _ => false end)
  then Err WrongSeq else
  match self_parent e with
  | None => Ok
  | Some _ =>
    match ps with
    | [] => Err PanicLen     (* parents[0] on an empty slice; unreachable: lengths are equal *)
    | p0 :: _ =>
      if negb (is_self_parent e (p_id p0)) then Err WrongSelfParent
      else if negb (e_seq e =? wrap32 (p_seq p0 + 1)) then Err WrongSeq
      else Ok
    end
  end.

(* ---------- eventcheck.Checkers.Validate *)
Definition validate (cur : N) (vals : list N) (e : event) (ps : list parent) : result :=
  match basic_validate e with
  | Err k => Err k
  | Ok =>
    match epoch_validate cur vals e with
    | Err k => Err k
    | Ok => parents_validate e ps
    end
  end.

(* A Reader that hands out a nil *pos.Validators (outside its contract): epochcheck still compares
   the epoch first; `validators.Exists` then dereferences nil.  [None] = that run-time panic. *)
Definition epoch_validate_opt (cur : N) (vals : option (list N)) (e : event) : option result :=
  match vals with
  | Some v => Some (epoch_validate cur v e)
  | None => if negb (e_epoch e =? cur) then Some (Err NotRelevant) else None
  end.

Definition validate_opt (cur : N) (vals : option (list N)) (e : event) (ps : list parent)
  : option result :=
  match basic_validate e with
  | Err k => Some (Err k)
  | Ok =>
    match epoch_validate_opt cur vals e with
    | None => None
    | Some (Err k) => Some (Err k)
    | Some Ok => Some (parents_validate e ps)
    end
  end.

(* ---------- one Checkers object used many times.  The Checker structs hold nothing but the Reader
   (basiccheck.Checker and parentscheck.Checker are empty, epochcheck.Checker = {reader}); every
   Validate asks the Reader anew.  [rstate] = what the Reader answers at the time of a call. *)
Record rstate := { r_epoch : N; r_vals : list N }.
(* the state a Checkers object carries from one call to the next: none *)
Definition cstate := unit.
Definition checkers_step (st : cstate) (rs : rstate) (e : event) (ps : list parent) : result * cstate :=
  (validate (r_epoch rs) (r_vals rs) e ps, st).
Fixpoint run_history (st : cstate) (h : list (rstate * event * list parent)) : list result :=
  match h with
  | [] => []
  | (rs, e, ps) :: rest =>
    let '(r, st') := checkers_step st rs e ps in r :: run_history st' rest
  end.

(* numbering of results for the case files: 0 = nil *)
Definition result_code (r : result) : N :=
  match r with
  | Ok => 0
  | Err HugeValue => 1 | Err NotInited => 2 | Err NoParents => 3 | Err DoubleParents => 4
  | Err NotRelevant => 5 | Err Auth => 6
  | Err WrongLamport => 7 | Err WrongSelfParent => 8 | Err WrongSeq => 9
  | Err PanicLen => 10
  end.
