(* Model of kvdb/flushable/flushable.go (C22): the overlay ("modified" red-black tree with nil
   tombstones; the tree is only its sorted order: a strictly ascending association list),
   reads through it, batch writes, the merged iterator flushableIterator.{init,Next} as the
   code has it (tree-first inner loop, tombstone rule prevKey := treeKey, prefix cut-off,
   "strictly greater than prevKey" filter), and the flush loop with its IdealBatchSize splits.
   The parent store enters as functions/lists supplied by model/KvStack.v.  Definitions only. *)
From Coq Require Import NArith List Bool.
From LV Require Import lib.Bytes lib.SortedMap spec.KvSpec spec.KvOps model.PrefixRange.
Import ListNotations.
Local Open Scope N_scope.

Definition tree := smap (option val).           (* None = deleted (nil value) *)

Definition flu_put (o : tree) (k : key) (v : val) : tree := sm_put o k (Some v).
Definition flu_del (o : tree) (k : key) : tree := sm_put o k None.
Definition flu_apply (o : tree) (w : wop) : tree :=
  match w with WPut k v => flu_put o k v | WDel k => flu_del o k end.
(* cacheBatch.Write: for _, kv := range b.writes { put / delete } *)
Definition flu_write (o : tree) (ops : list wop) : tree := fold_left flu_apply ops o.

Definition flu_get (o : tree) (parent : key -> option val) (k : key) : option val :=
  match sm_get o k with
  | Some (Some v) => Some v
  | Some None => None
  | None => parent k
  end.
Definition flu_has (o : tree) (parent : key -> bool) (k : key) : bool :=
  match sm_get o k with
  | Some (Some _) => true
  | Some None => false
  | None => parent k
  end.

(* NotFlushedPairs = modified.Size() *)
Definition flu_size (o : tree) : nat := length o.

(* ---- iterator ---- *)

(* tree.Ceiling(start): smallest node >= start, iteration continues from there *)
Fixpoint tree_ceiling (start : key) (o : tree) : tree :=
  match o with
  | [] => []
  | (k, e) :: o' => if lex_leb start k then o else tree_ceiling start o'
  end.
(* init(): if len(it.start) != 0 { Ceiling } else { Left() } *)
Definition tree_init (start : key) (o : tree) : tree :=
  match start with [] => o | _ => tree_ceiling start o end.

(* isSuitable(key, prevKey) = (ok, continue) *)
Definition suitable (prefix : okey) (k : key) (prev : okey) : bool * bool :=
  if (match prefix with Some p => negb (has_prefix p k) | None => false end) then (false, false)
  else (match prev with None => true | Some pk => lex_ltb pk k end, true).

Record fit := { f_tree : tree; f_par : list (key * val); f_prev : okey }.
Inductive fnext := FOut | FEnd | FItem (kv : key * val) (s : fit).

(* flushableIterator.Next, one call.  Each recursive call is one skipped entry. *)
Fixpoint fit_next (fuel : nat) (prefix : okey) (s : fit) : fnext :=
  match fuel with
  | O => FOut
  | S fuel' =>
      let parent_step (t : tree) (pk : key) (pv : val) (u' : list (key * val)) :=
        let '(ok, pcont) := suitable prefix pk (f_prev s) in
        let u2 := if pcont then u' else [] in
        if ok then FItem (pk, pv) {| f_tree := t; f_par := u2; f_prev := Some pk |}
        else fit_next fuel' prefix {| f_tree := t; f_par := u2; f_prev := f_prev s |} in
      match f_tree s, f_par s with
      | [], [] => FEnd
      | (tk, tv) :: t', u =>
          if (match u with [] => true | (pk, _) :: _ => lex_leb tk pk end) then
            match tv with
            | Some v =>
                let '(ok, tcont) := suitable prefix tk (f_prev s) in
                let t2 := if tcont then t' else [] in
                if ok then FItem (tk, v) {| f_tree := t2; f_par := u; f_prev := Some tk |}
                else fit_next fuel' prefix {| f_tree := t2; f_par := u; f_prev := f_prev s |}
            | None => fit_next fuel' prefix {| f_tree := t'; f_par := u; f_prev := Some tk |}
            end
          else
            match u with
            | [] => FEnd
            | (pk, pv) :: u' => parent_step (f_tree s) pk pv u'
            end
      | [], (pk, pv) :: u' => parent_step [] pk pv u'
      end
  end.

Definition fit_size (s : fit) : nat := length (f_tree s) + length (f_par s).

(* for it.Next() { emit } ; n bounds the number of items.  None = a Next call ran out of fuel or more
   than n items were produced (explicit out-of-fuel value; proved never to happen for the fuel used) *)
Fixpoint fit_collect (n : nat) (prefix : okey) (s : fit) : option (list (key * val)) :=
  match n with
  | O => None
  | S n' =>
      match fit_next (S (fit_size s)) prefix s with
      | FItem kv s' => match fit_collect n' prefix s' with
                       | Some l => Some (kv :: l)
                       | None => None
                       end
      | FEnd => Some []
      | FOut => None
      end
  end.

Definition flu_iterate_opt (o : tree) (parent : list (key * val)) (prefix start : okey)
  : option (list (key * val)) :=
  let s0 := {| f_tree := tree_init (ob prefix ++ ob start) o; f_par := parent; f_prev := None |} in
  fit_collect (S (fit_size s0)) prefix s0.

(* NewIterator(prefix, start) + full drain; [parent] = what the parent's NewIterator(prefix,start) yields *)
Definition flu_iterate (o : tree) (parent : list (key * val)) (prefix start : okey) : list (key * val) :=
  match flu_iterate_opt o parent prefix start with Some l => l | None => [] end.

(* ---- flush ---- *)

Definition flu_ops (o : tree) : list wop :=
  map (fun e => match snd e with Some v => WPut (fst e) v | None => WDel (fst e) end) o.

(* the flush loop: batch.Put/Delete; if batch.ValueSize() > IdealBatchSize { Write; Reset } ... final Write.
   [size] is the ValueSize increment of the PARENT's batch type; the result is the list of
   batches written, in order (the last one may be empty). *)
Fixpoint flush_chunks (size : wop -> N) (ideal : N) (ops cur : list wop) (cursz : N) : list (list wop) :=
  match ops with
  | [] => [rev cur]
  | op :: ops' =>
      let cur' := op :: cur in
      let sz := cursz + size op in
      if ideal <? sz then rev cur' :: flush_chunks size ideal ops' [] 0
      else flush_chunks size ideal ops' cur' sz
  end.

Definition ideal_batch_size : N := 102400.     (* kvdb.IdealBatchSize = 100 * 1024 *)
