(* Executable model of a stack of kvdb stores (C22, C23, C24):
     base:     Eng ELdb / Eng EPbl (engine = trusted ordered map + the glue of PrefixRange.v),
               Mem (memorydb.Database = flushable.Wrap(devnulldb.New()) with Flush hidden behind
               kvdb.Store: an overlay tree over the always-empty, write-ignoring devnull store)
     wrappers: Flu (flushable.Flushable: overlay tree over a parent),
               Tab (table.Table: a translation of every operation onto the parent),
               Syn (synced.store: identity on values; its locks are C28's business),
               Lzy (flushable.LazyFlushable: a Flushable over devnull until the first Flush installs
               the produced store [u]; init = the producer has run)
   Every operation of kvdb.Store is a structural recursion over the stack, mirroring the
   delegation in the Go code.  An operation is addressed to a *handle*: a depth in the stack
   plus a path of extra stateless table wrappers created on the fly (table.New(x, p),
   t.NewTable(q)), which is how sibling and nested tables over one store are expressed.
   Definitions only. *)
From Coq Require Import NArith List Bool.
From LV Require Import lib.Bytes lib.SortedMap spec.KvSpec spec.KvOps model.PrefixRange model.Table model.Flushable.
Import ListNotations.
Local Open Scope N_scope.

Inductive st :=
| Eng (e : eng) (m : kvmap)
| Mem (o : tree)
| Flu (o : tree) (u : st)
| Tab (p : key) (u : st)
| Syn (u : st)
| Lzy (o : tree) (init : bool) (u : st).

(* ---- reads ---- *)
Fixpoint st_get (s : st) (k : key) : option val :=
  match s with
  | Eng _ m => sm_get m k
  | Mem o => flu_get o (fun _ => None) k
  | Flu o u => flu_get o (st_get u) k
  | Tab p u => st_get u (prefixed k p)
  | Syn u => st_get u k
  | Lzy o i u => flu_get o (if i then st_get u else fun _ => None) k
  end.

Fixpoint st_has (s : st) (k : key) : bool :=
  match s with
  | Eng _ m => match sm_get m k with Some _ => true | None => false end
  | Mem o => flu_has o (fun _ => false) k
  | Flu o u => flu_has o (st_has u) k
  | Tab p u => st_has u (prefixed k p)
  | Syn u => st_has u k
  | Lzy o i u => flu_has o (if i then st_has u else fun _ => false) k
  end.

(* NewIterator(prefix, start), fully drained *)
Fixpoint st_iter (s : st) (prefix start : okey) : list (key * val) :=
  match s with
  | Eng e m => eng_iter e m prefix start
  | Mem o => flu_iterate o [] prefix start
  | Flu o u => flu_iterate o (st_iter u prefix start) prefix start
  | Tab p u =>
      map (fun kv => (no_prefix (fst kv) p, snd kv))
          (st_iter u (Some (prefixed (ob prefix) p)) start)
  | Syn u => st_iter u prefix start
  | Lzy o i u => flu_iterate o (if i then st_iter u prefix start else []) prefix start
  end.

(* ---- direct writes ---- *)
Fixpoint st_put (s : st) (k : key) (v : val) : st :=
  match s with
  | Eng e m => Eng e (sm_put m k v)
  | Mem o => Mem (flu_put o k v)
  | Flu o u => Flu (flu_put o k v) u
  | Tab p u => Tab p (st_put u (prefixed k p) v)
  | Syn u => Syn (st_put u k v)
  | Lzy o i u => Lzy (flu_put o k v) i u
  end.

Fixpoint st_del (s : st) (k : key) : st :=
  match s with
  | Eng e m => Eng e (sm_del m k)
  | Mem o => Mem (flu_del o k)
  | Flu o u => Flu (flu_del o k) u
  | Tab p u => Tab p (st_del u (prefixed k p))
  | Syn u => Syn (st_del u k)
  | Lzy o i u => Lzy (flu_del o k) i u
  end.

(* ---- batches ----
   A batch created at some level keeps its operations in the batch object of its *home*: the
   first flushable / memorydb / engine at or below that level; table layers in between prefix the
   keys on the way down (batch.Put) and strip them on the way up (Replay through replayer). *)
Fixpoint st_bkey (s : st) (k : key) : key :=
  match s with
  | Tab p u => st_bkey u (prefixed k p)
  | Syn u => st_bkey u k
  | _ => k
  end.
Definition st_bop (s : st) (o : wop) : wop :=
  match o with WPut k v => WPut (st_bkey s k) v | WDel k => WDel (st_bkey s k) end.

(* batch.Put / batch.Delete: append to the home batch *)
Definition st_badd (s : st) (stored : list wop) (o : wop) : list wop := stored ++ [st_bop s o].

(* batch.Write(): apply the stored operations at the home *)
Fixpoint st_bwrite (s : st) (stored : list wop) : st :=
  match s with
  | Eng e m => Eng e (kv_write m stored)
  | Mem o => Mem (flu_write o stored)
  | Flu o u => Flu (flu_write o stored) u
  | Tab p u => Tab p (st_bwrite u stored)
  | Syn u => Syn (st_bwrite u stored)
  | Lzy o i u => Lzy (flu_write o stored) i u
  end.

(* batch.Replay(w): what w receives for a stored key *)
Fixpoint st_rkey (s : st) (k : key) : key :=
  match s with
  | Tab p u => no_prefix (st_rkey u k) p
  | Syn u => st_rkey u k
  | _ => k
  end.
Definition st_rop (s : st) (o : wop) : wop :=
  match o with WPut k v => WPut (st_rkey s k) v | WDel k => WDel (st_rkey s k) end.
Definition st_breplay (s : st) (stored : list wop) : list wop := map (st_rop s) stored.

(* batch.ValueSize() increment of one stored operation, by home type *)
Definition blen (l : list N) : N := N.of_nat (length l).
Fixpoint st_bsize (s : st) (o : wop) : N :=
  match s with
  | Eng _ _ => match o with WPut _ v => blen v | WDel _ => 1 end
  | Mem _ => match o with WPut k v => blen k + blen v | WDel k => blen k end
  | Flu _ _ => match o with WPut k v => blen k + blen v | WDel k => blen k end
  | Tab _ u => st_bsize u o
  | Syn u => st_bsize u o
  | Lzy _ _ _ => match o with WPut k v => blen k + blen v | WDel k => blen k end
  end.

(* ---- flushable-only operations ---- *)
Definition st_flush_into (ideal : N) (u : st) (o : tree) : st :=
  let stored := fold_left (st_badd u) (flu_ops o) [] in
  fold_left st_bwrite (flush_chunks (st_bsize u) ideal stored [] 0) u.

(* LazyFlushable.Flush: initUnderlyingDb (the producer runs once), then flush *)
Definition st_flush (ideal : N) (s : st) : st :=
  match s with
  | Flu o u => Flu [] (st_flush_into ideal u o)
  | Lzy o _ u => Lzy [] true (st_flush_into ideal u o)
  | _ => s
  end.
(* LazyFlushable.InitUnderlyingDb: w.underlying and the embedded reader's underlying are both
   re-pointed to the produced store (once); nothing is flushed *)
Definition st_init (s : st) : st :=
  match s with Lzy o _ u => Lzy o true u | _ => s end.
Definition st_drop (s : st) : st :=
  match s with Flu o u => Flu [] u | Lzy o i u => Lzy [] i u | _ => s end.
Definition st_nfp (s : st) : option nat :=
  match s with Flu o _ => Some (flu_size o) | Lzy o _ _ => Some (flu_size o) | _ => None end.

(* Compact(start, limit): the range that reaches the base; None = it never gets there
   (a LazyFlushable whose store is not produced yet compacts devnull) *)
Fixpoint st_compact (s : st) (start limit : okey) : option (okey * okey) :=
  match s with
  | Tab p u => let r := table_compact p start limit in st_compact u (fst r) (snd r)
  | Flu _ u => st_compact u start limit
  | Syn u => st_compact u start limit
  | Lzy _ i u => if i then st_compact u start limit else None
  | _ => Some (start, limit)
  end.

(* Compact reaching the engine: pebble.go substitutes eight 0xff bytes for a nil limit and
   pebble.DB.Compact rejects start >= end; leveldb / devnull never fail.  true = nil error *)
Definition ff8 : key := repeat 255 8.
Fixpoint st_compact_ok (s : st) (start limit : okey) : bool :=
  match s with
  | Tab p u => let r := table_compact p start limit in st_compact_ok u (fst r) (snd r)
  | Flu _ u => st_compact_ok u start limit
  | Syn u => st_compact_ok u start limit
  | Lzy _ i u => if i then st_compact_ok u start limit else true
  | Eng EPbl _ => lex_ltb (ob start) (match limit with Some l => l | None => ff8 end)
  | _ => true
  end.

(* Stat(property): nil error or not.  leveldb.go answers disk.size itself and hands "leveldb."+p to
   goleveldb (stats, iostats, alivesnaps exist; the flush requests do not); pebble.go knows
   async_flush, sync_flush, iostats, disk.size, stats; devnull answers everything. *)
Fixpoint st_stat_ok (s : st) (prop : nat) : bool :=
  match s with
  | Eng ELdb _ => match prop with 0 | 1 | 2 | 5 => true | _ => false end%nat
  | Eng EPbl _ => match prop with 0 | 1 | 2 | 3 | 4 => true | _ => false end%nat
  | Mem _ => true
  | Flu _ u => st_stat_ok u prop
  | Tab _ u => st_stat_ok u prop
  | Syn u => st_stat_ok u prop
  | Lzy _ i u => if i then st_stat_ok u prop else true
  end.

(* ---- addressing ---- *)
Fixpoint st_sub (d : nat) (s : st) : st :=
  match d with
  | O => s
  | S d' => match s with
            | Flu _ u => st_sub d' u
            | Tab _ u => st_sub d' u
            | Syn u => st_sub d' u
            | Lzy _ _ u => st_sub d' u
            | _ => s
            end
  end.

Fixpoint st_upd (d : nat) (f : st -> st) (s : st) : st :=
  match d with
  | O => f s
  | S d' => match s with
            | Flu o u => Flu o (st_upd d' f u)
            | Tab p u => Tab p (st_upd d' f u)
            | Syn u => Syn (st_upd d' f u)
            | Lzy o i u => Lzy o i (st_upd d' f u)
            | _ => f s
            end
  end.

Definition hwrap (path : list key) (u : st) : st := fold_left (fun acc p => Tab p acc) path u.
Fixpoint hunwrap (n : nat) (s : st) : st :=
  match n with
  | O => s
  | S n' => match s with Tab _ u => hunwrap n' u | _ => s end
  end.
Definition h_view (h : handle) (s : st) : st := hwrap (h_path h) (st_sub (h_d h) s).
Definition h_upd (h : handle) (f : st -> st) (s : st) : st :=
  st_upd (h_d h) (fun u => hunwrap (length (h_path h)) (f (hwrap (h_path h) u))) s.

(* ---- which stacks keep a live iterator predictable across Flush / DropNotFlushed ----
   ASSUMPTION of the correspondence (not a theorem about the code): over an engine base (whose
   iterators are consistent snapshots) with at most one tree-bearing layer, Flush/Drop only detach
   the flushable's tree (gods Clear() leaves the nodes a live iterator walks intact) and write into
   the engine, so an iterator created before them still yields what it would have yielded.  With a
   second tree-bearing layer or a memory base, a flush mutates a tree in place under the iterator. *)
Fixpoint st_trees (s : st) : nat :=
  match s with
  | Eng _ _ => 0
  | Mem _ => 1
  | Flu _ u => S (st_trees u)
  | Lzy _ _ u => S (st_trees u)
  | Tab _ u => st_trees u
  | Syn u => st_trees u
  end.
Fixpoint st_engine_base (s : st) : bool :=
  match s with
  | Eng _ _ => true
  | Mem _ => false
  | Flu _ u => st_engine_base u
  | Lzy _ _ u => st_engine_base u
  | Tab _ u => st_engine_base u
  | Syn u => st_engine_base u
  end.
Definition stack_lsafe (s : st) : bool := st_engine_base s && Nat.leb (st_trees s) 1.

(* ---- running the operation language of spec/KvOps.v ---- *)
Record rstate := { r_store : st; r_batches : list (handle * list wop); r_snaps : list st; r_lives : lives }.

Definition get_batch (r : rstate) (b : nat) : handle * list wop := nth b (r_batches r) (h0, []).
Definition set_batch (r : rstate) (b : nat) (x : handle * list wop) : rstate :=
  {| r_store := r_store r; r_batches := set_nth b x (h0, []) (r_batches r); r_snaps := r_snaps r;
     r_lives := r_lives r |}.
Definition set_store (r : rstate) (s : st) : rstate :=
  {| r_store := s; r_batches := r_batches r; r_snaps := r_snaps r; r_lives := r_lives r |}.
Definition set_lives (r : rstate) (l : lives) : rstate :=
  {| r_store := r_store r; r_batches := r_batches r; r_snaps := r_snaps r; r_lives := l |}.

Definition run_op1 (ideal : N) (r : rstate) (o : op) : rstate * list obs :=
  let s := r_store r in
  match o with
  | OPut h k v => (set_store r (h_upd h (fun x => st_put x k v) s), [])
  | ODel h k => (set_store r (h_upd h (fun x => st_del x k) s), [])
  | OGet h k => (r, [BGet (st_get (h_view h s) k)])
  | OHas h k => (r, [BHas (st_has (h_view h s) k)])
  | OIter h p s0 => (r, [BIter (st_iter (h_view h s) p s0)])
  | OBNew b h => (set_batch r b (h, []), [])
  | OBPut b k v => let '(h, stored) := get_batch r b in
                   (set_batch r b (h, st_badd (h_view h s) stored (WPut k v)), [])
  | OBDel b k => let '(h, stored) := get_batch r b in
                 (set_batch r b (h, st_badd (h_view h s) stored (WDel k)), [])
  | OBWrite b => let '(h, stored) := get_batch r b in
                 (set_store r (h_upd h (fun x => st_bwrite x stored) s), [])
  | OBReset b => let '(h, _) := get_batch r b in (set_batch r b (h, []), [])
  | OBReplay b => let '(h, stored) := get_batch r b in
                  (r, [BReplay (st_breplay (h_view h s) stored)])
  | OFlush d => (set_store r (st_upd d (st_flush ideal) s), [])
  | ODrop d => (set_store r (st_upd d st_drop s), [])
  | ONfp d => (r, [match st_nfp (st_sub d s) with Some n => BNfp n | None => BNone end])
  | OSnap h => ({| r_store := s; r_batches := r_batches r; r_snaps := r_snaps r ++ [h_view h s];
                   r_lives := r_lives r |}, [])
  | OSGet i k => (r, [match nth_error (r_snaps r) i with Some x => BGet (st_get x k) | None => BNone end])
  | OSHas i k => (r, [match nth_error (r_snaps r) i with Some x => BHas (st_has x k) | None => BNone end])
  | OSIter i p s0 => (r, [match nth_error (r_snaps r) i with Some x => BIter (st_iter x p s0) | None => BNone end])
  | OCompact h a l => (r, [BCompact (st_compact (h_view h s) a l)])
  | OECompact h a l => (r, [BCompactErr (st_compact_ok (h_view h s) a l)])
  | OLit i h p s0 => (set_lives r (set_nth i (Some (st_iter (h_view h s) p s0)) None (r_lives r)), [])
  | OLNext i n => let '(l, out) := live_next (r_lives r) i n in (set_lives r l, [out])
  | OLRel i => (set_lives r (set_nth i None None (r_lives r)), [])
  | OStat h p => (r, [BStat (st_stat_ok (h_view h s) p)])
  | OBReplayTo b1 b2 =>
      let '(h1, stored1) := get_batch r b1 in
      let '(h2, stored2) := get_batch r b2 in
      (* the source replays (un-prefixing through its replayers) into the destination batch's Put/Delete *)
      (set_batch r b2 (h2, fold_left (st_badd (h_view h2 s)) (st_breplay (h_view h1 s) stored1) stored2), [])
  | OInit d => (set_store r (st_upd d st_init s), [])
  end.

Definition run_op (lsafe : bool) (ideal : N) (r : rstate) (o : op) : rstate * list obs :=
  let '(r', out) := run_op1 ideal r o in
  (set_lives r' (lives_after lsafe o (r_lives r')), out).

Fixpoint run_ops (lsafe : bool) (ideal : N) (r : rstate) (ops : list op) : list obs :=
  match ops with
  | [] => []
  | o :: ops' => let '(r', out) := run_op lsafe ideal r o in out ++ run_ops lsafe ideal r' ops'
  end.

Definition run (lsafe : bool) (ideal : N) (s0 : st) (ops : list op) : list obs :=
  run_ops lsafe ideal {| r_store := s0; r_batches := []; r_snaps := []; r_lives := [] |} ops.
