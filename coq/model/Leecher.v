(* Model of gossip/basestream/basestreamleecher:
     base_leecher.go            BaseLeecher  (Routine / RegisterPeer / UnregisterPeer / Terminate)
     basepeerleecher/session.go BasePeerLeecher (loop / routine / sweepProcessedChunks / tryToSync)

   Goroutine loops become step functions.  Callbacks are the application's: they are modelled
   as the simplest embedding (base leecher: one session variable, candidates = d.Peers;
   peer leecher: answers scripted per routine run).  Runtime parts only modelled: the ticker
   (event Tick), sync.RWMutex (every exported method holds Mu for its whole body, so ops are
   atomic), close() of a closed channel (= panic).  Definitions only; proofs in
   proofs/LeecherProofs.v. *)
From Coq Require Import NArith List Bool.
Import ListNotations.

(* ---------------------------------------------------------------------------------- *)
(* Base leecher                                                                        *)
(* ---------------------------------------------------------------------------------- *)

(* peer ids are numbers; the id 0 plays the empty string "" (what OngoingSessionPeer returns
   when no session is running). *)
Record bstate := mkB {
  b_peers : list N;        (* d.Peers: keys of the map, kept strictly ascending *)
  b_term : bool;           (* d.Terminated *)
  b_quit_closed : bool;    (* d.Quit closed *)
  b_sess : option N        (* the application's session variable *)
}.

Definition b_init : bstate := mkB [] false false None.

Inductive bop :=
| BReg (p : N)                          (* RegisterPeer(p) *)
| BUnreg (p : N) (choice : nat)         (* UnregisterPeer(p); choice = the application's pick
                                           if a replacement session is started inside *)
| BTick (shouldTerm : bool) (choice : nat)  (* ticker: Mu.Lock(); Routine(); Mu.Unlock() *)
| BTerminate.

(* callback log *)
Inductive bev :=
| EStart (p : N) (cands : list N)       (* StartSession(cands); the application chose p *)
| ETerm (was : option N)                (* TerminateSession(); session variable before *)
| EPanic.                               (* close of closed channel *)

Definition mem (p : N) (l : list N) : bool := existsb (N.eqb p) l.

Fixpoint set_ins (p : N) (l : list N) : list N :=
  match l with
  | [] => [p]
  | q :: r => if (p <? q)%N then p :: l else q :: set_ins p r
  end.

(* d.Peers[p] = struct{}{} / delete(d.Peers, p) on the ascending key list *)
Definition set_add (p : N) (l : list N) : list N := if mem p l then l else set_ins p l.
Definition set_del (p : N) (l : list N) : list N := filter (fun q => negb (N.eqb p q)) l.

Definition ongoing (s : bstate) : bool := match b_sess s with Some _ => true | None => false end.
Definition ongoing_peer (s : bstate) : N := match b_sess s with Some p => p | None => 0%N end.

(* application callbacks *)
Definition app_terminate (s : bstate) : bstate * list bev :=
  (mkB (b_peers s) (b_term s) (b_quit_closed s) None, [ETerm (b_sess s)]).

Definition app_start (s : bstate) (cands : list N) (choice : nat) : bstate * list bev :=
  let p := nth (Nat.modulo choice (length cands)) cands 0%N in
  (mkB (b_peers s) (b_term s) (b_quit_closed s) (Some p), [EStart p cands]).

(* func (d *BaseLeecher) Routine() *)
Definition routine (s : bstate) (shouldTerm : bool) (choice : nat) : bstate * list bev :=
  if b_term s then (s, [])
  else
    let '(s1, e1) := if ongoing s && shouldTerm then app_terminate s else (s, []) in
    if negb (ongoing s1) then
      let cands := b_peers s1 in      (* SelectSessionPeerCandidates := the registered peers *)
      match cands with
      | [] => (s1, e1)
      | _ => let '(s2, e2) := app_start s1 cands choice in (s2, e1 ++ e2)
      end
    else (s1, e1).

Definition with_peers (s : bstate) (ps : list N) : bstate :=
  mkB ps (b_term s) (b_quit_closed s) (b_sess s).

(* UnregisterPeer after the repair (fixes/C18.patch): the peer is deleted first *)
Definition unregister (s : bstate) (p : N) (choice : nat) : bstate * list bev :=
  let s0 := with_peers s (set_del p (b_peers s)) in
  if N.eqb (ongoing_peer s0) p then
    let '(s1, e1) := app_terminate s0 in
    let '(s2, e2) := routine s1 false choice in
    (s2, e1 ++ e2)
  else (s0, []).

(* UnregisterPeer of the pinned tree: Routine() runs while the peer is still registered *)
Definition unregister_old (s : bstate) (p : N) (choice : nat) : bstate * list bev :=
  let '(s2, e) :=
    if N.eqb (ongoing_peer s) p then
      let '(s1, e1) := app_terminate s in
      let '(s2, e2) := routine s1 false choice in
      (s2, e1 ++ e2)
    else (s, []) in
  (with_peers s2 (set_del p (b_peers s2)), e).

Definition bstep_gen (unreg : bstate -> N -> nat -> bstate * list bev)
                     (s : bstate) (o : bop) : bstate * list bev :=
  match o with
  | BReg p => if b_term s then (s, []) else (with_peers s (set_add p (b_peers s)), [])
  | BUnreg p c => unreg s p c
  | BTick t c => routine s t c
  | BTerminate =>
      (* d.Terminated = true; close(d.Quit) panics when already closed (then TerminateSession
         is not reached) *)
      if b_quit_closed s then (mkB (b_peers s) true true (b_sess s), [EPanic])
      else app_terminate (mkB (b_peers s) true true (b_sess s))
  end.

Definition bstep := bstep_gen unregister.
Definition bstep_old := bstep_gen unregister_old.

(* run a history; the log keeps the op with the callbacks it caused *)
Fixpoint brun_gen (stp : bstate -> bop -> bstate * list bev) (s : bstate) (ops : list bop)
  : list (bop * list bev) :=
  match ops with
  | [] => []
  | o :: r => let '(s', e) := stp s o in (o, e) :: brun_gen stp s' r
  end.

Fixpoint bfinal_gen (stp : bstate -> bop -> bstate * list bev) (s : bstate) (ops : list bop) : bstate :=
  match ops with
  | [] => s
  | o :: r => bfinal_gen stp (fst (stp s o)) r
  end.

Definition brun := brun_gen bstep.
Definition brun_old := brun_gen bstep_old.

(* ---------------------------------------------------------------------------------- *)
(* Peer leecher                                                                        *)
(* ---------------------------------------------------------------------------------- *)

Record panswer := mkAns {
  a_done : bool;            (* Done() *)
  a_susp : bool;            (* Suspend() *)
  a_proc : N -> bool        (* IsProcessed(id) *)
}.

(* Go ints: both counters only grow from 0 and ParallelChunksDownload >= 0 (New panics on a
   negative value: make() with negative capacity), so N is exact as long as int does not
   overflow *)
Record pstate := mkP {
  p_req : N;                (* totalRequested *)
  p_proc : N;               (* totalProcessed *)
  p_chunks : list N;        (* processingChunks (ids) *)
  p_done : bool;            (* d.done / quit closed: the loop has exited *)
  p_run : nat               (* number of routine runs so far (indexes the oracle) *)
}.

Definition p_init : pstate := mkP 0 0 [] false 0.

Inductive pop := PChunk (id : N) | PTick | PTerminate.   (* PTerminate = Terminate() called from outside *)

Inductive pev :=
| PDone (b : bool)                  (* Done() returned b: start of a routine run *)
| PIsProc (id : N) (b : bool)       (* IsProcessed(id) returned b *)
| PSusp (b : bool)                  (* Suspend() returned b *)
| PReq (maxChunks : N)              (* RequestChunks(num, size, maxChunks) *)
| PTerminated.                      (* marker: an external Terminate() has returned *)

Local Open Scope N_scope.

(* sweepProcessedChunks *)
Fixpoint sweep (f : N -> bool) (l : list N) : list N * N * list pev :=
  match l with
  | [] => ([], 0, [])
  | c :: r =>
      let '(keep, n, ev) := sweep f r in
      if f c then (keep, n + 1, PIsProc c true :: ev)
      else (c :: keep, n, PIsProc c false :: ev)
  end.

(* routine() of the pinned tree = Done? ; sweepProcessedChunks ; tryToSync *)
Definition proutine_old (par : N) (oracle : nat -> panswer) (s : pstate) : pstate * list pev :=
  let a := oracle (p_run s) in
  let run' := S (p_run s) in
  if a_done a then (mkP (p_req s) (p_proc s) (p_chunks s) true run', [PDone true])
  else
    let '(keep, n, ev) := sweep (a_proc a) (p_chunks s) in
    let proc' := p_proc s + n in
    if a_susp a then (mkP (p_req s) proc' keep (p_done s) run', PDone false :: ev ++ [PSusp true])
    else if p_req s <? proc' + par then
      let k := proc' + par - p_req s in
      (mkP (p_req s + k) proc' keep (p_done s) run', PDone false :: ev ++ [PSusp false; PReq k])
    else (mkP (p_req s) proc' keep (p_done s) run', PDone false :: ev ++ [PSusp false]).

(* routine() after the repair fixes/C18b.patch: "if d.done { return }" first *)
Definition proutine (par : N) (oracle : nat -> panswer) (s : pstate) : pstate * list pev :=
  if p_done s then (s, []) else proutine_old par oracle s.

(* one iteration of loop().  The chunk branch checks d.done; the ticker branch does not: after
   Terminate() has closed quit, select may still pick a ticker that has fired, and routine()
   runs once more (found by trace validation against the real ticker).  The model therefore
   lets a tick call routine() in every state; that the loop eventually leaves through quit is
   not modelled (it only removes behaviours).  PTerminate is Terminate() called by another
   goroutine (quit closed, done = true). *)
Definition pstep_gen (rt : N -> (nat -> panswer) -> pstate -> pstate * list pev)
                     (par : N) (oracle : nat -> panswer) (s : pstate) (o : pop) : pstate * list pev :=
  match o with
  | PChunk id =>
      if p_done s then (s, [])
      else if N.of_nat (length (p_chunks s)) <? par * 2 then
        rt par oracle (mkP (p_req s) (p_proc s) (p_chunks s ++ [id]) (p_done s) (p_run s))
      else (s, [])
  | PTick => rt par oracle s
  | PTerminate => (mkP (p_req s) (p_proc s) (p_chunks s) true (p_run s), [PTerminated])
  end.

Definition pstep := pstep_gen proutine.
Definition pstep_old := pstep_gen proutine_old.

Fixpoint prun_gen (stp : pstate -> pop -> pstate * list pev) (s : pstate) (ops : list pop) : pstate * list pev :=
  match ops with
  | [] => (s, [])
  | o :: r => let '(s1, e1) := stp s o in
              let '(s2, e2) := prun_gen stp s1 r in (s2, e1 ++ e2)
  end.

Definition prun (par : N) (oracle : nat -> panswer) := prun_gen (pstep par oracle).
Definition prun_old (par : N) (oracle : nat -> panswer) := prun_gen (pstep_old par oracle).

(* oracle given as a finite script (what the harness uses): answers beyond the script say
   "done".  The processed set is a list of ids. *)
Definition script_oracle (script : list (bool * bool * list N)) (k : nat) : panswer :=
  match nth_error script k with
  | Some (d, s, ids) => mkAns d s (fun id => mem id ids)
  | None => mkAns true false (fun _ => false)
  end.
