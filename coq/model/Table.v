(* Model of kvdb/table/table.go + readonly.go (C24): key translation of a prefix table.
   separator = []byte{}, so prefixed(key, prefix) = prefix ++ key.
   incPrefix goes through math/big exactly as the code does (SetBytes, +1, Bytes(), left pad).
   The table operations themselves are a translation onto the underlying store and live in
   model/KvStack.v ([Tab p u]).  Definitions only. *)
From Coq Require Import NArith List Bool Arith.
From LV Require Import lib.Bytes lib.SortedMap spec.KvSpec spec.KvOps model.PrefixRange.
Import ListNotations.
Local Open Scope N_scope.

Definition prefixed (k p : key) : key := p ++ k.

(* if len(key) < len(prefix)+len(separator) { return key }; return key[len(prefix)+len(separator):] *)
Definition no_prefix (k p : key) : key :=
  if (length k <? length p)%nat then k else skipn (length p) k.

(* big.Int.SetBytes: big-endian value *)
Definition be_val (p : key) : N := fold_left (fun acc b => acc * 256 + b) p 0.

(* big.Int.Bytes: minimal big-endian digits (empty for 0); None = out of fuel *)
Fixpoint be_min (fuel : nat) (n : N) : option key :=
  if n =? 0 then Some [] else
  match fuel with
  | O => None
  | S f => match be_min f (n / 256) with
           | Some d => Some (d ++ [n mod 256])
           | None => None
           end
  end.

Inductive inc_result := IncNil | IncSome (u : key) | IncOutOfFuel.

Definition inc_prefix_fuel (fuel : nat) (prefix : key) : inc_result :=
  match prefix with
  | [] => IncNil                                         (* len(prefix) == 0 *)
  | _ =>
      match be_min fuel (be_val prefix + 1) with
      | None => IncOutOfFuel
      | Some d =>
          if (length prefix <? length d)%nat then IncNil  (* overflow *)
          else IncSome (repeat 0 (length prefix - length d) ++ d)
      end
  end.
(* a number below 256^(n+1) has at most n+1 digits *)
Definition inc_prefix (prefix : key) : inc_result := inc_prefix_fuel (S (length prefix)) prefix.

Definition inc_prefix_okey (prefix : key) : okey :=
  match inc_prefix prefix with IncSome u => Some u | _ => None end.

(* Table.Compact(start, limit): the range handed to the underlying store *)
Definition table_compact (p : key) (start limit : okey) : okey * okey :=
  (Some (prefixed (ob start) p),
   match limit with
   | None => inc_prefix_okey p
   | Some l => Some (prefixed l p)
   end).

Definition wop_prefixed (p : key) (o : wop) : wop :=
  match o with
  | WPut k v => WPut (prefixed k p) v
  | WDel k => WDel (prefixed k p)
  end.

(* replayer: noPrefix on every replayed key *)
Definition wop_no_prefix (p : key) (o : wop) : wop :=
  match o with
  | WPut k v => WPut (no_prefix k p) v
  | WDel k => WDel (no_prefix k p)
  end.

(* reflect.go: uniqKeys.  Add keeps the minimum key length; Check compares all pairs of keys
   truncated to that length and reports an error when two are equal.
   (OpenTables returns Check(); MigrateTables defers it and drops the result.) *)
Definition uniq_min (keys : list key) : nat :=
  match keys with
  | [] => O
  | k :: r => fold_left (fun n k' => if (length k' <? n)%nat then length k' else n) r (length k)
  end.
Fixpoint uniq_pairs_ok (L : nat) (keys : list key) : bool :=
  match keys with
  | [] => true
  | a :: r => forallb (fun b => negb (bytes_eqb (firstn L a) (firstn L b))) r && uniq_pairs_ok L r
  end.
Definition uniq_check (keys : list key) : bool := uniq_pairs_ok (uniq_min keys) keys.

(* the struct tags MigrateTables/OpenTables act on: `table:""` and `table:"-"` are skipped *)
Definition table_tags (tags : list key) : list key :=
  filter (fun k => match k with [] => false | _ => negb (bytes_eqb k [45%N]) end) tags.

(* reflect.go: MigrateTables / OpenTables read the `table` tags of the struct type they are given on
   every call (no state between calls): field number (counting bound fields from 1) and prefix. *)
Fixpoint bound_fields_from (n : nat) (tags : list key) : list (nat * key) :=
  match tags with
  | [] => []
  | t :: r =>
      match table_tags [t] with
      | [] => bound_fields_from n r
      | _ => (n, t) :: bound_fields_from (S n) r
      end
  end.
Definition migrate_tables (tags : list key) : list (nat * key) := bound_fields_from 1 tags.
(* a process calling it on several struct types in turn *)
Definition migrate_history (calls : list (list key)) : list (list (nat * key)) := map migrate_tables calls.

(* NOT the pinned code: a variant memoizing the parsed tags per type NAME (what a cache keyed by
   reflect.Type.String() does when two types print identically) *)
Fixpoint migrate_history_cached (cache : list (nat * list (nat * key))) (calls : list (nat * list key))
  : list (list (nat * key)) :=
  match calls with
  | [] => []
  | (name, tags) :: r =>
      match find (fun c => Nat.eqb (fst c) name) cache with
      | Some c => snd c :: migrate_history_cached cache r
      | None => let f := migrate_tables tags in f :: migrate_history_cached ((name, f) :: cache) r
      end
  end.
