(* Persistence and restart of the vector index (round 3).
   Go code covered:
     vecfc/vector.go            byte layout of the vectors (HighestBeforeSeq: 8 bytes per branch = Seq, MinSeq
                                little-endian uint32; LowestAfterSeq: 4 bytes per branch)
     vecfc/store_vectors.go     GetHighestBefore / GetLowestAfter / SetHighestBefore / SetLowestAfter:
                                write-through simplewlru caches (weight = byte length) in front of the DB tables
     vecengine/store_branches_info.go   EventBranch table (4-byte big-endian branch id), BranchesInfo record
                                (RLP: glue only, kept typed), written by Flush only
     vecengine/index.go         Reset (fresh engine over an existing DB), Flush, DropNotFlushed, InitBranchesInfo
     vecfc/index.go             Reset / onDropNotFlushed (purge of the HB/LA caches, NOT of the FC cache)
   Three layers:
     (A) enc/dec of the vectors and of the persisted tables (pdb); [reopen] builds the index state a FRESH
         vecfc.Index sees over a flushed DB;
     (B) tcache: one DB table (flushed / current view, key -> bytes) with its write-through LRU
         (model/Wlru.v = utils/simplewlru);
     (C) pidx: the engine with the in-memory BranchesInfo pointer (nil until InitBranchesInfo), the persisted
         BranchesInfo record (written by Flush when the pointer is non-nil) and the persisted byte tables;
         operations Add / Flush / DropNotFlushed / Restart (= vecfc.NewIndex + Reset over the same DB).
   Definitions only; proofs in proofs/VecPersistProofs.v. *)
From Coq Require Import List Arith NArith ZArith Bool.
From LV Require Import lib.Bytes model.Codec model.VecIndex model.Wlru model.PosRlp.
Import ListNotations.
Open Scope N_scope.

(* ---------- (A) byte encodings ---------- *)
Definition enc_hb (v : list hbs) : list N := flat_map (fun x => le 4 (fst x) ++ le 4 (snd x)) v.
Fixpoint dec_hb_n (k : nat) (b : list N) : list hbs :=
  match k with O => [] | S k' => (unle_k 4 b, unle_k 4 (skipn 4 b)) :: dec_hb_n k' (skipn 8 b) end.
Definition dec_hb (b : list N) : list hbs := dec_hb_n (length b / 8) b.       (* HighestBeforeSeq.Size = len/8 *)
Definition enc_la (v : list N) : list N := flat_map (le 4) v.
Fixpoint dec_la_n (k : nat) (b : list N) : list N :=
  match k with O => [] | S k' => unle_k 4 b :: dec_la_n k' (skipn 4 b) end.
Definition dec_la (b : list N) : list N := dec_la_n (length b / 4) b.
Definition enc_br (b : nat) : list N := be 4 (N.of_nat b).                      (* idx.Validator.Bytes *)
Definition dec_br (b : list N) : nat := N.to_nat (unbe_k 4 b).                  (* idx.BytesToValidator *)

Definition U32 : N := 4294967296.
Definition hbs_ok (x : hbs) : Prop := fst x < U32 /\ snd x < U32.

(* BranchesInfo (typed: RLP is glue) *)
Record binfo := { bi_last : list N; bi_cr : list nat; bi_by : list (list nat) }.
Definition bi_of (s : vidx) : binfo := {| bi_last := br_last s; bi_cr := br_cr s; bi_by := by_cr s |}.
Definition bi_init (n : nat) : binfo := bi_of (init n).                          (* newInitialBranchesInfo *)

(* the persisted database: tables S (HighestBefore), s (LowestAfter), b (EventBranch), record B/c *)
Record pdb := { pd_hb : list (N * list N); pd_la : list (N * list N); pd_br : list (N * list N);
                pd_bi : option binfo }.
Definition enc_tbl {A} (f : A -> list N) (t : list (N * A)) : list (N * list N) := map (fun p => (fst p, f (snd p))) t.
Definition dec_tbl {A} (f : list N -> A) (t : list (N * list N)) : list (N * A) := map (fun p => (fst p, f (snd p))) t.
Definition pdb_empty : pdb := {| pd_hb := []; pd_la := []; pd_br := []; pd_bi := None |}.

(* what a fresh Index (NewIndex + Reset + InitBranchesInfo) sees over a database; [E] is the application's
   event store (getEvent callback) *)
Definition reopen (n : nat) (E : list (N * event)) (d : pdb) : vidx :=
  let b := match pd_bi d with Some b => b | None => bi_init n end in
  {| nvals := n; br_last := bi_last b; br_cr := bi_cr b; by_cr := bi_by b;
     hb := dec_tbl dec_hb (pd_hb d); la := dec_tbl dec_la (pd_la d); ebr := dec_tbl dec_br (pd_br d); evs := E |}.

(* ---------- (C) the engine over a persisted DB ---------- *)
Record pidx := {
  p_n : nat;
  p_bi : option binfo;          (* vi.bi (nil after Reset / DropNotFlushed until InitBranchesInfo) *)
  p_db : pdb;                   (* flushed database (the store handed to Reset) *)
  p_evs_fl : list (N * event);  (* application event store as of the last Flush *)
  p_cur : pdb;                  (* current view through the flushable wrapper: flushed + unflushed writes;
                                   pd_bi of the current view is only written by Flush *)
  p_evs : list (N * event) }.
Definition p_init (n : nat) : pidx :=
  {| p_n := n; p_bi := None; p_db := pdb_empty; p_evs_fl := []; p_cur := pdb_empty; p_evs := [] |}.
(* InitBranchesInfo: load the record, else newInitialBranchesInfo *)
Definition p_binfo (p : pidx) : binfo :=
  match p_bi p with Some b => b | None => match pd_bi (p_cur p) with Some b => b | None => bi_init (p_n p) end end.
(* the index state the running engine works on *)
Definition p_view (p : pidx) : vidx :=
  let b := p_binfo p in
  {| nvals := p_n p; br_last := bi_last b; br_cr := bi_cr b; by_cr := bi_by b;
     hb := dec_tbl dec_hb (pd_hb (p_cur p)); la := dec_tbl dec_la (pd_la (p_cur p));
     ebr := dec_tbl dec_br (pd_br (p_cur p)); evs := p_evs p |}.
Definition p_store (p : pidx) (s : vidx) : pidx :=   (* vectors / branch ids go to the DB, BranchesInfo stays in memory *)
  {| p_n := p_n p; p_bi := Some (bi_of s); p_db := p_db p; p_evs_fl := p_evs_fl p;
     p_cur := {| pd_hb := enc_tbl enc_hb (hb s); pd_la := enc_tbl enc_la (la s); pd_br := enc_tbl enc_br (ebr s);
                 pd_bi := pd_bi (p_cur p) |};
     p_evs := evs s |}.
Definition p_drop (p : pidx) : pidx :=                (* DropNotFlushed: vi.bi = nil, unflushed writes gone *)
  {| p_n := p_n p; p_bi := None; p_db := p_db p; p_evs_fl := p_evs_fl p; p_cur := p_db p; p_evs := p_evs_fl p |}.
Definition p_add (p : pidx) (e : event) : bool * pidx :=   (* Add; a failed Add is followed by DropNotFlushed *)
  match VecIndex.add (p_view p) e with
  | Some s' => (true, p_store p s')
  | None => (false, p_drop p) end.
Definition p_flush (p : pidx) : pidx :=               (* if vi.bi != nil { setBranchesInfo }; vecDb.Flush() *)
  let cur := {| pd_hb := pd_hb (p_cur p); pd_la := pd_la (p_cur p); pd_br := pd_br (p_cur p);
                pd_bi := match p_bi p with Some b => Some b | None => pd_bi (p_cur p) end |} in
  {| p_n := p_n p; p_bi := p_bi p; p_db := cur; p_evs_fl := p_evs p; p_cur := cur; p_evs := p_evs p |}.
(* restart: a NEW vecfc.Index, Reset over the flushed DB (the old engine object and its unflushed writes
   are gone); same validators, same application store of flushed events *)
Definition p_restart (p : pidx) : pidx :=
  {| p_n := p_n p; p_bi := None; p_db := p_db p; p_evs_fl := p_evs_fl p; p_cur := p_db p; p_evs := p_evs_fl p |}.

Inductive pop := PAdd (e : event) | PFlush | PDrop | PRestart.
Definition p_step (p : pidx) (o : pop) : pidx :=
  match o with PAdd e => snd (p_add p e) | PFlush => p_flush p | PDrop => p_drop p | PRestart => p_restart p end.

(* ---------- (B) one table with its write-through cache (vecfc/store_vectors.go) ---------- *)
Definition bcache := Wlru.cache N (list N).
Record tcache := { t_fl : list (N * list N); t_cur : list (N * list N); t_c : bcache }.
Definition blen (b : list N) : N := N.of_nat (length b).
(* GetLowestAfter / GetHighestBefore: cache, else DB (nil -> nil), then cache.Add(id, &b, len(b)) *)
Definition t_get (id : N) (t : tcache) : option (list N) * tcache :=
  match Wlru.get N.eqb id (t_c t) with
  | (c', Some b) => (Some b, {| t_fl := t_fl t; t_cur := t_cur t; t_c := c' |})
  | (_, None) =>
    match alookup id (t_cur t) with
    | None => (None, t)
    | Some b => (Some b, {| t_fl := t_fl t; t_cur := t_cur t;
                            t_c := fst (fst (Wlru.add N.eqb id b (blen b) (t_c t))) |}) end end.
(* SetLowestAfter / SetHighestBefore: DB put, then cache.Add *)
Definition t_set (id : N) (b : list N) (t : tcache) : tcache :=
  {| t_fl := t_fl t; t_cur := aput id b (t_cur t); t_c := fst (fst (Wlru.add N.eqb id b (blen b) (t_c t))) |}.
Definition t_flush (t : tcache) : tcache := {| t_fl := t_cur t; t_cur := t_cur t; t_c := t_c t |}.
(* DropNotFlushed + onDropNotFlushed: the cache is purged *)
Definition t_drop (t : tcache) : tcache := {| t_fl := t_fl t; t_cur := t_fl t; t_c := fst (Wlru.purge (t_c t)) |}.
(* a fresh Index over the same DB: new cache of any configuration *)
Definition t_reopen (c0 : bcache) (t : tcache) : tcache := {| t_fl := t_fl t; t_cur := t_fl t; t_c := c0 |}.
Inductive top := TGet (id : N) | TSet (id : N) (b : list N) | TFlush | TDrop | TReopen (mw : N) (ms : Z).
Definition t_step (t : tcache) (o : top) : option (list N) * tcache :=
  match o with
  | TGet id => t_get id t
  | TSet id b => (None, t_set id b t)
  | TFlush => (None, t_flush t)
  | TDrop => (None, t_drop t)
  | TReopen mw ms => (None, match Wlru.new mw ms with Some c0 => t_reopen c0 t | None => t end) end.
(* the specification of the table: a plain two-level map *)
Definition m_step (m : list (N * list N) * list (N * list N)) (o : top) : option (list N) * (list (N * list N) * list (N * list N)) :=
  let '(fl, cur) := m in
  match o with
  | TGet id => (alookup id cur, m)
  | TSet id b => (None, (fl, aput id b cur))
  | TFlush => (None, (cur, cur))
  | TDrop => (None, (fl, fl))
  | TReopen _ _ => (None, (fl, fl)) end.

(* ---------- Round 4: the composed engine ----------
   The persisted engine together with everything that lives in the Go Index OBJECT: the HB/LA write-through
   caches (layer B, per-key reads and writes), the ForklessCause LRU, and "NotFlushedPairs != 0".
   DropNotFlushed and a restart are different transformers:
     drop    : vi.bi = nil; if NotFlushedPairs != 0 { unflushed writes dropped; HB/LA caches purged };
               the ForklessCause LRU is KEPT (vecfc/index.go onDropNotFlushed does not touch it);
     restart : a new Index object: all three caches are new (any configured capacities), vi.bi = nil, the
               flushable wrapper is new (no unflushed writes), same validators, same flushed database. *)
(* forklessCause / GatherFrom once the vectors have been fetched *)
Definition fc_on (ws : list N) (q : N) (s : vidx) (av : list hbs) (bv : list N) (bbr : nat) : bool :=
  if at_least_one_fork s && is_fork (hb_get av bbr) then false else
  let counted := fold_left (fun cnt br =>
       let bl := la_get bv br in let ah := hb_get av br in
       if (bl <=? fst ah) && negb (bl =? 0) && negb (is_fork ah)
       then set_nth false cnt (nth br (br_cr s) 0%nat) true else cnt)
     (List.seq 0 (nbr s)) (repeat false (nvals s)) in
  q <=? wsum ws counted.
Definition merged_on (s : vidx) (av : list hbs) : list hbs :=
  if at_least_one_fork s then
    map (fun brs => fold_left (fun hi br => if is_fork hi then hi else
                      let x := hb_get av br in if is_fork x then x else if fst hi <? fst x then x else hi) brs (0,0)) (by_cr s)
  else map (fun i => hb_get av i) (List.seq 0 (nvals s)).

Record ceng := { ce_p : pidx; ce_dirty : bool; ce_hbc : bcache; ce_lac : bcache; ce_fc : fcache }.
Definition ce_hb_t (ce : ceng) : tcache := {| t_fl := pd_hb (p_db (ce_p ce)); t_cur := pd_hb (p_cur (ce_p ce)); t_c := ce_hbc ce |}.
Definition ce_la_t (ce : ceng) : tcache := {| t_fl := pd_la (p_db (ce_p ce)); t_cur := pd_la (p_cur (ce_p ce)); t_c := ce_lac ce |}.
Definition ce_view (ce : ceng) : vidx := p_view (ce_p ce).
(* InitBranchesInfo *)
Definition p_initbi (p : pidx) : pidx :=
  {| p_n := p_n p; p_bi := Some (p_binfo p); p_db := p_db p; p_evs_fl := p_evs_fl p; p_cur := p_cur p; p_evs := p_evs p |}.
Definition ce_new (n : nat) (fccap : nat) (c0 c1 : bcache) : ceng :=
  {| ce_p := p_init n; ce_dirty := false; ce_hbc := c0; ce_lac := c1; ce_fc := fcache_new fccap |}.

(* the LowestAfter entries an Add wrote (DFS updates, oldest first, then the new event's own vector) *)
Definition la_new (s s' : vidx) : list (N * list N) := rev (firstn (length (la s') - length (la s)) (la s')).
Definition t_sets (enc : list N -> list N) (l : list (N * list N)) (t : tcache) : tcache :=
  fold_left (fun t kv => t_set (fst kv) (enc (snd kv)) t) l t.
(* Add: vectors are computed from the current view and written key by key through the caches *)
Definition ce_add (ce : ceng) (e : event) : bool * ceng :=
  let p := ce_p ce in
  match VecIndex.add (p_view p) e with
  | Some s' =>
    let hbt := match hb s' with (k, v) :: _ => t_set k (enc_hb v) (ce_hb_t ce) | [] => ce_hb_t ce end in
    let lat := t_sets enc_la (la_new (p_view p) s') (ce_la_t ce) in
    let brt := match ebr s' with (k, b) :: _ => aput k (enc_br b) (pd_br (p_cur p)) | [] => pd_br (p_cur p) end in
    (true, {| ce_p := {| p_n := p_n p; p_bi := Some (bi_of s'); p_db := p_db p; p_evs_fl := p_evs_fl p;
                         p_cur := {| pd_hb := t_cur hbt; pd_la := t_cur lat; pd_br := brt; pd_bi := pd_bi (p_cur p) |};
                         p_evs := evs s' |};
              ce_dirty := true; ce_hbc := t_c hbt; ce_lac := t_c lat; ce_fc := ce_fc ce |})
  | None => (* the harness / abft protocol: a failed Add is followed by DropNotFlushed *)
    (false, {| ce_p := p_drop p; ce_dirty := false;
               ce_hbc := if ce_dirty ce then fst (Wlru.purge (ce_hbc ce)) else ce_hbc ce;
               ce_lac := if ce_dirty ce then fst (Wlru.purge (ce_lac ce)) else ce_lac ce; ce_fc := ce_fc ce |}) end.
Definition ce_flush (ce : ceng) : ceng :=
  {| ce_p := p_flush (ce_p ce); ce_dirty := false; ce_hbc := ce_hbc ce; ce_lac := ce_lac ce; ce_fc := ce_fc ce |}.
Definition ce_drop (ce : ceng) : ceng :=
  {| ce_p := p_drop (ce_p ce); ce_dirty := false;
     ce_hbc := if ce_dirty ce then fst (Wlru.purge (ce_hbc ce)) else ce_hbc ce;
     ce_lac := if ce_dirty ce then fst (Wlru.purge (ce_lac ce)) else ce_lac ce; ce_fc := ce_fc ce |}.
Definition ce_restart (fccap : nat) (c0 c1 : bcache) (ce : ceng) : ceng :=
  {| ce_p := p_restart (ce_p ce); ce_dirty := false; ce_hbc := c0; ce_lac := c1; ce_fc := fcache_new fccap |}.

(* BranchesInfo and validator count only (what forklessCause / GatherFrom need besides the vectors) *)
Definition p_shape (p : pidx) : vidx :=
  let b := p_binfo p in
  {| nvals := p_n p; br_last := bi_last b; br_cr := bi_cr b; by_cr := bi_by b; hb := []; la := []; ebr := []; evs := [] |}.
(* Index.ForklessCause: LRU; on a miss InitBranchesInfo, GetHighestBefore(a) and GetLowestAfter(b) through the
   caches, GetEventBranchID(b) from the table; nil vector = crit, answer false; the answer is remembered *)
Definition ce_query (ws : list N) (q : N) (ce : ceng) (a b : N) : bool * ceng :=
  match fcache_get (a, b) (ce_fc ce) with
  | (Some r, c') => (r, {| ce_p := ce_p ce; ce_dirty := ce_dirty ce; ce_hbc := ce_hbc ce; ce_lac := ce_lac ce; ce_fc := c' |})
  | (None, _) =>
    let p1 := p_initbi (ce_p ce) in
    let '(oa, hbt) := t_get a (ce_hb_t ce) in
    let '(ob, lat) := match oa with Some _ => t_get b (ce_la_t ce) | None => (None, ce_la_t ce) end in
    let r := match oa, ob, alookup b (pd_br (p_cur p1)) with
             | Some ab, Some bb, Some brb => fc_on ws q (p_shape p1) (dec_hb ab) (dec_la bb) (dec_br brb)
             | _, _, _ => false end in
    (r, {| ce_p := p1; ce_dirty := ce_dirty ce; ce_hbc := t_c hbt; ce_lac := t_c lat; ce_fc := fcache_add (a, b) r (ce_fc ce) |}) end.
(* GetMergedHighestBefore *)
Definition ce_merged (ce : ceng) (a : N) : list hbs * ceng :=
  let p1 := p_initbi (ce_p ce) in
  let '(oa, hbt) := t_get a (ce_hb_t ce) in
  (match oa with Some ab => merged_on (p_shape p1) (dec_hb ab) | None => [] end,
   {| ce_p := p1; ce_dirty := ce_dirty ce; ce_hbc := t_c hbt; ce_lac := ce_lac ce; ce_fc := ce_fc ce |}).

(* ONE history type *)
Inductive cop := CAdd (e : event) | CQuery (a b : N) | CFlush | CDrop | CRestart (fccap : nat) (mw : N) (ms : Z).
Definition cout := (N * N * bool * list (N * event))%type.
Definition cstep (ws : list N) (q : N) (st : ceng * list cout) (o : cop) : ceng * list cout :=
  let '(ce, out) := st in
  match o with
  | CAdd e => (snd (ce_add ce e), out)
  | CQuery a b => let '(r, ce') := ce_query ws q ce a b in (ce', (a, b, r, evs (ce_view ce)) :: out)
  | CFlush => (ce_flush ce, out)
  | CDrop => (ce_drop ce, out)
  | CRestart cap mw ms => (match Wlru.new mw ms with Some c0 => ce_restart cap c0 c0 ce | None => ce end, out) end.

(* the bytes of the BranchesInfo record (key "c" of table "B"): rlp.EncodeToBytes of the struct
   { BranchIDLastSeq []idx.Event; BranchIDCreatorIdxs []idx.Validator; BranchIDByCreators [][]idx.Validator }.
   Encoder only (reuses the RLP primitives of model/PosRlp.v); tied to go-ethereum/rlp by the harness op DB;
   the decoder is glue (the record is typed in pdb). *)
Definition rlp_uints (l : list N) : list N := rlp_list (flat_map rlp_uint l).
Definition enc_bi (b : binfo) : list N :=
  rlp_list (rlp_uints (bi_last b) ++ rlp_uints (map N.of_nat (bi_cr b)) ++
            rlp_list (flat_map (fun l => rlp_uints (map N.of_nat l)) (bi_by b))).

(* ---------- Round 5: Reset of the SAME Index object ----------
   vecfc.Index.Reset(validators, db, getEvent): Engine.Reset re-wraps the DB in a new flushable (unflushed writes of
   the old wrapper are gone), installs the validators, sets vi.bi = nil (its DropNotFlushed finds no pending pairs, so
   the OnDropNotFlushed callback does NOT fire); then Index.Reset itself purges cache.ForklessCause and calls
   onDropNotFlushed (HB/LA caches purged).  All three caches keep their capacities.  The weights may change (they are
   read at query time), the DB may be the same one (ce_reset_same: validator count unchanged) or another, e.g. the
   empty DB of a new epoch (ce_reset_fresh: any validator count, new event store). *)
Definition purge_b (c : bcache) : bcache := fst (Wlru.purge c).
Definition ce_reset_same (ce : ceng) : ceng :=
  {| ce_p := p_restart (ce_p ce); ce_dirty := false; ce_hbc := purge_b (ce_hbc ce); ce_lac := purge_b (ce_lac ce);
     ce_fc := fcache_purge (ce_fc ce) |}.
Definition ce_reset_fresh (n' : nat) (ce : ceng) : ceng :=
  {| ce_p := p_init n'; ce_dirty := false; ce_hbc := purge_b (ce_hbc ce); ce_lac := purge_b (ce_lac ce);
     ce_fc := fcache_purge (ce_fc ce) |}.

(* histories in which the object is reused: the weight table / validator set current at query time is recorded
   with every answer *)
Definition rout := (list N * nat * cout)%type.
Record rstate := { r_ws : list N; r_n : nat; r_ce : ceng; r_out : list cout; r_arch : list rout }.
Inductive rop := RO (o : cop) | RResetSame (ws' : list N) | RResetFresh (ws' : list N) (n' : nat).
Definition rstep (st : rstate) (o : rop) : rstate :=
  let arch := map (fun x => (r_ws st, r_n st, x)) (r_out st) ++ r_arch st in
  match o with
  | RO o => let '(ce, out) := cstep (r_ws st) (quorum_of (r_ws st)) (r_ce st, r_out st) o in
            {| r_ws := r_ws st; r_n := r_n st; r_ce := ce; r_out := out; r_arch := r_arch st |}
  | RResetSame ws' => {| r_ws := ws'; r_n := r_n st; r_ce := ce_reset_same (r_ce st); r_out := []; r_arch := arch |}
  | RResetFresh ws' n' => {| r_ws := ws'; r_n := n'; r_ce := ce_reset_fresh n' (r_ce st); r_out := []; r_arch := arch |} end.
Definition r_answers (st : rstate) : list rout := map (fun x => (r_ws st, r_n st, x)) (r_out st) ++ r_arch st.
