(* Persistence and restart of the vector index (round 3).
   Go code covered:
     vecfc/vector.go            byte layout of the vectors (HighestBeforeSeq: 8 bytes per branch = Seq, MinSeq
                                little-endian uint32; LowestAfterSeq: 4 bytes per branch)
     vecfc/store_vectors.go     GetHighestBefore / GetLowestAfter / SetHighestBefore / SetLowestAfter:
                                write-through simplewlru caches (weight = byte length) in front of the DB tables
     vecengine/store_branches_info.go   EventBranch table (4-byte big-endian branch id), BranchesInfo record
                                (RLP: glue only, kept typed), written by Flush only
     vecengine/index.go         Reset (fresh engine over an existing DB), Flush, DropNotFlushed, InitBranchesInfo
     vecfc/index.go             Reset / onDropNotFlushed (purge of the HB/LA caches, NOT of the FC cache)
   Three layers:
     (A) enc/dec of the vectors and of the persisted tables (pdb); [reopen] builds the index state a FRESH
         vecfc.Index sees over a flushed DB;
     (B) tcache: one DB table (flushed / current view, key -> bytes) with its write-through LRU
         (model/Wlru.v = utils/simplewlru);
     (C) pidx: the engine with the in-memory BranchesInfo pointer (nil until InitBranchesInfo), the persisted
         BranchesInfo record (written by Flush when the pointer is non-nil) and the persisted byte tables;
         operations Add / Flush / DropNotFlushed / Restart (= vecfc.NewIndex + Reset over the same DB).
   Definitions only; proofs in proofs/VecPersistProofs.v. *)
From Coq Require Import List Arith NArith ZArith Bool.
From LV Require Import lib.Bytes model.Codec model.VecIndex model.Wlru.
Import ListNotations.
Open Scope N_scope.

(* ---------- (A) byte encodings ---------- *)
Definition enc_hb (v : list hbs) : list N := flat_map (fun x => le 4 (fst x) ++ le 4 (snd x)) v.
Fixpoint dec_hb_n (k : nat) (b : list N) : list hbs :=
  match k with O => [] | S k' => (unle_k 4 b, unle_k 4 (skipn 4 b)) :: dec_hb_n k' (skipn 8 b) end.
Definition dec_hb (b : list N) : list hbs := dec_hb_n (length b / 8) b.       (* HighestBeforeSeq.Size = len/8 *)
Definition enc_la (v : list N) : list N := flat_map (le 4) v.
Fixpoint dec_la_n (k : nat) (b : list N) : list N :=
  match k with O => [] | S k' => unle_k 4 b :: dec_la_n k' (skipn 4 b) end.
Definition dec_la (b : list N) : list N := dec_la_n (length b / 4) b.
Definition enc_br (b : nat) : list N := be 4 (N.of_nat b).                      (* idx.Validator.Bytes *)
Definition dec_br (b : list N) : nat := N.to_nat (unbe_k 4 b).                  (* idx.BytesToValidator *)

Definition U32 : N := 4294967296.
Definition hbs_ok (x : hbs) : Prop := fst x < U32 /\ snd x < U32.

(* BranchesInfo (typed: RLP is glue) *)
Record binfo := { bi_last : list N; bi_cr : list nat; bi_by : list (list nat) }.
Definition bi_of (s : vidx) : binfo := {| bi_last := br_last s; bi_cr := br_cr s; bi_by := by_cr s |}.
Definition bi_init (n : nat) : binfo := bi_of (init n).                          (* newInitialBranchesInfo *)

(* the persisted database: tables S (HighestBefore), s (LowestAfter), b (EventBranch), record B/c *)
Record pdb := { pd_hb : list (N * list N); pd_la : list (N * list N); pd_br : list (N * list N);
                pd_bi : option binfo }.
Definition enc_tbl {A} (f : A -> list N) (t : list (N * A)) : list (N * list N) := map (fun p => (fst p, f (snd p))) t.
Definition dec_tbl {A} (f : list N -> A) (t : list (N * list N)) : list (N * A) := map (fun p => (fst p, f (snd p))) t.
Definition pdb_empty : pdb := {| pd_hb := []; pd_la := []; pd_br := []; pd_bi := None |}.

(* what a fresh Index (NewIndex + Reset + InitBranchesInfo) sees over a database; [E] is the application's
   event store (getEvent callback) *)
Definition reopen (n : nat) (E : list (N * event)) (d : pdb) : vidx :=
  let b := match pd_bi d with Some b => b | None => bi_init n end in
  {| nvals := n; br_last := bi_last b; br_cr := bi_cr b; by_cr := bi_by b;
     hb := dec_tbl dec_hb (pd_hb d); la := dec_tbl dec_la (pd_la d); ebr := dec_tbl dec_br (pd_br d); evs := E |}.

(* ---------- (C) the engine over a persisted DB ---------- *)
Record pidx := {
  p_n : nat;
  p_bi : option binfo;          (* vi.bi (nil after Reset / DropNotFlushed until InitBranchesInfo) *)
  p_db : pdb;                   (* flushed database (the store handed to Reset) *)
  p_evs_fl : list (N * event);  (* application event store as of the last Flush *)
  p_cur : pdb;                  (* current view through the flushable wrapper: flushed + unflushed writes;
                                   pd_bi of the current view is only written by Flush *)
  p_evs : list (N * event) }.
Definition p_init (n : nat) : pidx :=
  {| p_n := n; p_bi := None; p_db := pdb_empty; p_evs_fl := []; p_cur := pdb_empty; p_evs := [] |}.
(* InitBranchesInfo: load the record, else newInitialBranchesInfo *)
Definition p_binfo (p : pidx) : binfo :=
  match p_bi p with Some b => b | None => match pd_bi (p_cur p) with Some b => b | None => bi_init (p_n p) end end.
(* the index state the running engine works on *)
Definition p_view (p : pidx) : vidx :=
  let b := p_binfo p in
  {| nvals := p_n p; br_last := bi_last b; br_cr := bi_cr b; by_cr := bi_by b;
     hb := dec_tbl dec_hb (pd_hb (p_cur p)); la := dec_tbl dec_la (pd_la (p_cur p));
     ebr := dec_tbl dec_br (pd_br (p_cur p)); evs := p_evs p |}.
Definition p_store (p : pidx) (s : vidx) : pidx :=   (* vectors / branch ids go to the DB, BranchesInfo stays in memory *)
  {| p_n := p_n p; p_bi := Some (bi_of s); p_db := p_db p; p_evs_fl := p_evs_fl p;
     p_cur := {| pd_hb := enc_tbl enc_hb (hb s); pd_la := enc_tbl enc_la (la s); pd_br := enc_tbl enc_br (ebr s);
                 pd_bi := pd_bi (p_cur p) |};
     p_evs := evs s |}.
Definition p_drop (p : pidx) : pidx :=                (* DropNotFlushed: vi.bi = nil, unflushed writes gone *)
  {| p_n := p_n p; p_bi := None; p_db := p_db p; p_evs_fl := p_evs_fl p; p_cur := p_db p; p_evs := p_evs_fl p |}.
Definition p_add (p : pidx) (e : event) : bool * pidx :=   (* Add; a failed Add is followed by DropNotFlushed *)
  match VecIndex.add (p_view p) e with
  | Some s' => (true, p_store p s')
  | None => (false, p_drop p) end.
Definition p_flush (p : pidx) : pidx :=               (* if vi.bi != nil { setBranchesInfo }; vecDb.Flush() *)
  let cur := {| pd_hb := pd_hb (p_cur p); pd_la := pd_la (p_cur p); pd_br := pd_br (p_cur p);
                pd_bi := match p_bi p with Some b => Some b | None => pd_bi (p_cur p) end |} in
  {| p_n := p_n p; p_bi := p_bi p; p_db := cur; p_evs_fl := p_evs p; p_cur := cur; p_evs := p_evs p |}.
(* restart: a NEW vecfc.Index, Reset over the flushed DB (the old engine object and its unflushed writes
   are gone); same validators, same application store of flushed events *)
Definition p_restart (p : pidx) : pidx :=
  {| p_n := p_n p; p_bi := None; p_db := p_db p; p_evs_fl := p_evs_fl p; p_cur := p_db p; p_evs := p_evs_fl p |}.

Inductive pop := PAdd (e : event) | PFlush | PDrop | PRestart.
Definition p_step (p : pidx) (o : pop) : pidx :=
  match o with PAdd e => snd (p_add p e) | PFlush => p_flush p | PDrop => p_drop p | PRestart => p_restart p end.

(* ---------- (B) one table with its write-through cache (vecfc/store_vectors.go) ---------- *)
Definition bcache := Wlru.cache N (list N).
Record tcache := { t_fl : list (N * list N); t_cur : list (N * list N); t_c : bcache }.
Definition blen (b : list N) : N := N.of_nat (length b).
(* GetLowestAfter / GetHighestBefore: cache, else DB (nil -> nil), then cache.Add(id, &b, len(b)) *)
Definition t_get (id : N) (t : tcache) : option (list N) * tcache :=
  match Wlru.get N.eqb id (t_c t) with
  | (c', Some b) => (Some b, {| t_fl := t_fl t; t_cur := t_cur t; t_c := c' |})
  | (_, None) =>
    match alookup id (t_cur t) with
    | None => (None, t)
    | Some b => (Some b, {| t_fl := t_fl t; t_cur := t_cur t;
                            t_c := fst (fst (Wlru.add N.eqb id b (blen b) (t_c t))) |}) end end.
(* SetLowestAfter / SetHighestBefore: DB put, then cache.Add *)
Definition t_set (id : N) (b : list N) (t : tcache) : tcache :=
  {| t_fl := t_fl t; t_cur := aput id b (t_cur t); t_c := fst (fst (Wlru.add N.eqb id b (blen b) (t_c t))) |}.
Definition t_flush (t : tcache) : tcache := {| t_fl := t_cur t; t_cur := t_cur t; t_c := t_c t |}.
(* DropNotFlushed + onDropNotFlushed: the cache is purged *)
Definition t_drop (t : tcache) : tcache := {| t_fl := t_fl t; t_cur := t_fl t; t_c := fst (Wlru.purge (t_c t)) |}.
(* a fresh Index over the same DB: new cache of any configuration *)
Definition t_reopen (c0 : bcache) (t : tcache) : tcache := {| t_fl := t_fl t; t_cur := t_fl t; t_c := c0 |}.
Inductive top := TGet (id : N) | TSet (id : N) (b : list N) | TFlush | TDrop | TReopen (mw : N) (ms : Z).
Definition t_step (t : tcache) (o : top) : option (list N) * tcache :=
  match o with
  | TGet id => t_get id t
  | TSet id b => (None, t_set id b t)
  | TFlush => (None, t_flush t)
  | TDrop => (None, t_drop t)
  | TReopen mw ms => (None, match Wlru.new mw ms with Some c0 => t_reopen c0 t | None => t end) end.
(* the specification of the table: a plain two-level map *)
Definition m_step (m : list (N * list N) * list (N * list N)) (o : top) : option (list N) * (list (N * list N) * list (N * list N)) :=
  let '(fl, cur) := m in
  match o with
  | TGet id => (alookup id cur, m)
  | TSet id b => (None, (fl, aput id b cur))
  | TFlush => (None, (cur, cur))
  | TDrop => (None, (fl, fl))
  | TReopen _ _ => (None, (fl, fl)) end.
