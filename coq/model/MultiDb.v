(* C26 — model of kvdb/multidb (producer.go, records.go, verify.go, store.go).

   Strings are byte lists ([list N]).  The routing table is an association list in the
   order in which Go's map iteration happens to deliver it (an oracle permutation: every
   theorem is stated for all orders).  Pattern routes ("%d", "%s", ...) are compiled by
   utils/fmtfilter.CompileFilter in the real code; fmt.Sscanf/Sprintf are not re-modelled:
   the compiled functions enter as the oracle
        orc  tmpl nametmpl req = Some name   <->  CompileFilter(tmpl,nametmpl)(req) = (name,nil)
        cok  tmpl nametmpl     = true        <->  CompileFilter(tmpl,nametmpl) succeeds
   tabulated by the harness with the real code.

   The model is the REPAIRED code (fixes/C26.patch): NewProducer walks the routing table in
   sorted order of the request templates, so the slice of pattern routes is sorted.  The
   pinned behaviour (slice in map-iteration order) is kept as [new_producer_old].

   Definitions only; proofs are in proofs/MultiDbProofs.v. *)
From Coq Require Import NArith List Bool.
From LV Require Import lib.Bytes.
Import ListNotations.
Local Open Scope N_scope.

Definition str := list N.
Definition SLASH : N := 47.
Definition PERCENT : N := 37.

Record route := mkRoute { r_type : str; r_name : str; r_table : str; r_nodrop : bool }.

Definition has_pct (s : str) : bool := existsb (N.eqb PERCENT) s.

(* producer.go: `!strings.ContainsRune(req,'%') && !strings.ContainsRune(route.Name,'%')` *)
Definition is_exact (e : str * route) : bool :=
  negb (has_pct (fst e)) && negb (has_pct (r_name (snd e))).

Fixpoint assoc {A} (k : str) (l : list (str * A)) : option A :=
  match l with
  | [] => None
  | (k', v) :: t => if bytes_eqb k' k then Some v else assoc k t
  end.

Fixpoint mem_str (k : str) (l : list str) : bool :=
  match l with
  | [] => false
  | x :: t => bytes_eqb x k || mem_str k t
  end.

(* sort.Strings over the request templates = insertion sort by the byte-wise order *)
Fixpoint insert_by {A} (e : str * A) (l : list (str * A)) : list (str * A) :=
  match l with
  | [] => [e]
  | x :: t => if lex_leb (fst e) (fst x) then e :: x :: t else x :: insert_by e t
  end.
Fixpoint sort_by {A} (l : list (str * A)) : list (str * A) :=
  match l with
  | [] => []
  | x :: t => insert_by x (sort_by t)
  end.

(* strings.LastIndexByte(req,'/'):  Some (req[:pos], req[pos+1:]) *)
Fixpoint last_slash (s : str) : option (str * str) :=
  match s with
  | [] => None
  | c :: t =>
      match last_slash t with
      | Some (b, a) => Some (c :: b, a)
      | None => if c =? SLASH then Some ([], t) else None
      end
  end.

Record producer := mkProducer {
  p_exact : list (str * route);      (* routingTable (exact requests) *)
  p_pats : list (str * route);       (* routingFmt: (template, route with Name = name template) *)
  p_avail : list str                 (* types for which a producer was supplied *)
}.

Section Oracle.
  Variable orc : str -> str -> str -> option str.
  Variable cok : str -> str -> bool.

  Definition compiles (e : str * route) : bool := cok (fst e) (r_name (snd e)).

  (* NewProducer, repaired: pattern routes in sorted order of their templates *)
  Definition new_producer (avail : list str) (tbl : list (str * route)) : option producer :=
    match assoc [] tbl with
    | None => None                                   (* "default route must always be defined" *)
    | Some _ =>
        let pats := filter (fun e => negb (is_exact e)) tbl in
        if forallb compiles pats
        then Some (mkProducer (filter is_exact tbl) (sort_by pats) avail)
        else None
    end.

  (* NewProducer as pinned: the slice is filled in map-iteration order *)
  Definition new_producer_old (avail : list str) (tbl : list (str * route)) : option producer :=
    match assoc [] tbl with
    | None => None
    | Some _ =>
        let pats := filter (fun e => negb (is_exact e)) tbl in
        if forallb compiles pats
        then Some (mkProducer (filter is_exact tbl) pats avail)
        else None
    end.

  (* the inner `for i := 0; !ok && i < len(p.routingFmt); i++` *)
  Fixpoint try_pats (pats : list (str * route)) (req : str) : option route :=
    match pats with
    | [] => None
    | (tmpl, rt) :: rest =>
        match orc tmpl (r_name rt) req with
        | Some name => Some (mkRoute (r_type rt) name (r_table rt) (r_nodrop rt))
        | None => try_pats rest req
        end
    end.

  Definition lookup (p : producer) (req : str) : option route :=
    match assoc req (p_exact p) with
    | Some d => Some d
    | None => try_pats (p_pats p) req
    end.

  (* RouteOf: the `for {}` loop; None = out of fuel *)
  Fixpoint route_loop (fuel : nat) (p : producer) (req rpt rpn : str) : option route :=
    match fuel with
    | O => None
    | S f =>
        match lookup p req with
        | Some d => Some (mkRoute (r_type d) (r_name d ++ rpn) (r_table d ++ rpt) (r_nodrop d))
        | None =>
            match last_slash req with
            | None => route_loop f p [] rpt req
            | Some (before, after) => route_loop f p before (rpt ++ after) rpn
            end
        end
    end.

  Definition route_fuel (req : str) : nat := S (S (length req)).
  Definition route_of (p : producer) (req : str) : option route :=
    route_loop (route_fuel req) p req [] [].

  (* ---------- databases: (type,name) -> (table records, raw key/value data) *)
  Definition dbloc := (str * str)%type.
  Record dbstate := mkDb { d_records : list (str * str); d_data : list (str * str) }.
  Definition loc_eqb (a b : dbloc) : bool := bytes_eqb (fst a) (fst b) && bytes_eqb (snd a) (snd b).

  Fixpoint get_db (l : dbloc) (dbs : list (dbloc * dbstate)) : option dbstate :=
    match dbs with
    | [] => None
    | (l', d) :: t => if loc_eqb l' l then Some d else get_db l t
    end.
  Fixpoint set_db (l : dbloc) (d : dbstate) (dbs : list (dbloc * dbstate)) : list (dbloc * dbstate) :=
    match dbs with
    | [] => [(l, d)]
    | (l', d') :: t => if loc_eqb l' l then (l, d) :: t else (l', d') :: set_db l d t
    end.
  Fixpoint del_db (l : dbloc) (dbs : list (dbloc * dbstate)) : list (dbloc * dbstate) :=
    match dbs with
    | [] => []
    | (l', d') :: t => if loc_eqb l' l then del_db l t else (l', d') :: del_db l t
    end.

  Definition conflicting (a b : str) : bool := has_prefix b a || has_prefix a b.

  Inductive hres := HFound | HAppend | HReassign | HConflict.
  (* handleRoute's loop over the old records *)
  Fixpoint handle_loop (old : list (str * str)) (req tbl : str) : hres :=
    match old with
    | [] => HAppend
    | (oreq, otbl) :: rest =>
        if bytes_eqb oreq req && bytes_eqb otbl tbl then HFound
        else if bytes_eqb oreq req then HReassign
        else if conflicting otbl tbl then HConflict
        else handle_loop rest req tbl
    end.

  Inductive ores := OOk (rt : route) | OMissing | OReassign | OConflict | OLoop.

  Definition empty_db : dbstate := mkDb [] [].

  (* OpenDB: route, producer lookup, producer.OpenDB (creates the database), handleRoute *)
  Definition open_db (p : producer) (dbs : list (dbloc * dbstate)) (req : str)
    : list (dbloc * dbstate) * ores :=
    match route_of p req with
    | None => (dbs, OLoop)
    | Some rt =>
        if mem_str (r_type rt) (p_avail p) then
          let l := (r_type rt, r_name rt) in
          let d := match get_db l dbs with Some d => d | None => empty_db end in
          match handle_loop (d_records d) req (r_table rt) with
          | HFound => (set_db l d dbs, OOk rt)
          | HAppend => (set_db l (mkDb (d_records d ++ [(req, r_table rt)]) (d_data d)) dbs, OOk rt)
          | HReassign => (set_db l d dbs, OReassign)
          | HConflict => (set_db l d dbs, OConflict)
          end
        else (dbs, OMissing)
    end.

  (* verifyRecords over getRecords *)
  Definition record_ok (p : producer) (l : dbloc) (r : str * str) : bool :=
    match route_of p (fst r) with
    | None => false
    | Some rt => bytes_eqb (fst l) (r_type rt) && bytes_eqb (snd l) (r_name rt)
                 && bytes_eqb (snd r) (r_table rt)
    end.
  Definition verify (p : producer) (dbs : list (dbloc * dbstate)) : bool :=
    forallb (fun ld => forallb (record_ok p (fst ld)) (d_records (snd ld))) dbs.

  (* ---------- raw data through table stores (table.New(db, prefix)) *)
  Fixpoint put_kv (k v : str) (m : list (str * str)) : list (str * str) :=
    match m with
    | [] => [(k, v)]
    | (k', v') :: t => if bytes_eqb k' k then (k, v) :: t else (k', v') :: put_kv k v t
    end.

  (* ---------- histories *)
  Inductive op :=
  | ONew (tbl : list (str * route))
  | ORoute (req : str)
  | OOpen (req : str)
  | ODrop (req : str)
  | OPut (req k v : str)
  | OGet (req k : str)
  | OVerify.

  Record state := mkState { s_prod : option producer; s_dbs : list (dbloc * dbstate) }.

  Inductive obs :=
  | BNew (ok : bool)
  | BRoute (r : option route)
  | BOpen (r : ores)
  | BGet (r : ores) (v : option str)
  | BVerify (ok : bool)
  | BNone.

  Definition step (newp : list str -> list (str * route) -> option producer)
                  (avail : list str) (st : state) (o : op) : state * obs :=
    match o with
    | ONew tbl =>
        match newp avail tbl with
        | Some p => (mkState (Some p) (s_dbs st), BNew true)
        | None => (st, BNew false)       (* the old producer stays in use *)
        end
    | _ =>
      match s_prod st with
      | None => (st, BNone)
      | Some p =>
        match o with
        | ORoute req => (st, BRoute (route_of p req))
        | OOpen req => let '(dbs, r) := open_db p (s_dbs st) req in (mkState (Some p) dbs, BOpen r)
        | ODrop req =>
            let '(dbs, r) := open_db p (s_dbs st) req in
            match r with
            | OOk rt => (mkState (Some p)
                           (if r_nodrop rt then dbs else del_db (r_type rt, r_name rt) dbs), BOpen r)
            | _ => (mkState (Some p) dbs, BOpen r)
            end
        | OPut req k v =>
            let '(dbs, r) := open_db p (s_dbs st) req in
            match r with
            | OOk rt =>
                let l := (r_type rt, r_name rt) in
                let d := match get_db l dbs with Some d => d | None => empty_db end in
                (mkState (Some p)
                   (set_db l (mkDb (d_records d) (put_kv (r_table rt ++ k) v (d_data d))) dbs), BOpen r)
            | _ => (mkState (Some p) dbs, BOpen r)
            end
        | OGet req k =>
            let '(dbs, r) := open_db p (s_dbs st) req in
            match r with
            | OOk rt =>
                let l := (r_type rt, r_name rt) in
                let d := match get_db l dbs with Some d => d | None => empty_db end in
                (mkState (Some p) dbs, BGet r (assoc (r_table rt ++ k) (d_data d)))
            | _ => (mkState (Some p) dbs, BGet r None)
            end
        | OVerify => (st, BVerify (verify p (s_dbs st)))
        | ONew _ => (st, BNone)
        end
      end
    end.

  Fixpoint run (newp : list str -> list (str * route) -> option producer)
               (avail : list str) (st : state) (ops : list op) : list obs :=
    match ops with
    | [] => []
    | o :: rest => let '(st', b) := step newp avail st o in b :: run newp avail st' rest
    end.

  Definition init_state : state := mkState None [].
End Oracle.
