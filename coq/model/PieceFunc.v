(* Model of utils/piecefunc/piecefunc.go.  Definitions only.
   Coordinates are uint64: N with every +, -, * wrapped mod 2^64 explicitly (division cannot
   wrap; division by zero is a Go panic = None).  N rather than Z because the extracted Coq
   module Z would shadow Zarith's Z in the common OCaml layer; uint64 subtraction is written
   out as (a + (2^64 - b mod 2^64)) mod 2^64. *)
From Coq Require Import NArith List Bool.
From LV Require Import lib.WordArith.
Import ListNotations.
Local Open Scope N_scope.

Definition dot := (N * N)%type.    (* (X, Y) *)

Definition sub64 (a b : N) : N := wrap64 (a + (two64 - wrap64 b)).

Definition decimal_unit : N := 1000000.
(* maxVal = math.MaxUint64/uint64(DecimalUnit) - 1 *)
Definition max_val : N := max_u64 / decimal_unit - 1.

Inductive pf_err := TooFewDots | NonMonotonicX | TooLargeY | TooLargeX.

(* the validation loop of NewFunc *)
Fixpoint check_dots (i : nat) (prevX : N) (dots : list dot) : option pf_err :=
  match dots with
  | [] => None
  | (x, y) :: r =>
      if Nat.leb 1 i && (x <=? prevX) then Some NonMonotonicX
      else if max_val <? y then Some TooLargeY
      else if max_val <? x then Some TooLargeX
      else check_dots (S i) x r
  end.

Definition new_func (dots : list dot) : option pf_err :=
  if Nat.ltb (length dots) 2 then Some TooFewDots else check_dots 0 0 dots.

(* Mul(a, b) = a * b / DecimalUnit ;  Div(a, b) = a * DecimalUnit / b *)
Definition pf_mul (a b : N) : N := mul64 a b / decimal_unit.
Definition pf_div (a b : N) : option N :=
  if b =? 0 then None else Some (mul64 a decimal_unit / b).

(* for i, piece := range dots { if i >= 1 && i < len-1 && piece.X > x { p0 = i-1; break } } *)
Fixpoint find_p0 (i len : nat) (dots : list dot) (x : N) (dflt : nat) : nat :=
  match dots with
  | [] => dflt
  | (px, _) :: r =>
      if Nat.leb 1 i && Nat.ltb i (len - 1) && (x <? px) then (i - 1)%nat
      else find_p0 (S i) len r x dflt
  end.

(* Func.Get; None = panic (index out of range / division by zero) *)
Definition get (dots : list dot) (x : N) : option N :=
  let len := length dots in
  match nth_error dots 0, nth_error dots (len - 1) with
  | Some (fx, fy), Some (lx, ly) =>
      if x <? fx then Some fy
      else if lx <? x then Some ly
      else
        let p0 := find_p0 0 len dots x (len - 2) in
        match nth_error dots p0, nth_error dots (p0 + 1) with
        | Some (x0, y0), Some (x1, y1) =>
            match pf_div (sub64 x x0) (sub64 x1 x0) with
            | None => None
            | Some ratio =>
                Some (add64 (pf_mul y0 (sub64 decimal_unit ratio)) (pf_mul y1 ratio))
            end
        | _, _ => None
        end
  | _, _ => None
  end.

(* NewFunc(dots)(x) as one observable: Error e = NewFunc panicked, Value None = Get panicked *)
Inductive pf_res := PfError (e : pf_err) | PfValue (v : option N).
Definition new_func_get (dots : list dot) (x : N) : pf_res :=
  match new_func dots with
  | Some e => PfError e
  | None => PfValue (get dots x)
  end.
