(* C28 — sequential objects for the linearizability search of the driver and for the Coq instances,
   ASSEMBLED FROM THE MODELS OF OTHER PROPERTIES (definitions only):
   - [fl_step]  : a Flushable / LazyFlushable store over an in-memory parent, from model/Flushable.v (C22):
                  overlay writes, reads through the overlay, batch write, the merged iterator (snapshot content),
                  flush = the overlay's operations applied to the parent; plus the size estimate of the Go code
                  (len(key)+len(value)+128 per put, len(key)+128 per delete; reset by Flush / DropNotFlushed),
                  which no other model has;
   - [pl_step]  : a SyncedPool with its store handles, from model/SyncedPool.v + model/CrashBase.v (C25):
                  [pool_step] produces the pool state and the durable operations, applied to the durable world;
                  reads go through the wrapper's cache and then to the world; Initialize = open + CheckDBsSynced. *)
From Coq Require Import NArith List Bool.
From LV Require Import lib.Bytes lib.SortedMap spec.KvSpec spec.KvOps model.PrefixRange model.Flushable
  model.CrashBase model.SyncedPool.
Import ListNotations.
Local Open Scope N_scope.

(* ------------------------------------------------------------------ Flushable *)
Record fstate := mkF { f_over : tree; f_parent : kvmap; f_est : N }.
Definition f_init : fstate := mkF [] [] 0.

Inductive fop :=
| FPut (k : key) (v : val) | FDelete (k : key) | FGet (k : key) | FHas (k : key)
| FFlush | FDropNotFlushed | FPairs | FSizeEst | FSnap | FBatch (ws : list wop)
| FStat | FCompact | FInitDb.               (* Stat, Compact, LazyFlushable.InitUnderlyingDb: no visible effect *)
Inductive fres := FROk | FRVal (v : option val) | FRBool (b : bool) | FRNum (n : N) | FRContent (l : list (key * val)).

Definition blen (b : list N) : N := N.of_nat (length b).
Definition wop_est (w : wop) : N :=
  match w with WPut k v => blen k + blen v + 128 | WDel k => blen k + 128 end.

Definition fl_step (s : fstate) (o : fop) : fstate * fres :=
  match o with
  | FPut k v => (mkF (flu_put (f_over s) k v) (f_parent s) (f_est s + wop_est (WPut k v)), FROk)
  | FDelete k => (mkF (flu_del (f_over s) k) (f_parent s) (f_est s + wop_est (WDel k)), FROk)
  | FGet k => (s, FRVal (flu_get (f_over s) (kv_get (f_parent s)) k))
  | FHas k => (s, FRBool (flu_has (f_over s) (kv_has (f_parent s)) k))
  | FFlush => (mkF [] (kv_write (f_parent s) (flu_ops (f_over s))) 0, FROk)
  | FDropNotFlushed => (mkF [] (f_parent s) 0, FROk)
  | FPairs => (s, FRNum (N.of_nat (flu_size (f_over s))))
  | FSizeEst => (s, FRNum (f_est s))
  | FSnap => (s, FRContent (flu_iterate (f_over s) (kv_iterate (f_parent s) [] []) None None))
  | FBatch ws => (mkF (flu_write (f_over s) ws) (f_parent s)
                      (fold_left (fun a w => a + wop_est w) ws (f_est s)), FROk)
  | FStat | FCompact | FInitDb => (s, FROk)
  end.

(* ------------------------------------------------------------------ SyncedPool with handles *)
Record pstate := mkP { p_pool : pool; p_world : world; p_est : list (name * N) }.

Fixpoint est_get (n : name) (l : list (name * N)) : N :=
  match l with [] => 0 | (n', x) :: t => if n' =? n then x else est_get n t end.
Fixpoint est_set (n : name) (x : N) (l : list (name * N)) : list (name * N) :=
  match l with
  | [] => [(n, x)]
  | (n', x') :: t => if n' =? n then (n, x) :: t else (n', x') :: est_set n x t
  end.

Inductive pop :=
| PHPut (n : name) (k v : bytes) | PHDel (n : name) (k : bytes) | PHBatch (n : name) (ws : list write)
| PHGet (n : name) (k : bytes) | PHHas (n : name) (k : bytes) | PHPairs (n : name) | PHSizeEst (n : name)
| PHDropNotFlushed (n : name) | PHSnap (n : name)
| PFlush (id : bytes) | PSize | PNames | POpen (n : name) | PUnder (n : name) | PInit (ns : list name)
| PUGet (n : name) (k : bytes).
Inductive pres := PROk | PRErr | PRVal (v : option bytes) | PRBool (b : bool) | PRNum (n : N) | PRNames (l : list name)
| PRContent (c : db).   (* an association list without duplicate keys, in no particular order *)

Definition write_est (w : write) : N :=
  match snd w with Some v => blen (fst w) + blen v + 128 | None => blen (fst w) + 128 end.

(* one user operation of SyncedPool.v, its durable operations applied to the world *)
Definition p_do (fk : bytes) (s : pstate) (h : hop) : pool * world :=
  let '(p, ops) := pool_step fk 1 (p_pool s) h in (p, apply_dops ops (p_world s)).

Definition p_read (s : pstate) (n : name) (k : bytes) : option bytes :=
  match pget n (p_wr (p_pool s)) with
  | Some x => match cget k (w_cache x) with
              | Some ov => ov
              | None => match wget n (p_world s) with Some c => dget k c | None => None end
              end
  | None => None
  end.

Definition opt_is_some {A} (o : option A) : bool := match o with Some _ => true | None => false end.

Definition pl_step (fk : bytes) (s : pstate) (o : pop) : pstate * pres :=
  let upd h add n := let '(p, w) := p_do fk s h in (mkP p w (est_set n (est_get n (p_est s) + add) (p_est s)), PROk) in
  match o with
  | PHPut n k v => upd (HPut n k v) (write_est (k, Some v)) n
  | PHDel n k => upd (HDel n k) (write_est (k, None)) n
  | PHBatch n ws => upd (HBatch n ws) (fold_left (fun a w => a + write_est w) ws 0) n
  | PHGet n k => (s, PRVal (p_read s n k))
  | PHHas n k => (s, PRBool (opt_is_some (p_read s n k)))
  | PHPairs n => (s, PRNum (match pget n (p_wr (p_pool s)) with Some x => N.of_nat (length (w_cache x)) | None => 0 end))
  | PHSizeEst n => (s, PRNum (est_get n (p_est s)))
  | PHDropNotFlushed n =>
      let p := fst (get_db n (p_pool s)) in
      match pget n (p_wr p) with
      | Some x => (mkP (mkPool (pset n (mkWr (w_inited x) []) (p_wr p)) (p_queued p)) (p_world s)
                       (est_set n 0 (p_est s)), PROk)
      | None => (s, PROk)
      end
  | PHSnap n =>
      (s, PRContent (match pget n (p_wr (p_pool s)) with
                     | Some x => apply_writes (w_cache x) (match wget n (p_world s) with Some c => c | None => [] end)
                     | None => []
                     end))
  | PFlush id => let '(p, w) := p_do fk s (HFlush id []) in (mkP p w (map (fun e => (fst e, 0)) (p_est s)), PROk)
  | PSize => (s, PRNum (fold_left (fun a e => a + snd e) (p_est s) 0))
  | PNames => (s, PRNames (map fst (p_wr (p_pool s))))
  | POpen n => let '(p, w) := p_do fk s (HOpen n) in (mkP p w (p_est s), PROk)
  | PUnder n => let '(p, w) := p_do fk s (HUnder n) in (mkP p w (p_est s), PROk)
  | PInit ns =>
      (* Initialize: getDB + InitUnderlyingDb for the listed names, then InitUnderlyingDb of every wrapper
         and CheckDBsSynced over all of them *)
      let s1 := fold_left (fun st n => let '(p, w) := p_do fk st (HUnder n) in mkP p w (p_est st)) ns s in
      let s2 := fold_left (fun st n => let '(p, w) := p_do fk st (HUnder n) in mkP p w (p_est st))
                          (map fst (p_wr (p_pool s1))) s1 in
      let dbs := map (fun n => (n, match wget n (p_world s2) with Some c => c | None => [] end))
                     (map fst (p_wr (p_pool s2))) in
      (s2, match check_synced fk dbs with COk _ => PROk | _ => PRErr end)
  | PUGet n k => (s, PRVal (match wget n (p_world s) with Some c => dget k c | None => None end))
  end.

Definition p_init : pstate := mkP pool_init [] [].
