(* The replay scheduler of model/Semaphore.v, reporting what it does as the chronological stream of
   instants that the acceptor (spec/SemaphoreSpec.v: accept) consumes: one record per timer callback
   and one per scripted call, each with the Acquire calls that returned during that instant.
   Same functions ([sim_step], [drain_all], [min_waiter]) as [sim_script]; the observation buffer is
   emptied before every instant so that what it holds afterwards is that instant's output.
   Definitions only. *)
From Coq Require Import NArith ZArith List Bool.
From LV Require Import model.Semaphore spec.SemaphoreSpec.
Import ListNotations.

Definition rets_of (ob : list sobs) : list (N * bool) :=
  flat_map (fun o => match o with BRet id ok _ => [(id, ok)] | _ => [] end) ob.

Definition clear_ob (s : sim) : sim := (fst s, []).

Fixpoint fire_timers_s (prefer : list N) (fuel : nat) (s : sim) (upto : option Z) : sim * list irec :=
  match fuel with
  | O => (s, [])
  | S f =>
    match min_waiter (waiting (fst (fst s))) with
    | None => (s, [])
    | Some x =>
      let due := match upto with Some T => (wdl x <=? T)%Z | None => true end in
      if due then
        let s1 := drain_all true prefer (sim_step true (clear_ob s) (wdl x) (ETimer (wid x))) (wdl x) in
        let '(s2, l) := fire_timers_s prefer f s1 upto in
        (s2, mkIR (wdl x) None (rets_of (snd s1)) :: l)
      else (s, [])
    end
  end.

Definition op_event (now : Z) (op : sop) : option event :=
  match op with
  | SAcq id w timeout => Some (ECall id w now timeout)
  | STry w => Some (ETry w)
  | SRel w => Some (ERelease w)
  | STerm => Some ETerminate
  | SProc => None
  end.

Definition op_obs (op : sop) (o : list output) : opobs :=
  match op with
  | STry _ => match o with [OTry b] => OTryB b | _ => ONoObs end
  | SRel _ => ORelB (match o with [OWarn h w] => Some (h, w) | _ => None end)
  | _ => ONoObs
  end.

Definition sim_instant_s (prefer : list N) (s : sim) (now : Z) (op : sop) : sim * list irec :=
  let '(s1, l) := fire_timers_s prefer (S (length (waiting (fst (fst s))))) s (Some now) in
  match op_event now op with
  | None => (s1, l ++ [mkIR now (Some (op, OProcB (held (fst (fst s1))))) []])
  | Some ev =>
    let o := snd (step true (fst (fst s1)) now ev) in
    let s2 := drain_all true prefer (sim_step true (clear_ob s1) now ev) now in
    (s2, l ++ [mkIR now (Some (op, op_obs op o)) (rets_of (snd s2))])
  end.

Fixpoint sim_script_s (prefer : list N) (s : sim) (sc : list (Z * sop)) : list irec :=
  match sc with
  | [] => snd (fire_timers_s prefer (S (length (waiting (fst (fst s))))) s None)
  | (now, op) :: sc' =>
    let '(s1, l) := sim_instant_s prefer s now op in l ++ sim_script_s prefer s1 sc'
  end.

Definition simulate_stream (c : metric) (prefer : list N) (sc : list (Z * sop)) : list irec :=
  sim_script_s prefer (init c, [], []) sc.
