(* Executable model of abft/store_roots.go (AddRoot / addRoot / GetFrameRoots) and of the
   epoch switch in abft/store.go (openEpochDB after dropEpochDB), over
     - the roots table: a set of 40-byte keys frame(4, big endian) ++ validator(4) ++ id(32),
       kept as a strictly ascending list under the byte-wise order (what the KV iterator yields);
       the table prefix "r" and the backend are C23/C24's business;
     - the FrameRoots cache: the weighted LRU of model/Wlru.v, frame -> []RootAndSlot,
       weight = len.
   Definitions only; proofs in proofs/RootsProofs.v. *)
From Coq Require Import NArith ZArith List Bool.
From LV Require Import lib.Bytes model.Codec model.Wlru.
Import ListNotations.
Local Open Scope N_scope.

(* election.RootAndSlot: Slot{Frame, Validator}, ID (32 bytes) *)
Record root := mkRoot { r_frame : N; r_val : N; r_id : list N }.

(* rootRecordKey *)
Definition root_key (r : root) : list N := be 4 (r_frame r) ++ be 4 (r_val r) ++ r_id r.
(* the decoding in GetFrameRoots: key[:4], key[4:8], key[8:] *)
Definition decode_key (k : list N) : root :=
  mkRoot (unbe (firstn 4 k)) (unbe (firstn 4 (skipn 4 k))) (skipn 8 k).

(* ---- the roots table ---- *)
Fixpoint db_put (k : list N) (db : list (list N)) : list (list N) :=
  match db with
  | [] => [k]
  | x :: r => match lex_compare k x with
              | Lt => k :: db
              | Eq => db
              | Gt => x :: db_put k r
              end
  end.
(* NewIterator(prefix, nil): all keys with the prefix, ascending *)
Definition db_scan (p : list N) (db : list (list N)) : list (list N) := filter (has_prefix p) db.

Definition rcache := cache N (list root).

Record rstate := mkR { r_db : list (list N); r_cache : rcache }.

(* addRoot(root, frame) *)
Definition add_root1 (creator : N) (id : list N) (st : rstate) (frame : N) : rstate :=
  let r := mkRoot frame creator id in
  let db' := db_put (root_key r) (r_db st) in
  match get N.eqb frame (r_cache st) with
  | (c', Some rr) =>
      let rr' := rr ++ [r] in
      let '(c'', _, _) := add N.eqb frame rr' (N.of_nat (length rr')) c' in
      mkR db' c''
  | (c', None) => mkR db' c'
  end.

(* frames selfParentFrame+1 .. root.Frame() (idx.Frame is uint32; frames are assumed
   < 2^32 - 1, otherwise the Go loop counter wraps) *)
Definition frames_between (spf frame : N) : list N :=
  map (fun i => spf + 1 + N.of_nat i) (seq 0 (N.to_nat (frame - spf))).

(* AddRoot(selfParentFrame, root) *)
Definition add_root (spf frame creator : N) (id : list N) (st : rstate) : rstate :=
  fold_left (add_root1 creator id) (frames_between spf frame) st.

(* the two crit() checks of the scan loop *)
Definition key_bad (f : N) (k : list N) : bool :=
  negb (Nat.eqb (length k) 40) || negb (r_frame (decode_key k) =? f).

(* GetFrameRoots(f): (state, result, crit called) *)
Definition get_frame_roots (f : N) (st : rstate) : rstate * list root * bool :=
  match get N.eqb f (r_cache st) with
  | (c', Some rr) => (mkR (r_db st) c', rr, false)
  | (_, None) =>
      let ks := db_scan (be 4 f) (r_db st) in
      let rr := map decode_key ks in
      let '(c', _, _) := add N.eqb f rr (N.of_nat (length rr)) (r_cache st) in
      (mkR (r_db st) c', rr, existsb (key_bad f) ks)
  end.

(* Orderer.Reset -> resetEpochStore: dropEpochDB, then openEpochDB = Purge + a fresh epoch DB *)
Definition open_epoch (st : rstate) : rstate := mkR [] (fst (purge (r_cache st))).

Definition gfr (f : N) (st : rstate) : rstate := fst (fst (get_frame_roots f st)).

(* The reads Orderer.Bootstrap makes (bootstrapElection -> processKnownRoots with
   LastDecidedFrame = 0, no frame ever decided, and a dag index under which no root forkless-
   causes another, as in the harness): GetFrameRoots(1); if non-empty GetFrameRoots(2); every
   root of frame 2 is a round-1 voter and election.ProcessRoot reads the previous frame
   (GetFrameRoots(1)) for it; then GetFrameRoots(3), and the first root of frame 3 (round 2)
   reads GetFrameRoots(2) and fails the quorum sanity check, which ends the bootstrap.
   An empty frame ends the scan. *)
Definition boot_reads (st : rstate) : rstate :=
  let '(st1, r1, _) := get_frame_roots 1 st in
  match r1 with
  | [] => st1
  | _ =>
      let '(st2, r2, _) := get_frame_roots 2 st1 in
      match r2 with
      | [] => st2
      | _ =>
          let st2' := fold_left (fun s _ => gfr 1 s) r2 st2 in
          let '(st3, r3, _) := get_frame_roots 3 st2' in
          match r3 with
          | [] => st3
          | _ => gfr 2 st3
          end
      end
  end.

(* NewStore + ApplyGenesis + Orderer.Bootstrap on an empty epoch: openEpochDB, then the
   bootstrap reads (frame 1 only, it is empty).  None: makeCache calls crit (negative RootsFrames). *)
Definition init (roots_num : N) (roots_frames : Z) : option rstate :=
  match new roots_num roots_frames with
  | Some c => Some (boot_reads (open_epoch (mkR [] c)))
  | None => None
  end.

(* a restart: a new Store (fresh cache, same configuration) and Orderer over the same main and
   epoch databases, bootstrapped: openEpochDB purges the (empty) cache and re-opens the epoch DB *)
Definition restart (st : rstate) : rstate :=
  boot_reads (mkR (r_db st)
    (mkCache [] 0 (c_max_weight (r_cache st)) (c_max_size (r_cache st)) false)).

Inductive rop := RAdd (spf frame creator : N) (id : list N) | RGet (f : N) | RReset | RRestart.

(* one step: new state and, for RGet, the list returned (with the crit flag) *)
Definition rstep (st : rstate) (o : rop) : rstate * option (list root * bool) :=
  match o with
  | RAdd spf frame creator id => (add_root spf frame creator id st, None)
  | RGet f => let '(st', rr, cr) := get_frame_roots f st in (st', Some (rr, cr))
  | RReset => (open_epoch st, None)
  | RRestart => (restart st, None)
  end.

Fixpoint rrun (st : rstate) (ops : list rop) : rstate * list (option (list root * bool)) :=
  match ops with
  | [] => (st, [])
  | o :: rest => let '(st', r) := rstep st o in
                 let '(st'', tr) := rrun st' rest in (st'', r :: tr)
  end.
