(* The RLP bytes of a validator set, as go-ethereum's rlp writes them for
   []struct{ID uint32; Weight uint32}.  The encoder is tied byte for byte to the real one (the
   correspondence compares these bytes with rlp.EncodeToBytes of real Validators).  The decoder
   is the reader any RLP implementation of this shape must agree with on well-formed input; it
   serves the model-level round-trip theorem only - go-ethereum's decoder stays trusted.
   Definitions only. *)
From Coq Require Import NArith List.
From LV Require Import model.Pos.
Import ListNotations.
Local Open Scope N_scope.

(* minimal big-endian bytes of n (no leading zero byte; 0 = empty).  The recursion is on the
   bit length of n, which bounds the number of bytes, so there is no out-of-fuel case:
   n / 256 has at most size n - 8 bits. *)
Fixpoint be_min_aux (fuel : nat) (n : N) : list N :=
  match fuel with
  | O => []
  | S f => if n =? 0 then [] else be_min_aux f (n / 256) ++ [n mod 256]
  end.
Definition be_min (n : N) : list N := be_min_aux (N.to_nat (N.size n)) n.

Definition nlen (l : list N) : N := N.of_nat (length l).

(* an unsigned integer *)
Definition rlp_uint (n : N) : list N :=
  if n =? 0 then [128]
  else if n <? 128 then [n]
  else let b := be_min n in (128 + nlen b) :: b.

(* a list with the given (already encoded) payload *)
Definition rlp_list (payload : list N) : list N :=
  let len := nlen payload in
  if len <=? 55 then (192 + len) :: payload
  else let lb := be_min len in (247 + nlen lb) :: lb ++ payload.

Definition rlp_validator (p : N * N) : list N := rlp_list (rlp_uint (fst p) ++ rlp_uint (snd p)).
Definition rlp_array (arr : list (N * N)) : list N := rlp_list (flat_map rlp_validator arr).

(* EncodeRLP: rlp.Encode(w, vv.sortedArray()) *)
Definition encode_rlp (vs : validators) : list N := rlp_array (encode vs).

(* ---------- reader for this shape: list of [uint, uint] lists ---------- *)
Definition un_be (l : list N) : N := fold_left (fun acc b => acc * 256 + b) l 0.

Definition take (k : nat) (l : list N) : option (list N * list N) :=
  if Nat.ltb (length l) k then None else Some (firstn k l, skipn k l).

(* one unsigned integer from the front of l *)
Definition parse_uint (l : list N) : option (N * list N) :=
  match l with
  | [] => None
  | b :: r =>
      if b <? 128 then Some (b, r)
      else if b <? 184 then
        match take (N.to_nat (b - 128)) r with
        | Some (p, r') => Some (un_be p, r')
        | None => None
        end
      else None
  end.

(* one list from the front of l: (payload, rest) *)
Definition parse_list (l : list N) : option (list N * list N) :=
  match l with
  | [] => None
  | b :: r =>
      if b <? 192 then None
      else if b <? 248 then take (N.to_nat (b - 192)) r
      else match take (N.to_nat (b - 247)) r with
           | Some (lb, r') => take (N.to_nat (un_be lb)) r'
           | None => None
           end
  end.

Definition parse_validator (l : list N) : option ((N * N) * list N) :=
  match parse_list l with
  | Some (p, rest) =>
      match parse_uint p with
      | Some (id, p1) =>
          match parse_uint p1 with
          | Some (w, []) => Some ((id, w), rest)
          | _ => None
          end
      | None => None
      end
  | None => None
  end.

Inductive rlp_res := ROk (arr : list (N * N)) | RBad | ROutOfFuel.

Fixpoint parse_validators (fuel : nat) (l : list N) : rlp_res :=
  match l with
  | [] => ROk []
  | _ :: _ =>
      match fuel with
      | O => ROutOfFuel
      | S f =>
          match parse_validator l with
          | Some (p, rest) =>
              match parse_validators f rest with
              | ROk arr => ROk (p :: arr)
              | e => e
              end
          | None => RBad
          end
      end
  end.

(* fuel = payload length: every entry consumes at least one byte *)
Definition decode_rlp_array (bytes : list N) : rlp_res :=
  match parse_list bytes with
  | Some (p, []) => parse_validators (length p) p
  | _ => RBad
  end.

(* DecodeRLP on bytes: read the array, rebuild through the builder *)
Definition decode_rlp (bytes : list N) : option validators :=
  match decode_rlp_array bytes with
  | ROk arr => decode arr
  | _ => None
  end.

(* ---------- DecodeRLP as a step on an existing target ----------
   func (vv *Validators) DecodeRLP(s): decode the array (on error return it, *vv untouched);
   builder := NewBuilder(); Set each entry; *vv = *builder.Build()  - the whole object is replaced
   (Build may panic: target untouched, panic propagates). *)
Inductive dres := DOk (v : validators) | DErr | DPanic.

Definition decode_step (t : validators) (bytes : list N) : validators * dres :=
  match decode_rlp_array bytes with
  | ROk arr =>
      match build arr with
      | Some v => (v, DOk v)
      | None => (t, DPanic)
      end
  | _ => (t, DErr)
  end.

(* successive decodes into one reused target *)
Fixpoint decode_run (t : validators) (bss : list (list N)) : list dres :=
  match bss with
  | [] => []
  | bs :: r => let (t', o) := decode_step t bs in o :: decode_run t' r
  end.

Definition empty_validators : validators := mkValidators [] (mkCache [] [] [] 0).
(* decoding into a fresh &Validators{} *)
Definition decode_fresh (bytes : list N) : dres := snd (decode_step empty_validators bytes).

(* contrast (NOT the code): filling the target's map in place instead of replacing the object *)
Definition decode_step_inplace (t : validators) (bytes : list N) : validators * dres :=
  match decode_rlp_array bytes with
  | ROk arr =>
      match new_validators (apply_sets arr (v_values t)) with
      | Some v => (v, DOk v)
      | None => (t, DPanic)
      end
  | _ => (t, DErr)
  end.
