(* C32: results of the encoders are fresh: in every history of calls and caller-side mutations, the
   k-th call returns the encoding of its own argument. *)
From Coq Require Import NArith List Bool.
From LV Require Import lib.Bytes model.Codec model.EncHist.
Import ListNotations.

Lemma hstep_enc held op bs : enc_of op = Some bs -> snd (hstep held op) = OBytes bs.
Proof. destruct op; cbn; intros H; inversion H; reflexivity. Qed.

Theorem hrun_history_independent ops : forall held i op bs,
  nth_error ops i = Some op -> enc_of op = Some bs -> nth_error (hrun held ops) i = Some (OBytes bs).
Proof.
  induction ops as [|o r IH]; intros held i op bs Hn He; [destruct i; discriminate|].
  cbn [hrun]. destruct (hstep held o) as [h' out] eqn:E. destruct i as [|i]; cbn [nth_error] in *.
  - inversion Hn; subst o. rewrite <- (hstep_enc held op bs He), E. reflexivity.
  - apply (IH h' i op bs Hn He).
Qed.

(* in particular the outputs of a run do not depend on the slices the caller already held *)
Corollary hrun_encodings_same held1 held2 ops i op bs :
  nth_error ops i = Some op -> enc_of op = Some bs ->
  nth_error (hrun held1 ops) i = nth_error (hrun held2 ops) i.
Proof. intros H1 H2. rewrite (hrun_history_independent ops held1 i op bs H1 H2), (hrun_history_independent ops held2 i op bs H1 H2). reflexivity. Qed.

(* the caller's copy does change (the state is not idle): decoding a held slice after overwriting it *)
Example hrun_caller_copy_mutated :
  hrun [] [HEnc 4 5; HAppendEnc 0 4 9; HWrite 0 3 7; HDec 4 0; HEnc 4 6; HEnc 4 5; HDec 4 1]
  = [OBytes [0; 0; 0; 5]; OBytes [0; 0; 0; 9]; ONone; ONum 7; OBytes [0; 0; 0; 6]; OBytes [0; 0; 0; 5]; ONum 9]%N.
Proof. vm_compute. reflexivity. Qed.
