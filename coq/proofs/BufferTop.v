(* C14: (1) the remaining boolean checkers (t3: release accounting incl. the count after every push,
   t4: limits) accept every history of the model; (2) SOUNDNESS of the checkers the driver runs on
   implementation logs: on ANY log, t1/t2/t3 = true imply the Prop-level statements. *)
From Coq Require Import NArith ZArith List Bool Lia Arith Permutation ZifyBool ZifyNat ZifyN.
From LV Require Import model.Buffer spec.BufferSpec proofs.BufferInv proofs.BufferPush proofs.BufferRun
  proofs.BufferExt proofs.BufferTheorems proofs.BufferSpecProofs.
Import ListNotations.
Local Open Scope N_scope.

Definition pushed_cids (l : list out) : list N :=
  flat_map (fun o => match o with OPushed c _ _ _ => [c] | _ => [] end) l.

(* what the markers written by PushEvent / Clear must satisfy w.r.t. the older log *)
Fixpoint top_ok (limN limS : N) (l : list out) : Prop :=
  match l with
  | [] => True
  | o :: r =>
    match o with
    | OPushed _ _ n z =>
      n <= limN /\ z <= limS /\ n + N.of_nat (length (rel_cids r)) = N.of_nat (S (length (pushed_cids r)))
    | OCleared n z => n = 0 /\ z = 0 /\ incl (pushed_cids r) (rel_cids r)
    | _ => True
    end /\ top_ok limN limS r
  end.

Lemma inner_facts : forall new, Forall inner new -> pushed_cids new = [] /\ forall limN limS r, top_ok limN limS (new ++ r) <-> top_ok limN limS r.
Proof.
  induction new as [|o new IH]; intros F; [split; [reflexivity | intros; simpl; tauto]|].
  inversion F; subst. destruct (IH H2) as [A B]. split.
  - destruct o; simpl in *; try contradiction; exact A.
  - intros limN limS r. simpl. rewrite B. destruct o; simpl in *; try contradiction; tauto.
Qed.
Lemma pushed_cids_app : forall a b, pushed_cids (a ++ b) = pushed_cids a ++ pushed_cids b.
Proof. intros; unfold pushed_cids; apply flat_map_app. Qed.
Lemma rel_cids_app : forall a b, rel_cids (a ++ b) = rel_cids a ++ rel_cids b.
Proof. intros; unfold rel_cids; apply flat_map_app. Qed.

Lemma NoDup_map_inj_on : forall {A B} (f : A -> B) l, NoDup l ->
  (forall x y, In x l -> In y l -> f x = f y -> x = y) -> NoDup (map f l).
Proof.
  intros A B f l; induction l as [|a l IH]; simpl; intros Nd H; [constructor|].
  inversion Nd; subst. constructor.
  - intros Hi. apply in_map_iff in Hi. destruct Hi as [y [E Hy]].
    assert (y = a) by (apply H; auto). subst. contradiction.
  - apply IH; auto.
Qed.

Section T.
  Variable fc fp : list out -> entry -> bool.
  Variable limN limS : N.

  (* buffered + released = pushed *)
  Lemma count_partition : forall cs s, RunInv limN limS cs s ->
    (length (inc s) + length (released s) = length cs)%nat.
  Proof.
    intros cs s [W [I [C _]]].
    assert (Ninc : NoDup (inc s)) by (apply NoDup_map_inv with (f := eid); apply (inv_nodup _ _ _ I)).
    assert (N1 : NoDup (map cid (inc s))).
    { apply NoDup_map_inj_on; auto. intros x y Hx Hy E. apply (wf_cs_inj cs); auto; apply (inv_inc_cs _ _ _ I); auto. }
    assert (Nl : NoDup (map cid (inc s) ++ released s)).
    { clear -N1 I. pose proof (inv_rel_nodup _ _ _ I) as N2. pose proof (inv_pend _ _ _ I) as P.
      induction (inc s) as [|a l IH]; simpl; auto.
      inversion N1; subst. constructor.
      - intros Hi. apply in_app_or in Hi. destruct Hi as [Hi|Hi]; [auto|]. exact (P a (or_introl eq_refl) Hi).
      - apply IH; auto. intros y Hy Hr. exact (P y (or_intror Hy) Hr). }
    assert (Ncs : NoDup (map cid cs)).
    { apply NoDup_map_inj_on.
      - clear -W. assert (forall x y, In x cs -> In y cs -> cid x = cid y -> x = y) by (intros; eapply wf_cs_inj; eauto).
        assert (Hn : forall i j x, nth_error cs i = Some x -> nth_error cs j = Some x -> i = j).
        { intros i j x Hi Hj. apply W in Hi. apply W in Hj. lia. }
        apply NoDup_nth_error. intros i j Li E.
        destruct (nth_error cs i) eqn:Ei; [|apply nth_error_None in Ei; lia]. symmetry in E. eapply Hn; eauto.
      - intros x y Hx Hy E. apply (wf_cs_inj cs); auto. }
    assert (P : Permutation (map cid (inc s) ++ released s) (map cid cs)).
    { apply NoDup_Permutation; auto. intros c. split.
      - intros Hc. apply in_app_or in Hc. destruct Hc as [Hc|Hc].
        + apply in_map_iff in Hc. destruct Hc as [x [E Hx]]. subst. apply in_map. apply (inv_inc_cs _ _ _ I); auto.
        + destruct (inv_rel_cs _ _ _ I c Hc) as [x [A B]]. subst. apply in_map; auto.
      - intros Hc. apply in_map_iff in Hc. destruct Hc as [x [E Hx]]. subst. apply in_or_app.
        destruct (C x Hx); [left; apply in_map; auto | right; auto]. }
    apply Permutation_length in P. rewrite app_length, !map_length in P. exact P.
  Qed.

  Record TopInv (cs : list entry) (s : st) : Prop := mkTop {
    top_log : top_ok limN limS (log s);
    top_pushed : pushed_cids (log s) = rev (map cid cs)
  }.

  Lemma TopInv_run : forall ops, TopInv (copies_of ops) (run fc fp true limN limS ops).
  Proof.
    induction ops as [|o ops IH] using rev_ind.
    - constructor; simpl; auto.
    - pose proof (run_inv fc fp limN limS ops) as R0. pose proof (run_inv fc fp limN limS (ops ++ [o])) as R1.
      rewrite run_snoc, copies_of_snoc in *. set (s := run fc fp true limN limS ops) in *.
      destruct IH as [T1 T2]. destruct o as [e ps sz| |e]; simpl step in *.
      + destruct (push_event_ext fc fp true limN limS s e ps sz) as [c [ok [n [z [new [EL FL]]]]]].
        destruct (inner_facts new FL) as [Pn Tn].
        assert (Ecid : c = N.of_nat (length (copies_of ops)) /\ n = total_num (inc (push_event fc fp true limN limS s e ps sz))
                       /\ z = total_size (inc (push_event fc fp true limN limS s e ps sz))).
        { revert EL. unfold push_event.
          match goal with |- context [let '(a, b) := ?t in _] => destruct t as [s' ok'] end.
          simpl. intros EL. inversion EL. destruct R0 as [_ [I0 _]]. rewrite (inv_next _ _ _ I0). auto. }
        destruct Ecid as [Ec [En Ez]].
        pose proof (count_partition _ _ R1) as CP. rewrite app_length in CP. simpl in CP.
        destruct R1 as [_ [I1 [_ [_ V1]]]]. apply over_false in V1.
        constructor.
        * rewrite EL. simpl. split; [|apply Tn; exact T1].
          split; [rewrite En; tauto|]. split; [rewrite Ez; tauto|].
          rewrite pushed_cids_app, Pn. simpl. rewrite T2, rev_length, map_length.
          assert (Er : released (push_event fc fp true limN limS s e ps sz) = rel_cids (new ++ log s)).
          { rewrite (inv_rel _ _ _ I1), EL. reflexivity. }
          rewrite <- Er, En. unfold total_num. lia.
        * rewrite EL. simpl. rewrite pushed_cids_app, Pn. simpl. rewrite T2, map_app, rev_app_distr. simpl.
          rewrite Ec. reflexivity.
      + rewrite app_nil_r in *. destruct (clear_buf_ext s) as [n [z [new [EL FL]]]].
        destruct (inner_facts new FL) as [Pn Tn].
        destruct (clear_buf_ok limN limS (copies_of ops) s R0) as [_ Einc].
        assert (En : n = 0 /\ z = 0).
        { revert EL. unfold clear_buf. simpl. intros EL. inversion EL.
          unfold clear_buf in Einc. simpl in Einc. rewrite Einc. auto. }
        destruct R1 as [W1 [I1 [C1 _]]].
        constructor.
        * rewrite EL. simpl. split; [|apply Tn; exact T1]. destruct En; split; auto. split; auto.
          rewrite pushed_cids_app, Pn. simpl. rewrite T2. intros c Hc. apply in_rev in Hc.
          apply in_map_iff in Hc. destruct Hc as [x [E Hx]]. subst.
          assert (Er : released (clear_buf s) = rel_cids (new ++ log s)) by (rewrite (inv_rel _ _ _ I1), EL; reflexivity).
          rewrite <- Er. destruct (C1 x Hx) as [H|H]; [rewrite Einc in H; contradiction | exact H].
        * rewrite EL. simpl. rewrite pushed_cids_app, Pn. simpl. exact T2.
      + rewrite app_nil_r in *. constructor; simpl; auto.
  Qed.

  (* ---------- acceptance: walkers on model histories *)
  Lemma t3_walk_ok : forall cs l r, log_wf cs (rev l ++ r) -> top_ok limN limS (rev l ++ r) ->
    t3_walk cs (pushed_cids r) (rel_cids r) l = true.
  Proof.
    intros cs l; induction l as [|o l IH]; intros r W T; [reflexivity|].
    rewrite rev_cons_app in W, T.
    pose proof (log_wf_app _ _ _ W) as W1. simpl in W1. destruct W1 as [Sk _].
    assert (T1 : top_ok limN limS (o :: r)).
    { clear -T. induction (rev l) as [|a m IHm]; simpl in *; [exact T | apply IHm; tauto]. }
    simpl in T1. destruct T1 as [T1 _].
    destruct o as [c e ok | c e ok | c e err | e | c ok n z | n z]; cbn [t3_walk].
    - apply (IH (OCheck c e ok :: r)); auto.
    - apply (IH (OProcess c e ok :: r)); auto.
    - simpl in Sk. destruct Sk as [N1 [x [L E]]].
      assert (M : memN c (rel_cids r) = false) by (apply memN_false; exact N1).
      rewrite M, L, E, N.eqb_refl. cbn [negb andb]. apply (IH (OReleased c e err :: r)); auto.
    - apply (IH (OConnect e :: r)); auto.
    - destruct T1 as [_ [_ T1]].
      assert (E : (n =? N.of_nat (S (length (pushed_cids r))) - N.of_nat (length (rel_cids r))) = true) by (apply N.eqb_eq; lia).
      rewrite E. cbn [andb]. apply (IH (OPushed c ok n z :: r)); auto.
    - destruct T1 as [E1 [E2 T1]]. subst.
      assert (F : forallb (fun c => memN c (rel_cids r)) (pushed_cids r) = true).
      { apply forallb_forall. intros c Hc. apply memN_In. apply T1; exact Hc. }
      rewrite F. rewrite N.eqb_refl. cbn [andb]. apply (IH (OCleared 0 0 :: r)); auto.
  Qed.

  Lemma t4_walk_ok : forall l r, top_ok limN limS (rev l ++ r) -> t4_walk limN limS l = true.
  Proof.
    induction l as [|o l IH]; intros r T; [reflexivity|].
    rewrite rev_cons_app in T.
    assert (T1 : top_ok limN limS (o :: r)).
    { clear -T. induction (rev l) as [|a m IHm]; simpl in *; [exact T | apply IHm; tauto]. }
    simpl in T1. destruct T1 as [T1 _].
    destruct o as [c e ok | c e ok | c e err | e | c ok n z | n z]; cbn [t4_walk].
    - apply (IH (OCheck c e ok :: r)); exact T.
    - apply (IH (OProcess c e ok :: r)); exact T.
    - apply (IH (OReleased c e err :: r)); exact T.
    - apply (IH (OConnect e :: r)); exact T.
    - destruct T1 as [A [B _]]. apply N.leb_le in A. apply N.leb_le in B. rewrite A, B. cbn [andb].
      apply (IH (OPushed c ok n z :: r)); exact T.
    - apply (IH (OCleared n z :: r)); exact T.
  Qed.

  Theorem model_passes_t3_t4 : forall ops,
    t3_walk (copies_of ops) [] [] (hist fc fp limN limS ops) = true
    /\ t4_walk limN limS (hist fc fp limN limS ops) = true.
  Proof.
    intros ops. destruct (run_inv fc fp limN limS ops) as [_ [I _]].
    pose proof (inv_log _ _ _ I) as W. destruct (TopInv_run ops) as [T _].
    assert (E : rev (hist fc fp limN limS ops) ++ [] = log (run fc fp true limN limS ops)).
    { unfold hist, final. rewrite rev_involutive, app_nil_r. reflexivity. }
    rewrite <- E in W, T. split.
    - apply (t3_walk_ok _ _ [] W T).
    - apply (t4_walk_ok _ [] T).
  Qed.
End T.

(* ---------- soundness of the checkers on ARBITRARY logs (oldest first) *)
Lemma t1_split : forall cs pre l conn, t1_walk cs conn (pre ++ l) = true ->
  t1_walk cs (rev (conn_of pre) ++ conn) l = true.
Proof.
  intros cs pre; induction pre as [|o pre IH]; intros l conn H; [exact H|].
  destruct o as [c e ok | c e ok | c e err | e | c ok n z | n z]; simpl in H |- *; try (apply IH; exact H).
  - destruct (lookup cs c); [|discriminate]. apply andb_true_iff in H. destruct H as [_ H].
    apply IH in H. destruct ok; simpl in *; [rewrite <- app_assoc; exact H | exact H].
  - apply IH in H. rewrite <- app_assoc. exact H.
Qed.
Lemma t2_split : forall pre l pr rl, t2_walk pr rl (pre ++ l) = true ->
  t2_walk (rev (proc_cids pre) ++ pr) (rev (rel_cids pre) ++ rl) l = true.
Proof.
  induction pre as [|o pre IH]; intros l pr rl H; [exact H|].
  destruct o as [c e ok | c e ok | c e err | e | c ok n z | n z]; simpl in H |- *; try (apply IH; exact H).
  - apply andb_true_iff in H. destruct H as [_ H]. apply IH in H. rewrite <- app_assoc. exact H.
  - apply IH in H. rewrite <- app_assoc. exact H.
Qed.
Lemma t3_split : forall cs pre l pu rl, t3_walk cs pu rl (pre ++ l) = true ->
  t3_walk cs (rev (pushed_cids pre) ++ pu) (rev (rel_cids pre) ++ rl) l = true.
Proof.
  intros cs pre; induction pre as [|o pre IH]; intros l pu rl H; [exact H|].
  destruct o as [c e ok | c e ok | c e err | e | c ok n z | n z]; cbn [t3_walk app] in H;
    cbn [pushed_cids rel_cids flat_map app rev]; fold (pushed_cids pre) (rel_cids pre);
    try (apply IH; exact H).
  - apply andb_true_iff in H. destruct H as [_ H]. apply IH in H. rewrite <- app_assoc. exact H.
  - apply andb_true_iff in H. destruct H as [_ H]. apply IH in H. rewrite <- app_assoc. exact H.
  - apply andb_true_iff in H. destruct H as [_ H]. apply IH in H. exact H.
Qed.

Lemma in_rev_app : forall {A} (x : A) a b, In x (rev a ++ b) <-> In x a \/ In x b.
Proof. intros. rewrite in_app_iff, <- in_rev. tauto. Qed.

(* T1 on any log the checker accepts *)
Theorem t1_sound : forall cs l, t1_walk cs [] l = true ->
  forall pre c e ok post, l = pre ++ OProcess c e ok :: post ->
    exists x, lookup cs c = Some x /\ eid x = e /\ forall p, In p (pars x) -> connected_by pre p.
Proof.
  intros cs l H pre c e ok post E. subst l. apply t1_split in H. simpl in H.
  destruct (lookup cs c) as [x|]; [|discriminate]. exists x. split; auto.
  apply andb_true_iff in H. destruct H as [H _]. apply andb_true_iff in H. destruct H as [H1 H2].
  apply N.eqb_eq in H1. split; auto. intros p Hp. rewrite forallb_forall in H2. specialize (H2 p Hp).
  apply memN_In in H2. rewrite app_nil_r in H2. apply in_rev in H2. apply conn_of_spec. exact H2.
Qed.

(* T2 on any log the checker accepts *)
Theorem t2_sound : forall l, t2_walk [] [] l = true ->
  forall pre c e ok post, l = pre ++ OProcess c e ok :: post ->
    ~ processed_in pre c /\ ~ released_in pre c.
Proof.
  intros l H pre c e ok post E. subst l. apply t2_split in H. simpl in H. rewrite !app_nil_r in H.
  apply andb_true_iff in H. destruct H as [H _]. apply andb_true_iff in H. destruct H as [H1 H2].
  apply negb_true_iff in H1, H2. apply memN_false in H1, H2. split.
  - intros P. apply H1. apply -> in_rev. apply proc_cids_spec. exact P.
  - intros P. apply H2. apply -> in_rev. apply rel_cids_spec. exact P.
Qed.

(* T3 on any log the checker accepts: a Released is for a pushed copy not released before; when
   Clear returns nothing is buffered and every copy whose push has returned is released; after
   every push the reported count is pushed - released *)
Theorem t3_sound : forall cs l, t3_walk cs [] [] l = true ->
  (forall pre c e err post, l = pre ++ OReleased c e err :: post ->
     ~ released_in pre c /\ exists x, lookup cs c = Some x /\ eid x = e)
  /\ (forall pre n z post, l = pre ++ OCleared n z :: post ->
        n = 0 /\ z = 0 /\ forall c, In c (pushed_cids pre) -> released_in pre c)
  /\ (forall pre c ok n z post, l = pre ++ OPushed c ok n z :: post ->
        n = N.of_nat (S (length (pushed_cids pre))) - N.of_nat (length (rel_cids pre))).
Proof.
  intros cs l H. split; [|split].
  - intros pre c e err post E. subst l. apply t3_split in H. cbn [t3_walk] in H. rewrite !app_nil_r in H.
    apply andb_true_iff in H. destruct H as [H _]. apply andb_true_iff in H. destruct H as [H1 H2].
    apply negb_true_iff in H1. apply memN_false in H1. split.
    + intros P. apply H1. apply -> in_rev. apply rel_cids_spec. exact P.
    + destruct (lookup cs c) as [x|]; [|discriminate]. exists x. split; auto. apply N.eqb_eq; exact H2.
  - intros pre n z post E. subst l. apply t3_split in H. cbn [t3_walk] in H. rewrite !app_nil_r in H.
    apply andb_true_iff in H. destruct H as [H _]. apply andb_true_iff in H. destruct H as [H H3].
    apply andb_true_iff in H. destruct H as [H1 H2]. apply N.eqb_eq in H2, H3. split; auto. split; auto.
    intros c Hc. rewrite forallb_forall in H1. assert (Hc' : In c (rev (pushed_cids pre))) by (apply -> in_rev; exact Hc).
    specialize (H1 c Hc'). apply memN_In in H1. apply in_rev in H1. apply rel_cids_spec. exact H1.
  - intros pre c ok n z post E. subst l. apply t3_split in H. cbn [t3_walk] in H. rewrite !app_nil_r in H.
    apply andb_true_iff in H. destruct H as [H _]. apply N.eqb_eq in H. rewrite !rev_length in H. exact H.
Qed.
