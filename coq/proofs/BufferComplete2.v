(* C14 T5 (completeness), part 2: PushEvent as a whole, push-only histories, the theorem. *)
From Coq Require Import NArith List Bool Lia Arith.
From LV Require Import model.Buffer spec.BufferSpec proofs.BufferInv proofs.BufferPush proofs.BufferRun
  proofs.BufferExt proofs.BufferTheorems proofs.BufferComplete.
Import ListNotations.
Local Open Scope N_scope.

Lemma complete_same : forall s s' y, connected s' = connected s -> complete s' y = complete s y.
Proof. intros s s' y E. unfold complete, is_connected. rewrite E. reflexivity. Qed.

Lemma total_size_app : forall a b, total_size (a ++ b) = total_size a + total_size b.
Proof. induction a as [|x a IH]; intros b; simpl; [reflexivity | rewrite IH; lia]. Qed.
Lemma total_size_incl : forall l cs, NoDup l -> incl l cs -> total_size l <= total_size cs.
Proof.
  induction l as [|a l IH]; intros cs Nd Hi; simpl; [lia|].
  inversion Nd; subst. assert (Ha : In a cs) by (apply Hi; left; auto).
  apply in_split in Ha. destruct Ha as [c1 [c2 E]]. subst cs.
  assert (Hi' : incl l (c1 ++ c2)).
  { intros y Hy. assert (In y (c1 ++ a :: c2)) by (apply Hi; right; auto).
    apply in_app_or in H. apply in_or_app. destruct H as [H|[H|H]]; auto. subst; contradiction. }
  specialize (IH (c1 ++ c2) H2 Hi'). rewrite total_size_app in *. simpl. lia.
Qed.

Lemma spill_id : forall limN limS s, over limN limS (inc s) = false -> spill limN limS s = s.
Proof.
  intros limN limS s H. unfold spill.
  assert (E : spill_split limN limS (inc s) = ([], inc s)).
  { destruct (inc s) as [|y r]; simpl; [reflexivity | rewrite H; reflexivity]. }
  rewrite E. simpl. destruct s; reflexivity.
Qed.

Lemma NoDup_app_l' : forall {A} (a b : list A), NoDup (a ++ b) -> NoDup a.
Proof.
  intros A a b; induction a as [|y a IH]; simpl; intros H; [constructor|].
  inversion H; subst. constructor; auto. intros Hi; apply H2; apply in_or_app; auto.
Qed.

Definition noconn (l : list out) : Prop :=
  Forall (fun o => match o with OConnect _ => False | _ => True end) l.

Section C.
  Variable fc fp : list out -> entry -> bool.
  Hypothesis nofail : forall l x, fc l x = false /\ fp l x = false.
  Variable limN limS : N.

  (* no buffered event has all its parents connected *)
  Definition J1 (s : st) : Prop := forall y, In y (inc s) -> complete s y = false.

  Lemma t5_top : forall cs s x0,
    wf_cs cs -> Inv cs [] s -> In x0 cs -> ~ In (cid x0) (released s) ->
    (forall y, In y (inc s) -> eid y <> eid x0) -> RC cs s -> J1 s ->
    let s1 := fst (push_rec fc fp true (S (length (inc s))) s x0 None false) in
    RC cs s1 /\ J1 s1.
  Proof.
    intros cs s x0 W I Hx Nr Hfresh R J. cbv zeta. rewrite push_rec_S.
    assert (Nx : ~ In x0 (inc s)) by (intros H; apply (Hfresh _ H); reflexivity).
    destruct (is_connected s (eid x0)) eqn:Ec.
    - cbn [fst]. cbv iota. set (s1 := drop (remove_inc s (eid x0)) (cid x0) 1).
      destruct (drop_core (remove_inc s (eid x0)) (cid x0) 1) as [D1 [D2 [D3 _]]]. fold s1 in D1, D2, D3.
      destruct (release_proj s1 x0) as [P1 [_ [_ P4]]].
      assert (Er : released (release s1 x0) = cid x0 :: released s).
      { unfold release. rewrite D3. simpl.
        assert (M : memN (cid x0) (released s) = false) by (apply memN_false; auto). rewrite M. simpl.
        rewrite ?D3. reflexivity. }
      assert (Ecn : connected (release s1 x0) = connected s) by (rewrite P4, D2; reflexivity).
      split.
      + intros c Hc. rewrite Er in Hc. rewrite Ecn. destruct Hc as [Hc|Hc]; [|apply R; auto].
        exists x0. repeat split; auto. apply memN_In. exact Ec.
      + intros y Hy. rewrite P1, D1 in Hy. simpl in Hy. apply filter_In in Hy.
        rewrite (complete_same s _ y Ecn). apply J. tauto.
    - destruct (negb (complete s x0)) eqn:Ecm.
      + cbn [fst]. split; [exact R|].
        intros y Hy. simpl in Hy. apply in_app_or in Hy.
        rewrite (complete_same s (add_inc s x0) y eq_refl).
        destruct Hy as [Hy|[Hy|[]]]; [apply J; auto | subst; apply negb_true_iff; exact Ecm].
      + apply negb_false_iff in Ecm.
        destruct (process_release fc fp cs [] [] s x0 W I Hx Nr Ecm) as [I2 [Ei [Er [En Eo]]]];
          [apply incl_refl | intros H; contradiction |].
        destruct (process_release_conn fc fp nofail s x0) as [Econ Eok].
        destruct (process_complete fc fp s x0) as [sp ok] eqn:Epc. cbn [fst snd] in *. subst ok.
        set (s2 := release sp x0) in *.
        assert (C2 : Cover (inc s2) s2) by (intros y Hy; left; auto).
        assert (U2 : (unrel (inc s2) s2 <= length (inc s))%nat) by (rewrite <- Ei; apply unrel_le_len).
        assert (Cv2 : covers (inc s2) s2) by (intros y Hy _; auto).
        assert (R2 : RC cs s2).
        { intros c Hc. rewrite Er in Hc. rewrite Econ. destruct Hc as [Hc|Hc].
          - exists x0. repeat split; auto. left; auto.
          - destruct (R c Hc) as [x' [A [B D]]]. exists x'. repeat split; auto. right; auto. }
        destruct (t5_loop fc fp (length (inc s)) x0 (inc s2) (t5_repush fc fp nofail _) cs W [] (inc s2)
                          (incl_refl _) s2 I2 C2 U2 Cv2 R2) as [M3 [R3 S3]].
        destruct (loop_ok fc fp (length (inc s)) x0 (inc s2) (repush_ok fc fp _) cs W [] (inc s2)
                          (incl_refl _) s2 I2 C2 U2) as [I3 [E23 _]].
        change (fold_left
                  (fun sa child =>
                     if memN (eid x0) (pars child) && negb (true && memN (cid child) (released sa))
                     then fst (push_rec fc fp true (length (inc s)) sa child (Some (inc s2)) true) else sa)
                  (inc s2) s2)
          with (fold_left (body fc fp (length (inc s)) x0 (inc s2)) (inc s2) s2).
        set (s3 := fold_left (body fc fp (length (inc s)) x0 (inc s2)) (inc s2) s2) in *.
        split.
        * intros c Hc. simpl in Hc. destruct (R3 c Hc) as [x' [A [B D]]]. exists x'. repeat split; auto.
        * intros y Hy. simpl in Hy. apply filter_In in Hy. destruct Hy as [Hy _].
          rewrite (complete_same s3 (remove_inc s3 (eid x0)) y eq_refl).
          destruct (complete s3 y) eqn:Cy; auto. exfalso.
          assert (Y : Stk s3 y).
          { repeat split; auto. intros Hr. exact (inv_pend _ _ _ I3 y Hy Hr). }
          destruct (S3 y Y) as [A B].
          assert (Cvs : covers (inc s2) s) by (intros z Hz _; rewrite Ei; exact Hz).
          destruct (stk_after_process s s2 x0 (inc s2) Ei Er Econ Cvs y A) as [[[D0 [D1 D3]] D2]|[D1 D2]].
          -- rewrite (J y D0) in D3. discriminate.
          -- apply B. auto.
  Qed.

  Record T5Inv (cs : list entry) (s : st) : Prop := mkT5 {
    t5_run : RunInv limN limS cs s;
    t5_rc : RC cs s;
    t5_j1 : J1 s;
    t5_nc : noconn (log s)
  }.

  Lemma t5_push_event : forall cs s e ps sz,
    T5Inv cs s -> (forall y, In y cs -> eid y <> e) ->
    total_num (cs ++ [mkEntry (next s) e ps sz]) <= limN ->
    total_size (cs ++ [mkEntry (next s) e ps sz]) <= limS ->
    T5Inv (cs ++ [mkEntry (next s) e ps sz]) (push_event fc fp true limN limS s e ps sz).
  Proof.
    intros cs s e ps sz [RI R J NC] Hfr LN LS.
    pose proof (push_event_ok fc fp limN limS cs s e ps sz RI) as RI'.
    destruct (push_event_ext fc fp true limN limS s e ps sz) as [c0 [ok0 [n0 [z0 [new [EL FL]]]]]].
    assert (NC' : noconn (log (push_event fc fp true limN limS s e ps sz))).
    { rewrite EL. constructor; [exact I|]. apply Forall_app. split; auto.
      eapply Forall_impl; [|exact FL]. intros o Ho. destruct o; simpl in *; auto. }
    destruct RI as [W [I [C [O V]]]]. set (x0 := mkEntry (next s) e ps sz) in *.
    assert (Ecid : cid x0 = N.of_nat (length cs)) by (simpl; apply (inv_next _ _ _ I)).
    pose proof (inv_next _ _ _ I) as Enx.
    assert (W' : wf_cs (cs ++ [x0])) by (apply wf_cs_snoc; auto).
    assert (I' : Inv (cs ++ [x0]) [] (bump s)) by (apply Inv_bump_snoc; auto).
    assert (Hx : In x0 (cs ++ [x0])) by (apply in_or_app; right; left; auto).
    assert (Nr : ~ In (cid x0) (released (bump s))).
    { simpl. intros H. destruct (inv_rel_cs _ _ _ I _ H) as [x [A B]].
      pose proof (wf_cs_bound cs x W A). simpl in *. lia. }
    assert (Hfresh : forall y, In y (inc (bump s)) -> eid y <> eid x0).
    { simpl. intros y Hy. apply Hfr. apply (inv_inc_cs _ _ _ I); auto. }
    assert (Dup : existsb (fun y => eid y =? e) (inc (bump s)) = false).
    { destruct (existsb (fun y => eid y =? e) (inc (bump s))) eqn:D; auto.
      apply existsb_exists in D. destruct D as [y [Hy Ey]]. apply N.eqb_eq in Ey.
      exfalso. exact (Hfresh y Hy Ey). }
    assert (R' : RC (cs ++ [x0]) (bump s)).
    { intros c Hc. destruct (R c Hc) as [x [A [B D]]]. exists x. repeat split; auto. apply in_or_app; auto. }
    destruct (t5_top (cs ++ [x0]) (bump s) x0 W' I' Hx Nr Hfresh R' J) as [R1 J1'].
    destruct (push_top_ok fc fp (cs ++ [x0]) (bump s) x0 W' I' Hx Nr Hfresh cs C) as [I1 _].
    constructor; auto; revert R1 J1' I1; unfold push_event; fold x0; rewrite Dup;
      destruct (push_rec fc fp true (S (length (inc (bump s)))) (bump s) x0 None false) as [s1 ok];
      cbn [fst]; intros R1 J1' I1.
    - (* RC *)
      assert (Ov : over limN limS (inc s1) = false).
      { unfold over. apply orb_false_iff. split; apply N.ltb_ge.
        - unfold total_num in *.
          assert (length (inc s1) <= length (cs ++ [x0]))%nat; [|lia].
          apply NoDup_incl_length.
          + apply NoDup_map_inv with (f := eid). apply (inv_nodup _ _ _ I1).
          + intros y Hy. apply (inv_inc_cs _ _ _ I1); auto.
        - etransitivity; [|exact LS]. apply total_size_incl.
          + apply NoDup_map_inv with (f := eid). apply (inv_nodup _ _ _ I1).
          + intros y Hy. apply (inv_inc_cs _ _ _ I1); auto. }
      rewrite (spill_id _ _ _ Ov). exact R1.
    - assert (Ov : over limN limS (inc s1) = false).
      { unfold over. apply orb_false_iff. split; apply N.ltb_ge.
        - unfold total_num in *.
          assert (length (inc s1) <= length (cs ++ [x0]))%nat; [|lia].
          apply NoDup_incl_length.
          + apply NoDup_map_inv with (f := eid). apply (inv_nodup _ _ _ I1).
          + intros y Hy. apply (inv_inc_cs _ _ _ I1); auto.
        - etransitivity; [|exact LS]. apply total_size_incl.
          + apply NoDup_map_inv with (f := eid). apply (inv_nodup _ _ _ I1).
          + intros y Hy. apply (inv_inc_cs _ _ _ I1); auto. }
      rewrite (spill_id _ _ _ Ov). exact J1'.
  Qed.
End C.

Section T5.
  Variable fc fp : list out -> entry -> bool.
  Hypothesis nofail : forall l x, fc l x = false /\ fp l x = false.
  Variable limN limS : N.

  (* a history that only pushes: (event id, parents, size) per push *)
  Definition push_ops (pushes : list (N * list N * N)) : list op :=
    map (fun t => OpPush (fst (fst t)) (snd (fst t)) (snd t)) pushes.

  Lemma total_num_app : forall a b : list entry, total_num (a ++ b) = total_num a + total_num b.
  Proof. intros; unfold total_num; rewrite app_length; lia. Qed.

  Lemma t5_run_inv : forall pushes,
    NoDup (map eid (copies_of (push_ops pushes))) ->
    total_num (copies_of (push_ops pushes)) <= limN ->
    total_size (copies_of (push_ops pushes)) <= limS ->
    T5Inv limN limS (copies_of (push_ops pushes)) (run fc fp true limN limS (push_ops pushes)).
  Proof.
    induction pushes as [|t pushes IH] using rev_ind; intros Nd LN LS.
    - constructor.
      + apply (run_inv fc fp limN limS []).
      + intros c [].
      + intros y [].
      + constructor.
    - unfold push_ops in *. rewrite map_app in *. simpl map in *.
      rewrite copies_of_snoc in *. rewrite run_snoc. simpl step.
      set (ops := map (fun t => OpPush (fst (fst t)) (snd (fst t)) (snd t)) pushes) in *.
      set (cs := copies_of ops) in *.
      set (x0 := mkEntry (N.of_nat (length cs)) (fst (fst t)) (snd (fst t)) (snd t)) in *.
      rewrite map_app in Nd. simpl in Nd.
      assert (Nd0 : NoDup (map eid cs)) by (eapply NoDup_app_l'; eauto).
      assert (Fr : forall y, In y cs -> eid y <> fst (fst t)).
      { intros y Hy E. apply NoDup_remove_2 in Nd. rewrite app_nil_r in Nd. apply Nd.
        rewrite <- E. apply in_map; auto. }
      rewrite total_num_app in LN. rewrite total_size_app in LS.
      assert (IH' := IH Nd0 ltac:(lia) ltac:(lia)).
      assert (En : next (run fc fp true limN limS ops) = N.of_nat (length cs)).
      { destruct IH' as [[_ [I _]] _ _ _]. apply (inv_next _ _ _ I). }
      unfold x0. rewrite <- En.
      apply t5_push_event; auto.
      + rewrite En. rewrite total_num_app. exact LN.
      + rewrite En. rewrite total_size_app. exact LS.
  Qed.

  (* T5: limits suffice, nothing fails, the pushed events are distinct and form a parents-closed
     DAG ([rank] decreases along parent edges): whatever the push order, every event is
     processed and nothing stays in the buffer. *)
  Theorem T5_complete : forall pushes (rank : N -> nat),
    let ops := push_ops pushes in
    let cs := copies_of ops in
    NoDup (map eid cs) -> total_num cs <= limN -> total_size cs <= limS ->
    (forall x, In x cs -> forall p, In p (pars x) ->
               (exists y, In y cs /\ eid y = p) /\ (rank p < rank (eid x))%nat) ->
    (forall x, In x cs -> exists c, In (OProcess c (eid x) true) (hist fc fp limN limS ops))
    /\ inc (final fc fp limN limS ops) = [].
  Proof.
    intros pushes rank ops cs Nd LN LS Dag.
    destruct (t5_run_inv pushes Nd LN LS) as [[W [I [C _]]] R J NC]. fold ops cs in W, I, C, R, J, NC.
    set (s := run fc fp true limN limS ops) in *.
    assert (K : forall n x, In x cs -> (rank (eid x) < n)%nat -> In (eid x) (connected s)).
    { induction n as [|n IHn]; intros x Hx Hr; [lia|].
      assert (Cx : complete s x = true).
      { unfold complete. apply forallb_forall. intros p Hp. destruct (Dag x Hx p Hp) as [[y [Hy Ey]] Rk].
        unfold is_connected. apply memN_In. rewrite <- Ey. apply IHn; auto. rewrite Ey. lia. }
      destruct (C x Hx) as [Hi|Hrel].
      - rewrite (J x Hi) in Cx. discriminate.
      - destruct (R _ Hrel) as [x' [A [B D]]].
        assert (x' = x) by (apply (wf_cs_inj cs); auto). subst. exact D. }
    split.
    - intros x Hx. assert (Hc := K (S (rank (eid x))) x Hx ltac:(lia)).
      rewrite (inv_conn _ _ _ I) in Hc. apply conn_of_spec in Hc. destruct Hc as [[c Hc]|Hc].
      + exists c. unfold hist, final. fold s. apply -> in_rev. exact Hc.
      + exfalso. unfold noconn in NC. rewrite Forall_forall in NC. exact (NC _ Hc).
    - unfold final. fold s. destruct (inc s) as [|y r] eqn:E; auto. exfalso.
      assert (Hy : In y (inc s)) by (rewrite E; left; auto).
      assert (Hyc : In y cs) by (apply (inv_inc_cs _ _ _ I); auto).
      assert (Cy : complete s y = true).
      { unfold complete. apply forallb_forall. intros p Hp. destruct (Dag y Hyc p Hp) as [[z [Hz Ez]] _].
        unfold is_connected. apply memN_In. rewrite <- Ez. apply (K (S (rank (eid z))) z Hz). lia. }
      rewrite (J y Hy) in Cy. discriminate.
  Qed.
End T5.
