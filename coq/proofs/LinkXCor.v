(* Corollaries of link_x, in the form the properties are worded:
   - noise (speculative Builds, stopped Process calls, probes, restarts) is invisible: the run with noise,
     the restart entries removed, equals the run of the same schedules without any noise (C07, C08);
   - Builds are invisible: the run of an instance that is fed by Process only equals the run with Builds,
     the Build frames erased (C01: instances that only call Process). *)
From Coq Require Import NArith ZArith List Lia Bool ZifyBool ZifyN ZifyNat.
From LV Require Import lib.Bytes model.Codec model.VecIndex model.Abft model.AbftRun spec.ElectionSpec
  proofs.BftGraph proofs.BftRun proofs.BftMain proofs.BftAccept proofs.BftProps
  proofs.LinkVals proofs.LinkPerm proofs.LinkDefs proofs.LinkStep proofs.LinkNoise proofs.LinkEpoch proofs.LinkEpochs proofs.LinkEpochsCor proofs.LinkReject proofs.LinkX proofs.LinkEpochX proofs.LinkEpochsX.
Import ListNotations.
Local Open Scope N_scope.

Definition clean_slot (s : xslot) : xslot := {| x_pre := []; x_ev := x_ev s; x_build := x_build s; x_mid := [] |}.
Definition clean_S (Sx : list xslot * list op) : list xslot * list op := (map clean_slot (fst Sx), []).
Definition nobuild_slot (s : xslot) : xslot := {| x_pre := x_pre s; x_ev := x_ev s; x_build := false; x_mid := x_mid s |}.
Definition nobuild_S (Sx : list xslot * list op) : list xslot * list op := (map nobuild_slot (fst Sx), snd Sx).

Definition not8 (e : ev_x) : bool := negb (fst (fst e) =? 8).
Definition strip8 {A B} (r : list ev_x * A * B) : list ev_x * A * B := (filter not8 (fst (fst r)), snd (fst r), snd r).
Definition erase_hi (e : ev_x) : ev_x := (fst (fst e), None, snd e).
Definition erase_builds {A B} (r : list ev_x * A * B) : list ev_x * A * B := (map erase_hi (fst (fst r)), snd (fst r), snd r).

Lemma add_event_code vals T e : fst (snd (add_event vals T e)) < 4.
Proof.
  unfold add_event. destruct (_ || _ || _); [cbn; lia|]. destruct (negb (ev_wf_b T e)); [cbn; lia|].
  destruct (r_frame_ok vals T (mk_node (length vals) T e)); cbn; lia.
Qed.
Lemma filter_restarts st ns : filter not8 (restarts st ns) = [].
Proof. unfold restarts. induction (filter is_restart ns) as [|o t IH]; [reflexivity|]. cbn [map filter not8 fst]. exact IH. Qed.
Lemma map_erase_restarts st ns : map erase_hi (restarts st ns) = restarts st ns.
Proof. unfold restarts. rewrite map_map. reflexivity. Qed.

Lemma not8_ev c hi st : c <> 8 -> not8 (c, hi, st) = true.
Proof. intros H. unfold not8. cbn [fst]. apply negb_true_iff, N.eqb_neq. exact H. Qed.

Section OneEpoch.
Variable ep : N.
Variable vals : list (N * N).
Variable sfr : N -> option (list (N * N)).

Lemma post_x_clean : forall sc tn, filter not8 (post_x ep sc tn) = post_x ep (map clean_slot sc) [].
Proof.
  induction sc as [|s sc IH]; intros tn; cbn [map post_x clean_slot x_pre x_mid]; [apply filter_restarts|].
  rewrite !filter_app, !filter_restarts. cbn [app filter]. rewrite (not8_ev 7) by lia. rewrite IH. reflexivity.
Qed.
Lemma ref_x_clean : forall sc T tn, strip8 (ref_x ep vals sfr T sc tn) = ref_x ep vals sfr T (map clean_slot sc) [].
Proof.
  induction sc as [|s sc IH]; intros T tn; cbn [map ref_x clean_slot x_pre x_mid x_ev x_build].
  - unfold strip8. cbn [fst snd]. rewrite filter_restarts. reflexivity.
  - pose proof (add_event_code vals T (x_ev s)) as Hc.
    destruct (add_event vals T (x_ev s)) as [T1 [c h]]. cbn [fst snd] in Hc.
    assert (N8 : forall hi st, not8 (c, hi, st) = true) by (intros; apply not8_ev; lia).
    destruct (seal_of vals sfr T1) as [nvals|].
    + unfold strip8. cbn [fst snd restarts filter map app]. rewrite !filter_app, !filter_restarts. cbn [app filter].
      rewrite N8. rewrite post_x_clean. reflexivity.
    + specialize (IH T1 tn). destruct (ref_x ep vals sfr T1 sc tn) as [[cs bl] nx]. destruct (ref_x ep vals sfr T1 (map clean_slot sc) []) as [[cs' bl'] nx'].
      unfold strip8 in *. cbn [fst snd restarts filter map app] in *. rewrite !filter_app, !filter_restarts. cbn [app filter].
      rewrite N8. inversion IH; subst. reflexivity.
Qed.
Lemma sched_in_clean : forall sc T ids, sched_in ep vals sfr T ids (map clean_slot sc) [].
Proof.
  induction sc as [|s sc IH]; intros T ids; cbn [map sched_in clean_slot x_pre x_mid x_ev]; [constructor|].
  split; [constructor|]. split; [constructor|]. destruct (add_event vals T (x_ev s)) as [T1 [c h]].
  destruct (seal_of vals sfr T1); [|apply IH]. clear. induction sc as [|s0 sc IHs]; cbn [map post_in clean_slot x_pre x_mid]; [constructor|].
  split; [constructor|]. split; [constructor | exact IHs].
Qed.

Lemma post_x_nobuild : forall sc tn, map erase_hi (post_x ep sc tn) = post_x ep (map nobuild_slot sc) tn.
Proof.
  induction sc as [|s sc IH]; intros tn; cbn [map post_x nobuild_slot x_pre x_mid]; [apply map_erase_restarts|].
  rewrite !map_app, !map_erase_restarts. cbn [map erase_hi fst snd]. rewrite IH. reflexivity.
Qed.
Lemma ref_x_nobuild : forall sc T tn, erase_builds (ref_x ep vals sfr T sc tn) = ref_x ep vals sfr T (map nobuild_slot sc) tn.
Proof.
  induction sc as [|s sc IH]; intros T tn; cbn [map ref_x nobuild_slot x_pre x_mid x_ev x_build].
  - unfold erase_builds. cbn [fst snd]. rewrite map_erase_restarts. reflexivity.
  - destruct (add_event vals T (x_ev s)) as [T1 [c h]].
    destruct (seal_of vals sfr T1) as [nvals|].
    + unfold erase_builds. cbn [fst snd]. rewrite !map_app, !map_erase_restarts. cbn [map erase_hi fst snd andb]. rewrite post_x_nobuild. reflexivity.
    + specialize (IH T1 tn). destruct (ref_x ep vals sfr T1 sc tn) as [[cs bl] nx]. destruct (ref_x ep vals sfr T1 (map nobuild_slot sc) tn) as [[cs' bl'] nx'].
      unfold erase_builds in *. cbn [fst snd] in *. rewrite !map_app, !map_erase_restarts. cbn [map erase_hi fst snd andb]. inversion IH; subst. reflexivity.
Qed.
Lemma sched_in_nobuild : forall sc T ids tn, sched_in ep vals sfr T ids sc tn -> sched_in ep vals sfr T ids (map nobuild_slot sc) tn.
Proof.
  induction sc as [|s sc IH]; intros T ids tn; cbn [map sched_in nobuild_slot x_pre x_mid x_ev]; [auto|].
  intros (A1 & A2 & A3). split; [exact A1|]. split; [exact A2|]. destruct (add_event vals T (x_ev s)) as [T1 [c h]].
  destruct (seal_of vals sfr T1); [|apply IH; exact A3]. clear - A3. revert A3.
  induction sc as [|s0 sc IHs]; cbn [map post_in nobuild_slot x_pre x_mid]; [auto|]. intros (B1 & B2 & B3). auto.
Qed.
End OneEpoch.

Lemma map_ev_clean sc : map x_ev (map clean_slot sc) = map x_ev sc.
Proof. rewrite map_map. reflexivity. Qed.
Lemma map_ev_nobuild sc : map x_ev (map nobuild_slot sc) = map x_ev sc.
Proof. rewrite map_map. reflexivity. Qed.

Lemma ref_epochs_x_clean pol : forall Ss vals ep, map strip8 (ref_epochs_x pol vals ep Ss) = ref_epochs_x pol vals ep (map clean_S Ss).
Proof.
  induction Ss as [|[sc tn] rest IH]; intros vals ep; [reflexivity|]. cbn [map ref_epochs_x clean_S fst snd].
  rewrite <- (ref_x_clean ep vals (praw pol ep) sc [] tn). f_equal. unfold strip8 at 2. cbn [snd].
  destruct (snd (ref_x ep vals (praw pol ep) [] sc tn)); [apply IH | reflexivity].
Qed.
Lemma epochs_ok_x_clean pol K : forall Ss vals ep, epochs_ok_x pol K vals ep Ss -> epochs_ok_x pol K vals ep (map clean_S Ss).
Proof.
  induction Ss as [|[sc tn] rest IH]; intros vals ep H; [exact I|]. cbn [map epochs_ok_x clean_S fst snd] in *.
  destruct H as (R & Tt & St & Id & Sn & Po & Nx). rewrite map_ev_clean.
  split; [exact R|]. split; [exact Tt|]. split; [exact St|]. split; [exact Id|]. split; [apply sched_in_clean|]. split; [exact Po|].
  rewrite <- (ref_x_clean ep vals (praw pol ep) sc [] tn). unfold strip8. cbn [snd].
  destruct (snd (ref_x ep vals (praw pol ep) [] sc tn)); [apply IH; exact Nx | exact I].
Qed.
Lemma ref_epochs_x_nobuild pol : forall Ss vals ep, map erase_builds (ref_epochs_x pol vals ep Ss) = ref_epochs_x pol vals ep (map nobuild_S Ss).
Proof.
  induction Ss as [|[sc tn] rest IH]; intros vals ep; [reflexivity|]. cbn [map ref_epochs_x nobuild_S fst snd].
  rewrite <- (ref_x_nobuild ep vals (praw pol ep) sc [] tn). f_equal. unfold erase_builds at 2. cbn [snd].
  destruct (snd (ref_x ep vals (praw pol ep) [] sc tn)); [apply IH | reflexivity].
Qed.
Lemma epochs_ok_x_nobuild pol K : forall Ss vals ep, epochs_ok_x pol K vals ep Ss -> epochs_ok_x pol K vals ep (map nobuild_S Ss).
Proof.
  induction Ss as [|[sc tn] rest IH]; intros vals ep H; [exact I|]. cbn [map epochs_ok_x nobuild_S fst snd] in *.
  destruct H as (R & Tt & St & Id & Sn & Po & Nx). rewrite map_ev_nobuild.
  split; [exact R|]. split; [exact Tt|]. split; [exact St|]. split; [exact Id|]. split; [apply sched_in_nobuild; exact Sn|]. split; [exact Po|].
  rewrite <- (ref_x_nobuild ep vals (praw pol ep) sc [] tn). unfold erase_builds. cbn [snd].
  destruct (snd (ref_x ep vals (praw pol ep) [] sc tn)); [apply IH; exact Nx | exact I].
Qed.

Lemma sched_builds_clean sc tn : (sched_builds (map clean_slot sc) [] <= sched_builds sc tn)%nat.
Proof.
  induction sc as [|s sc IH]; cbn [map sched_builds fold_right].
  - change (count_builds []) with 0%nat. lia.
  - fold (sched_builds (map clean_slot sc) []). fold (sched_builds sc tn).
    assert (slot_builds (clean_slot s) <= slot_builds s)%nat.
    { unfold slot_builds, clean_slot. cbn [x_pre x_mid x_build]. change (count_builds []) with 0%nat. lia. }
    lia.
Qed.
Lemma total_builds_clean Ss : (total_builds (map clean_S Ss) <= total_builds Ss)%nat.
Proof.
  induction Ss as [|[sc tn] rest IH]; [cbn; lia|]. cbn [map total_builds fold_right clean_S fst snd].
  fold (total_builds (map clean_S rest)). fold (total_builds rest). pose proof (sched_builds_clean sc tn). lia.
Qed.
Lemma sched_builds_nobuild sc tn : (sched_builds (map nobuild_slot sc) tn <= sched_builds sc tn)%nat.
Proof.
  induction sc as [|s sc IH]; cbn [map sched_builds fold_right]; [lia|].
  fold (sched_builds (map nobuild_slot sc) tn). fold (sched_builds sc tn).
  assert (slot_builds (nobuild_slot s) <= slot_builds s)%nat.
  { unfold slot_builds, nobuild_slot. cbn [x_pre x_mid x_build]. destruct (x_build s); lia. }
  lia.
Qed.
Lemma total_builds_nobuild Ss : (total_builds (map nobuild_S Ss) <= total_builds Ss)%nat.
Proof.
  induction Ss as [|[sc tn] rest IH]; [cbn; lia|]. cbn [map total_builds fold_right nobuild_S fst snd].
  fold (total_builds (map nobuild_S rest)). fold (total_builds rest). pose proof (sched_builds_nobuild sc tn). lia.
Qed.

Lemma map_strip8_commute (l : list (list ev_x * list blk_x * option (list (N * N)))) :
  map strip8 (map (fun r => (fst (fst r), snd (fst r), option_map mk_vals (snd r))) l) =
  map (fun r => (fst (fst r), snd (fst r), option_map mk_vals (snd r))) (map strip8 l).
Proof. rewrite !map_map. apply map_ext. intros [[a b] c]. reflexivity. Qed.
Lemma map_erase_commute (l : list (list ev_x * list blk_x * option (list (N * N)))) :
  map erase_builds (map (fun r => (fst (fst r), snd (fst r), option_map mk_vals (snd r))) l) =
  map (fun r => (fst (fst r), snd (fst r), option_map mk_vals (snd r))) (map erase_builds l).
Proof. rewrite !map_map. apply map_ext. intros [[a b] c]. reflexivity. Qed.

(* ================= noise leaves no trace ================= *)
Theorem link_x_noise_invisible cap lam pol vals Ss K :
  vals <> [] -> epochs_ok_x pol K vals 1 Ss -> N.of_nat (total_builds Ss) <= K -> K < 2 ^ 192 ->
  map strip8 (model_epochs_x cap lam pol (start 1 vals) vals 1 Ss) = model_epochs_x cap lam pol (start 1 vals) vals 1 (map clean_S Ss).
Proof.
  intros Ne OK Hb HK.
  rewrite (link_x cap lam pol vals Ss K Ne OK Hb HK).
  rewrite (link_x cap lam pol vals (map clean_S Ss) K Ne (epochs_ok_x_clean pol K Ss vals 1 OK)); [| pose proof (total_builds_clean Ss); lia | exact HK].
  rewrite map_strip8_commute, ref_epochs_x_clean. reflexivity.
Qed.

(* ================= Builds leave no trace: Process-only instances ================= *)
Theorem link_x_builds_invisible cap lam pol vals Ss K :
  vals <> [] -> epochs_ok_x pol K vals 1 Ss -> N.of_nat (total_builds Ss) <= K -> K < 2 ^ 192 ->
  map erase_builds (model_epochs_x cap lam pol (start 1 vals) vals 1 Ss) = model_epochs_x cap lam pol (start 1 vals) vals 1 (map nobuild_S Ss).
Proof.
  intros Ne OK Hb HK.
  rewrite (link_x cap lam pol vals Ss K Ne OK Hb HK).
  rewrite (link_x cap lam pol vals (map nobuild_S Ss) K Ne (epochs_ok_x_nobuild pol K Ss vals 1 OK)); [| pose proof (total_builds_nobuild Ss); lia | exact HK].
  rewrite map_erase_commute, ref_epochs_x_nobuild. reflexivity.
Qed.

(* ================= Reset (C09) ================= *)
(* from ANY instance, after Reset(epoch, validators) the run over the following epochs is the reference's; in
   particular the instance that a sealing block leaves behind and a Reset instance cannot be told apart *)
Theorem link_x_after_reset cap lam pol K i ep vals Ss : K < 2 ^ 192 -> vals <> [] ->
  epochs_ok_x pol K vals ep Ss -> l_ctr (i_st i) + N.of_nat (total_builds Ss) <= K ->
  model_epochs_x cap lam pol (snd (fst (step cap pol sample i (OpReset ep vals)))) vals ep Ss =
  map (fun r => (fst (fst r), snd (fst r), option_map mk_vals (snd r))) (ref_epochs_x pol vals ep Ss).
Proof.
  intros HK Ne OK Hc. rewrite reset_is_fresh. cbn [fst snd].
  destruct Ss as [|S0 rest]; [reflexivity|]. pose proof OK as (Raw & Tot & _).
  destruct (next_vals_ok vals Raw Tot Ne) as (_ & Vok & _ & Hnv).
  apply (model_epochs_x_sim cap lam pol K HK (S0 :: rest) vals ep _ lam); [|exact OK | cbn [fresh_inst i_st l_ctr]; exact Hc].
  apply (Sim_fresh ep lam (mk_vals vals) Vok (fun _ => False) K (fun a (F : False) => match F with end) [] (l_ctr (i_st i)) (i_es i)); [lia | exact Hnv].
Qed.
