(* Non-vacuity of link_x_same_sets: three epochs under the policy of LinkXExample (seal at frame 2 to other
   validators, seal at frame 1, no seal); the first instance Builds every event and has noise and restarts,
   the second is fed the same events of every epoch in another parents-first order, by Process only. *)
From Coq Require Import NArith List Bool Lia.
From LV Require Import model.VecIndex model.Abft model.AbftRun spec.ElectionSpec
  proofs.BftGraph proofs.BftRun proofs.BftMain proofs.BftAccept proofs.BftProps
  proofs.LinkVals proofs.LinkPerm proofs.LinkDefs proofs.LinkFresh proofs.LinkExample proofs.LinkNoise
  proofs.LinkReject proofs.LinkX proofs.LinkEpochsX proofs.LinkXCheck proofs.LinkXCor proofs.LinkXExample proofs.LinkXOrder.
Import ListNotations.
Local Open Scope N_scope.

Definition yy_slots (build : bool) (noisy : bool) (D : list fev) : list xslot :=
  map (fun e => {| x_pre := if noisy && (eid (fe e) mod 16 =? 3) then [OpR; OpB xx_spec; OpV] else [];
                   x_ev := e; x_build := build;
                   x_mid := if noisy && (eid (fe e) mod 16 =? 7) then [OpR] else [] |}) D.
Definition yy_Ss : list (list xslot * list op) :=
  [(yy_slots true true (xx_sh 1000 ex_D), [OpR]); (yy_slots true true (xx_sh 3000 ex_D), []); (yy_slots true true (xx_sh 5000 ex_D), [OpV])].
Definition yy_Ss' : list (list xslot * list op) :=
  [(yy_slots false false (xx_sh 1000 ex_D'), []); (yy_slots false false (xx_sh 3000 ex_D'), []); (yy_slots false false (xx_sh 5000 ex_D'), [])].

Example yy_ok : epochs_ok_x xx_pol 400 ex_vals 1 yy_Ss.
Proof. apply (epochs_ok_xb_ok xx_pol 400 xx_pol_ok). vm_compute. reflexivity. Qed.
Lemma yy_ev b n D : map x_ev (yy_slots b n D) = D.
Proof. unfold yy_slots. rewrite map_map. cbn [x_ev]. apply map_id. Qed.
Lemma yy_free D : forall s, In s (yy_slots false false D) -> x_pre s = [] /\ x_mid s = [].
Proof. intros s Hs. unfold yy_slots in Hs. apply in_map_iff in Hs as [e [<- _]]. split; reflexivity. Qed.

Example yy_same_sets : same_sets_x xx_pol ex_vals 1 yy_Ss yy_Ss'.
Proof.
  assert (EQ : forall k, all_accepted ex_vals (xx_sh k ex_D) -> True) by auto.
  unfold yy_Ss, yy_Ss'. cbn [same_sets_x fst snd]. rewrite ?(yy_ev true true), ?(yy_ev false false).
  split; [apply codes_ok_dec; vm_compute; reflexivity|].
  split; [apply (incl_dec fev_eqb fev_eqb_eq); vm_compute; reflexivity|].
  split; [apply (incl_dec fev_eqb fev_eqb_eq); vm_compute; reflexivity|].
  split; [apply nodup_dec; vm_compute; reflexivity|]. split; [apply parents_first_dec; vm_compute; reflexivity|].
  split; [split; [apply yy_free | reflexivity]|].
  replace (snd (ref_x 1 ex_vals (praw xx_pol 1) [] (yy_slots true true (xx_sh 1000 ex_D)) [OpR])) with (Some xx_vals2) by (vm_compute; reflexivity).
  cbn [same_sets_x fst snd]. rewrite ?(yy_ev true true), ?(yy_ev false false).
  split; [apply codes_ok_dec; vm_compute; reflexivity|].
  split; [apply (incl_dec fev_eqb fev_eqb_eq); vm_compute; reflexivity|].
  split; [apply (incl_dec fev_eqb fev_eqb_eq); vm_compute; reflexivity|].
  split; [apply nodup_dec; vm_compute; reflexivity|]. split; [apply parents_first_dec; vm_compute; reflexivity|].
  split; [split; [apply yy_free | reflexivity]|].
  replace (snd (ref_x (1 + 1) xx_vals2 (praw xx_pol (1 + 1)) [] (yy_slots true true (xx_sh 3000 ex_D)) [])) with (Some ex_vals) by (vm_compute; reflexivity).
  cbn [same_sets_x fst snd]. rewrite ?(yy_ev true true), ?(yy_ev false false).
  split; [apply codes_ok_dec; vm_compute; reflexivity|].
  split; [apply (incl_dec fev_eqb fev_eqb_eq); vm_compute; reflexivity|].
  split; [apply (incl_dec fev_eqb fev_eqb_eq); vm_compute; reflexivity|].
  split; [apply nodup_dec; vm_compute; reflexivity|]. split; [apply parents_first_dec; vm_compute; reflexivity|].
  split; [split; [apply yy_free | reflexivity]|].
  replace (snd (ref_x (1 + 1 + 1) ex_vals (praw xx_pol (1 + 1 + 1)) [] (yy_slots true true (xx_sh 5000 ex_D)) [OpV])) with (@None (list (N * N))) by (vm_compute; reflexivity).
  reflexivity.
Qed.
Example yy_differ : map (fun Sx => map x_ev (fst Sx)) yy_Ss <> map (fun Sx => map x_ev (fst Sx)) yy_Ss'.
Proof. vm_compute. discriminate. Qed.

Example yy_agreement :
  map epoch_out (model_epochs_x 3 xx_lam xx_pol (start 1 ex_vals) ex_vals 1 yy_Ss') =
  map epoch_out (model_epochs_x 3 xx_lam xx_pol (start 1 ex_vals) ex_vals 1 yy_Ss).
Proof.
  apply (link_x_same_sets 3 xx_lam xx_pol ex_vals yy_Ss yy_Ss' 400); [discriminate | exact yy_ok | exact yy_same_sets | | |]; vm_compute; try discriminate; reflexivity.
Qed.
Example yy_out :
  map epoch_out (model_epochs_x 3 xx_lam xx_pol (start 1 ex_vals) ex_vals 1 yy_Ss') =
  [ ([(1, 1000, [], None); (2, 1015, [37094], Some (mk_vals xx_vals2))], Some (mk_vals xx_vals2));
    ([(1, 3002, [], Some (mk_vals ex_vals))], Some (mk_vals ex_vals));
    ([(1, 5000, [], None); (2, 5015, [37094], None)], None) ].
Proof. vm_compute. reflexivity. Qed.
