(* C19: ChooseParents is well-formed for all oracles (map-order shuffles, strategies) that answer an
   index in range; MetricStrategy picks an option of maximal metric.
   Proofs over model/Ancestor.v against spec/AncestorSpec.v. *)
From Coq Require Import NArith PeanoNat List Bool Lia Permutation.
From LV Require Import model.Ancestor spec.AncestorSpec.
Import ListNotations.
Local Open Scope N_scope.

(* ------------------------------------------------------------------ the oracles *)
Definition valid (st : strategy) : Prop :=
  (forall s, Permutation (shuf st s) s) /\
  (forall ps cur, cur <> [] -> (choose st ps cur < length cur)%nat).

(* ------------------------------------------------------------------ set operations *)
Lemma mem_In x l : mem x l = true <-> In x l.
Proof.
  unfold mem. rewrite existsb_exists. split.
  - intros [y [Hy He]]. apply N.eqb_eq in He. subst. exact Hy.
  - intros H. exists x. split; [exact H | apply N.eqb_refl].
Qed.

Lemma uniq_In x l : In x (uniq l) <-> In x l.
Proof.
  induction l as [|a l IH]; cbn [uniq]; [tauto|].
  destruct (mem a l) eqn:E.
  - rewrite IH. apply mem_In in E. cbn. split; [tauto|]. intros [->|H]; assumption.
  - cbn. rewrite IH. tauto.
Qed.

Lemma uniq_NoDup l : NoDup (uniq l).
Proof.
  induction l as [|a l IH]; cbn [uniq]; [constructor|].
  destruct (mem a l) eqn:E; [exact IH|]. constructor; [|exact IH].
  rewrite uniq_In. intro H. apply mem_In in H. congruence.
Qed.

Lemma erase_In x y s : In x (erase y s) <-> In x s /\ x <> y.
Proof.
  unfold erase. rewrite filter_In, negb_true_iff, N.eqb_neq. tauto.
Qed.

Lemma erase_NoDup y s : NoDup s -> NoDup (erase y s).
Proof. intros H. unfold erase. apply NoDup_filter. exact H. Qed.

Lemma initial_In x existing : forall s0,
  In x (fold_left (fun s p => erase p s) existing s0) <-> In x s0 /\ ~ In x existing.
Proof.
  induction existing as [|p ex IH]; intros s0; cbn [fold_left].
  - cbn. tauto.
  - rewrite IH, erase_In. cbn. split.
    + intros [[H1 H2] H3]. split; [exact H1|]. intros [H|H]; [congruence | contradiction].
    + intros [H1 H2]. split; [split; [exact H1|]|]; intro H; apply H2; [left; congruence | right; exact H].
Qed.

Lemma initial_NoDup existing : forall s0,
  NoDup s0 -> NoDup (fold_left (fun s p => erase p s) existing s0).
Proof.
  induction existing as [|p ex IH]; intros s0 H; cbn [fold_left]; [exact H|].
  apply IH. apply erase_NoDup. exact H.
Qed.

Lemma initial_set_In x existing options :
  In x (initial_set existing options) <-> In x options /\ ~ In x existing.
Proof. unfold initial_set. rewrite initial_In, uniq_In. tauto. Qed.

Lemma initial_set_NoDup existing options : NoDup (initial_set existing options).
Proof. apply initial_NoDup. apply uniq_NoDup. Qed.

(* ------------------------------------------------------------------ the loop *)
Lemma loop_spec : forall strats parents s log,
  Forall valid strats -> NoDup s ->
  exists added,
    snd (loop strats parents s log) = Done (parents ++ added) /\
    (length added <= length strats)%nat /\
    NoDup added /\
    (forall x, In x added -> In x s) /\
    ((length added < length strats)%nat -> forall x, In x s -> In x added).
Proof.
  induction strats as [|st rest IH]; intros parents s log Hv Hnd.
  - exists []. cbn. rewrite app_nil_r. repeat split; try constructor; try tauto; lia.
  - inversion Hv as [|? ? [Hperm Hidx] Hv']; subst.
    destruct s as [|a s'].
    + exists []. cbn. rewrite app_nil_r. repeat split; try constructor; try tauto; try lia.
    + cbn [loop]. assert (Es : a :: s' <> []) by discriminate. set (s := a :: s') in *.
      set (cur := shuf st s). set (best := choose st parents cur).
      assert (Hcur : cur <> []).
      { intro Hc. pose proof (Permutation_length (Hperm s)) as Hl. fold cur in Hl.
        rewrite Hc in Hl. cbn in Hl. destruct s; [congruence | discriminate]. }
      pose proof (Hidx parents cur Hcur) as Hb. fold best in Hb.
      destruct (nth_error cur best) as [b|] eqn:En.
      2:{ apply nth_error_None in En. lia. }
      assert (Hbs : In b s).
      { apply (Permutation_in _ (Hperm s)). fold cur. eapply nth_error_In. exact En. }
      destruct (IH (parents ++ [b]) (erase b s) ((parents, cur, best) :: log) Hv' (erase_NoDup b s Hnd))
        as [added' [Hres [Hlen [Hnd' [Hsub Hex]]]]].
      exists (b :: added'). split; [|split; [|split; [|split]]].
      * rewrite Hres, <- app_assoc. reflexivity.
      * cbn. lia.
      * constructor; [|exact Hnd']. intro Hin. apply Hsub in Hin. apply erase_In in Hin. tauto.
      * intros x [<-|Hin]; [exact Hbs|]. apply Hsub in Hin. apply erase_In in Hin. tauto.
      * intros Hlt x Hx. cbn in Hlt. destruct (N.eq_dec x b) as [->|Hne]; [left; reflexivity|].
        right. apply Hex; [lia|]. apply erase_In. split; assumption.
Qed.

Lemma skipn_app_exact (A : Type) (l1 l2 : list A) : skipn (length l1) (l1 ++ l2) = l2.
Proof. induction l1 as [|a l1 IH]; cbn; [reflexivity | exact IH]. Qed.

Theorem choose_parents_wf : forall existing options strats,
  Forall valid strats ->
  exists result, choose_parents existing options strats = Done result /\
                 wf_result existing options (length strats) result.
Proof.
  intros existing options strats Hv.
  destruct (loop_spec strats existing (initial_set existing options) [] Hv
              (initial_set_NoDup existing options)) as [ad [Hres [Hlen [Hnd [Hsub Hex]]]]].
  exists (existing ++ ad). split; [exact Hres|].
  unfold wf_result, added, offered. rewrite skipn_app_exact.
  split; [reflexivity|]. split; [exact Hlen|]. split; [exact Hnd|]. split.
  - intros x Hx. apply Hsub in Hx. apply initial_set_In in Hx. exact Hx.
  - intros Hlt x Hx. apply Hex; [exact Hlt|]. apply initial_set_In. exact Hx.
Qed.

Lemma NoDup_app_iff_local (A : Type) (l1 l2 : list A) :
  NoDup l1 -> NoDup l2 -> (forall x, In x l1 -> In x l2 -> False) -> NoDup (l1 ++ l2).
Proof.
  induction l1 as [|a l1 IH]; intros H1 H2 Hd; [exact H2|].
  inversion H1 as [|? ? Hn H1']; subst. cbn. constructor.
  - intro Hin. apply in_app_or in Hin. destruct Hin as [Hin|Hin]; [contradiction|].
    apply (Hd a); [left; reflexivity | exact Hin].
  - apply IH; [exact H1' | exact H2|]. intros x Hx. apply Hd. right. exact Hx.
Qed.

Theorem choose_parents_nodup : forall existing options strats result,
  Forall valid strats -> NoDup existing ->
  choose_parents existing options strats = Done result -> NoDup result.
Proof.
  intros existing options strats result Hv Hnd Hres.
  destruct (choose_parents_wf existing options strats Hv) as [r [Hr [Heq [_ [Hnda [Hoff _]]]]]].
  rewrite Hr in Hres. inversion Hres; subst r. rewrite Heq.
  apply NoDup_app_iff_local; [exact Hnd | exact Hnda|].
  intros x Hx Hin. apply Hoff in Hin. destruct Hin as [_ Hin]. contradiction.
Qed.

Theorem choose_parents_no_panic : forall existing options strats ps,
  Forall valid strats -> choose_parents existing options strats <> PanicIndex ps.
Proof.
  intros existing options strats ps Hv H.
  destruct (choose_parents_wf existing options strats Hv) as [r [Hr _]]. congruence.
Qed.

(* the boolean verdict of the driver is the Prop *)
Lemma memb_In x l : memb x l = true <-> In x l.
Proof. exact (mem_In x l). Qed.

Lemma nodupb_spec l : nodupb l = true <-> NoDup l.
Proof.
  induction l as [|a l IH]; cbn [nodupb].
  - split; [constructor | reflexivity].
  - rewrite andb_true_iff, negb_true_iff, IH. split.
    + intros [H1 H2]. constructor; [|exact H2]. intro Hin. apply memb_In in Hin. congruence.
    + intros H. inversion H; subst. split; [|assumption].
      destruct (memb a l) eqn:E; [|reflexivity]. apply memb_In in E. contradiction.
Qed.

Theorem wf_result_b_spec : forall existing options nstrat result,
  wf_result_b existing options nstrat result = true <-> wf_result existing options nstrat result.
Proof.
  intros existing options nstrat result. unfold wf_result_b, wf_result, offered.
  set (ad := added existing result).
  rewrite !andb_true_iff, Nat.eqb_eq, Nat.leb_le, nodupb_spec, forallb_forall.
  split.
  - intros [[[[[H1 H2] H3] H4] H5] H6].
    destruct (list_eq_dec N.eq_dec (firstn (length existing) result) existing) as [E|E]; [|discriminate].
    split.
    { unfold ad, added. rewrite <- E at 1. symmetry. apply firstn_skipn. }
    split; [exact H3|]. split; [exact H4|]. split.
    + intros x Hx. specialize (H5 x Hx). rewrite andb_true_iff, negb_true_iff in H5.
      destruct H5 as [Ha Hb]. split; [apply memb_In; exact Ha|].
      intro Hin. apply memb_In in Hin. congruence.
    + intros Hlt x [Hx1 Hx2]. apply Nat.ltb_lt in Hlt. rewrite Hlt in H6.
      rewrite forallb_forall in H6. specialize (H6 x Hx1). rewrite orb_true_iff, !memb_In in H6.
      tauto.
  - intros [H1 [H2 [H3 [H4 H5]]]].
    assert (E : firstn (length existing) result = existing).
    { rewrite H1. rewrite firstn_app, Nat.sub_diag, firstn_all. cbn. apply app_nil_r. }
    destruct (list_eq_dec N.eq_dec (firstn (length existing) result) existing) as [_|E']; [|contradiction].
    repeat split; try assumption.
    + rewrite H1 at 1. apply app_length.
    + intros x Hx. specialize (H4 x Hx). rewrite andb_true_iff, negb_true_iff. split.
      * apply memb_In. tauto.
      * destruct (memb x existing) eqn:Em; [|reflexivity]. apply memb_In in Em. tauto.
    + destruct (Nat.ltb (length ad) nstrat) eqn:El; [|reflexivity].
      apply Nat.ltb_lt in El. rewrite forallb_forall. intros x Hx.
      rewrite orb_true_iff, !memb_In.
      destruct (in_dec N.eq_dec x existing) as [Hi|Hi]; [left; exact Hi|].
      right. apply H5; [exact El | split; assumption].
Qed.

(* ------------------------------------------------------------------ MetricStrategy *)
Section Metric.
  Variable metric : N -> N.

  Definition minv (pre : list N) (mi : nat) (mw : N) : Prop :=
    (pre = [] /\ mi = 0%nat /\ mw = 0) \/
    (exists o, nth_error pre mi = Some o /\ metric o = mw /\ forall x, In x pre -> metric x <= mw).

  Lemma metric_fold_inv : forall l pre mi mw,
    minv pre mi mw ->
    let r := fold_left (metric_step metric) l (mi, mw, length pre) in
    minv (pre ++ l) (fst (fst r)) (snd (fst r)).
  Proof.
    induction l as [|a l IH]; intros pre mi mw Hinv.
    - cbn. rewrite app_nil_r. exact Hinv.
    - cbn [fold_left].
      assert (Hstep : metric_step metric (mi, mw, length pre) a =
                      if (mw =? 0) || (mw <? metric a) then (length pre, metric a, S (length pre))
                      else (mi, mw, S (length pre))) by reflexivity.
      rewrite Hstep. clear Hstep.
      replace (pre ++ a :: l) with ((pre ++ [a]) ++ l) by (rewrite <- app_assoc; reflexivity).
      assert (Hlen : S (length pre) = length (pre ++ [a])) by (rewrite app_length; cbn; lia).
      destruct ((mw =? 0) || (mw <? metric a)) eqn:Ec.
      + rewrite Hlen. apply IH. right. exists a. split; [|split; [reflexivity|]].
        * rewrite nth_error_app2 by lia. rewrite Nat.sub_diag. reflexivity.
        * intros x Hx. apply in_app_or in Hx. destruct Hx as [Hx|[<-|[]]]; [|lia].
          destruct Hinv as [[-> _]|[o [_ [_ Hall]]]]; [contradiction|].
          specialize (Hall x Hx). apply orb_true_iff in Ec. destruct Ec as [Ec|Ec].
          -- apply N.eqb_eq in Ec. lia.
          -- apply N.ltb_lt in Ec. lia.
      + rewrite Hlen. apply IH. apply orb_false_iff in Ec. destruct Ec as [E1 E2].
        apply N.eqb_neq in E1. apply N.ltb_ge in E2.
        destruct Hinv as [[_ [_ ->]]|[o [Hn [Hm Hall]]]]; [contradiction|].
        right. exists o. split; [|split; [exact Hm|]].
        * rewrite nth_error_app1; [exact Hn|]. apply nth_error_Some. congruence.
        * intros x Hx. apply in_app_or in Hx. destruct Hx as [Hx|[<-|[]]]; [apply Hall; exact Hx | lia].
  Qed.

  Theorem metric_choose_maximal : forall opts, opts <> [] ->
    maximal metric opts (metric_choose metric opts).
  Proof.
    intros opts Hne. unfold metric_choose, maximal.
    pose proof (metric_fold_inv opts [] 0%nat 0 (or_introl (conj eq_refl (conj eq_refl eq_refl)))) as H.
    cbn [app length] in H. cbv zeta in H.
    destruct H as [[H _]|[o [Hn [Hm Hall]]]]; [contradiction|].
    exists o. split; [exact Hn|]. intros x Hx. rewrite Hm. exact (Hall x Hx).
  Qed.

  Theorem metric_choose_in_range : forall opts, opts <> [] ->
    (metric_choose metric opts < length opts)%nat.
  Proof.
    intros opts Hne. destruct (metric_choose_maximal opts Hne) as [o [Hn _]].
    apply nth_error_Some. congruence.
  Qed.
End Metric.

Theorem maximal_b_spec : forall metric opts i, maximal_b metric opts i = true <-> maximal metric opts i.
Proof.
  intros metric opts i. unfold maximal_b, maximal. destruct (nth_error opts i) as [o|].
  - rewrite forallb_forall. split.
    + intros H. exists o. split; [reflexivity|]. intros x Hx. apply N.leb_le. apply H. exact Hx.
    + intros [o' [Ho H]]. inversion Ho; subst o'. intros x Hx. apply N.leb_le. apply H. exact Hx.
  - split; [discriminate|]. intros [o [Ho _]]. discriminate.
Qed.

(* the real MetricStrategy is a valid oracle whatever the map order is *)
Theorem metric_strategy_valid : forall sh metric,
  (forall s, Permutation (sh s) s) -> valid (metric_strategy sh metric).
Proof.
  intros sh metric Hsh. split; [exact Hsh|]. intros ps cur Hne. cbn.
  apply metric_choose_in_range. exact Hne.
Qed.

(* ------------------------------------------------------------------ MetricCache is a memoiser:
   over a metric function that does not change, with ANY eviction policy that only drops entries
   (any capacity, LRU / FIFO / anything), every look-up returns f id. *)
Definition mc_sound (f : N -> N) (c : mcache) : Prop := forall id m, In (id, m) c -> m = f id.
Definition drops_only (evict : mcache -> mcache) : Prop := forall c p, In p (evict c) -> In p c.

Lemma mc_lookup_In : forall id c m, mc_lookup id c = Some m -> In (id, m) c.
Proof.
  induction c as [|[k v] r IH]; intros m H; [discriminate|]. cbn in H.
  destruct (N.eqb_spec k id) as [->|Hne].
  - inversion H; subst. left. reflexivity.
  - right. apply IH. exact H.
Qed.

Lemma memo_step_sound : forall f evict c id, mc_sound f c -> drops_only evict ->
  fst (memo_step f evict c id) = f id /\ mc_sound f (snd (memo_step f evict c id)).
Proof.
  intros f evict c id Hs Hd. unfold memo_step. destruct (mc_lookup id c) as [m|] eqn:E.
  - split; [cbn; apply Hs; apply mc_lookup_In; exact E | exact Hs].
  - split; [reflexivity|]. cbn. intros k v [H|H].
    + inversion H; subst. reflexivity.
    + apply Hs. apply Hd. exact H.
Qed.

Theorem memo_run_is_f : forall f evict ids c, mc_sound f c -> drops_only evict ->
  fst (memo_run f evict c ids) = map f ids /\ mc_sound f (snd (memo_run f evict c ids)).
Proof.
  intros f evict. induction ids as [|id r IH]; intros c Hs Hd; [split; [reflexivity | exact Hs]|].
  cbn [memo_run map]. destruct (memo_step_sound f evict c id Hs Hd) as [H1 H2].
  destruct (memo_step f evict c id) as [m c'] eqn:E1. cbn in H1, H2.
  destruct (IH c' H2 Hd) as [H3 H4]. destruct (memo_run f evict c' r) as [ms c''] eqn:E2.
  cbn in *. split; [rewrite H1, H3; reflexivity | exact H4].
Qed.
