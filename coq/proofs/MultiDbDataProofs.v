(* C26 — data isolation at run level and the end-to-end restart theorem. *)
From Coq Require Import NArith List Bool Lia Permutation.
From LV Require Import lib.Bytes lib.BytesFacts model.MultiDb spec.MultiDbSpec proofs.MultiDbProofs.
Import ListNotations.
Local Open Scope N_scope.

(* ------------------------------------------------------------------ raw data and the abstract map *)
Lemma assoc_put_eq k v m : assoc k (put_kv k v m) = Some v.
Proof.
  induction m as [|[k' v'] t IH]; cbn; [rewrite bytes_eqb_refl; auto|].
  destruct (bytes_eqb k' k) eqn:E; cbn; [rewrite bytes_eqb_refl; auto|rewrite E; auto].
Qed.
Lemma assoc_put_neq k k1 v m : k <> k1 -> assoc k1 (put_kv k v m) = assoc k1 m.
Proof.
  intros H. induction m as [|[k' v'] t IH]; cbn; [rewrite bytes_eqb_neq; auto|].
  destruct (bytes_eqb k' k) eqn:E; cbn.
  - apply bytes_eqb_eq in E; subst. rewrite !bytes_eqb_neq; auto.
  - destruct (bytes_eqb k' k1); auto.
Qed.

Lemma akey_eqb_eq a b : akey_eqb a b = true <-> a = b.
Proof.
  destruct a as [[l r] k], b as [[l' r'] k']. unfold akey_eqb; cbn.
  rewrite !andb_true_iff, loc_eqb_eq, !bytes_eqb_eq. split.
  - intros [[-> ->] ->]; auto.
  - intros E; inversion E; auto.
Qed.
Lemma aget_aput_eq k v m : aget k (aput k v m) = Some v.
Proof. cbn. rewrite (proj2 (akey_eqb_eq k k) eq_refl). reflexivity. Qed.
Lemma aget_aput_neq k k1 v m : k <> k1 -> aget k1 (aput k v m) = aget k1 m.
Proof.
  intros H. cbn. destruct (akey_eqb k k1) eqn:E; auto. apply akey_eqb_eq in E. contradiction.
Qed.
Lemma aget_adrop_same l r k m : aget (l, r, k) (adrop l m) = None.
Proof.
  unfold adrop. induction m as [|[[[l' r'] k'] v] t IH]; cbn [filter fst snd]; auto.
  destruct (loc_eqb l' l) eqn:E; cbn [negb aget]; auto.
  unfold akey_eqb; cbn [fst snd]. rewrite E. cbn [andb]. exact IH.
Qed.
Lemma aget_adrop_other l l1 r k m : l <> l1 -> aget (l1, r, k) (adrop l m) = aget (l1, r, k) m.
Proof.
  intros H. unfold adrop. induction m as [|[[[l' r'] k'] v] t IH]; cbn [filter fst snd]; auto.
  destruct (loc_eqb l' l) eqn:E; cbn [negb aget].
  - apply loc_eqb_eq in E; subst l'. unfold akey_eqb; cbn [fst snd]. rewrite (loc_eqb_neq _ _ H). cbn [andb]. exact IH.
  - rewrite IH. reflexivity.
Qed.

Lemma get_del_same l dbs : get_db l (del_db l dbs) = None.
Proof.
  induction dbs as [|[l' d] t IH]; cbn; auto.
  destruct (loc_eqb l' l) eqn:E; cbn; auto. rewrite E. exact IH.
Qed.
Lemma get_del_other l l1 dbs : l <> l1 -> get_db l1 (del_db l dbs) = get_db l1 dbs.
Proof.
  intros H. induction dbs as [|[l' d] t IH]; cbn; auto.
  destruct (loc_eqb l' l) eqn:E; cbn.
  - apply loc_eqb_eq in E; subst. rewrite (loc_eqb_neq _ _ H). exact IH.
  - destruct (loc_eqb l' l1); auto.
Qed.

(* ------------------------------------------------------------------ the simulation relation *)
Definition recorded (d : dbstate) (req : str) : Prop := exists tbl, In (req, tbl) (d_records d).

Record rel (dbs : list (dbloc * dbstate)) (a : amap) : Prop := mkRel {
  rel_wf : dbs_wf dbs;
  rel_data : forall l d req tbl k, get_db l dbs = Some d -> In (req, tbl) (d_records d) ->
             assoc (tbl ++ k) (d_data d) = aget (l, req, k) a;
  rel_owned : forall l d key v, get_db l dbs = Some d -> assoc key (d_data d) = Some v ->
              exists req tbl k, In (req, tbl) (d_records d) /\ key = tbl ++ k;
  rel_none : forall l req k, (forall d, get_db l dbs = Some d -> ~ recorded d req) ->
             aget (l, req, k) a = None
}.

Lemma rel_init : rel [] [].
Proof.
  constructor.
  - intros l d G; discriminate.
  - intros l d req tbl k G; discriminate.
  - intros l d key v G; discriminate.
  - reflexivity.
Qed.

Section Data.
  Variable orc : str -> str -> str -> option str.

  (* OpenDB does not disturb the relation (it may create an empty database or append a record) *)
  Lemma open_rel p dbs a req dbs' r :
    rel dbs a -> open_db orc p dbs req = (dbs', r) -> rel dbs' a.
  Proof.
    intros [W Da Ow No] Ho. pose proof (open_db_wf orc _ _ _ _ _ W Ho) as W'.
    unfold open_db in Ho. destruct (route_of orc p req) as [rt|]; [|inversion Ho; subst; constructor; auto].
    destruct (mem_str (r_type rt) (p_avail p)); [|inversion Ho; subst; constructor; auto].
    set (l0 := (r_type rt, r_name rt)) in *.
    (* the database after the open: same data, records possibly extended by (req, table) *)
    assert (Same : forall d0, (match get_db l0 dbs with Some d => d | None => empty_db end) = d0 ->
                   dbs' = set_db l0 d0 dbs -> rel dbs' a).
    { intros d0 Ed E. subst dbs'. constructor; auto.
      - intros l d rq tbl k G Hin. destruct (loc_eqb l0 l) eqn:El.
        + apply loc_eqb_eq in El; subst l. rewrite get_set_eq in G. inversion G; subst d.
          destruct (get_db l0 dbs) as [d1|] eqn:G1; subst d0; [eapply Da; eauto|destruct Hin].
        + rewrite get_set_neq in G; [eapply Da; eauto|]. intros ->. rewrite loc_eqb_refl in El; discriminate.
      - intros l d key v G Hv. destruct (loc_eqb l0 l) eqn:El.
        + apply loc_eqb_eq in El; subst l. rewrite get_set_eq in G. inversion G; subst d.
          destruct (get_db l0 dbs) as [d1|] eqn:G1; subst d0; [eapply Ow; eauto|discriminate].
        + rewrite get_set_neq in G; [eapply Ow; eauto|]. intros ->. rewrite loc_eqb_refl in El; discriminate.
      - intros l rq k H. apply No. intros d G. apply H.
        destruct (loc_eqb l0 l) eqn:El.
        + apply loc_eqb_eq in El; subst l. rewrite get_set_eq. rewrite G in Ed. subst d0. reflexivity.
        + rewrite get_set_neq; auto. intros ->. rewrite loc_eqb_refl in El; discriminate. }
    set (d := match get_db l0 dbs with Some d => d | None => empty_db end) in *.
    destruct (handle_loop (d_records d) req (r_table rt)) eqn:Eh; inversion Ho; subst; clear Ho;
      try (apply (Same d eq_refl eq_refl)).
    (* a record is appended *)
    pose proof (handle_append _ _ _ Eh) as Happ.
    constructor; auto.
    - intros l d1 rq tbl k G Hin. destruct (loc_eqb l0 l) eqn:El.
      + apply loc_eqb_eq in El; subst l. rewrite get_set_eq in G. inversion G; subst d1. cbn [d_records d_data] in Hin |- *.
        apply in_app_iff in Hin. destruct Hin as [Hin|[X|[]]].
        * unfold d in *. destruct (get_db l0 dbs) as [d2|] eqn:G2; [eapply Da; eauto|destruct Hin].
        * inversion X; subst rq tbl.
          (* the new table: nothing is stored under it, and the request was not recorded *)
          assert (Nrec : forall d2, get_db l0 dbs = Some d2 -> ~ recorded d2 req).
          { intros d2 G2 [tb Htb]. unfold d in Happ. rewrite G2 in Happ.
            destruct (Happ _ Htb) as [X1 _]. apply X1. reflexivity. }
          transitivity (@None str); [|symmetry; exact (No l0 req k Nrec)].
          destruct (assoc (r_table rt ++ k) (d_data d)) as [v|] eqn:Ea; auto. exfalso.
          unfold d in *. destruct (get_db l0 dbs) as [d2|] eqn:G2; [|discriminate].
          destruct (Ow _ _ _ _ G2 Ea) as [rq' [tb' [k' [Hin' Ek]]]].
          destruct (Happ _ Hin') as [_ Hc]. cbn in Hc.
          apply (conflicting_false_disjoint _ _ Hc k' k). symmetry. exact Ek.
      + rewrite get_set_neq in G; [eapply Da; eauto|]. intros ->. rewrite loc_eqb_refl in El; discriminate.
    - intros l d1 key v G Hv. destruct (loc_eqb l0 l) eqn:El.
      + apply loc_eqb_eq in El; subst l. rewrite get_set_eq in G. inversion G; subst d1. cbn [d_records d_data] in Hv |- *.
        unfold d in *. destruct (get_db l0 dbs) as [d2|] eqn:G2; [|discriminate].
        destruct (Ow _ _ _ _ G2 Hv) as [rq' [tb' [k' [Hin' Ek]]]]. exists rq', tb', k'. split; auto.
        apply in_app_iff; auto.
      + rewrite get_set_neq in G; [eapply Ow; eauto|]. intros ->. rewrite loc_eqb_refl in El; discriminate.
    - intros l rq k H. apply No. intros d1 G [tb Htb]. 
      destruct (loc_eqb l0 l) eqn:El.
      + apply loc_eqb_eq in El; subst l. apply (H _ (get_set_eq _ _ _)). exists tb. cbn.
        unfold d. rewrite G. apply in_app_iff; auto.
      + apply (H d1); [|exists tb; auto]. rewrite get_set_neq; auto. intros ->. rewrite loc_eqb_refl in El; discriminate.
  Qed.
End Data.

Section DataRun.
  Variable orc : str -> str -> str -> option str.
  Variable newp : list str -> list (str * route) -> option producer.
  Variable avail : list str.

  Lemma put_rel dbs a req k v rt d :
    rel dbs a -> get_db (r_type rt, r_name rt) dbs = Some d -> In (req, r_table rt) (d_records d) ->
    rel (set_db (r_type rt, r_name rt) (mkDb (d_records d) (put_kv (r_table rt ++ k) v (d_data d))) dbs)
        (aput ((r_type rt, r_name rt), req, k) v a).
  Proof.
    intros [W Da Ow No] G Hin. set (l0 := (r_type rt, r_name rt)) in *.
    constructor.
    - apply dbs_wf_set_records; auto. cbn. eapply W; eauto.
    - intros l d1 rq tbl k1 G1 Hin1. destruct (loc_eqb l0 l) eqn:El.
      + apply loc_eqb_eq in El; subst l. rewrite get_set_eq in G1. inversion G1; subst d1.
        cbn [d_records d_data] in Hin1 |- *.
        destruct (W _ _ G (rq, tbl) (req, r_table rt) Hin1 Hin) as [Wa Wb]. cbn [fst snd] in Wa, Wb.
        destruct (bytes_eqb rq req) eqn:Er.
        * apply bytes_eqb_eq in Er. specialize (Wa Er). inversion Wa; subst rq tbl.
          destruct (bytes_eqb k k1) eqn:Ek.
          -- apply bytes_eqb_eq in Ek; subst k1. rewrite assoc_put_eq. symmetry. apply aget_aput_eq.
          -- apply bytes_eqb_false in Ek. rewrite assoc_put_neq, aget_aput_neq.
             ++ eapply Da; eauto.
             ++ intros X; inversion X; contradiction.
             ++ intros X. apply app_inv_head in X. contradiction.
        * apply bytes_eqb_false in Er. rewrite assoc_put_neq, aget_aput_neq.
          -- eapply Da; eauto.
          -- intros X; inversion X; subst; contradiction.
          -- intros X. apply (conflicting_false_disjoint _ _ (Wb Er) k1 k). symmetry; exact X.
      + assert (Hl : l0 <> l) by (intros ->; rewrite loc_eqb_refl in El; discriminate).
        rewrite get_set_neq in G1; auto. rewrite aget_aput_neq; [eapply Da; eauto|].
        intros X; inversion X; subst. contradiction.
    - intros l d1 key v1 G1 Hv. destruct (loc_eqb l0 l) eqn:El.
      + apply loc_eqb_eq in El; subst l. rewrite get_set_eq in G1. inversion G1; subst d1.
        cbn [d_records d_data] in Hv |- *.
        destruct (bytes_eqb (r_table rt ++ k) key) eqn:Ek.
        * apply bytes_eqb_eq in Ek; subst key. exists req, (r_table rt), k. auto.
        * apply bytes_eqb_false in Ek. rewrite assoc_put_neq in Hv; auto. all: try (eapply Ow; eauto).
      + rewrite get_set_neq in G1; [eapply Ow; eauto|]. intros ->. rewrite loc_eqb_refl in El; discriminate.
    - intros l rq k1 H. destruct (akey_eqb (l0, req, k) (l, rq, k1)) eqn:E.
      + apply akey_eqb_eq in E. inversion E; subst l rq k1. exfalso.
        apply (H _ (get_set_eq _ _ _)). exists (r_table rt). exact Hin.
      + cbn [aput aget]. rewrite E. apply No. intros d1 G1 [tb Htb].
        destruct (loc_eqb l0 l) eqn:El.
        * apply loc_eqb_eq in El; subst l. apply (H _ (get_set_eq _ _ _)). exists tb. cbn.
          rewrite G in G1. inversion G1; subst d1. exact Htb.
        * apply (H d1); [|exists tb; auto]. rewrite get_set_neq; auto.
          intros ->. rewrite loc_eqb_refl in El; discriminate.
  Qed.

  Lemma drop_rel dbs a l : rel dbs a -> rel (del_db l dbs) (adrop l a).
  Proof.
    intros [W Da Ow No]. constructor.
    - intros l1 d G. apply get_del in G. eapply W; eauto.
    - intros l1 d rq tbl k G Hin. destruct (loc_eqb l l1) eqn:El.
      + apply loc_eqb_eq in El; subst l1. rewrite get_del_same in G. discriminate.
      + assert (Hl : l <> l1) by (intros ->; rewrite loc_eqb_refl in El; discriminate).
        rewrite get_del_other in G; auto. rewrite aget_adrop_other; auto. all: try (eapply Da; eauto).
    - intros l1 d key v G Hv. apply get_del in G. eapply Ow; eauto.
    - intros l1 rq k H. destruct (loc_eqb l l1) eqn:El.
      + apply loc_eqb_eq in El; subst l1. apply aget_adrop_same.
      + assert (Hl : l <> l1) by (intros ->; rewrite loc_eqb_refl in El; discriminate).
        rewrite aget_adrop_other; auto. all: try (apply No; intros d G; apply H; rewrite get_del_other; auto).
  Qed.

  Lemma step_rel st a o :
    rel (s_dbs st) a ->
    step orc newp avail st o = (fst (fst (ref_step orc newp avail (st, a) o)), snd (ref_step orc newp avail (st, a) o)) /\
    rel (s_dbs (fst (fst (ref_step orc newp avail (st, a) o)))) (snd (fst (ref_step orc newp avail (st, a) o))).
  Proof.
    intros R. unfold ref_step. destruct o; cbn [step].
    - destruct (newp avail tbl); cbn; auto.
    - destruct (s_prod st); cbn; auto.
    - destruct (s_prod st) as [p|]; cbn; auto.
      destruct (open_db orc p (s_dbs st) req) as [dbs r] eqn:E. cbn. split; auto. eapply open_rel; eauto.
    - destruct (s_prod st) as [p|]; cbn; auto.
      destruct (open_db orc p (s_dbs st) req) as [dbs r] eqn:E.
      pose proof (open_rel orc _ _ _ _ _ _ R E) as R1.
      destruct r; cbn; auto. destruct (r_nodrop rt); cbn; auto. split; auto. apply drop_rel; auto.
    - destruct (s_prod st) as [p|]; cbn; auto.
      destruct (open_db orc p (s_dbs st) req) as [dbs r] eqn:E.
      pose proof (open_rel orc _ _ _ _ _ _ R E) as R1.
      destruct r; cbn; auto. split; auto.
      destruct (open_db_ok orc _ _ _ _ _ E) as [_ [_ [d [G Hin]]]]. rewrite G.
      apply put_rel; auto.
    - destruct (s_prod st) as [p|]; cbn; auto.
      destruct (open_db orc p (s_dbs st) req) as [dbs r] eqn:E.
      pose proof (open_rel orc _ _ _ _ _ _ R E) as R1.
      destruct r; cbn; auto. split; auto.
      destruct (open_db_ok orc _ _ _ _ _ E) as [_ [_ [d [G Hin]]]]. rewrite G.
      f_equal. f_equal. destruct R1 as [_ Da _ _]. eapply Da; eauto.
    - destruct (s_prod st); cbn; auto.
  Qed.

  Lemma run_rel ops : forall st a, rel (s_dbs st) a ->
    ref_run_from orc newp avail (st, a) ops = run orc newp avail st ops.
  Proof.
    induction ops as [|o rest IH]; intros st a R; cbn [ref_run_from run]; auto.
    destruct (step_rel st a o R) as [E R'].
    destruct (ref_step orc newp avail (st, a) o) as [[st' a'] b]. cbn [fst snd] in *.
    rewrite E. f_equal. apply IH; auto.
  Qed.

  Theorem data_isolation ops : run orc newp avail init_state ops = ref_run orc newp avail ops.
  Proof. symmetry. apply run_rel. apply rel_init. Qed.
End DataRun.

(* ------------------------------------------------------------------ restart, end to end *)
Lemma get_db_in l d dbs : get_db l dbs = Some d -> In (l, d) dbs.
Proof.
  induction dbs as [|[l' d'] t IH]; cbn; [discriminate|].
  destruct (loc_eqb l' l) eqn:E; auto. apply loc_eqb_eq in E; subst. intros H; inversion H; auto.
Qed.
Lemma in_set_db l d dbs x : In x (set_db l d dbs) -> x = (l, d) \/ In x dbs.
Proof.
  induction dbs as [|[l' d'] t IH]; cbn; [intuition|].
  destruct (loc_eqb l' l); cbn; intuition.
Qed.
Lemma in_del_db l dbs x : In x (del_db l dbs) -> In x dbs.
Proof.
  induction dbs as [|[l' d'] t IH]; cbn; auto.
  destruct (loc_eqb l' l); cbn; intuition.
Qed.

Definition is_new (o : op) : bool := match o with ONew _ => true | _ => false end.

Section Restart.
  Variable orc : str -> str -> str -> option str.
  Variable cok : str -> str -> bool.
  Variable avail : list str.

  Lemma new_producer_avail t p : new_producer cok avail t = Some p -> p_avail p = avail.
  Proof.
    unfold new_producer. destruct (assoc [] t); [|discriminate].
    destruct (forallb (compiles cok) (filter (fun e => negb (is_exact e)) t)); [|discriminate].
    intros H; inversion H; reflexivity.
  Qed.

  (* every record was made by an open that the producer p routes to that database and table *)
  Definition recp (p : producer) (dbs : list (dbloc * dbstate)) : Prop :=
    forall l d req tbl, In (l, d) dbs -> In (req, tbl) (d_records d) ->
      exists rt, route_of orc p req = Some rt /\ (r_type rt, r_name rt) = l /\ r_table rt = tbl /\
                 mem_str (r_type rt) (p_avail p) = true.

  Lemma open_recp p dbs req dbs' r : recp p dbs -> open_db orc p dbs req = (dbs', r) -> recp p dbs'.
  Proof.
    intros Rp. unfold open_db. destruct (route_of orc p req) as [rt|] eqn:Er; [|intros H; inversion H; subst; auto].
    destruct (mem_str (r_type rt) (p_avail p)) eqn:Em; [|intros H; inversion H; subst; auto].
    set (l0 := (r_type rt, r_name rt)).
    assert (Old : forall rq tb, In (rq, tb) (d_records (match get_db l0 dbs with Some d => d | None => empty_db end)) ->
              exists rt', route_of orc p rq = Some rt' /\ (r_type rt', r_name rt') = l0 /\ r_table rt' = tb /\
                          mem_str (r_type rt') (p_avail p) = true).
    { intros rq tb Hin. destruct (get_db l0 dbs) as [d|] eqn:G; [|destruct Hin].
      eapply Rp; eauto. apply get_db_in; auto. }
    set (d := match get_db l0 dbs with Some d => d | None => empty_db end) in *.
    destruct (handle_loop (d_records d) req (r_table rt)); intros H; inversion H; subst; clear H;
      intros l d1 rq tb Hin Hr; apply in_set_db in Hin; destruct Hin as [X|X];
      try (eapply Rp; eauto; fail); inversion X; subst l d1; try (apply Old; auto; fail).
    cbn in Hr. apply in_app_iff in Hr. destruct Hr as [Hr|[Y|[]]]; [apply Old; auto|].
    inversion Y; subst rq tb. exists rt. auto.
  Qed.

  Lemma step_recp p st o :
    s_prod st = Some p -> is_new o = false -> recp p (s_dbs st) ->
    s_prod (fst (step orc (new_producer cok) avail st o)) = Some p /\
    recp p (s_dbs (fst (step orc (new_producer cok) avail st o))).
  Proof.
    intros Hp Hn Rp. destruct o; try discriminate; cbn [step]; rewrite Hp; cbn; auto.
    - destruct (open_db orc p (s_dbs st) req) as [dbs r] eqn:E. cbn. split; auto. eapply open_recp; eauto.
    - destruct (open_db orc p (s_dbs st) req) as [dbs r] eqn:E.
      pose proof (open_recp _ _ _ _ _ Rp E) as R1. destruct r; cbn; auto.
      destruct (r_nodrop rt); cbn; auto. split; auto.
      intros l d rq tb Hin Hr. apply in_del_db in Hin. eapply R1; eauto.
    - destruct (open_db orc p (s_dbs st) req) as [dbs r] eqn:E.
      pose proof (open_recp _ _ _ _ _ Rp E) as R1. destruct r; cbn; auto. split; auto.
      intros l d rq tb Hin Hr. apply in_set_db in Hin. destruct Hin as [X|X]; [|eapply R1; eauto].
      inversion X; subst l d. cbn in Hr.
      destruct (get_db (r_type rt, r_name rt) dbs) as [d0|] eqn:G; [|destruct Hr].
      eapply R1; eauto. apply get_db_in; auto.
    - destruct (open_db orc p (s_dbs st) req) as [dbs r] eqn:E.
      pose proof (open_recp _ _ _ _ _ Rp E) as R1. destruct r; cbn; auto.
  Qed.

  Lemma exec_recp p ops : forall st,
    s_prod st = Some p -> forallb (fun o => negb (is_new o)) ops = true -> recp p (s_dbs st) ->
    s_prod (exec orc (new_producer cok) avail st ops) = Some p /\
    recp p (s_dbs (exec orc (new_producer cok) avail st ops)).
  Proof.
    induction ops as [|o rest IH]; intros st Hp Hn Rp; cbn [exec]; auto.
    cbn in Hn. apply andb_true_iff in Hn. destruct Hn as [H1 H2]. apply negb_true_iff in H1.
    destruct (step_recp p st o Hp H1 Rp) as [Hp' Rp']. apply IH; auto.
  Qed.

  Lemma exec_app ops1 ops2 st :
    exec orc (new_producer cok) avail st (ops1 ++ ops2) =
    exec orc (new_producer cok) avail (exec orc (new_producer cok) avail st ops1) ops2.
  Proof. revert st; induction ops1 as [|o t IH]; intros st; cbn; auto. Qed.

  (* A session under routing table t1, then a restart with the same table in another map order t2:
     the new producer verifies, and every request recorded in any database is re-opened
     successfully into the same database and table without changing anything. *)
  Theorem restart_end_to_end t1 t2 p1 ops1 :
    Permutation t1 t2 -> NoDup (map fst t1) -> new_producer cok avail t1 = Some p1 ->
    forallb (fun o => negb (is_new o)) ops1 = true ->
    let st := exec orc (new_producer cok) avail init_state (ONew t1 :: ops1 ++ [ONew t2]) in
    exists p2, s_prod st = Some p2 /\ new_producer cok avail t2 = Some p2 /\
      verify orc p2 (s_dbs st) = true /\
      forall l d req tbl, get_db l (s_dbs st) = Some d -> In (req, tbl) (d_records d) ->
        exists rt dbs', open_db orc p2 (s_dbs st) req = (dbs', OOk rt) /\
                        (r_type rt, r_name rt) = l /\ r_table rt = tbl /\
                        forall l', get_db l' dbs' = get_db l' (s_dbs st).
  Proof.
    intros P ND E1 Hn. cbn zeta.
    pose proof (reachable_wf orc (new_producer cok) avail (ONew t1 :: ops1 ++ [ONew t2])) as Wf.
    cbn [exec step] in *. rewrite E1 in *. cbn [fst] in *.
    rewrite exec_app in *.
    set (st0 := mkState (Some p1) (s_dbs init_state)) in *.
    destruct (exec_recp p1 ops1 st0 eq_refl Hn) as [Hp1 Rp1].
    { intros l d req tbl []. }
    set (st1 := exec orc (new_producer cok) avail st0 ops1) in *.
    pose proof (route_deterministic orc cok avail t1 t2 P ND) as RD. rewrite E1 in RD.
    destruct (new_producer cok avail t2) as [p2|] eqn:E2; [|contradiction].
    cbn [exec step] in *. rewrite E2 in *. cbn [fst s_prod s_dbs] in *.
    assert (Av : p_avail p2 = p_avail p1).
    { rewrite (new_producer_avail _ _ E1), (new_producer_avail _ _ E2). reflexivity. }
    exists p2. split; [reflexivity|]. split; [reflexivity|]. split.
    - apply verify_iff. intros l d r Hin Hr. destruct r as [req tbl].
      destruct (Rp1 l d req tbl Hin Hr) as [rt [R1 [R2 [R3 _]]]].
      exists rt. cbn [fst snd]. rewrite <- RD. inversion R2; subst. auto.
    - intros l d req tbl G Hr.
      destruct (Rp1 l d req tbl (get_db_in _ _ _ G) Hr) as [rt [R1 [R2 [R3 R4]]]].
      destruct (reopen_same orc p2 (s_dbs st1) req rt d Wf) as [dbs' [Ho Hg]]; auto.
      + rewrite <- RD; auto.
      + rewrite Av; auto.
      + rewrite R2; auto.
      + rewrite R3; auto.
      + exists rt, dbs'. auto.
  Qed.
End Restart.
