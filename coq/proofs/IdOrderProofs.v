(* C32: byte-wise order of event ids.  Less is a strict total order on all byte strings; on ids
   built from (epoch, lamport, tail) with uint32 epoch and lamport it is the (epoch, lamport, tail)
   order, so sorting ids by Less is sorting by epoch, then Lamport time, then tail. *)
From Coq Require Import NArith List Lia Bool Permutation Sorted.
From LV Require Import lib.Bytes lib.BytesFacts model.Codec model.IdOrder proofs.CodecProofs.
Import ListNotations.
Local Open Scope N_scope.

Lemma less_ids_lt a b : less_ids a b = true <-> lex_compare a b = Lt.
Proof. unfold less_ids, lex_ltb. destruct (lex_compare a b); split; congruence. Qed.

Lemma less_irrefl a : less_ids a a = false.
Proof. unfold less_ids, lex_ltb. rewrite lex_compare_refl. reflexivity. Qed.

Lemma less_trans a b c : less_ids a b = true -> less_ids b c = true -> less_ids a c = true.
Proof. rewrite !less_ids_lt. apply lex_lt_trans. Qed.

Lemma less_asym a b : less_ids a b = true -> less_ids b a = false.
Proof.
  intros H. apply less_ids_lt in H. unfold less_ids, lex_ltb. rewrite (lex_compare_antisym a b), H. reflexivity.
Qed.

Lemma less_total a b : a <> b -> less_ids a b = true \/ less_ids b a = true.
Proof.
  intros H. rewrite !less_ids_lt. destruct (lex_compare a b) eqn:E.
  - exfalso. apply H. apply lex_compare_eq. exact E.
  - left. reflexivity.
  - right. rewrite (lex_compare_antisym a b), E. reflexivity.
Qed.

(* on built ids Less is the triple order *)
Definition in_range (t : N * N * list N) : Prop := fst (fst t) < pow256 4 /\ snd (fst t) < pow256 4.

Lemma less_mk_id a b : in_range a -> in_range b -> less_ids (mk_id a) (mk_id b) = tless a b.
Proof.
  intros [Ha1 Ha2] [Hb1 Hb2]. destruct a as [[e1 l1] t1], b as [[e2 l2] t2]. cbn [fst snd] in *.
  unfold less_ids, lex_ltb, tless, mk_id. cbn [fst snd]. rewrite event_id_order by assumption. reflexivity.
Qed.

(* ---- sorting ---- *)
Definition ile (a b : list N) : Prop := less_ids a b = true \/ a = b.

Lemma ile_trans a b c : ile a b -> ile b c -> ile a c.
Proof.
  intros [H1|H1] [H2|H2]; subst; try (left; assumption); try (right; reflexivity).
  left. eapply less_trans; eassumption.
Qed.
Lemma ile_antisym a b : ile a b -> ile b a -> a = b.
Proof. intros [H1|H1] [H2|H2]; try congruence. apply less_asym in H1. congruence. Qed.
Lemma not_less_ile a b : less_ids a b = false -> ile b a.
Proof.
  intros H. destruct (list_eq_dec N.eq_dec a b) as [E|E]; [right; congruence|].
  left. destruct (less_total a b E); congruence.
Qed.

Lemma id_insert_perm x l : Permutation (id_insert x l) (x :: l).
Proof.
  induction l as [|y r IH]; cbn [id_insert]; [apply Permutation_refl|].
  destruct (less_ids y x); [|apply Permutation_refl].
  eapply Permutation_trans; [apply perm_skip; exact IH|apply perm_swap].
Qed.
Lemma id_sort_perm l : Permutation (id_sort l) l.
Proof.
  induction l as [|x l IH]; cbn [id_sort fold_right]; [constructor|].
  eapply Permutation_trans; [apply id_insert_perm|]. apply perm_skip. exact IH.
Qed.

Lemma id_insert_hdrel y x r : HdRel ile y r -> ile y x -> HdRel ile y (id_insert x r).
Proof.
  intros H1 H2. destruct r as [|z r]; cbn [id_insert]; [constructor; exact H2|].
  destruct (less_ids z x); constructor; [inversion H1; assumption|exact H2].
Qed.
Lemma id_insert_sorted x l : Sorted ile l -> Sorted ile (id_insert x l).
Proof.
  induction l as [|y r IH]; cbn [id_insert]; intros H; [repeat constructor|].
  inversion H as [|? ? Hs Hh]; subst. destruct (less_ids y x) eqn:E.
  - constructor; [apply IH; exact Hs|]. apply id_insert_hdrel; [exact Hh|left; exact E].
  - constructor; [exact H|]. constructor. apply not_less_ile. exact E.
Qed.
Lemma id_sort_sorted l : StronglySorted ile (id_sort l).
Proof.
  apply Sorted_StronglySorted; [intros a b c; apply ile_trans|].
  induction l as [|x l IH]; cbn [id_sort fold_right]; [constructor|]. apply id_insert_sorted. exact IH.
Qed.

(* whatever correct sort sort.Sort is, its result is the model's *)
Lemma id_sorted_unique l1 l2 :
  StronglySorted ile l1 -> StronglySorted ile l2 -> Permutation l1 l2 -> l1 = l2.
Proof.
  revert l2. induction l1 as [|a l1 IH]; intros l2 H1 H2 HP.
  - apply Permutation_nil in HP. symmetry. exact HP.
  - destruct l2 as [|b l2]; [apply Permutation_sym, Permutation_nil in HP; discriminate|].
    inversion H1 as [|? ? Hs1 Hf1]; subst. inversion H2 as [|? ? Hs2 Hf2]; subst.
    assert (Hab : a = b).
    { apply ile_antisym.
      - assert (Hin : In b (a :: l1)) by (apply (Permutation_in b (Permutation_sym HP)); left; reflexivity).
        destruct Hin as [E|Hin]; [subst; right; reflexivity|]. rewrite Forall_forall in Hf1. apply Hf1. exact Hin.
      - assert (Hin : In a (b :: l2)) by (apply (Permutation_in a HP); left; reflexivity).
        destruct Hin as [E|Hin]; [subst; right; reflexivity|]. rewrite Forall_forall in Hf2. apply Hf2. exact Hin. }
    subst b. f_equal. apply IH; [exact Hs1|exact Hs2|]. apply Permutation_cons_inv with (a := a). exact HP.
Qed.
Lemma id_sort_unique l l' : Permutation l' l -> StronglySorted ile l' -> l' = id_sort l.
Proof.
  intros HP HS. apply id_sorted_unique; [exact HS|apply id_sort_sorted|].
  eapply Permutation_trans; [exact HP|apply Permutation_sym, id_sort_perm].
Qed.

(* sorting built ids by Less = sorting the triples by (epoch, lamport, tail) *)
Lemma tinsert_range x l : in_range x -> Forall in_range l -> Forall in_range (tinsert x l).
Proof.
  intros Hx Hl. induction Hl as [|y r Hy Hr IH]; cbn [tinsert]; [constructor; [exact Hx|constructor]|].
  destruct (tless y x); [constructor; assumption|constructor; [exact Hx|constructor; assumption]].
Qed.
Lemma id_insert_mk x l : in_range x -> Forall in_range l ->
  id_insert (mk_id x) (map mk_id l) = map mk_id (tinsert x l).
Proof.
  intros Hx Hl. induction Hl as [|y r Hy Hr IH]; cbn [map id_insert tinsert]; [reflexivity|].
  rewrite (less_mk_id y x Hy Hx). destruct (tless y x); cbn [map]; [rewrite IH|]; reflexivity.
Qed.
Lemma tsort_range l : Forall in_range l -> Forall in_range (tsort l).
Proof.
  induction 1 as [|x l Hx Hl IH]; cbn [tsort fold_right]; [constructor|]. apply tinsert_range; assumption.
Qed.
Theorem id_sort_is_triple_sort ts : Forall in_range ts -> id_sort (map mk_id ts) = map mk_id (tsort ts).
Proof.
  induction 1 as [|x l Hx Hl IH]; cbn [map id_sort tsort fold_right]; [reflexivity|].
  fold (id_sort (map mk_id l)). fold (tsort l). rewrite IH. apply id_insert_mk; [exact Hx|apply tsort_range; exact Hl].
Qed.

(* and the triple sort is sorted in the sense of the executable check *)
Lemma tless_total_or a b : tless a b = false -> tless b a = true \/ triple_compare a b = Eq.
Proof.
  unfold tless. destruct a as [[e1 l1] t1], b as [[e2 l2] t2]. cbn [triple_compare].
  rewrite (N.compare_antisym e1 e2), (N.compare_antisym l1 l2), (lex_compare_antisym t1 t2).
  destruct (e1 ?= e2), (l1 ?= l2), (lex_compare t1 t2); cbn; intros H; try discriminate; auto.
Qed.

Lemma triple_compare_antisym a b : triple_compare b a = CompOpp (triple_compare a b).
Proof.
  destruct a as [[e1 l1] t1], b as [[e2 l2] t2]. cbn [triple_compare].
  rewrite (N.compare_antisym e1 e2), (N.compare_antisym l1 l2), (lex_compare_antisym t1 t2).
  destruct (e1 ?= e2), (l1 ?= l2), (lex_compare t1 t2); reflexivity.
Qed.
Lemma tless_asym a b : tless a b = true -> tless b a = false.
Proof. unfold tless. rewrite (triple_compare_antisym a b). destruct (triple_compare a b); cbn; congruence. Qed.

Lemma triples_sorted_cons a b r : triples_sorted (a :: b :: r) = negb (tless b a) && triples_sorted (b :: r).
Proof. reflexivity. Qed.

Lemma tinsert_sorted x l : triples_sorted l = true -> triples_sorted (tinsert x l) = true.
Proof.
  induction l as [|y r IH]; intros H; [reflexivity|]. cbn [tinsert]. destruct (tless y x) eqn:E.
  - destruct r as [|z r].
    + cbn [tinsert]. rewrite triples_sorted_cons, (tless_asym y x E). reflexivity.
    + rewrite triples_sorted_cons in H. apply andb_true_iff in H. destruct H as [H1 H2].
      specialize (IH H2). cbn [tinsert] in *. destruct (tless z x).
      * rewrite triples_sorted_cons, H1. exact IH.
      * rewrite triples_sorted_cons, (tless_asym y x E). exact IH.
  - rewrite triples_sorted_cons, E. exact H.
Qed.
Theorem tsort_sorted l : triples_sorted (tsort l) = true.
Proof. induction l as [|x l IH]; [reflexivity|]. cbn [tsort fold_right]. apply tinsert_sorted. exact IH. Qed.
