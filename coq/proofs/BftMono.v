(* (iii) Monotonicity: decisions reached on an observation-closed sub-DAG persist on every
   super-DAG in which decisions are unique; hence blocks_spec of the sub-DAG is a prefix of
   blocks_spec of the super-DAG, and two closed subsets of one DAG agree on a common prefix.
   Abstract in the event type; the hypotheses on the super-DAG (uniqueness of decisions and of
   the voted root) are the theorems of proofs/BftCore.v. *)
From Coq Require Import List Arith NArith Bool Lia ZArith.
From Coq Require Import ZifyBool ZifyNat ZifyN.
From LV Require Import model.VecIndex lib.WSumBft spec.ElectionSpec proofs.BftCore proofs.BftElection.
Import ListNotations.
Open Scope N_scope.

Definition prefix {A} (l1 l2 : list A) : Prop := exists t, l2 = l1 ++ t.

Lemma prefix_nil {A} (l : list A) : prefix [] l.
Proof. exists l. reflexivity. Qed.
Lemma prefix_cons {A} (x : A) l1 l2 : prefix l1 l2 -> prefix (x :: l1) (x :: l2).
Proof. intros [t ->]. exists t. reflexivity. Qed.
Lemma prefix_refl {A} (l : list A) : prefix l l.
Proof. exists []. rewrite app_nil_r. reflexivity. Qed.

(* two prefixes of one list are comparable *)
Lemma prefix_comparable {A} (a b l : list A) : prefix a l -> prefix b l -> prefix a b \/ prefix b a.
Proof.
  revert b l. induction a as [|x a IH]; intros b l Ha Hb; [left; apply prefix_nil|].
  destruct b as [|y b]; [right; apply prefix_nil|].
  destruct Ha as [ta ->]. destruct Hb as [tb Hb]. cbn [app] in Hb. injection Hb as <- Hb.
  destruct (IH b (a ++ ta)) as [H|H]; [exists ta; reflexivity | exists tb; exact Hb | |].
  - left. apply prefix_cons. exact H.
  - right. apply prefix_cons. exact H.
Qed.

Lemma by_cr_set_ext {X} (cr : X -> nat) (l1 l2 : list X) (P Q : X -> bool) u :
  (forall x, In x l1 <-> In x l2) -> (forall x, In x l1 -> P x = Q x) ->
  by_cr X cr l1 P u = by_cr X cr l2 Q u.
Proof.
  intros Hl HP. unfold by_cr.
  destruct (existsb (fun r => Nat.eqb (cr r) u && P r) l1) eqn:E1.
  - apply existsb_exists in E1 as [x [Hx Hp]]. symmetry. apply existsb_exists. exists x.
    split; [apply Hl; exact Hx|]. rewrite <- (HP x Hx). exact Hp.
  - destruct (existsb (fun r => Nat.eqb (cr r) u && Q r) l2) eqn:E2; [|reflexivity].
    apply existsb_exists in E2 as [x [Hx Hp]]. apply Hl in Hx.
    assert (existsb (fun r => Nat.eqb (cr r) u && P r) l1 = true).
    { apply existsb_exists. exists x. split; [exact Hx|]. rewrite (HP x Hx). exact Hp. }
    congruence.
Qed.

Lemma max_frame_acc {X} (fr : X -> N) (l : list X) : forall m, m <= fold_left (fun m e => N.max m (fr e)) l m.
Proof. induction l as [|h t IH]; intros m; cbn [fold_left]; [lia|]. etransitivity; [|apply IH]. lia. Qed.
Lemma max_frame_ge {X} (fr : X -> N) (l : list X) : forall m e, In e l -> fr e <= fold_left (fun m e => N.max m (fr e)) l m.
Proof.
  induction l as [|h t IH]; intros m e [].
  - subst h. cbn [fold_left]. etransitivity; [|apply max_frame_acc]. lia.
  - cbn [fold_left]. apply IH. exact H.
Qed.
Lemma max_frame_le {X} (fr : X -> N) (l : list X) M : forall m, m <= M -> (forall e, In e l -> fr e <= M) ->
  fold_left (fun m e => N.max m (fr e)) l m <= M.
Proof.
  induction l as [|h t IH]; intros m Hm H; cbn [fold_left]; [exact Hm|].
  apply IH; [|intros e He; apply H; right; exact He]. specialize (H h (or_introl eq_refl)). lia.
Qed.

Section Mono.
Variable X : Type.
Variables (xid : X -> N) (cr : X -> nat) (fr spf : X -> N).
Variable fc : X -> X -> bool.
Variables (ws : list N) (q : N).
Variable order : list nat.
Variables evs1 evs2 : list X.
Notation nv := (length ws).

Hypothesis Hsub : forall x, In x evs1 -> In x evs2.
Hypothesis Hclosed : forall a b, In a evs1 -> In b evs2 -> fc a b = true -> In b evs1.
Hypothesis xid_inj : forall x y, In x evs2 -> In y evs2 -> xid x = xid y -> x = y.
Hypothesis Horder : forall u, In u order -> (u < nv)%nat.
(* what the BFT core gives on the larger DAG *)
Hypothesis Huniq2 : forall f0 k1 r1 k2 r2 u b1 b2,
  decides X cr fr spf fc ws q evs2 f0 k1 r1 u b1 -> decides X cr fr spf fc ws q evs2 f0 k2 r2 u b2 -> b1 = b2.
Hypothesis Hvroot2 : forall f0 a1 a2 r1 r2, In r1 evs2 -> In r2 evs2 ->
  In a1 (roots_at X fr spf evs2 f0) -> In a2 (roots_at X fr spf evs2 f0) -> cr a1 = cr a2 ->
  fc r1 a1 = true -> fc r2 a2 = true -> a1 = a2.

Lemma roots_sub f r : In r (roots_at X fr spf evs1 f) -> In r (roots_at X fr spf evs2 f).
Proof. unfold roots_at. intros H. apply filter_In in H as [H1 H2]. apply filter_In. split; [apply Hsub; exact H1|exact H2]. Qed.

Lemma obs_equiv r f x : In r evs1 -> (In x (obs X fr spf fc evs1 r f) <-> In x (obs X fr spf fc evs2 r f)).
Proof.
  intros Hr. unfold obs. split; intros H; apply filter_In in H as [H1 H2]; apply filter_In; (split; [|exact H2]).
  - apply roots_sub. exact H1.
  - unfold roots_at in *. apply filter_In in H1 as [H1 H3]. apply filter_In. split; [|exact H3].
    eapply Hclosed; eauto.
Qed.

Lemma obs_in1 r f x : In x (obs X fr spf fc evs1 r f) -> In x evs1.
Proof. unfold obs, roots_at. intros H. apply filter_In in H as [H _]. apply filter_In in H as [H _]. exact H. Qed.

(* votes are functions of the observed sub-DAG *)
Lemma vote_mono f0 k : forall r v, In r evs1 ->
  vote X cr fr spf fc ws evs1 f0 k r v = vote X cr fr spf fc ws evs2 f0 k r v.
Proof.
  induction k as [|k IH]; intros r v Hr; [reflexivity|].
  destruct k as [|k].
  - change (vote X cr fr spf fc ws evs1 f0 1 r v) with (by_cr X cr (obs X fr spf fc evs1 r f0) (fun _ : X => true) v).
    change (vote X cr fr spf fc ws evs2 f0 1 r v) with (by_cr X cr (obs X fr spf fc evs2 r f0) (fun _ : X => true) v).
    apply by_cr_set_ext; [intros x; apply obs_equiv; exact Hr|reflexivity].
  - change (vote X cr fr spf fc ws evs1 f0 (S (S k)) r v) with
      (wsP ws (by_cr X cr (obs X fr spf fc evs1 r (f0 + N.of_nat (S k))) (fun r' => negb (vote X cr fr spf fc ws evs1 f0 (S k) r' v)))
       <=? wsP ws (by_cr X cr (obs X fr spf fc evs1 r (f0 + N.of_nat (S k))) (fun r' => vote X cr fr spf fc ws evs1 f0 (S k) r' v))).
    change (vote X cr fr spf fc ws evs2 f0 (S (S k)) r v) with
      (wsP ws (by_cr X cr (obs X fr spf fc evs2 r (f0 + N.of_nat (S k))) (fun r' => negb (vote X cr fr spf fc ws evs2 f0 (S k) r' v)))
       <=? wsP ws (by_cr X cr (obs X fr spf fc evs2 r (f0 + N.of_nat (S k))) (fun r' => vote X cr fr spf fc ws evs2 f0 (S k) r' v))).
    f_equal; apply wsP_ext; intros u _; apply by_cr_set_ext;
      try (intros x; apply obs_equiv; exact Hr);
      intros x Hx; rewrite (IH x v (obs_in1 _ _ _ Hx)); reflexivity.
Qed.

Lemma decides_mono f0 k r v b :
  decides X cr fr spf fc ws q evs1 f0 k r v b -> decides X cr fr spf fc ws q evs2 f0 k r v b.
Proof.
  intros [Hk [Hr Hq]]. split; [exact Hk|]. split; [apply roots_sub; exact Hr|].
  assert (Hr1 : In r evs1) by (eapply roots_in; exact Hr).
  assert (E : forall neg : bool, wsP ws (by_cr X cr (obs X fr spf fc evs1 r (f0 + N.of_nat k))
                 (fun r' => (if neg then negb else fun b0 : bool => b0) (vote X cr fr spf fc ws evs1 f0 k r' v)))
              = wsP ws (by_cr X cr (obs X fr spf fc evs2 r (f0 + N.of_nat k))
                 (fun r' => (if neg then negb else fun b0 : bool => b0) (vote X cr fr spf fc ws evs2 f0 k r' v)))).
  { intros neg. apply wsP_ext; intros u _; apply by_cr_set_ext; [intros x; apply obs_equiv; exact Hr1|].
    intros x Hx. rewrite (vote_mono f0 k x v (obs_in1 _ _ _ Hx)). reflexivity. }
  unfold yesV, noV in *. destruct b.
  - rewrite <- (E false). exact Hq.
  - rewrite <- (E true). exact Hq.
Qed.

Lemma decide_mono f0 m1 m2 a : (forall e, In e evs2 -> fr e <= m2) ->
  decide X xid cr fr spf fc ws q order evs1 f0 m1 = Atropos a ->
  decide X xid cr fr spf fc ws q order evs2 f0 m2 = Atropos a.
Proof.
  intros Hm2 H.
  assert (xid_inj1 : forall x y, In x evs1 -> In y evs1 -> xid x = xid y -> x = y) by (intros; apply xid_inj; auto).
  destruct (decide_sound X xid cr fr spf fc ws q order evs1 f0 xid_inj1 m1 a H)
    as [pre [v [post [x [Ho [Hpre [Hv [Hx Ha]]]]]]]].
  (* the voted root is the same in the larger DAG *)
  unfold voted_root in Hx. apply find_some in Hx as [Hx1 Hx2].
  apply andb_prop in Hx2 as [Hc Hx2]. apply existsb_exists in Hx2 as [r [Hr Hfc]].
  destruct (voted_root X cr fr spf fc evs2 f0 v) as [x2|] eqn:Ex2.
  - pose proof Ex2 as Ex2'. unfold voted_root in Ex2'. apply find_some in Ex2' as [Hy1 Hy2].
    apply andb_prop in Hy2 as [Hc2 Hy2]. apply existsb_exists in Hy2 as [r2 [Hr2 Hfc2]].
    apply Nat.eqb_eq in Hc, Hc2.
    assert (x = x2).
    { eapply (Hvroot2 f0 x x2 r r2); eauto using roots_sub.
      - apply Hsub. eapply roots_in. exact Hr.
      - eapply roots_in. exact Hr2.
      - congruence. }
    subst x2. rewrite <- Ha.
    eapply decide_complete; eauto.
    + intros u Hu. apply Horder. rewrite Ho. apply in_app_or in Hu as [Hu|[<-|[]]]; apply in_or_app; [left; exact Hu|right; left; reflexivity].
    + intros u Hu. destruct (Hpre u Hu) as [k [r' Hd]]. exists k, r'. apply decides_mono. exact Hd.
    + destruct Hv as [k [r' Hd]]. exists k, r'. apply decides_mono. exact Hd.
  - exfalso. unfold voted_root in Ex2. eapply find_none in Ex2; [|apply roots_sub; exact Hx1].
    rewrite Hc in Ex2. cbn [andb] in Ex2.
    assert (existsb (fun r0 => fc r0 x) (roots_at X fr spf evs2 (f0 + 1)) = true).
    { apply existsb_exists. exists r. split; [apply roots_sub; exact Hr|exact Hfc]. }
    congruence.
Qed.

Lemma max_frame_mono : max_frame X fr evs1 <= max_frame X fr evs2.
Proof.
  unfold max_frame. apply max_frame_le; [lia|]. intros e He. apply max_frame_ge. apply Hsub. exact He.
Qed.

Lemma blocks_from_prefix n1 : forall n2 f, (n1 <= n2)%nat ->
  prefix (blocks_from X xid cr fr spf fc ws q order evs1 n1 f) (blocks_from X xid cr fr spf fc ws q order evs2 n2 f).
Proof.
  induction n1 as [|n1 IH]; intros n2 f Hn; [apply prefix_nil|].
  destruct n2 as [|n2]; [lia|]. cbn [blocks_from].
  destruct (decide X xid cr fr spf fc ws q order evs1 f (max_frame X fr evs1)) eqn:E; try apply prefix_nil.
  rewrite (decide_mono f (max_frame X fr evs1) (max_frame X fr evs2) a); [|intros e He; apply max_frame_ge; exact He|exact E].
  apply prefix_cons. apply IH. lia.
Qed.

(* prefix agreement: the blocks of the closed subset are an initial segment of the blocks of the whole *)
Theorem blocks_spec_prefix :
  prefix (blocks_spec X xid cr fr spf fc ws q order evs1) (blocks_spec X xid cr fr spf fc ws q order evs2).
Proof.
  unfold blocks_spec. apply blocks_from_prefix. pose proof max_frame_mono. lia.
Qed.
End Mono.
