(* Instances for LinkDeliver: the hypotheses of deliver_step hold at genesis; on the 48-event run the two
   blocks deliver exactly the reference's ancestry of their Atropos minus what the earlier block delivered
   (checked by evaluation: 1 and 15 events). *)
From Coq Require Import NArith List Bool Lia.
From LV Require Import model.VecIndex model.Abft model.AbftRun spec.ElectionSpec
  proofs.AbftDfs proofs.AbftClosedInv
  proofs.BftGraph proofs.BftRun proofs.BftMain proofs.BftAccept proofs.BftProps
  proofs.LinkVals proofs.LinkDefs proofs.LinkStep proofs.LinkRun proofs.LinkExample proofs.LinkFresh proofs.LinkDeliver proofs.LinkDeliverRun.
Import ListNotations.
Local Open Scope N_scope.

Definition dx_blocks : list block :=
  blocks_in (run 3 [] sample (start 1 ex2_vals) (abft_ops 1 (fun _ => 0) ex2_vals ex2_D)).
Definition subset_b (l1 l2 : list N) : bool := forallb (fun x => AbftRun.mem x l2) l1.
(* graph side: ancestry of the Atropos in the reference's table, minus what is delivered already *)
Fixpoint dx_check (T : list node) (seen : list N) (bl : list block) : bool :=
  match bl with
  | [] => true
  | b :: t =>
    match nlookup (b_atropos b) T with
    | None => false
    | Some a =>
      let want := filter (fun x => negb (AbftRun.mem x seen)) (nd_anc a) in
      subset_b want (b_delivered b) && subset_b (b_delivered b) want && (Nat.eqb (length want) (length (b_delivered b))) &&
      dx_check T (b_delivered b ++ seen) t
    end
  end.
Example dx_delivered_is_new_ancestry :
  map (fun b => (b_frame b, b_atropos b, length (b_delivered b))) dx_blocks = [(1, 1000, 1%nat); (2, 1015, 15%nat)] /\
  dx_check (table ex2_vals ex2_D) [] dx_blocks = true.
Proof. vm_compute. split; reflexivity. Qed.

(* the hypotheses of deliver_step at genesis, first event of the run *)
Example dx_hyps :
  Sim 1 (fun _ => 0) ex2_vals (fun _ => False) 48 (start 1 ex2_vals) [] [] [] /\ AbftClosedInv.K (start 1 ex2_vals).
Proof.
  split; [|apply start_K].
  apply (Sim_start 1 (fun _ => 0) ex2_vals ex2_vals_ok (fun _ => False) 48 (fun a (F : False) => match F with end)). vm_compute. lia.
Qed.

(* the run-level theorem on the 48-event run *)
Example dx_fresh : forall e, In e ex2_D -> id_fresh 48 (eid (fe e)).
Proof. intros e He. apply fresh_b_ok. revert e He. apply Forall_forall. vm_compute. repeat constructor. Qed.
Example dx_run_delivers : delivered_graph (table ex2_vals ex2_D) (fun _ => False) dx_blocks.
Proof.
  unfold dx_blocks.
  refine (run_delivers 3 (fun _ => 0) ex2_vals ex2_vals_ok 48 ex2_D ex2_valid dx_fresh _ _); [vm_compute; discriminate | vm_compute; reflexivity].
Qed.
