(* C02: the stack DFS of Lachesis.confirmEvents / Orderer.dfsSubgraph that stops at confirmed
   events visits exactly the not-yet-confirmed ancestry of the Atropos, each event once, provided
   the confirmed marks are ancestor-closed -- and leaves them ancestor-closed. *)
From Coq Require Import NArith ZArith List Lia Bool ZifyBool ZifyN ZifyNat.
From LV Require Import model.VecIndex model.Abft.
Import ListNotations.
Local Open Scope N_scope.

(* ancestors-or-self in the event store: reflexive-transitive closure of "is a parent of" *)
Inductive reach (es : estore) (a : N) : N -> Prop :=
| reach_refl : reach es a a
| reach_step y ev p : reach es a y -> get_event es y = Some ev -> In p (a_parents ev) -> reach es a p.

Definition marked (conf : list (N * N)) (x : N) : Prop := conf_get conf x <> 0.
Definition closed (es : estore) (conf : list (N * N)) : Prop :=
  forall w ev p, marked conf w -> get_event es w = Some ev -> In p (a_parents ev) -> marked conf p.

Lemma conf_get_aput w f conf x : conf_get (aput w f conf) x = if x =? w then f else conf_get conf x.
Proof. unfold conf_get, aput. cbn [alookup]. destruct (x =? w); reflexivity. Qed.

Section Dfs.
Variable es : estore.
Variable frame : N.
Hypothesis frame_pos : frame <> 0.
Variable C0 : list (N * N).
Hypothesis C0_closed : closed es C0.
Variable atr : N.

Record inv (stack : list N) (conf : list (N * N)) (acc : list N) : Prop := {
  i_in : forall x, In x acc -> conf_get conf x = frame;
  i_out : forall x, ~ In x acc -> conf_get conf x = conf_get C0 x;
  i_nodup : NoDup acc;
  i_new : forall x, In x acc -> reach es atr x /\ conf_get C0 x = 0;
  i_stack : forall x, In x stack -> reach es atr x;
  i_grey : forall x ev p, In x acc -> get_event es x = Some ev -> In p (a_parents ev) -> marked conf p \/ In p stack;
  i_root : marked conf atr \/ In atr stack }.

Lemma inv_init : inv [atr] C0 [].
Proof.
  constructor.
  - intros x [].
  - reflexivity.
  - constructor.
  - intros x [].
  - intros x [<-|[]]. constructor.
  - intros x ev p [].
  - right. left. reflexivity.
Qed.

Lemma marked_of_inv stack conf acc x : inv stack conf acc -> marked C0 x -> marked conf x.
Proof.
  intros I M. unfold marked in *. destruct (in_dec N.eq_dec x acc) as [Hin|Hout].
  - rewrite (i_in _ _ _ I _ Hin). exact frame_pos.
  - rewrite (i_out _ _ _ I _ Hout). exact M.
Qed.

Lemma inv_skip w rest conf acc : inv (w :: rest) conf acc -> marked conf w -> inv rest conf acc.
Proof.
  intros I M. destruct I as [A B C D E F G]. constructor; auto.
  - intros x Hx. apply E. right. exact Hx.
  - intros x ev p Hx Hg Hp. destruct (F x ev p Hx Hg Hp) as [H|[<-|H]]; auto.
  - destruct G as [H|[<-|H]]; auto.
Qed.

Lemma inv_visit w rest conf acc ev : inv (w :: rest) conf acc -> conf_get conf w = 0 -> get_event es w = Some ev ->
  inv (rev (a_parents ev) ++ rest) (aput w frame conf) (w :: acc).
Proof.
  intros I Z Hg. pose proof I as [A B C D E F G].
  assert (Hnin : ~ In w acc). { intros Hin. rewrite (A _ Hin) in Z. exact (frame_pos Z). }
  assert (Mono : forall p, marked conf p -> marked (aput w frame conf) p).
  { intros p M. unfold marked. rewrite conf_get_aput. destruct (p =? w); auto. }
  assert (Mw : marked (aput w frame conf) w).
  { unfold marked. rewrite conf_get_aput, N.eqb_refl. exact frame_pos. }
  constructor.
  - intros x [<-|Hx]; rewrite conf_get_aput.
    + rewrite N.eqb_refl. reflexivity.
    + destruct (x =? w); auto.
  - intros x Hx. rewrite conf_get_aput. destruct (x =? w) eqn:Exw.
    + apply N.eqb_eq in Exw. subst. elim Hx. left. reflexivity.
    + apply B. intros Hin. apply Hx. right. exact Hin.
  - constructor; auto.
  - intros x [<-|Hx]; [|auto]. split; [apply E; left; reflexivity|].
    rewrite <- (B _ Hnin). exact Z.
  - intros x Hx. apply in_app_or in Hx as [Hx|Hx].
    + apply in_rev in Hx. eapply reach_step; [apply E; left; reflexivity | exact Hg | exact Hx].
    + apply E. right. exact Hx.
  - intros x ev' p [<-|Hx] Hg' Hp.
    + rewrite Hg in Hg'. inversion Hg'; subst ev'. right. apply in_or_app. left. apply in_rev in Hp. exact Hp.
    + destruct (F x ev' p Hx Hg' Hp) as [H|[<-|H]]; auto. right. apply in_or_app. right. exact H.
  - destruct G as [H|[<-|H]]; auto. right. apply in_or_app. right. exact H.
Qed.

Lemma dfs_confirm_inv : forall fuel stack conf acc dl conf',
  inv stack conf acc -> dfs_confirm fuel es frame stack conf acc = Ok (dl, conf') ->
  exists acc', dl = rev acc' /\ inv [] conf' acc'.
Proof.
  induction fuel as [|fu IH]; intros stack conf acc dl conf' I E; cbn [dfs_confirm] in E; [discriminate|].
  destruct stack as [|w rest].
  - inversion E; subst. exists acc. split; auto.
  - destruct (get_event es w) as [ev|] eqn:Hg; [|discriminate].
    destruct (conf_get conf w =? 0) eqn:Z; cbn [negb] in E.
    + apply N.eqb_eq in Z. eapply IH; [|exact E]. eapply inv_visit; eauto.
    + apply N.eqb_neq in Z. eapply IH; [|exact E]. eapply inv_skip; eauto.
Qed.

Lemma final_all_marked conf acc : inv [] conf acc -> forall x, reach es atr x -> marked conf x.
Proof.
  intros I x R. induction R as [|y ev p R IHR Hg Hp].
  - destruct (i_root _ _ _ I) as [H|[]]. exact H.
  - destruct (in_dec N.eq_dec y acc) as [Hin|Hout].
    + destruct (i_grey _ _ _ I y ev p Hin Hg Hp) as [H|[]]. exact H.
    + eapply marked_of_inv; [exact I|]. eapply C0_closed; [|exact Hg|exact Hp].
      unfold marked. rewrite <- (i_out _ _ _ I _ Hout). exact IHR.
Qed.

Lemma final_closed conf acc : inv [] conf acc -> closed es conf.
Proof.
  intros I w ev p M Hg Hp. destruct (in_dec N.eq_dec w acc) as [Hin|Hout].
  - destruct (i_grey _ _ _ I w ev p Hin Hg Hp) as [H|[]]. exact H.
  - eapply marked_of_inv; [exact I|]. eapply C0_closed; [|exact Hg|exact Hp].
    unfold marked. rewrite <- (i_out _ _ _ I _ Hout). exact M.
Qed.

(* the DFS lemma *)
Theorem dfs_confirm_spec fuel dl conf' :
  dfs_confirm fuel es frame [atr] C0 [] = Ok (dl, conf') ->
  NoDup dl /\
  (forall x, In x dl <-> reach es atr x /\ conf_get C0 x = 0) /\
  (forall x, conf_get conf' x = if in_dec N.eq_dec x dl then frame else conf_get C0 x) /\
  closed es conf'.
Proof.
  intros E. destruct (dfs_confirm_inv _ _ _ _ _ _ inv_init E) as [acc [-> I]].
  split; [apply NoDup_rev, (i_nodup _ _ _ I)|]. split; [|split; [|eapply final_closed; eauto]].
  - intros x. rewrite <- in_rev. split.
    + apply (i_new _ _ _ I).
    + intros [R Z]. destruct (in_dec N.eq_dec x acc) as [Hin|Hout]; auto.
      exfalso. pose proof (final_all_marked _ _ I x R) as M. unfold marked in M.
      rewrite (i_out _ _ _ I _ Hout) in M. exact (M Z).
  - intros x. destruct (in_dec N.eq_dec x (rev acc)) as [Hin|Hout].
    + apply (i_in _ _ _ I). apply in_rev. exact Hin.
    + apply (i_out _ _ _ I). intros H. apply Hout. apply in_rev in H. exact H.
Qed.

End Dfs.
