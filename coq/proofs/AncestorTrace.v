(* C19, trace level: every strategy call of ChooseParents is shown the parents chosen so far and
   exactly the options still offered (in some order, without duplicates), and the option it points
   at is the one appended.  [trace_ok] is the verdict the driver applies to the recorded calls. *)
From Coq Require Import NArith PeanoNat List Bool Lia Permutation.
From LV Require Import model.Ancestor spec.AncestorSpec proofs.AncestorProofs.
Import ListNotations.
Local Open Scope N_scope.

Lemma loop_log : forall strats parents s log,
  loop strats parents s log =
  (rev log ++ fst (loop strats parents s []), snd (loop strats parents s [])).
Proof.
  induction strats as [|st rest IH]; intros parents s log.
  - cbn. rewrite app_nil_r. reflexivity.
  - destruct s as [|a s']; [cbn; rewrite app_nil_r; reflexivity|].
    cbn [loop]. set (s := a :: s'). set (cur := shuf st s). set (best := choose st parents cur).
    destruct (nth_error cur best) as [b|].
    + rewrite (IH _ _ ((parents, cur, best) :: log)), (IH _ _ [(parents, cur, best)]).
      cbn [rev fst snd app]. rewrite <- app_assoc. reflexivity.
    + cbn [rev fst snd app]. reflexivity.
Qed.

Lemma dedupe_In x l : In x (dedupe l) <-> In x l.
Proof.
  induction l as [|a l IH]; cbn [dedupe]; [tauto|].
  cbn [In]. rewrite filter_In, IH, negb_true_iff, N.eqb_neq.
  destruct (N.eq_dec a x) as [->|Hne]; [tauto|]. split; [tauto|]. intros [H|H]; [tauto|].
  right. split; [exact H | congruence].
Qed.

Lemma dedupe_NoDup l : NoDup (dedupe l).
Proof.
  induction l as [|a l IH]; cbn [dedupe]; [constructor|].
  constructor.
  - rewrite filter_In, negb_true_iff, N.eqb_neq. tauto.
  - apply NoDup_filter. exact IH.
Qed.

Lemma offered_set_In x existing options :
  In x (offered_set existing options) <-> In x options /\ ~ In x existing.
Proof.
  unfold offered_set. rewrite filter_In, dedupe_In, negb_true_iff.
  split; intros [H1 H2]; (split; [exact H1|]).
  - intro Hin. apply memb_In in Hin. congruence.
  - destruct (memb x existing) eqn:E; [|reflexivity]. apply memb_In in E. contradiction.
Qed.

Lemma offered_set_NoDup existing options : NoDup (offered_set existing options).
Proof. unfold offered_set. apply NoDup_filter. apply dedupe_NoDup. Qed.

Lemma same_set_b_intro l s t :
  Permutation l s -> NoDup s -> NoDup t -> (forall x, In x s <-> In x t) -> same_set_b l t = true.
Proof.
  intros Hp Hs Ht Hst. unfold same_set_b. rewrite !andb_true_iff. split; [split|].
  - apply nodupb_spec. apply (Permutation_NoDup (Permutation_sym Hp)). exact Hs.
  - apply Nat.eqb_eq. rewrite (Permutation_length Hp).
    apply Permutation_length. apply NoDup_Permutation; assumption.
  - apply forallb_forall. intros x Hx. apply memb_In. apply Hst.
    apply (Permutation_in _ Hp). exact Hx.
Qed.

Lemma loop_trace : forall strats parents s t rounds added,
  Forall valid strats -> NoDup s -> NoDup t -> (forall x, In x s <-> In x t) ->
  loop strats parents s [] = (rounds, Done (parents ++ added)) ->
  rounds_ok parents t rounds added = true.
Proof.
  induction strats as [|st rest IH]; intros parents s t rounds added Hv Hs Ht Hst Hl.
  - cbn in Hl. inversion Hl as [[Hr Ha]]. 
    assert (added = []) by (apply (app_inv_head parents); rewrite app_nil_r; symmetry; exact Ha).
    subst. reflexivity.
  - inversion Hv as [|? ? Hst_valid Hv']; subst. pose proof Hst_valid as [Hperm Hidx].
    destruct s as [|a s'].
    + cbn in Hl. inversion Hl as [[Hr Ha]].
      assert (added = []) by (apply (app_inv_head parents); rewrite app_nil_r; symmetry; exact Ha).
      subst. reflexivity.
    + cbn [loop] in Hl. set (s := a :: s') in *.
      set (cur := shuf st s) in *. set (best := choose st parents cur) in *.
      assert (Hcur : cur <> []).
      { intro Hc. pose proof (Permutation_length (Hperm s)) as Hlen. fold cur in Hlen.
        rewrite Hc in Hlen. cbn in Hlen. discriminate. }
      pose proof (Hidx parents cur Hcur) as Hb. fold best in Hb.
      destruct (nth_error cur best) as [b|] eqn:En.
      2:{ apply nth_error_None in En. lia. }
      destruct (loop_spec rest (parents ++ [b]) (erase b s) [] Hv' (erase_NoDup b s Hs))
        as [added' [Hres _]].
      rewrite loop_log, Hres in Hl. cbn [rev app] in Hl.
      inversion Hl as [[Hr Ha']].
      rewrite <- app_assoc in Ha'. apply app_inv_head in Ha'. cbn in Ha'. subst added.
      cbn [rounds_ok].
      destruct (list_eq_dec N.eq_dec parents parents) as [_|Hn]; [|contradiction].
      rewrite (same_set_b_intro cur s t (Hperm s) Hs Ht Hst), En, N.eqb_refl. cbn [andb].
      apply (IH (parents ++ [b]) (erase b s)); try assumption.
      * apply erase_NoDup. exact Hs.
      * apply NoDup_filter. exact Ht.
      * intros x. rewrite erase_In, filter_In, negb_true_iff, N.eqb_neq, Hst. tauto.
      * rewrite (surjective_pairing (loop rest (parents ++ [b]) (erase b s) [])), Hres. reflexivity.
Qed.

Theorem choose_parents_trace : forall existing options strats log result,
  Forall valid strats ->
  choose_parents_log existing options strats = (log, Done result) ->
  trace_ok existing options log result = true.
Proof.
  intros existing options strats log result Hv Hl. unfold trace_ok.
  destruct (choose_parents_wf existing options strats Hv) as [r [Hr [Heq _]]].
  unfold choose_parents in Hr. rewrite Hl in Hr. cbn in Hr. inversion Hr; subst r.
  set (ad := skipn (length existing) result) in *. unfold added in Heq. fold ad in Heq.
  apply (loop_trace strats existing (initial_set existing options)); try assumption.
  - apply initial_set_NoDup.
  - apply offered_set_NoDup.
  - intros x. rewrite initial_set_In, offered_set_In. tauto.
  - unfold choose_parents_log in Hl. rewrite Hl, Heq. reflexivity.
Qed.
