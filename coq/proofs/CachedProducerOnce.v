(* C27, "closed exactly once": a property of the trace specification itself.  In every trace
   that satisfies CachedProducerSpec.trace_ok no underlying store is closed twice and every
   store is opened by at most one underlying OpenDB.  Together with
   C27_close_underlying_exactly_at_last_close (the Close happens exactly when the balance goes
   1 -> 0) this is the second sentence of the property. *)
From Coq Require Import NArith List Bool Lia.
From Coq Require Import ZifyBool ZifyNat ZifyN.
From LV Require Import model.CachedProducer spec.CachedProducerSpec proofs.CachedProducerProofs.
Import ListNotations.
Local Open Scope N_scope.

Definition ev_close (ev : list uevent) : list N :=
  flat_map (fun e => match e with UClose u => [u] | _ => [] end) ev.
Definition closes (pre : list titem) : list N := flat_map (fun t : titem => ev_close (snd t)) pre.

Lemma closes_snoc pre o r ev : closes (pre ++ [(o, r, ev)]) = closes pre ++ ev_close ev.
Proof. unfold closes. rewrite flat_map_app. cbn [flat_map snd]. rewrite app_nil_r. reflexivity. Qed.

Lemma alookup_in {A} k (v : A) l : alookup k l = Some v -> In (k, v) l.
Proof.
  induction l as [|[k' v'] l IH]; cbn [alookup]; [discriminate|]. destruct (k =? k') eqn:E.
  - intros [= ->]. apply N.eqb_eq in E. subst. left. reflexivity.
  - intros H. right. exact (IH H).
Qed.

Lemma cur_in nm u pre : cur nm pre = Some u -> In (nm, u) (uopens pre).
Proof. unfold cur. intros H. apply alookup_in in H. apply in_rev in H. exact H. Qed.

Lemma used_uid_in u pre : used_uid u pre = true <-> exists n, In (n, u) (uopens pre).
Proof.
  unfold used_uid. rewrite existsb_exists. split.
  - intros ([n u'] & Hin & E). cbn [snd] in E. apply N.eqb_eq in E. subst. exists n. exact Hin.
  - intros (n & Hin). exists (n, u). split; [exact Hin | apply N.eqb_refl].
Qed.

Lemma nodup_snd_inj (l : list (N * N)) n n' u : NoDup (map snd l) -> In (n, u) l -> In (n', u) l -> n = n'.
Proof.
  induction l as [|[a b] l IH]; intros Hd H1 H2; [destruct H1|]. cbn [map snd] in Hd. inversion Hd as [|? ? Hn Hd']; subst.
  destruct H1 as [E1|H1], H2 as [E2|H2].
  - congruence.
  - injection E1 as -> ->. exfalso. apply Hn. apply in_map_iff. exists (n', u). split; [reflexivity | exact H2].
  - injection E2 as -> ->. exfalso. apply Hn. apply in_map_iff. exists (n, u). split; [reflexivity | exact H1].
  - exact (IH Hd' H1 H2).
Qed.

Lemma NoDup_app_snoc {A} (l : list A) (x : A) : NoDup l /\ ~ In x l -> NoDup (l ++ [x]).
Proof.
  intros [Hd Hn]. induction l as [|y l IH]; cbn [app]; [constructor; [intros [] | constructor]|].
  inversion Hd as [|? ? Hy Hd']; subst. constructor.
  - rewrite in_app_iff. cbn [In]. intros [H|[H|[]]]; [contradiction | subst; apply Hn; left; reflexivity].
  - apply IH; [exact Hd' | intros H; apply Hn; right; exact H].
Qed.

Definition Inv2 (pre : list titem) : Prop :=
  NoDup (map snd (uopens pre)) /\
  (forall u, In u (closes pre) -> used_uid u pre = true) /\
  NoDup (closes pre) /\
  (forall nm u, cur nm pre = Some u -> In u (closes pre) -> balance nm pre = 0) /\
  (forall nm, count_if (is_close_ok nm) pre <= count_if (is_open_ok nm) pre).

Lemma inv2_nil : Inv2 [].
Proof. unfold Inv2. cbn. repeat split; try constructor; intros; try contradiction; try discriminate; lia. Qed.

(* a step whose underlying calls neither open nor close anything *)
Lemma inv2_noev pre o r ev :
  Inv2 pre -> ev_open ev = [] -> ev_close ev = [] ->
  (forall nm, count_if (is_close_ok nm) (pre ++ [(o, r, ev)]) <= count_if (is_open_ok nm) (pre ++ [(o, r, ev)])) ->
  (forall nm, balance nm pre = 0 -> balance nm (pre ++ [(o, r, ev)]) = 0) ->
  Inv2 (pre ++ [(o, r, ev)]).
Proof.
  intros (A & B & C & D & E) Ho Hc HE HD. unfold Inv2.
  rewrite uopens_snoc, uopens_single, Ho, app_nil_r, closes_snoc, Hc, app_nil_r.
  split; [exact A | split; [|split; [exact C | split; [|exact HE]]]].
  - intros u Hu. rewrite used_snoc, Ho. cbn [existsb]. rewrite orb_false_r. exact (B u Hu).
  - intros nm u Hcur Hu. rewrite cur_snoc, Ho in Hcur. cbn [rev alookup] in Hcur.
    exact (HD nm (D nm u Hcur Hu)).
Qed.

Lemma inv2_step pre t : Inv2 pre -> step_ok pre t = true -> Inv2 (pre ++ [t]).
Proof.
  intros I H. destruct t as [[o r] ev]. pose proof I as (A & B & C & D & E).
  destruct o as [name f|name|name|uid|uid|name]; cbn [step_ok] in H; try discriminate.
  - (* OpenDB *)
    destruct (0 <? balance name pre) eqn:Hpos.
    + destruct (cur name pre) as [u|] eqn:Hc; [|discriminate]. apply andb_true_iff in H. destruct H as [H1 H2].
      apply cres_eqb_eq in H1. apply uevents_eqb_eq in H2. subst r ev.
      apply inv2_noev; auto.
      * intros nm. rewrite !count_if_snoc. cbn [is_close_ok]. specialize (E nm). destruct (is_open_ok nm _); lia.
      * intros nm H0. rewrite balance_snoc by apply E. cbn [is_open_ok is_close_ok].
        destruct (name =? nm) eqn:En; [apply N.eqb_eq in En; subst; lia | lia].
    + destruct f.
      * apply andb_true_iff in H. destruct H as [H1 H2]. apply cres_eqb_eq in H1. apply uevents_eqb_eq in H2. subst r ev.
        apply inv2_noev; auto.
        -- intros nm. rewrite !count_if_snoc. cbn [is_close_ok is_open_ok]. specialize (E nm). lia.
        -- intros nm H0. rewrite balance_snoc by apply E. cbn [is_open_ok is_close_ok]. lia.
      * destruct r as [u| | | | | | |]; try discriminate. apply andb_true_iff in H. destruct H as [H1 H2].
        apply negb_true_iff in H1. apply uevents_eqb_eq in H2. subst ev.
        assert (Hnot : forall n, ~ In (n, u) (uopens pre)).
        { intros n Hin. assert (used_uid u pre = true) by (apply used_uid_in; exists n; exact Hin). congruence. }
        unfold Inv2. rewrite uopens_snoc, uopens_single, closes_snoc. cbn [ev_open ev_close flat_map app]. rewrite app_nil_r.
        split; [|split; [|split; [exact C | split]]].
        -- rewrite map_app. cbn [map snd]. apply NoDup_app_snoc. split; [exact A|].
           intros Hin. apply in_map_iff in Hin. destruct Hin as ([n u'] & Eq & Hin). cbn [snd] in Eq. subst u'. exact (Hnot n Hin).
        -- intros u0 Hu. rewrite used_snoc. rewrite (B u0 Hu). reflexivity.
        -- intros nm u0 Hcur Hu. rewrite cur_snoc in Hcur. cbn [ev_open flat_map rev app alookup] in Hcur.
           rewrite balance_snoc by apply E. cbn [is_open_ok is_close_ok].
           destruct (nm =? name) eqn:En.
           ++ injection Hcur as <-. exfalso. specialize (B u Hu). congruence.
           ++ rewrite (N.eqb_sym name nm), En. specialize (D nm u0 Hcur Hu). lia.
        -- intros nm. rewrite !count_if_snoc. cbn [is_close_ok]. specialize (E nm). destruct (is_open_ok nm _); lia.
  - (* Close *)
    destruct (cur name pre) as [u|] eqn:Hc.
    + destruct (balance name pre =? 0) eqn:H0; [|destruct (balance name pre =? 1) eqn:H1];
        apply andb_true_iff in H; destruct H as [Ha Hb]; apply cres_eqb_eq in Ha; apply uevents_eqb_eq in Hb; subst r ev.
      * apply inv2_noev; auto.
        -- intros nm. rewrite !count_if_snoc. cbn [is_close_ok is_open_ok]. specialize (E nm). lia.
        -- intros nm Hz. rewrite balance_snoc by apply E. cbn [is_open_ok is_close_ok]. lia.
      * (* the underlying Close *)
        assert (Hnew : ~ In u (closes pre)).
        { intros Hin. specialize (D name u Hc Hin). lia. }
        unfold Inv2. rewrite uopens_snoc, uopens_single, closes_snoc. cbn [ev_open ev_close flat_map app]. rewrite app_nil_r.
        split; [exact A | split; [|split; [|split]]].
        -- intros u0 Hu. rewrite used_snoc. cbn [ev_open flat_map existsb]. rewrite orb_false_r.
           apply in_app_iff in Hu. destruct Hu as [Hu|[<-|[]]]; [exact (B u0 Hu)|].
           apply used_uid_in. exists name. exact (cur_in _ _ _ Hc).
        -- apply NoDup_app_snoc. split; [exact C | exact Hnew].
        -- intros nm u0 Hcur Hu. rewrite cur_snoc in Hcur. cbn [ev_open flat_map rev alookup] in Hcur.
           rewrite balance_snoc by apply E. cbn [is_open_ok is_close_ok].
           apply in_app_iff in Hu. destruct Hu as [Hu|[<-|[]]].
           ++ specialize (D nm u0 Hcur Hu). destruct (name =? nm) eqn:En; [apply N.eqb_eq in En; subst nm; lia | lia].
           ++ assert (nm = name) as -> by exact (nodup_snd_inj _ _ _ _ A (cur_in _ _ _ Hcur) (cur_in _ _ _ Hc)).
              rewrite N.eqb_refl. lia.
        -- intros nm. rewrite !count_if_snoc. cbn [is_close_ok is_open_ok]. specialize (E nm).
           destruct (name =? nm) eqn:En; [apply N.eqb_eq in En; subst nm; unfold balance in H1; lia | lia].
      * apply inv2_noev; auto.
        -- intros nm. rewrite !count_if_snoc. cbn [is_close_ok is_open_ok]. specialize (E nm).
           destruct (name =? nm) eqn:En; [apply N.eqb_eq in En; subst nm; unfold balance in H0, H1; lia | lia].
        -- intros nm Hz. rewrite balance_snoc by apply E. cbn [is_open_ok is_close_ok].
           destruct (name =? nm) eqn:En; [apply N.eqb_eq in En; subst nm; lia | lia].
    + apply andb_true_iff in H. destruct H as [Ha Hb]. apply cres_eqb_eq in Ha. apply uevents_eqb_eq in Hb. subst r ev.
      apply inv2_noev; auto.
      * intros nm. rewrite !count_if_snoc. cbn [is_close_ok is_open_ok]. specialize (E nm). lia.
      * intros nm Hz. rewrite balance_snoc by apply E. cbn [is_open_ok is_close_ok]. lia.
  - (* Drop *)
    destruct (cur name pre) as [u|] eqn:Hc;
      apply andb_true_iff in H; destruct H as [Ha Hb]; apply cres_eqb_eq in Ha; apply uevents_eqb_eq in Hb; subst r ev.
    + apply inv2_noev; auto; try (destruct (droppable name pre); reflexivity).
      * intros nm. rewrite !count_if_snoc. cbn [is_close_ok is_open_ok]. specialize (E nm). lia.
      * intros nm Hz. rewrite balance_snoc by apply E. cbn [is_open_ok is_close_ok]. lia.
    + apply inv2_noev; auto.
      * intros nm. rewrite !count_if_snoc. cbn [is_close_ok is_open_ok]. specialize (E nm). lia.
      * intros nm Hz. rewrite balance_snoc by apply E. cbn [is_open_ok is_close_ok]. lia.
Qed.

Lemma inv2_trace tr : forall pre, Inv2 pre -> trace_ok_from pre tr = true -> Inv2 (pre ++ tr).
Proof.
  induction tr as [|t tr IH]; intros pre I H; [rewrite app_nil_r; exact I|].
  cbn [trace_ok_from] in H. apply andb_true_iff in H. destruct H as [H1 H2].
  specialize (IH _ (inv2_step _ _ I H1) H2). rewrite <- app_assoc in IH. exact IH.
Qed.

(* in a trace satisfying the specification no store is closed twice, and no store id is
   produced by two underlying opens *)
Theorem trace_ok_closes_once tr :
  trace_ok tr = true -> NoDup (closes tr) /\ NoDup (map snd (uopens tr)) /\
  (forall u, In u (closes tr) -> exists n, In (n, u) (uopens tr)).
Proof.
  intros H. destruct (inv2_trace tr [] inv2_nil H) as (A & B & C & _). cbn [app] in *.
  split; [exact C | split; [exact A|]]. intros u Hu. apply used_uid_in. exact (B u Hu).
Qed.

Theorem closes_once_all_histories s0 ops :
  s0 = wrap \/ s0 = wrap_all -> forallb by_name_op ops = true ->
  NoDup (closes (snd (crun s0 ops))) /\ NoDup (map snd (uopens (snd (crun s0 ops)))) /\
  (forall u, In u (closes (snd (crun s0 ops))) -> exists n, In (n, u) (uopens (snd (crun s0 ops)))).
Proof. intros H0 Hb. apply trace_ok_closes_once. exact (trace_ok_all s0 ops H0 Hb). Qed.
