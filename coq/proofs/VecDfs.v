(* The pruned LowestAfter DFS (model/VecIndex.v: dfs_la = Engine.DfsSubgraph with
   LowestAfterSeq.Visit): with the model's fuel the stack is exhausted, exactly the events reachable
   from the start stack whose entry [me] was 0 get it set to [sq], nothing else changes. *)
From Coq Require Import List Arith NArith Bool Lia.
From LV Require Import model.VecIndex spec.FcSpec lib.VecListFacts proofs.FcSpecFacts.
Import ListNotations.
Open Scope N_scope.

Section Dfs.
Variable s : vidx.
Variable me : nat.
Variable sq : N.
Hypothesis sq_pos : sq <> 0.
Let E := evs s.

Definition lget (lam : list (N * list N)) (w : N) (i : nat) : N :=
  match alookup w lam with Some v => la_get v i | None => 0 end.
Definition marked (lam : list (N * list N)) (w : N) : Prop :=
  exists v, alookup w lam = Some v /\ la_get v me <> 0.
Definition is_marked (lam : list (N * list N)) (w : N) : bool :=
  match alookup w lam with Some v => negb (la_get v me =? 0) | None => false end.
Definition samekeys (lam : list (N * list N)) : Prop :=
  forall w, alookup w lam = None <-> alookup w E = None.

Lemma is_marked_iff lam w : is_marked lam w = true <-> marked lam w.
Proof.
  unfold is_marked, marked. destruct (alookup w lam) as [v|]; split.
  - intros H. exists v. split; [reflexivity|]. destruct (N.eqb_spec (la_get v me) 0); [discriminate|assumption].
  - intros (v' & [= <-] & H). destruct (N.eqb_spec (la_get v me) 0); [contradiction|reflexivity].
  - discriminate.
  - intros (v' & H & _). discriminate.
Qed.

Definition cost_la (L : list (N * event)) (lam : list (N * list N)) : nat :=
  fold_right (fun p c => if is_marked lam (fst p) then c else (length (epar (snd p)) + c)%nat) 0%nat L.
Lemma cost_la_cons p L lam : cost_la (p :: L) lam =
  if is_marked lam (fst p) then cost_la L lam else (length (epar (snd p)) + cost_la L lam)%nat.
Proof. reflexivity. Qed.
Lemma cost_la_le_total L lam : (cost_la L lam <= total_parents L)%nat.
Proof. induction L as [|p L IH]; [cbn; lia|]. rewrite cost_la_cons, total_parents_cons. destruct (is_marked lam (fst p)); lia. Qed.

Lemma is_marked_aput lam w v k : alookup w lam = Some v ->
  is_marked (aput w (la_set v me sq) lam) k = if k =? w then true else is_marked lam k.
Proof.
  intros Hw. unfold is_marked. rewrite alookup_aput. destruct (N.eqb_spec k w) as [->|]; [|reflexivity].
  rewrite la_get_set, Nat.eqb_refl. destruct (N.eqb_spec sq 0); [contradiction|reflexivity].
Qed.
Lemma cost_la_mono L lam w v : alookup w lam = Some v -> (cost_la L (aput w (la_set v me sq) lam) <= cost_la L lam)%nat.
Proof.
  intros Hw. induction L as [|p L IH]; [cbn; lia|]. rewrite !cost_la_cons, (is_marked_aput lam w v _ Hw).
  destruct (fst p =? w); destruct (is_marked lam (fst p)); lia.
Qed.
Lemma cost_la_step L lam w v ev : alookup w lam = Some v -> is_marked lam w = false -> alookup w L = Some ev ->
  (cost_la L (aput w (la_set v me sq) lam) + length (epar ev) <= cost_la L lam)%nat.
Proof.
  intros Hw Hm. induction L as [|[k e] L IH]; cbn [alookup]; [discriminate|]. intros Hl.
  rewrite !cost_la_cons, (is_marked_aput lam w v _ Hw). cbn [fst snd].
  destruct (N.eqb_spec w k) as [->|Hne].
  - injection Hl as ->. rewrite N.eqb_refl, Hm. pose proof (cost_la_mono L lam k v Hw). lia.
  - destruct (N.eqb_spec k w); [congruence|]. specialize (IH Hl). destruct (is_marked lam k); lia.
Qed.

Lemma samekeys_aput lam w v v' : samekeys lam -> alookup w lam = Some v -> samekeys (aput w v' lam).
Proof.
  intros H Hw k. rewrite alookup_aput. destruct (N.eqb_spec k w) as [->|]; [|apply H].
  split; [discriminate|]. intros Hk. apply H in Hk. congruence.
Qed.
Lemma marked_aput_mono lam w v u : alookup w lam = Some v -> marked lam u -> marked (aput w (la_set v me sq) lam) u.
Proof.
  intros Hw Hu. apply is_marked_iff. rewrite (is_marked_aput lam w v u Hw).
  destruct (u =? w); [reflexivity|apply is_marked_iff; exact Hu].
Qed.
Lemma marked_aput_self lam w v : alookup w lam = Some v -> marked (aput w (la_set v me sq) lam) w.
Proof. intros Hw. apply is_marked_iff. rewrite (is_marked_aput lam w v w Hw), N.eqb_refl. reflexivity. Qed.

Definition gray (stack : list N) (lam : list (N * list N)) : Prop :=
  forall u, marked lam u -> forall e p ep, alookup u E = Some e -> In p (epar e) -> alookup p E = Some ep ->
    marked lam p \/ In p stack.

Lemma dfs_la_post : forall fuel stack lam, (length stack + cost_la E lam <= fuel)%nat ->
  samekeys lam -> gray stack lam ->
  let R := dfs_la fuel s me sq stack lam in
  samekeys R /\
  (forall u, marked lam u -> marked R u) /\
  (forall p ep, In p stack -> alookup p E = Some ep -> marked R p) /\
  gray [] R /\
  (forall w i, i <> me -> lget R w i = lget lam w i) /\
  (forall w, lget R w me = lget lam w me \/
             (lget lam w me = 0 /\ lget R w me = sq /\ exists p, In p stack /\ reach E p w)).
Proof.
  induction fuel as [|f IH]; intros stack lam Hf Hk Hg; cbn zeta.
  - destruct stack; [|cbn in Hf; lia]. cbn [dfs_la].
    split; [exact Hk|]. split; [auto|]. split; [intros ? ? []|]. split; [exact Hg|]. split; [auto|]. intros w; left; reflexivity.
  - destruct stack as [|w rest]; cbn [dfs_la].
    { split; [exact Hk|]. split; [auto|]. split; [intros ? ? []|]. split; [exact Hg|]. split; [auto|]. intros w; left; reflexivity. }
    cbn [length] in Hf.
    destruct (alookup w lam) as [v|] eqn:Hw.
    2:{ (* unknown id: skipped *)
      destruct (IH rest lam ltac:(lia) Hk) as (A & B & C & D & F & G).
      { intros u Hu e p ep He Hp Hep. destruct (Hg u Hu e p ep He Hp Hep) as [|[<-|]]; auto.
        apply Hk in Hw. congruence. }
      cbn zeta in *. split; [exact A|]. split; [|split; [|split; [exact D|split]]].
      - exact B.
      - intros p ep [<-|Hp] Hep; [apply Hk in Hw; congruence|eauto].
      - exact F.
      - intros w'. destruct (G w') as [|(X & Y & p & Hp & Hr)]; [left; assumption|].
        right. repeat split; auto. exists p. split; [right; exact Hp|exact Hr]. }
    destruct (N.eqb_spec (la_get v me) 0) as [Hz|Hnz]; cbn [negb].
    2:{ (* already set: pruned *)
      assert (Hmw : marked lam w) by (exists v; auto).
      destruct (IH rest lam ltac:(lia) Hk) as (A & B & C & D & F & G).
      { intros u Hu e p ep He Hp Hep. destruct (Hg u Hu e p ep He Hp Hep) as [|[<-|]]; auto. }
      cbn zeta in *. split; [exact A|]. split; [|split; [|split; [exact D|split]]].
      - exact B.
      - intros p ep [<-|Hp] Hep; [apply B; exact Hmw|eauto].
      - exact F.
      - intros w'. destruct (G w') as [|(X & Y & p & Hp & Hr)]; [left; assumption|].
        right. repeat split; auto. exists p. split; [right; exact Hp|exact Hr]. }
    (* visited now *)
    assert (Hum : is_marked lam w = false) by (unfold is_marked; rewrite Hw, Hz; reflexivity).
    destruct (alookup w (evs s)) as [ev|] eqn:Hev.
    2:{ exfalso. apply Hk in Hev. congruence. }
    fold E in Hev.
    set (lam' := aput w (la_set v me sq) lam).
    pose proof (cost_la_step E lam w v ev Hw Hum Hev) as Hc. fold lam' in Hc.
    destruct (IH (rev (epar ev) ++ rest) lam') as (A & B & C & D & F & G).
    { rewrite app_length, rev_length. lia. }
    { eapply samekeys_aput; eauto. }
    { intros u Hu e p ep He Hp Hep.
      destruct (N.eq_dec u w) as [->|Hne].
      - right. apply in_or_app. left. rewrite <- in_rev. rewrite Hev in He. injection He as <-. exact Hp.
      - assert (Hu' : marked lam u).
        { apply is_marked_iff in Hu. unfold lam' in Hu. rewrite (is_marked_aput lam w v u Hw) in Hu.
          destruct (N.eqb_spec u w); [contradiction|]. apply is_marked_iff. exact Hu. }
        destruct (Hg u Hu' e p ep He Hp Hep) as [Hm|[<-|Hin]].
        + left. apply marked_aput_mono; assumption.
        + left. apply marked_aput_self. exact Hw.
        + right. apply in_or_app. right. exact Hin. }
    cbn zeta in *. split; [exact A|]. split; [|split; [|split; [exact D|split]]].
    + intros u Hu. apply B. apply marked_aput_mono; assumption.
    + intros p ep [<-|Hp] Hep.
      * apply B. apply marked_aput_self. exact Hw.
      * eapply C; [apply in_or_app; right; exact Hp|exact Hep].
    + intros w' i Hi. rewrite F by exact Hi. unfold lget, lam'. rewrite alookup_aput.
      destruct (N.eqb_spec w' w) as [->|]; [|reflexivity]. rewrite Hw, la_get_set.
      destruct (Nat.eqb_spec i me); [contradiction|reflexivity].
    + intros w'. destruct (N.eq_dec w' w) as [->|Hne].
      * right. assert (Hl' : lget lam' w me = sq).
        { unfold lget, lam'. rewrite alookup_aput_eq, la_get_set, Nat.eqb_refl. reflexivity. }
        assert (Hl : lget lam w me = 0) by (unfold lget; rewrite Hw; exact Hz).
        destruct (G w) as [HG|(X & _)]; [|congruence].
        repeat split; [exact Hl|congruence|]. exists w. split; [left; reflexivity|eapply reach_refl; exact Hev].
      * assert (Hl : lget lam' w' me = lget lam w' me).
        { unfold lget, lam'. rewrite alookup_aput_neq by exact Hne. reflexivity. }
        destruct (G w') as [HG|(X & Y & p & Hp & Hr)]; [left; congruence|].
        right. repeat split; [congruence|exact Y|].
        apply in_app_or in Hp. destruct Hp as [Hp|Hp].
        -- exists w. split; [left; reflexivity|]. rewrite <- in_rev in Hp. eapply reach_step; eauto.
        -- exists p. split; [right; exact Hp|exact Hr].
Qed.

End Dfs.
