(* C15: unordered batches — the events handled so far are those at the consumed positions of the
   batch's channel, in arrival order; in particular the event whose result is consumed next has
   not been handled before.  (The closure of a position fires at most once: bs_arrived.) *)
From Coq Require Import NArith List Bool Lia Arith.
From LV Require Import model.Buffer model.Processor spec.ProcessorSpec proofs.BufferInv
  proofs.ProcessorFrame proofs.ProcessorOrder.
Import ListNotations.
Local Open Scope N_scope.

Definition nthg (b : batch) (p : nat) : N := nth p (gs b) 0.

Lemma memnat_In : forall x l, memnat x l = true <-> In x l.
Proof.
  intros x l; unfold memnat; rewrite existsb_exists; split.
  - intros [y [Hy He]]. apply Nat.eqb_eq in He. subst; exact Hy.
  - intros H; exists x; split; [exact H | apply Nat.eqb_refl].
Qed.
Lemma NoDup_map_nth : forall (l : list N) ps, NoDup l -> NoDup ps ->
  (forall p, In p ps -> (p < length l)%nat) -> NoDup (map (fun p => nth p l 0) ps).
Proof.
  intros l ps Nl Np H. induction ps as [|p ps IH]; simpl; [constructor|].
  inversion Np; subst. constructor.
  - intros Hi. apply in_map_iff in Hi. destruct Hi as [q [E Hq]].
    apply NoDup_nth in E; auto.
    + subst; contradiction.
    + apply H; right; auto.
    + apply H; left; auto.
  - apply IH; auto. intros q Hq; apply H; right; auto.
Qed.

Section Proc.
  Variable fc fp : list out -> entry -> bool.
  Variable cap_n cap_s lim_n lim_s : N.

  Notation process := (Processor.process fc fp lim_n lim_s).
  Notation pstep_run := (Processor.pstep_run fc fp cap_n cap_s lim_n lim_s).
  Notation prun := (Processor.prun fc fp cap_n cap_s lim_n lim_s).

  Definition arr_ok (bs : bstate) : Prop :=
    NoDup (bs_arrived bs) /\ forall p, In p (bs_arrived bs) -> (p < length (b_events (bs_batch bs)))%nat.
  Definition un_ok (s : pst) (bs : bstate) : Prop :=
    b_ordered (bs_batch bs) = false ->
    exists cons, rev (bs_arrived bs) = cons ++ bs_chan bs
                 /\ filt (bs_batch bs) (Hd s) = rev (map (nthg (bs_batch bs)) cons)
                 /\ bs_processed bs = length cons.
  Record UI (s : pst) : Prop := mkUI {
    ui_arr : forall bs, In bs (queue s) -> arr_ok bs;
    ui_un : forall bs, In bs (queue s) -> un_ok s bs
  }.

  Lemma un_ok_same : forall s s' bs bs', Hd s' = Hd s -> bs_batch bs' = bs_batch bs ->
    bs_arrived bs' = bs_arrived bs -> bs_chan bs' = bs_chan bs -> bs_processed bs' = bs_processed bs ->
    un_ok s bs -> un_ok s' bs'.
  Proof. intros s s' bs bs' E1 E2 E3 E4 E5 H. unfold un_ok in *. rewrite E1, E2, E3, E4, E5. exact H. Qed.
  Lemma arr_ok_same : forall bs bs', bs_batch bs' = bs_batch bs -> bs_arrived bs' = bs_arrived bs ->
    arr_ok bs -> arr_ok bs'.
  Proof. intros bs bs' E2 E3 H. unfold arr_ok in *. rewrite E2, E3. exact H. Qed.

  (* handles outside the batch do not disturb it *)
  Lemma un_ok_other : forall s s' bs l, Hd s' = l ++ Hd s ->
    (forall g, In g l -> ~ In g (gs (bs_batch bs))) -> un_ok s bs -> un_ok s' bs.
  Proof.
    intros s s' bs l E H U Ho. destruct (U Ho) as [cons [A [B C]]]. exists cons. split; auto. split; auto.
    rewrite E, filt_app, (filt_none _ _ H). exact B.
  Qed.

  Lemma UI_step : forall pre x s, NoDup (all_g (pre ++ [x])) -> OI pre s -> UI s -> UI (pstep_run s x).
  Proof.
    intros pre x s Nd [Ihd Iqin Iqnd Iord] [Uarr Uun].
    assert (Eall : all_g (pre ++ [x]) = all_g pre ++ match x with SEnq b => gs b | _ => [] end).
    { unfold all_g. rewrite flat_map_app. simpl. rewrite app_nil_r. reflexivity. }
    assert (Ndpre : NoDup (all_g pre)) by (rewrite Eall in Nd; eapply NoDup_app_l; eauto).
    destruct x as [b0 | bid pos | | | | ]; simpl.
    - (* SEnq *)
      unfold Processor.enqueue. destruct (quitf s || stopped s); [constructor; auto|].
      destruct ((cap_n <? held_n s + batch_num b0) || (cap_s <? held_s s + batch_size b0)).
      + constructor; simpl; auto.
      + constructor; simpl.
        * intros bs Hb. apply in_app_or in Hb. destruct Hb as [Hb|[Hb|[]]]; [auto|].
          subst bs. split; simpl; [constructor | intros p []].
        * intros bs Hb. apply in_app_or in Hb. destruct Hb as [Hb|[Hb|[]]].
          -- eapply un_ok_same; [| | | | |apply Uun; exact Hb]; reflexivity.
          -- subst bs. intros _. exists []. simpl. split; auto. split; auto.
             apply filt_none. intros g Hg Hg'. rewrite Eall in Nd.
             eapply NoDup_app_disjoint; [exact Nd | apply Ihd; exact Hg | exact Hg'].
    - (* SArrive *)
      unfold arrive. destruct (stopped s); [constructor; auto|].
      assert (K : forall bs, arr_ok bs -> un_ok s bs ->
                  arr_ok (if b_id (bs_batch bs) =? bid then arrive_bs bs pos else bs)
                  /\ un_ok (set_queue s (map (fun bs => if b_id (bs_batch bs) =? bid then arrive_bs bs pos else bs) (queue s)))
                           (if b_id (bs_batch bs) =? bid then arrive_bs bs pos else bs)).
      { intros bs [A1 A2] U. destruct (b_id (bs_batch bs) =? bid).
        2:{ split; [split; auto|]. eapply un_ok_same; [| | | | |exact U]; reflexivity. }
        unfold arrive_bs.
        destruct (Nat.ltb pos (length (b_events (bs_batch bs))) && negb (memnat pos (bs_arrived bs))) eqn:G.
        2:{ split; [split; auto|]. eapply un_ok_same; [| | | | |exact U]; reflexivity. }
        apply andb_true_iff in G. destruct G as [G1 G2]. apply Nat.ltb_lt in G1.
        apply negb_true_iff in G2.
        assert (Np : ~ In pos (bs_arrived bs)).
        { intros H. apply memnat_In in H. congruence. }
        split.
        - split; simpl; [constructor; auto | intros p [Hp|Hp]; [subst; auto | auto]].
        - intros Ho. simpl in Ho. destruct (U Ho) as [cons [B1 [B2 B3]]]. exists cons. simpl.
          split; [rewrite B1, app_assoc; reflexivity | split; [exact B2 | exact B3]]. }
      constructor; simpl; intros bs' Hb; apply in_map_iff in Hb; destruct Hb as [bs [E Hb]]; subst bs';
        apply K; auto.
    - (* SConsume *)
      unfold Processor.consume. destruct (stopped s); [constructor; auto|].
      destruct (queue s) as [|bs rest] eqn:Q; [constructor; rewrite Q; intros ? []|].
      destruct (Nat.leb (length (b_events (bs_batch bs))) (bs_processed bs)).
      {
        constructor; simpl.
        - intros bs' Hb. apply Uarr. right; exact Hb.
        - intros bs' Hb. eapply un_ok_same; [| | | | |apply Uun; right; exact Hb]; try reflexivity.
          destruct (bs_request bs); reflexivity. }
      destruct (bs_chan bs) as [|pos ch] eqn:Ch; [constructor; rewrite Q; auto|].
      assert (Hbs : In (SEnq (bs_batch bs)) pre) by (apply Iqin; left; auto).
      assert (Abs : arr_ok bs) by (apply Uarr; left; auto).
      destruct (b_ordered (bs_batch bs)) eqn:Ord.
      + (* ordered head: the other batches are undisturbed *)
        match goal with |- context [Processor.flush ?a ?b ?c ?d ?f ?s0 ?bs0 ?i] =>
          pose proof (flush_spec fc fp lim_n lim_s f s0 bs0 i eq_refl) as F;
          destruct (Processor.flush a b c d f s0 bs0 i) as [s1 bs1] end.
        simpl bs_processed in F. simpl bs_batch in F. simpl bs_results in F. simpl bs_chan in F. simpl bs_arrived in F.
        destruct F as [Fr [Eb [Ec [Ea [P1 [_ [_ [new [L [Hn _]]]]]]]]]].
        set (p := bs_processed bs) in *. set (d := (bs_processed bs1 - p)%nat) in *.
        assert (EH : Hd (set_queue s1 (bs1 :: rest)) = rev (firstn d (skipn p (gs (bs_batch bs)))) ++ Hd s).
        { unfold Hd. simpl. rewrite L, handles_app, Hn. unfold gs. rewrite skipn_map, firstn_map. reflexivity. }
        assert (Hsub : incl (rev (firstn d (skipn p (gs (bs_batch bs))))) (gs (bs_batch bs))).
        { intros g Hg. apply in_rev in Hg. apply firstn_In in Hg.
          rewrite <- (firstn_skipn p (gs (bs_batch bs))). apply in_or_app; right; exact Hg. }
        constructor; simpl.
        * intros bs' [Hb|Hb]; [subst bs'; eapply arr_ok_same; [exact Eb | exact Ea | exact Abs] | apply Uarr; right; exact Hb].
        * intros bs' [Hb|Hb].
          -- subst bs'. intros Ho. rewrite Eb in Ho. congruence.
          -- intros Ho. eapply un_ok_other; [exact EH | | apply Uun; right; exact Hb | exact Ho].
             intros g Hg Hg'. apply Hsub in Hg.
             eapply all_g_disjoint with (steps := pre) (b := bs_batch bs) (b' := bs_batch bs'); eauto.
             ++ apply Iqin. right; exact Hb.
             ++ intros E. rewrite <- E in Ho. congruence.
      + (* unordered head *)
        destruct (Uun bs (or_introl eq_refl) Ord) as [cons [B1 [B2 B3]]]. rewrite Ch in B1.
        destruct Abs as [A1 A2].
        assert (Hpos : In pos (bs_arrived bs)).
        { apply in_rev. rewrite B1. apply in_or_app; right; left; auto. }
        assert (Lp : (pos < length (b_events (bs_batch bs)))%nat) by (apply A2; exact Hpos).
        destruct (nth_error (b_events (bs_batch bs)) pos) as [ev|] eqn:En.
        2:{ apply nth_error_None in En. lia. }
        pose proof (process_log fc fp lim_n lim_s s ev) as PL.
        destruct (process s ev) as [s1 rq]. cbn [fst] in PL. destruct PL as [new [L [Hn _]]].
        assert (Eg : nthg (bs_batch bs) pos = pg ev).
        { unfold nthg, gs. rewrite nth_indep with (d' := pg ev) by (rewrite map_length; exact Lp).
          rewrite map_nth. f_equal. apply nth_error_nth. exact En. }
        assert (Hev : In (pg ev) (gs (bs_batch bs))).
        { unfold gs. apply in_map. eapply nth_error_In; eauto. }
        assert (EH : forall q, Hd (set_queue s1 q) = [pg ev] ++ Hd s).
        { intros q. unfold Hd. simpl. rewrite L, handles_app, Hn. reflexivity. }
        constructor; simpl.
        * intros bs' [Hb|Hb]; [subst bs'; split; simpl; auto | apply Uarr; right; exact Hb].
        * intros bs' [Hb|Hb].
          -- subst bs'. intros _. simpl. exists (cons ++ [pos]). split.
             ++ rewrite B1, <- app_assoc. reflexivity.
             ++ split; [|rewrite app_length; simpl; lia].
                rewrite EH, filt_app, B2, map_app, rev_app_distr. simpl. rewrite Eg.
                unfold filt. simpl. assert (M : memN (pg ev) (gs (bs_batch bs)) = true) by (apply memN_In; exact Hev).
                rewrite M. reflexivity.
          -- intros Ho.
             destruct (batch_eq_dec (bs_batch bs') (bs_batch bs)) as [E|E].
             ++ (* the same batch queued twice: then it is empty, impossible here *)
                assert (G : gs (bs_batch bs) = []).
                { eapply queue_same_batch with (bs2 := bs'); [exact (queue s) | exact Iqnd | exact Hb | exact E]. }
                rewrite G in Hev. contradiction.
             ++ eapply un_ok_other; [apply EH | | apply Uun; right; exact Hb | exact Ho].
                intros g [Hg|[]] Hg'. subst g.
                eapply all_g_disjoint with (steps := pre) (b := bs_batch bs) (b' := bs_batch bs'); eauto.
                apply Iqin. right; exact Hb.
    - (* SStop *)
      unfold Processor.stop. destruct (stopped s); [constructor; auto|].
      set (s0 := match queue s with bs :: _ => if quitf s then s else pemit s (PAborted (b_id (bs_batch bs))) | [] => s end).
      assert (E0 : Hd s0 = Hd s /\ queue s0 = queue s).
      { unfold s0. destruct (queue s) eqn:Q; [auto|]. destruct (quitf s); [auto|]. split; [reflexivity | simpl; exact Q]. }
      destruct E0 as [E0 Q0].
      match goal with |- context [fold_left apply_out ?l ?sx] =>
        destruct (fold_apply_log l sx) as [new [L F]]; pose proof (frame_fold_apply l sx) as Fr end.
      destruct Fr as [_ [Fq _]].
      match goal with |- UI ?sf => assert (EH : Hd sf = Hd s) end.
      { unfold Hd, pemit. cbn [plog]. rewrite L.
        change (handles ([PStopped] ++ new ++ plog s0) = handles (plog s)).
        rewrite !handles_app, (handles_inner _ F). simpl. exact E0. }
      match goal with |- UI ?sf => assert (EQ : queue sf = queue s) end.
      { unfold pemit; cbn [queue]; rewrite Fq; unfold set_buf; cbn [queue]; exact Q0. }
      constructor; rewrite EQ.
      + exact Uarr.
      + intros bs Hb. eapply un_ok_same; [exact EH | | | | |apply Uun; exact Hb]; reflexivity.
    - (* SQuit *)
      unfold quit. destruct (stopped s); constructor; auto.
    - (* SAbort *)
      unfold abort. destruct (stopped s || negb (quitf s)); [constructor; auto|].
      destruct (queue s) as [|bs rest] eqn:Q; [constructor; rewrite Q; intros ? []|].
      constructor; simpl.
      + intros bs' Hb. apply Uarr. right; exact Hb.
      + intros bs' Hb. eapply un_ok_same; [| | | | |apply Uun; right; exact Hb]; reflexivity.
  Qed.
End Proc.
