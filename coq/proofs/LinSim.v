(* C28 — proofs, part 1: every trace of the lock-based fine-grained machine is simulated by the atomic
   object (linearization point = the unlock), and mutual exclusion / race freedom. *)
From Coq Require Import List Arith Lia.
From LV Require Import model.Lin.
Import ListNotations.

Section Sim.
  Variables state op ret local : Type.
  Variable linit : op -> local.
  Variable mstep : op -> local -> state -> local * state.
  Variable fin : op -> local -> option ret.
  Variable waits : op -> local -> bool.
  Variable wstep : op -> local -> local.
  Variable kind : op -> lkind.
  Variable s0 : state.

  Hypothesis Hshared : shared_readonly state op local mstep kind.
  Hypothesis Hnone : none_stateless state op local mstep kind.
  Hypothesis Hwexcl : wait_excl op local waits kind.
  Variable resumable : op -> local -> Prop.
  Hypothesis Hres : resumable_inv state op ret local linit mstep fin waits wstep resumable.

  Notation body_run := (body_run state op ret local mstep fin waits wstep).
  Notation sect_run := (sect_run state op ret local mstep fin waits).
  Notation seq_exec := (seq_exec state op ret local linit mstep fin waits wstep).
  Notation config := (config state op ret local).
  Notation aconfig := (aconfig state op ret).
  Notation step := (step state op ret local linit mstep fin waits wstep kind).
  Notation exec := (exec state op ret local linit mstep fin waits wstep kind s0).
  Notation astep := (astep state op ret local linit mstep fin waits wstep).
  Notation aexec := (aexec state op ret local linit mstep fin waits wstep s0).
  Notation holds := (holds state op ret local).
  Notation holds_excl := (holds_excl state op ret local kind).
  Notation abs := (abs op ret).
  Notation upd := (upd op ret local).
  Notation aupd := (aupd op ret).

  Lemma body_run_snoc : forall o l0 s l1 s1 l2 s2,
    sect_run o l0 s l1 s1 -> fin o l1 = None -> waits o l1 = false -> mstep o l1 s1 = (l2, s2) ->
    sect_run o l0 s l2 s2.
  Proof.
    intros o l0 s l1 s1 l2 s2 Hrun; induction Hrun as [l s|l s la sa lb sb Hf Hw Hm Hr IH]; intros Hfin Hwt Hstep.
    - eapply sr_step; eauto. apply sr_refl.
    - eapply sr_step; eauto.
  Qed.

  Lemma sect_body : forall o l s l' s', sect_run o l s l' s' -> body_run o l s l' s'.
  Proof.
    intros o l s l' s' H; induction H as [l s|l s la sa lb sb Hf Hw Hm Hr IH]; [apply br_refl|].
    eapply br_step; eauto.
  Qed.

  Lemma upd_same : forall f t v, upd f t v t = v.
  Proof. intros; unfold Lin.upd; now rewrite Nat.eqb_refl. Qed.
  Lemma upd_other : forall f t v t', t' <> t -> upd f t v t' = f t'.
  Proof. intros f t v t' H; unfold Lin.upd. apply Nat.eqb_neq in H. now rewrite H. Qed.
  Lemma aupd_same : forall f t v, aupd f t v t = v.
  Proof. intros; unfold Lin.aupd; now rewrite Nat.eqb_refl. Qed.
  Lemma aupd_other : forall f t v t', t' <> t -> aupd f t v t' = f t'.
  Proof. intros f t v t' H; unfold Lin.aupd. apply Nat.eqb_neq in H. now rewrite H. Qed.

  (* the simulation relation *)
  Definition thread_inv (c : config) (a : aconfig) (t : tid) : Prop :=
    match th _ _ _ _ c t with
    | Idle _ _ _ => ath _ _ _ a t = AIdle _ _
    | Invoked _ _ _ o l =>
        ath _ _ _ a t = APending _ _ o /\
        (kind o <> KNone -> resumable o l) /\
        (kind o = KNone -> forall s, sect_run o (linit o) s l s)
    | InCS _ _ _ o l =>
        ath _ _ _ a t = APending _ _ o /\ kind o <> KNone /\
        (kind o = KExcl -> (exists l0, resumable o l0 /\ sect_run o l0 (ash _ _ _ a) l (sh _ _ _ _ c)) /\
                           forall t', t' <> t -> ~ holds c t') /\
        (kind o = KShared -> exists l0, resumable o l0 /\ sect_run o l0 (ash _ _ _ a) l (ash _ _ _ a))
    | Released _ _ _ o r => ath _ _ _ a t = ADone _ _ o r
    end.

  Definition sim_inv (c : config) (a : aconfig) : Prop :=
    (forall t, thread_inv c a t) /\
    ((forall t, ~ holds_excl c t) -> sh _ _ _ _ c = ash _ _ _ a).

  Lemma abs_snoc : forall tr a, abs (tr ++ [a]) = abs tr ++ abs_action op ret a.
  Proof. intros; unfold Lin.abs. rewrite flat_map_app; simpl. now rewrite app_nil_r. Qed.

  Lemma kind_cases : forall o, kind o = KExcl \/ kind o = KShared \/ kind o = KNone.
  Proof. intro o; destruct (kind o); auto. Qed.

  Ltac tcase t t' := destruct (Nat.eq_dec t' t) as [->|?];
    [ rewrite ?upd_same, ?aupd_same in * | rewrite ?upd_other, ?aupd_other in * by assumption ].

  (* frame lemma: the invariant of a thread that does not move *)
  Lemma thread_inv_frame : forall (c c' : config) (a a' : aconfig) t',
    th _ _ _ _ c' t' = th _ _ _ _ c t' -> ath _ _ _ a' t' = ath _ _ _ a t' ->
    (forall o l, th _ _ _ _ c t' = InCS _ _ _ o l -> kind o = KExcl ->
       sh _ _ _ _ c' = sh _ _ _ _ c /\ ash _ _ _ a' = ash _ _ _ a /\
       forall t'', t'' <> t' -> holds c' t'' -> holds c t'') ->
    (forall o l, th _ _ _ _ c t' = InCS _ _ _ o l -> kind o = KShared -> ash _ _ _ a' = ash _ _ _ a) ->
    thread_inv c a t' -> thread_inv c' a' t'.
  Proof.
    intros c c' a a' t' Hth Hath Hex Hsh Hinv. unfold thread_inv in *. rewrite Hth, Hath.
    destruct (th _ _ _ _ c t') as [|o l|o l|o r] eqn:E; auto.
    destruct Hinv as (H1 & H2 & H3 & H4). split; auto. split; auto. split.
    - intro Hk. destruct (Hex o l eq_refl Hk) as (Es & Ea & Hh). destruct (H3 Hk) as [Hb Hx].
      rewrite Es, Ea. split; auto. intros t'' Hne Hc'. apply (Hx t'' Hne). auto.
    - intro Hk. rewrite (Hsh o l eq_refl Hk). auto.
  Qed.

  Lemma holds_upd_other : forall (c : config) s t v t'',
    (forall o l, v <> InCS _ _ _ o l) ->
    holds (mkc _ _ _ _ s (upd (th _ _ _ _ c) t v)) t'' -> holds c t''.
  Proof.
    intros c s t v t'' Hv [o [l Hh]]; simpl in Hh. destruct (Nat.eq_dec t'' t) as [->|Hne].
    - rewrite upd_same in Hh. exfalso; eapply Hv; eauto.
    - rewrite upd_other in Hh by assumption. now exists o, l.
  Qed.

  Lemma holds_excl_upd : forall (c : config) s t v t'',
    (forall o l, v = InCS _ _ _ o l -> kind o <> KExcl) ->
    holds_excl (mkc _ _ _ _ s (upd (th _ _ _ _ c) t v)) t'' -> t'' <> t /\ holds_excl c t''.
  Proof.
    intros c s t v t'' Hv [o [l [Hh Hk]]]; simpl in Hh. destruct (Nat.eq_dec t'' t) as [->|Hne].
    - rewrite upd_same in Hh. exfalso; eapply Hv; eauto.
    - rewrite upd_other in Hh by assumption. split; auto. now exists o, l.
  Qed.

  Ltac other_thread c a Hne :=
    apply thread_inv_frame with (c := c) (a := a); simpl; auto;
    try (now rewrite upd_other by exact Hne); try (now rewrite aupd_other by exact Hne).

  Theorem simulation : forall tr c, exec tr c -> exists a, aexec (abs tr) a /\ sim_inv c a.
  Proof.
    intros tr c Hex; induction Hex as [|tr c act c' Hex IH Hstep].
    - exists (ainit state op ret s0); split; [constructor|].
      split; [intro t; unfold thread_inv; simpl; reflexivity | intros _; reflexivity].
    - destruct IH as [a [Hae [Hth Hst]]]. rewrite abs_snoc.
      destruct Hstep as [c t o Hidle | c t o l Hinv Hk Hfree | c t o l Hinv Hk Hfree
                        | c t o l l' s' Hcs Hfin Hnw Hms | c t o l Hcs Hfin Hw
                        | c t o l l' s' Hinv Hk Hfin Hnw Hms
                        | c t o l r Hcs Hfin | c t o l r Hinv Hk Hfin | c t o r Hrel]; simpl.
      + (* Inv *)
        pose proof (Hth t) as Ht; unfold thread_inv in Ht; rewrite Hidle in Ht.
        exists (mka _ _ _ (ash _ _ _ a) (aupd (ath _ _ _ a) t (APending _ _ o))); split.
        { eapply ae_snoc; eauto. now constructor. }
        split.
        * intro t'. destruct (Nat.eq_dec t' t) as [->|Hne].
          -- unfold thread_inv; simpl. rewrite upd_same, aupd_same.
             split; [reflexivity|]. split; [intros _; apply (res_init _ _ _ _ _ _ _ _ _ _ Hres)|].
             intros _ s; apply sr_refl.
          -- other_thread c a Hne.
             intros ox lx _ _. repeat split; auto. intros t'' _ Hh.
             eapply holds_upd_other; [|exact Hh]. intros; discriminate.
        * simpl; intro Hno; apply Hst. intros t' [o2 [l2 [Hh Hk2]]].
          apply (Hno t'); exists o2, l2; simpl. split; auto.
          destruct (Nat.eq_dec t' t) as [->|Hne]; [congruence|now rewrite upd_other].
      + (* Acq exclusive *)
        rewrite app_nil_r. exists a; split; auto.
        assert (Hsa : sh _ _ _ _ c = ash _ _ _ a).
        { apply Hst; intros t' [o2 [l2 [Hh _]]]; apply (Hfree t'); now exists o2, l2. }
        pose proof (Hth t) as Ht; unfold thread_inv in Ht; rewrite Hinv in Ht; destruct Ht as (Ha & Hl & _).
        split.
        * intro t'. destruct (Nat.eq_dec t' t) as [->|Hne].
          -- unfold thread_inv; simpl. rewrite upd_same.
             split; auto. split; [congruence|]. split; [|congruence].
             intros _; split.
             ++ exists l. split; [apply Hl; congruence|]. rewrite <- Hsa. apply sr_refl.
             ++ intros t'' Hne [o2 [l2 Hh]]; simpl in Hh. rewrite upd_other in Hh by assumption.
                apply (Hfree t''); now exists o2, l2.
          -- other_thread c a Hne.
             intros ox lx E _. exfalso; apply (Hfree t'); now exists ox, lx.
        * simpl; intro Hno; exfalso; apply (Hno t); exists o, l; simpl; rewrite upd_same; auto.
      + (* Acq shared *)
        rewrite app_nil_r. exists a; split; auto.
        assert (Hsa : sh _ _ _ _ c = ash _ _ _ a) by (apply Hst; exact Hfree).
        pose proof (Hth t) as Ht; unfold thread_inv in Ht; rewrite Hinv in Ht; destruct Ht as (Ha & Hl & _).
        split.
        * intro t'. destruct (Nat.eq_dec t' t) as [->|Hne].
          -- unfold thread_inv; simpl. rewrite upd_same.
             split; auto. split; [congruence|]. split; [congruence|].
             intros _. exists l. split; [apply Hl; congruence|apply sr_refl].
          -- other_thread c a Hne.
             intros ox lx E Hk'. exfalso; apply (Hfree t'); exists ox, lx; auto.
        * simpl; intros _; exact Hsa.
      + (* Body inside the critical section *)
        rewrite app_nil_r. exists a; split; auto.
        pose proof (Hth t) as Ht; unfold thread_inv in Ht; rewrite Hcs in Ht.
        destruct Ht as (Ha & Hnn & Hex1 & Hsh1).
        assert (Hother : forall t' o' lx, t' <> t -> th _ _ _ _ c t' = InCS _ _ _ o' lx -> kind o' <> KExcl).
        { intros t' o' lx Hne E Hk'. pose proof (Hth t') as Ht'; unfold thread_inv in Ht'; rewrite E in Ht'.
          destruct Ht' as (_ & _ & Hx & _). destruct (Hx Hk') as [_ Hal]. apply (Hal t); auto. now exists o, l. }
        destruct (kind_cases o) as [Hk|[Hk|Hk]]; [| |congruence].
        * (* exclusive writer *)
          destruct (Hex1 Hk) as [[l0 [Hr0 Hrun]] Halone].
          split.
          -- intro t'. destruct (Nat.eq_dec t' t) as [->|Hne].
             ++ unfold thread_inv; simpl. rewrite upd_same.
                split; auto. split; auto. split; [|congruence].
                intros _; split; [exists l0; split; auto; eapply body_run_snoc; eauto|].
                intros t'' Hne [o2 [l2 Hh]]; simpl in Hh. rewrite upd_other in Hh by assumption.
                apply (Halone t'' Hne); now exists o2, l2.
             ++ other_thread c a Hne.
                intros ox lx E _. exfalso; apply (Halone t'); auto. now exists ox, lx.
          -- simpl; intro Hno; exfalso; apply (Hno t); exists o, l'; simpl; rewrite upd_same; auto.
        * (* shared reader: the state does not change *)
          assert (Hs' : s' = sh _ _ _ _ c).
          { pose proof (Hshared o Hk l (sh _ _ _ _ c)) as H; rewrite Hms in H; exact H. }
          subst s'.
          assert (Hnoex : forall t', ~ holds_excl c t').
          { intros t' [o2 [l2 [Hh Hk2]]]. destruct (Nat.eq_dec t' t) as [->|Hne]; [congruence|].
            eapply Hother; eauto. }
          assert (Hsa : sh _ _ _ _ c = ash _ _ _ a) by (apply Hst; exact Hnoex).
          destruct (Hsh1 Hk) as [l0 [Hr0 Hrun]].
          split.
          -- intro t'. destruct (Nat.eq_dec t' t) as [->|Hne].
             ++ unfold thread_inv; simpl. rewrite upd_same.
                split; auto. split; auto. split; [congruence|].
                intros _. exists l0; split; auto.
                eapply body_run_snoc; [exact Hrun | exact Hfin | exact Hnw | rewrite <- Hsa; exact Hms].
             ++ other_thread c a Hne.
                intros ox lx E Hk'. exfalso; eapply Hother; eauto.
          -- simpl; intros _; exact Hsa.
      + (* Wait: the condition variable releases the mutex; the section was a failed attempt *)
        rewrite app_nil_r. exists a; split; auto.
        pose proof (Hth t) as Ht; unfold thread_inv in Ht; rewrite Hcs in Ht.
        destruct Ht as (Ha & Hnn & Hex1 & Hsh1).
        pose proof (Hwexcl o l Hw) as Hk.
        destruct (Hex1 Hk) as [[l0 [Hr0 Hrun]] Halone].
        destruct (res_wait _ _ _ _ _ _ _ _ _ _ Hres o l0 _ l _ Hr0 Hrun Hfin Hw) as [Hsame Hr1].
        split.
        * intro t'. destruct (Nat.eq_dec t' t) as [->|Hne].
          -- unfold thread_inv; simpl. rewrite upd_same.
             split; auto. split; [intros _; exact Hr1|congruence].
          -- other_thread c a Hne.
             intros ox lx E _. exfalso; apply (Halone t'); auto. now exists ox, lx.
        * simpl; intros _; exact Hsame.
      + (* Body of an operation that takes no lock: it does not touch the state *)
        rewrite app_nil_r. exists a; split; auto.
        pose proof (Hnone o Hk l (sh _ _ _ _ c) (sh _ _ _ _ c)) as Hself. rewrite Hms in Hself; simpl in Hself.
        assert (Hs' : s' = sh _ _ _ _ c) by (inversion Hself; reflexivity). subst s'.
        pose proof (Hth t) as Ht; unfold thread_inv in Ht; rewrite Hinv in Ht; destruct Ht as (Ha & Hl & Hrun).
        split.
        * intro t'. destruct (Nat.eq_dec t' t) as [->|Hne].
          -- unfold thread_inv; simpl. rewrite upd_same.
             split; auto. split; [congruence|]. intros _ s.
             eapply body_run_snoc; [apply (Hrun Hk s) | exact Hfin | exact Hnw |].
             rewrite (Hnone o Hk l s (sh _ _ _ _ c)), Hms; reflexivity.
          -- other_thread c a Hne.
             intros ox lx _ _. repeat split; auto. intros t'' _ Hh.
             eapply holds_upd_other; [|exact Hh]. intros; discriminate.
        * simpl; intro Hno; apply Hst. intros t' [o2 [l2 [Hh Hk2]]].
          apply (Hno t'); exists o2, l2; simpl; split; auto.
          destruct (Nat.eq_dec t' t) as [->|Hne]; [congruence|now rewrite upd_other].
      + (* Rel: the linearization point *)
        pose proof (Hth t) as Ht; unfold thread_inv in Ht; rewrite Hcs in Ht.
        destruct Ht as (Ha & Hnn & Hex1 & Hsh1).
        assert (Hother : forall t' o' lx, t' <> t -> th _ _ _ _ c t' = InCS _ _ _ o' lx -> kind o' <> KExcl).
        { intros t' o' lx Hne E Hk'. pose proof (Hth t') as Ht'; unfold thread_inv in Ht'; rewrite E in Ht'.
          destruct Ht' as (_ & _ & Hx & _). destruct (Hx Hk') as [_ Hal]. apply (Hal t); auto. now exists o, l. }
        destruct (kind_cases o) as [Hk|[Hk|Hk]]; [| |congruence].
        * destruct (Hex1 Hk) as [[l0 [Hr0 Hrun]] Halone].
          exists (mka _ _ _ (sh _ _ _ _ c) (aupd (ath _ _ _ a) t (ADone _ _ o r))); split.
          { eapply ae_snoc; eauto. eapply a_lin; eauto.
            exact (res_fin _ _ _ _ _ _ _ _ _ _ Hres o l0 _ l _ r Hr0 Hrun Hfin). }
          split.
          -- intro t'. destruct (Nat.eq_dec t' t) as [->|Hne].
             ++ unfold thread_inv; simpl. rewrite upd_same, aupd_same. reflexivity.
             ++ other_thread c a Hne.
                ** intros ox lx E _. exfalso; apply (Halone t'); auto. now exists ox, lx.
                ** intros ox lx E _. exfalso; apply (Halone t'); auto. now exists ox, lx.
          -- simpl; intros _; reflexivity.
        * assert (Hnoex : forall t', ~ holds_excl c t').
          { intros t' [o2 [l2 [Hh Hk2]]]. destruct (Nat.eq_dec t' t) as [->|Hne]; [congruence|].
            eapply Hother; eauto. }
          assert (Hsa : sh _ _ _ _ c = ash _ _ _ a) by (apply Hst; exact Hnoex).
          destruct (Hsh1 Hk) as [l0 [Hr0 Hrun]].
          exists (mka _ _ _ (ash _ _ _ a) (aupd (ath _ _ _ a) t (ADone _ _ o r))); split.
          { eapply ae_snoc; eauto. eapply a_lin; eauto.
            exact (res_fin _ _ _ _ _ _ _ _ _ _ Hres o l0 _ l _ r Hr0 Hrun Hfin). }
          split.
          -- intro t'. destruct (Nat.eq_dec t' t) as [->|Hne].
             ++ unfold thread_inv; simpl. rewrite upd_same, aupd_same. reflexivity.
             ++ other_thread c a Hne.
                intros ox lx E Hk'. exfalso; eapply Hother; eauto.
          -- simpl; intros _; exact Hsa.
      + (* end of a lock-free body *)
        pose proof (Hth t) as Ht; unfold thread_inv in Ht; rewrite Hinv in Ht; destruct Ht as (Ha & Hl & Hrun).
        exists (mka _ _ _ (ash _ _ _ a) (aupd (ath _ _ _ a) t (ADone _ _ o r))); split.
        { eapply ae_snoc; eauto. eapply a_lin; eauto. exists l; split; auto. apply sect_body. apply (Hrun Hk). }
        split.
        * intro t'. destruct (Nat.eq_dec t' t) as [->|Hne].
          -- unfold thread_inv; simpl. rewrite upd_same, aupd_same. reflexivity.
          -- other_thread c a Hne.
             intros ox lx _ _. repeat split; auto. intros t'' _ Hh.
             eapply holds_upd_other; [|exact Hh]. intros; discriminate.
        * simpl; intro Hno; apply Hst. intros t' [o2 [l2 [Hh Hk2]]].
          apply (Hno t'); exists o2, l2; simpl; split; auto.
          destruct (Nat.eq_dec t' t) as [->|Hne]; [congruence|now rewrite upd_other].
      + (* Ret *)
        pose proof (Hth t) as Ht; unfold thread_inv in Ht; rewrite Hrel in Ht.
        exists (mka _ _ _ (ash _ _ _ a) (aupd (ath _ _ _ a) t (AIdle _ _))); split.
        { eapply ae_snoc; eauto. eapply a_ret; eauto. }
        split.
        * intro t'. destruct (Nat.eq_dec t' t) as [->|Hne].
          -- unfold thread_inv; simpl. rewrite upd_same, aupd_same. reflexivity.
          -- other_thread c a Hne.
             intros ox lx _ _. repeat split; auto. intros t'' _ Hh.
             eapply holds_upd_other; [|exact Hh]. intros; discriminate.
        * simpl; intro Hno; apply Hst. intros t' [o2 [l2 [Hh Hk2]]].
          apply (Hno t'); exists o2, l2; simpl; split; auto.
          destruct (Nat.eq_dec t' t) as [->|Hne]; [congruence|now rewrite upd_other].
  Qed.

  (* the client-visible history is untouched by the abstraction *)
  Lemma hist_abs : forall tr, ahist op ret (abs tr) = hist op ret tr.
  Proof.
    induction tr as [|a tr IH]; simpl; auto.
    unfold Lin.ahist in *. rewrite flat_map_app, IH. destruct a; reflexivity.
  Qed.

  (* mutual exclusion: a writer inside its critical section is alone *)
  Theorem mutual_exclusion : forall tr c t o l, exec tr c ->
    th _ _ _ _ c t = InCS _ _ _ o l -> kind o = KExcl -> forall t', t' <> t -> ~ holds c t'.
  Proof.
    intros tr c t o l Hex Hcs Hk. destruct (simulation tr c Hex) as [a [_ [Hth _]]].
    specialize (Hth t); unfold thread_inv in Hth; rewrite Hcs in Hth.
    destruct Hth as (_ & _ & Hx & _). exact (proj2 (Hx Hk)).
  Qed.

  Theorem race_free : forall tr c, exec tr c -> ~ race state op ret local fin waits kind c.
  Proof.
    intros tr c Hex [t [t' [w [w' [Hne [[o [l [Hcs [_ [_ Hw]]]]] [[o' [l' [Hcs' [_ [_ Hw']]]]] Hor]]]]]]].
    destruct Hor as [-> | ->].
    - destruct (kind o) eqn:Hk; try discriminate.
      apply (mutual_exclusion tr c t o l Hex Hcs Hk t'); auto. now exists o', l'.
    - destruct (kind o') eqn:Hk; try discriminate.
      apply (mutual_exclusion tr c t' o' l' Hex Hcs' Hk t); auto. now exists o, l.
  Qed.
End Sim.

(* bodies that never wait: "enters every section with the initial locals" is a resumable invariant *)
Section NoWait.
  Variables state op ret local : Type.
  Variable linit : op -> local.
  Variable mstep : op -> local -> state -> local * state.
  Variable fin : op -> local -> option ret.
  Variable waits : op -> local -> bool.
  Variable wstep : op -> local -> local.
  Hypothesis Hnowait : forall o l, waits o l = false.

  Lemma nowait_resumable :
    resumable_inv state op ret local linit mstep fin waits wstep (fun o l => l = linit o).
  Proof.
    constructor.
    - reflexivity.
    - intros o l0 s l s' _ _ _ Hw. rewrite Hnowait in Hw. discriminate.
    - intros o l0 s l s' r -> Hrun Hfin. exists l. split; auto.
      clear Hfin. induction Hrun as [l s|l s la sa lb sb Hf Hw Hm Hr IH]; [apply br_refl|].
      eapply br_step; eauto.
  Qed.

  Lemma nowait_wait_excl : forall kind, wait_excl op local waits kind.
  Proof. intros kind o l Hw. rewrite Hnowait in Hw. discriminate. Qed.
End NoWait.

