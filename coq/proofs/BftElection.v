(* The tabulated election of spec/ElectionSpec.v (round1 / next_round / decisions / run_rounds
   with early exit) computes the recursive votes and the decisions of proofs/BftCore.v:
     tab_ok, decide_sound, decide_complete.
   No BFT hypothesis is needed here except, for completeness, uniqueness of decisions. *)
From Coq Require Import List Arith NArith Bool Lia ZArith.
From Coq Require Import ZifyBool ZifyNat ZifyN.
From LV Require Import model.VecIndex lib.WSumBft spec.ElectionSpec proofs.BftCore.
Import ListNotations.
Open Scope N_scope.

(* ---------- list helpers ---------- *)
Lemma nth_map_seq {A} (h : nat -> A) (n v : nat) (d : A) : (v < n)%nat -> nth v (map h (seq 0 n)) d = h v.
Proof.
  intros Hv. rewrite (nth_indep _ d (h 0%nat)) by (rewrite map_length, seq_length; exact Hv).
  rewrite map_nth. rewrite seq_nth by exact Hv. reflexivity.
Qed.

Lemma nth_map_seq_none {A} (h : nat -> A) (n v : nat) (d : A) : (n <= v)%nat -> nth v (map h (seq 0 n)) d = d.
Proof. intros Hv. apply nth_overflow. rewrite map_length, seq_length. exact Hv. Qed.

Lemma alookup_map_inj {X A} (xid : X -> N) (g : X -> A) (l : list X) (r : X) :
  (forall x y, In x l -> In y l -> xid x = xid y -> x = y) -> In r l ->
  alookup (xid r) (map (fun x => (xid x, g x)) l) = Some (g r).
Proof.
  induction l as [|h t IH]; intros Hinj Hin; [destruct Hin|].
  cbn [map alookup]. destruct (xid r =? xid h) eqn:E.
  - apply N.eqb_eq in E. rewrite (Hinj r h Hin (or_introl eq_refl) E). reflexivity.
  - destruct Hin as [->|Hin]; [rewrite N.eqb_refl in E; discriminate|].
    apply IH; [|exact Hin]. intros x y Hx Hy. apply Hinj; right; assumption.
Qed.

Lemma by_cr_ext {X} (cr : X -> nat) (l : list X) (P Q : X -> bool) u :
  (forall x, In x l -> P x = Q x) -> by_cr X cr l P u = by_cr X cr l Q u.
Proof.
  intros H. unfold by_cr. induction l as [|h t IH]; [reflexivity|].
  cbn [existsb]. rewrite (H h (or_introl eq_refl)). rewrite IH; [reflexivity|].
  intros x Hx. apply H. right. exact Hx.
Qed.

(* merge_dec keeps the first decision *)
Lemma merge_dec_length a b : length a = length b -> length (merge_dec a b) = length a.
Proof.
  revert b. induction a as [|x a IH]; intros [|y b] H; cbn [merge_dec length] in *; try reflexivity; try discriminate.
  f_equal. apply IH. lia.
Qed.

Lemma merge_dec_nth a b v : length a = length b ->
  nth v (merge_dec a b) None = match nth v a None with Some x => Some x | None => nth v b None end.
Proof.
  revert b v. induction a as [|x a IH]; intros [|y b] v H; cbn [length] in H; try discriminate.
  - destruct v; reflexivity.
  - cbn [merge_dec]. destruct v as [|v]; cbn [nth].
    + destruct x; reflexivity.
    + apply IH. lia.
Qed.

Lemma fold_merge_length L : forall dec, (forall l, In l L -> length l = length dec) ->
  length (fold_left merge_dec L dec) = length dec.
Proof.
  induction L as [|l L IH]; intros dec H; cbn [fold_left]; [reflexivity|].
  assert (Hl : length dec = length l) by (symmetry; apply H; left; reflexivity).
  rewrite IH.
  - apply merge_dec_length. exact Hl.
  - intros l' Hl'. rewrite merge_dec_length by exact Hl. apply H. right. exact Hl'.
Qed.

(* the merged table holds Some b iff dec or one of the lists does (first one wins) *)
Lemma fold_merge_sound L : forall dec v b, (forall l, In l L -> length l = length dec) ->
  nth v (fold_left merge_dec L dec) None = Some b ->
  nth v dec None = Some b \/ exists l, In l L /\ nth v l None = Some b.
Proof.
  induction L as [|l L IH]; intros dec v b H Hn; cbn [fold_left] in Hn; [left; exact Hn|].
  assert (Hl : length dec = length l) by (symmetry; apply H; left; reflexivity).
  apply IH in Hn.
  - destruct Hn as [Hn|[l' [Hl' Hn]]].
    + rewrite merge_dec_nth in Hn by exact Hl. destruct (nth v dec None) eqn:E.
      * left. exact Hn.
      * right. exists l. split; [left; reflexivity|exact Hn].
    + right. exists l'. split; [right; exact Hl'|exact Hn].
  - intros l' Hl'. rewrite merge_dec_length by exact Hl. apply H. right. exact Hl'.
Qed.

Lemma fold_merge_keep L : forall dec v b, (forall l, In l L -> length l = length dec) ->
  nth v dec None = Some b -> nth v (fold_left merge_dec L dec) None = Some b.
Proof.
  induction L as [|l L IH]; intros dec v b H Hn; cbn [fold_left]; [exact Hn|].
  assert (Hl : length dec = length l) by (symmetry; apply H; left; reflexivity).
  apply IH.
  - intros l' Hl'. rewrite merge_dec_length by exact Hl. apply H. right. exact Hl'.
  - rewrite merge_dec_nth by exact Hl. rewrite Hn. reflexivity.
Qed.

Lemma fold_merge_complete L : forall dec v l b, (forall l, In l L -> length l = length dec) ->
  In l L -> nth v l None = Some b -> exists b', nth v (fold_left merge_dec L dec) None = Some b'.
Proof.
  induction L as [|l0 L IH]; intros dec v l b H Hin Hn; [destruct Hin|].
  cbn [fold_left].
  assert (Hl : length dec = length l0) by (symmetry; apply H; left; reflexivity).
  assert (H' : forall l', In l' L -> length l' = length (merge_dec dec l0)).
  { intros l' Hl'. rewrite merge_dec_length by exact Hl. apply H. right. exact Hl'. }
  destruct Hin as [->|Hin].
  - destruct (nth v dec None) eqn:E.
    + exists b0. apply fold_merge_keep; [exact H'|]. rewrite merge_dec_nth by exact Hl. rewrite E. reflexivity.
    + exists b. apply fold_merge_keep; [exact H'|]. rewrite merge_dec_nth by exact Hl. rewrite E. exact Hn.
  - eapply IH; eauto.
Qed.

Section Election.
Variable X : Type.
Variables (xid : X -> N) (cr : X -> nat) (fr spf : X -> N).
Variable fc : X -> X -> bool.
Variables (ws : list N) (q : N).
Variable order : list nat.
Variable evs : list X.
Variable f0 : N.
Notation nv := (length ws).
Notation roots := (roots_at X fr spf evs).
Notation obsv := (obs X fr spf fc evs).
Notation voters := (by_cr X cr).
Notation vote := (vote X cr fr spf fc ws evs f0).
Notation decides := (decides X cr fr spf fc ws q evs f0).
Notation yes_of := (yes_of X xid).

Hypothesis xid_inj : forall x y, In x evs -> In y evs -> xid x = xid y -> x = y.

Lemma wsumP_wsP P : wsumP ws P = wsP ws P.
Proof. reflexivity. Qed.

Lemma roots_inj f x y : In x (roots f) -> In y (roots f) -> xid x = xid y -> x = y.
Proof. intros Hx Hy. apply xid_inj; eapply roots_in; eauto. Qed.

(* t tabulates the votes of round k *)
Definition tab_ok (k : nat) (t : vtab) : Prop :=
  forall r v, In r (roots (f0 + N.of_nat k)) -> (v < nv)%nat -> yes_of t r v = vote k r v.

Lemma round1_ok : tab_ok 1 (round1 X xid cr fr spf fc ws evs f0).
Proof.
  intros r v Hr Hv. unfold ElectionSpec.yes_of, round1.
  replace (f0 + N.of_nat 1) with (f0 + 1) in Hr by lia.
  rewrite (alookup_map_inj xid _ _ r (roots_inj _) Hr).
  rewrite nth_map_seq by exact Hv. reflexivity.
Qed.

Lemma yesW_vote k t r v : tab_ok k t -> (v < nv)%nat ->
  yesW X xid cr ws t (obsv r (f0 + N.of_nat k)) v = yesV X cr fr spf fc ws evs f0 k r v
  /\ noW X xid cr ws t (obsv r (f0 + N.of_nat k)) v = noV X cr fr spf fc ws evs f0 k r v.
Proof.
  intros Ht Hv. unfold yesW, noW, yesV, noV. rewrite !wsumP_wsP.
  split; apply wsP_ext; intros u _; apply by_cr_ext; intros x Hx;
    unfold obs in Hx; apply filter_In in Hx as [Hx _]; rewrite (Ht x v Hx Hv); reflexivity.
Qed.

Lemma next_round_ok k t : (1 <= k)%nat -> tab_ok k t ->
  tab_ok (S k) (next_round X xid cr fr spf fc ws evs f0 (N.of_nat k) t).
Proof.
  intros Hk Ht r v Hr Hv. unfold ElectionSpec.yes_of, next_round.
  replace (f0 + N.of_nat (S k)) with (f0 + N.of_nat k + 1) in Hr by lia.
  rewrite (alookup_map_inj xid _ _ r (roots_inj _) Hr).
  rewrite nth_map_seq by exact Hv.
  destruct (yesW_vote k t r v Ht Hv) as [-> ->].
  rewrite vote_S by exact Hk. reflexivity.
Qed.

(* ---------- decisions of one round ---------- *)
Lemma decisions_length k t l : In l (decisions X xid cr fr spf fc ws q evs f0 k t) -> length l = nv.
Proof.
  unfold decisions. intros H. apply in_map_iff in H as [r [<- _]]. rewrite map_length, seq_length. reflexivity.
Qed.

Lemma decisions_sound k t l v b : (1 <= k)%nat -> tab_ok k t ->
  In l (decisions X xid cr fr spf fc ws q evs f0 (N.of_nat k) t) -> nth v l None = Some b ->
  exists r, decides k r v b.
Proof.
  intros Hk Ht Hl Hn. unfold decisions in Hl. apply in_map_iff in Hl as [r [<- Hr]].
  destruct (Nat.lt_ge_cases v nv) as [Hv|Hv]; [|rewrite nth_map_seq_none in Hn by exact Hv; discriminate].
  rewrite nth_map_seq in Hn by exact Hv.
  destruct (yesW_vote k t r v Ht Hv) as [Ey En]. rewrite Ey, En in Hn.
  exists r. unfold BftCore.decides. split; [exact Hk|]. split; [exact Hr|].
  destruct (q <=? yesV X cr fr spf fc ws evs f0 k r v) eqn:E1.
  - injection Hn as <-. apply N.leb_le. exact E1.
  - destruct (q <=? noV X cr fr spf fc ws evs f0 k r v) eqn:E2; [|discriminate].
    injection Hn as <-. apply N.leb_le. exact E2.
Qed.

Lemma decisions_complete k t r v b : tab_ok k t -> (v < nv)%nat -> decides k r v b ->
  exists l b', In l (decisions X xid cr fr spf fc ws q evs f0 (N.of_nat k) t) /\ nth v l None = Some b'.
Proof.
  intros Ht Hv [Hk [Hr Hq]].
  set (l := map (fun v0 => if q <=? yesW X xid cr ws t (obsv r (f0 + N.of_nat k)) v0 then Some true
                           else if q <=? noW X xid cr ws t (obsv r (f0 + N.of_nat k)) v0 then Some false else None)
                (seq 0 nv)).
  assert (Hl : In l (decisions X xid cr fr spf fc ws q evs f0 (N.of_nat k) t)).
  { unfold decisions. apply in_map_iff. exists r. split; [reflexivity|exact Hr]. }
  assert (Hn : exists b', nth v l None = Some b').
  { unfold l. rewrite nth_map_seq by exact Hv.
    destruct (yesW_vote k t r v Ht Hv) as [-> ->].
    destruct (q <=? yesV X cr fr spf fc ws evs f0 k r v) eqn:E1; [eexists; reflexivity|].
    destruct (q <=? noV X cr fr spf fc ws evs f0 k r v) eqn:E2; [eexists; reflexivity|].
    exfalso. destruct b; lia. }
  destruct Hn as [b' Hn]. exists l, b'. split; assumption.
Qed.

(* ---------- choose ---------- *)
Notation choose := (choose X xid cr fr spf fc evs f0).
Notation voted_root := (voted_root X cr fr spf fc evs f0).

Definition dec_ext (d d' : list (option bool)) : Prop :=
  forall v b, nth v d None = Some b -> nth v d' None = Some b.

Lemma choose_stable d d' ord : dec_ext d d' -> choose d ord <> Undecided -> choose d' ord = choose d ord.
Proof.
  intros He. induction ord as [|v ord IH]; intros Hn; cbn [ElectionSpec.choose] in *; [reflexivity|].
  destruct (nth v d None) as [b|] eqn:E; [|congruence].
  rewrite (He v b E). destruct b; [reflexivity|]. apply IH. exact Hn.
Qed.

(* walking the canonical order over a table whose entries are real, unique decisions *)
Lemma choose_walk d pre v post x :
  (forall u, In u pre -> forall b, nth u d None = Some b -> b = false) ->
  (forall b, nth v d None = Some b -> b = true) ->
  voted_root v = Some x ->
  choose d (pre ++ v :: post) = Undecided \/ choose d (pre ++ v :: post) = Atropos (xid x).
Proof.
  intros Hpre Hv Hx. induction pre as [|u pre IH]; cbn [app ElectionSpec.choose].
  - destruct (nth v d None) as [b|] eqn:E; [|left; reflexivity].
    rewrite (Hv b eq_refl). rewrite Hx. right. reflexivity.
  - destruct (nth u d None) as [b|] eqn:E; [|left; reflexivity].
    rewrite (Hpre u (or_introl eq_refl) b E). apply IH. intros u' Hu'. apply Hpre. right. exact Hu'.
Qed.

Lemma choose_walk_defined d pre v post :
  (forall u, In u pre -> nth u d None = Some false) -> nth v d None = Some true ->
  choose d (pre ++ v :: post) <> Undecided.
Proof.
  intros Hpre Hv. induction pre as [|u pre IH]; cbn [app ElectionSpec.choose].
  - rewrite Hv. destruct (voted_root v); discriminate.
  - rewrite (Hpre u (or_introl eq_refl)). apply IH. intros u' Hu'. apply Hpre. right. exact Hu'.
Qed.

Lemma choose_atropos_inv d ord a : choose d ord = Atropos a ->
  exists pre v post x, ord = pre ++ v :: post /\ (forall u, In u pre -> nth u d None = Some false)
    /\ nth v d None = Some true /\ voted_root v = Some x /\ xid x = a.
Proof.
  induction ord as [|u ord IH]; cbn [ElectionSpec.choose]; [discriminate|].
  destruct (nth u d None) as [[|]|] eqn:E; try discriminate.
  - destruct (voted_root u) as [x|] eqn:Ex; [|discriminate]. intros H. injection H as <-.
    exists [], u, ord, x. repeat split; auto. intros u' [].
  - intros H. destruct (IH H) as [pre [v [post [x [-> [Hp [Hv [Hx Ha]]]]]]]].
    exists (u :: pre), v, post, x. repeat split; auto.
    intros u' [<-|Hu']; [exact E|apply Hp; exact Hu'].
Qed.

(* ---------- run_rounds ---------- *)
Notation run_rounds := (run_rounds X xid cr fr spf fc ws q order evs f0).

Lemma run_rounds_spec fuel : forall k t dec, (1 <= k)%nat -> tab_ok k t -> length dec = nv ->
  exists dec', run_rounds fuel (N.of_nat k) t dec = choose dec' order
    /\ dec_ext dec dec'
    /\ (forall v b, nth v dec' None = Some b ->
          nth v dec None = Some b \/ exists j r, (k <= j < k + fuel)%nat /\ decides j r v b)
    /\ (choose dec' order <> Undecided \/
        forall v j r b, (v < nv)%nat -> (k <= j < k + fuel)%nat -> decides j r v b ->
                        exists b', nth v dec' None = Some b').
Proof.
  induction fuel as [|fu IH]; intros k t dec Hk Ht Hlen.
  - exists dec. cbn [ElectionSpec.run_rounds]. split; [reflexivity|]. split; [intros v b H; exact H|].
    split; [intros v b H; left; exact H|]. right. intros v j r b _ Hj. lia.
  - cbn [ElectionSpec.run_rounds].
    set (L := decisions X xid cr fr spf fc ws q evs f0 (N.of_nat k) t).
    set (dec1 := fold_left merge_dec L dec).
    assert (HL : forall l, In l L -> length l = length dec).
    { intros l Hl. rewrite Hlen. eapply decisions_length; exact Hl. }
    assert (Hlen1 : length dec1 = nv) by (unfold dec1; rewrite fold_merge_length; auto).
    assert (Hext1 : dec_ext dec dec1) by (intros v b H; apply fold_merge_keep; auto).
    assert (Hsound1 : forall v b, nth v dec1 None = Some b ->
              nth v dec None = Some b \/ exists r, decides k r v b).
    { intros v b H. apply fold_merge_sound in H; [|exact HL]. destruct H as [H|[l [Hl H]]]; [left; exact H|].
      right. eapply decisions_sound; eauto. }
    assert (Hcompl1 : forall v r b, (v < nv)%nat -> decides k r v b -> exists b', nth v dec1 None = Some b').
    { intros v r b Hv Hd. destruct (decisions_complete k t r v b Ht Hv Hd) as [l [b' [Hl Hn]]].
      eapply fold_merge_complete; eauto. }
    destruct (choose dec1 order) eqn:Ech.
    + (* Undecided: next round *)
      replace (N.of_nat k + 1) with (N.of_nat (S k)) by lia.
      destruct (IH (S k) _ dec1 ltac:(lia) (next_round_ok k t Hk Ht) Hlen1) as [dec' [E [Hext [Hsound Hcompl]]]].
      exists dec'. split; [exact E|]. split; [intros v b H; apply Hext, Hext1, H|]. split.
      * intros v b H. destruct (Hsound v b H) as [H1|[j [r [Hj Hd]]]].
        -- destruct (Hsound1 v b H1) as [H2|[r Hd]]; [left; exact H2|].
           right. exists k, r. split; [lia|exact Hd].
        -- right. exists j, r. split; [lia|exact Hd].
      * destruct Hcompl as [Hc|Hc]; [left; exact Hc|]. right.
        intros v j r b Hv Hj Hd. destruct (Nat.eq_dec j k) as [->|Hne].
        -- destruct (Hcompl1 v r b Hv Hd) as [b' Hb']. exists b'. apply Hext. exact Hb'.
        -- apply (Hc v j r b Hv); [lia|exact Hd].
    + exists dec1. rewrite Ech. split; [reflexivity|]. split; [exact Hext1|]. split.
      * intros v b H. destruct (Hsound1 v b H) as [H1|[r Hd]]; [left; exact H1|].
        right. exists k, r. split; [lia|exact Hd].
      * left. discriminate.
    + exists dec1. rewrite Ech. split; [reflexivity|]. split; [exact Hext1|]. split.
      * intros v b H. destruct (Hsound1 v b H) as [H1|[r Hd]]; [left; exact H1|].
        right. exists k, r. split; [lia|exact Hd].
      * left. discriminate.
    + exists dec1. rewrite Ech. split; [reflexivity|]. split; [exact Hext1|]. split.
      * intros v b H. destruct (Hsound1 v b H) as [H1|[r Hd]]; [left; exact H1|].
        right. exists k, r. split; [lia|exact Hd].
      * left. discriminate.
Qed.

Notation decide := (decide X xid cr fr spf fc ws q order evs f0).

Lemma nth_repeat_none (n v : nat) : nth v (repeat (@None bool) n) None = None.
Proof. revert v. induction n as [|n IH]; intros [|v]; cbn [repeat nth]; auto. Qed.

(* soundness: an Atropos reported by the reference comes from real decisions *)
Theorem decide_sound maxf a : decide maxf = Atropos a ->
  exists pre v post x, order = pre ++ v :: post
    /\ (forall u, In u pre -> exists k r, decides k r u false)
    /\ (exists k r, decides k r v true)
    /\ voted_root v = Some x /\ xid x = a.
Proof.
  unfold ElectionSpec.decide. intros H.
  destruct (run_rounds_spec (N.to_nat (maxf - f0)) 1 _ (repeat None nv) ltac:(lia) round1_ok (repeat_length _ _))
    as [dec' [E [_ [Hsound _]]]].
  change 1 with (N.of_nat 1) in H. rewrite E in H.
  destruct (choose_atropos_inv _ _ _ H) as [pre [v [post [x [Ho [Hp [Hv [Hx Ha]]]]]]]].
  exists pre, v, post, x. split; [exact Ho|]. split; [|split; [|split; assumption]].
  - intros u Hu. destruct (Hsound u false (Hp u Hu)) as [Hn|[j [r [_ Hd]]]].
    + rewrite nth_repeat_none in Hn. discriminate.
    + exists j, r. exact Hd.
  - destruct (Hsound v true Hv) as [Hn|[j [r [_ Hd]]]].
    + rewrite nth_repeat_none in Hn. discriminate.
    + exists j, r. exact Hd.
Qed.

(* completeness: if the canonical-order prefix is decided no and the next validator yes (by any
   roots of the event set), the reference reports that validator's voted root *)
Theorem decide_complete maxf pre v post x :
  (forall k1 r1 k2 r2 u b1 b2, decides k1 r1 u b1 -> decides k2 r2 u b2 -> b1 = b2) ->
  (forall e, In e evs -> fr e <= maxf) ->
  order = pre ++ v :: post -> (forall u, In u (pre ++ [v]) -> (u < nv)%nat) ->
  (forall u, In u pre -> exists k r, decides k r u false) ->
  (exists k r, decides k r v true) ->
  voted_root v = Some x ->
  decide maxf = Atropos (xid x).
Proof.
  intros Huniq Hmax Ho Hlt Hpre Hv Hx. unfold ElectionSpec.decide.
  destruct (run_rounds_spec (N.to_nat (maxf - f0)) 1 _ (repeat None nv) ltac:(lia) round1_ok (repeat_length _ _))
    as [dec' [E [_ [Hsound Hcompl]]]].
  change 1 with (N.of_nat 1). rewrite E.
  assert (Hreal : forall u b, nth u dec' None = Some b -> exists j r, decides j r u b).
  { intros u b H. destruct (Hsound u b H) as [Hn|[j [r [_ Hd]]]].
    - rewrite nth_repeat_none in Hn. discriminate.
    - exists j, r. exact Hd. }
  assert (Hbound : forall j r u b, decides j r u b -> (1 <= j < 1 + N.to_nat (maxf - f0))%nat).
  { intros j r u b [Hj [Hr _]]. split; [exact Hj|].
    pose proof (Hmax r (roots_in X fr spf evs _ _ Hr)) as Hm.
    unfold roots_at in Hr. apply filter_In in Hr as [_ Hr]. unfold is_root_at in Hr.
    apply andb_prop in Hr as [_ Hr]. apply N.leb_le in Hr. lia. }
  rewrite Ho.
  destruct (choose_walk dec' pre v post x) as [Hu|Ha]; [| |exact Hx| |exact Ha].
  - intros u Hu b Hb. destruct (Hreal u b Hb) as [j [r Hd]]. destruct (Hpre u Hu) as [j' [r' Hd']].
    eapply Huniq; eauto.
  - intros b Hb. destruct (Hreal v b Hb) as [j [r Hd]]. destruct Hv as [j' [r' Hd']].
    eapply Huniq; eauto.
  - (* Undecided is impossible: either early exit (not Undecided) or the table is complete *)
    exfalso. rewrite <- Ho in Hu. destruct Hcompl as [Hc|Hc]; [contradiction|].
    rewrite Ho in Hu. revert Hu. apply choose_walk_defined.
    + intros u Hu. destruct (Hpre u Hu) as [j [r Hd]].
      destruct (Hc u j r false (Hlt u (in_or_app _ _ _ (or_introl Hu))) (Hbound _ _ _ _ Hd) Hd) as [b' Hb'].
      destruct (Hreal u b' Hb') as [j2 [r2 Hd2]]. rewrite (Huniq _ _ _ _ _ _ _ Hd2 Hd) in Hb'. exact Hb'.
    + destruct Hv as [j [r Hd]].
      destruct (Hc v j r true (Hlt v (in_or_app pre [v] v (or_intror (or_introl eq_refl)))) (Hbound _ _ _ _ Hd) Hd) as [b' Hb'].
      destruct (Hreal v b' Hb') as [j2 [r2 Hd2]]. rewrite (Huniq _ _ _ _ _ _ _ Hd2 Hd) in Hb'. exact Hb'.
Qed.
Lemma choose_noroot_inv d ord : choose d ord = NoRoot -> exists v, nth v d None = Some true /\ voted_root v = None.
Proof.
  induction ord as [|u ord IH]; cbn [ElectionSpec.choose]; [discriminate|].
  destruct (nth u d None) as [[|]|] eqn:E; try discriminate.
  - destruct (voted_root u) eqn:Ex; [discriminate|]. intros _. exists u. auto.
  - exact IH.
Qed.

Lemma choose_allno_inv d ord : choose d ord = AllNo -> forall u, In u ord -> nth u d None = Some false.
Proof.
  induction ord as [|u ord IH]; cbn [ElectionSpec.choose]; [intros _ u []|].
  destruct (nth u d None) as [[|]|] eqn:E; try discriminate.
  - destruct (voted_root u); discriminate.
  - intros H u' [<-|Hu']; [exact E|apply IH; assumption].
Qed.

(* the two error outcomes of the reference, in terms of rule-level decisions *)
Theorem decide_noroot_inv maxf : decide maxf = NoRoot -> exists v k r, decides k r v true /\ voted_root v = None.
Proof.
  unfold ElectionSpec.decide. intros H.
  destruct (run_rounds_spec (N.to_nat (maxf - f0)) 1 _ (repeat None nv) ltac:(lia) round1_ok (repeat_length _ _))
    as [dec' [E [_ [Hsound _]]]].
  change 1 with (N.of_nat 1) in H. rewrite E in H.
  destruct (choose_noroot_inv _ _ H) as [v [Hv Hx]].
  destruct (Hsound v true Hv) as [Hn|[j [r [_ Hd]]]]; [rewrite nth_repeat_none in Hn; discriminate|].
  exists v, j, r. auto.
Qed.

Theorem decide_allno_inv maxf : decide maxf = AllNo -> forall u, In u order -> exists k r, decides k r u false.
Proof.
  unfold ElectionSpec.decide. intros H u Hu.
  destruct (run_rounds_spec (N.to_nat (maxf - f0)) 1 _ (repeat None nv) ltac:(lia) round1_ok (repeat_length _ _))
    as [dec' [E [_ [Hsound _]]]].
  change 1 with (N.of_nat 1) in H. rewrite E in H.
  pose proof (choose_allno_inv _ _ H u Hu) as Hv.
  destruct (Hsound u false Hv) as [Hn|[j [r [_ Hd]]]]; [rewrite nth_repeat_none in Hn; discriminate|].
  exists j, r. exact Hd.
Qed.
End Election.
