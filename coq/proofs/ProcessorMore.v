(* C15, round 2: (1) the fuel of the reassembly loop always suffices (the out-of-fuel flag is
   never set); (2) the semaphore is back to zero as soon as every accepted event is released
   (no Stop needed); (3) an ordered batch that is done was handled completely, in batch order. *)
From Coq Require Import NArith ZArith List Bool Lia Arith Permutation ZifyBool ZifyNat ZifyN.
From LV Require Import model.Buffer model.Processor spec.ProcessorSpec proofs.BufferInv proofs.BufferPush
  proofs.ProcessorFrame proofs.ProcessorOrder proofs.ProcessorSem proofs.ProcessorRel
  proofs.ProcessorUnord proofs.ProcessorRun proofs.ProcessorDone.
Import ListNotations.
Local Open Scope N_scope.

(* ---------- (1) fuel *)
Lemma poof_pemit : forall s o, poof (pemit s o) = poof s. Proof. reflexivity. Qed.
Lemma poof_released_cb : forall s g e err, poof (released_cb s g e err) = poof s.
Proof. intros. unfold released_cb, sem_release. destruct (_ || _); reflexivity. Qed.
Lemma poof_apply_out : forall s o, poof (apply_out s o) = poof s.
Proof.
  intros s o. destruct o; try reflexivity.
  - simpl. destruct ok; reflexivity.
  - cbv beta iota delta [apply_out]. apply poof_released_cb.
Qed.
Lemma poof_fold_apply : forall l s, poof (fold_left apply_out l s) = poof s.
Proof. induction l as [|o l IH]; intros s; simpl; auto. rewrite IH. apply poof_apply_out. Qed.
Lemma set_nth_length : forall {A} i (l : list A) v, length (set_nth i l v) = length l.
Proof. intros A i l v. revert i. induction l as [|a l IH]; intros [|j]; simpl; auto. Qed.

Section M.
  Variable fc fp : list out -> entry -> bool.
  Variable cap_n cap_s lim_n lim_s : N.
  Notation process := (Processor.process fc fp lim_n lim_s).
  Notation flush := (Processor.flush fc fp lim_n lim_s).
  Notation pstep_run := (Processor.pstep_run fc fp cap_n cap_s lim_n lim_s).
  Notation prun := (Processor.prun fc fp cap_n cap_s lim_n lim_s).

  Lemma poof_process : forall s ev, poof (fst (process s ev)) = poof s.
  Proof.
    intros s ev. unfold Processor.process. destruct (p_bad ev).
    - cbn [fst]. rewrite poof_released_cb. reflexivity.
    - match goal with |- context [if ?c then _ else _] => destruct c end.
      + cbn [fst]. rewrite poof_released_cb. reflexivity.
      + match goal with |- context [if ?c then _ else _] => destruct c end; cbn [fst];
          rewrite poof_fold_apply; reflexivity.
  Qed.

  (* with fuel > len - processed the loop never runs dry *)
  Lemma flush_poof : forall fuel s bs i, i = bs_processed bs ->
    (length (bs_results bs) < fuel + bs_processed bs)%nat ->
    poof (fst (flush fuel s bs i)) = poof s.
  Proof.
    induction fuel as [|f IH]; intros s bs i Hi L; simpl.
    - assert (E : Nat.ltb (bs_processed bs) (length (bs_results bs)) = false) by (apply Nat.ltb_ge; lia).
      rewrite E. reflexivity.
    - destruct (Nat.ltb (bs_processed bs) (length (bs_results bs)) && nth i (bs_results bs) false); auto.
      destruct (nth_error (b_events (bs_batch bs)) i) as [ev|]; auto.
      pose proof (poof_process s ev) as P. destruct (process s ev) as [s1 rq]. cbn [fst] in P.
      rewrite IH; auto.
      + simpl. lia.
      + simpl. rewrite set_nth_length. lia.
  Qed.

  Definition RL (s : pst) : Prop :=
    poof s = false /\ forall bs, In bs (queue s) -> length (bs_results bs) = length (b_events (bs_batch bs)).

  Lemma RL_step : forall s x, RL s -> RL (pstep_run s x).
  Proof.
    intros s x [P Q]. destruct x as [b0 | bid pos | | | | ]; simpl.
    - unfold Processor.enqueue. destruct (quitf s || stopped s); [split; auto|]. destruct (_ || _); [split; auto|].
      split; auto. simpl. intros bs Hb. apply in_app_or in Hb. destruct Hb as [Hb|[Hb|[]]]; auto.
      subst. simpl. apply map_length.
    - unfold arrive. destruct (stopped s); [split; auto|]. split; auto. simpl. intros bs Hb.
      apply in_map_iff in Hb. destruct Hb as [bs0 [E Hb]]. subst.
      destruct (b_id (bs_batch bs0) =? bid); auto. unfold arrive_bs. destruct (_ && _); simpl; auto.
    - unfold Processor.consume. destruct (stopped s); [split; auto|].
      destruct (queue s) as [|bs rest] eqn:Eq; [split; auto; rewrite Eq; auto|].
      assert (Qh : length (bs_results bs) = length (b_events (bs_batch bs))) by (apply Q; left; auto).
      assert (Qr : forall b, In b rest -> length (bs_results b) = length (b_events (bs_batch b))) by (intros; apply Q; right; auto).
      destruct (Nat.leb (length (b_events (bs_batch bs))) (bs_processed bs)).
      { split; [destruct (bs_request bs); exact P | simpl; exact Qr]. }
      destruct (bs_chan bs) as [|pos ch]; [split; auto; rewrite Eq; exact Q|].
      destruct (b_ordered (bs_batch bs)).
      + match goal with |- context [Processor.flush ?a ?b ?c ?d ?f ?s0 ?bs0 ?i] =>
          pose proof (flush_poof f s0 bs0 i eq_refl) as F1;
          pose proof (flush_spec fc fp lim_n lim_s f s0 bs0 i eq_refl) as F2;
          destruct (Processor.flush a b c d f s0 bs0 i) as [s1 bs1] end.
        cbn [fst] in F1. simpl bs_results in F1, F2. simpl bs_processed in F1. simpl bs_batch in F2.
        destruct F2 as [_ [Eb [_ [_ [_ [_ [El _]]]]]]]. rewrite set_nth_length in El, F1.
        split; [simpl; rewrite F1; [exact P | lia]|].
        simpl. intros b [Hb|Hb]; [subst; rewrite El, Eb; exact Qh | apply Qr; exact Hb].
      + destruct (nth_error (b_events (bs_batch bs)) pos) as [ev|].
        * pose proof (poof_process s ev) as F. destruct (process s ev) as [s1 rq]. cbn [fst] in F.
          split; [simpl; congruence|]. simpl. intros b [Hb|Hb]; [subst; simpl; exact Qh | apply Qr; exact Hb].
        * split; auto. simpl. intros b [Hb|Hb]; [subst; simpl; exact Qh | apply Qr; exact Hb].
    - unfold Processor.stop. destruct (stopped s); [split; auto|].
      set (s0 := match queue s with bs :: _ => if quitf s then s else pemit s (PAborted (b_id (bs_batch bs))) | [] => s end).
      assert (E0 : poof s0 = poof s /\ queue s0 = queue s).
      { unfold s0. destruct (queue s) eqn:Eq; [auto|]. destruct (quitf s); [auto|]. split; [reflexivity | simpl; exact Eq]. }
      destruct E0 as [P0 Q0].
      match goal with |- context [fold_left apply_out ?l ?sx] =>
        pose proof (poof_fold_apply l sx) as F; pose proof (frame_fold_apply l sx) as [_ [Fq _]] end.
      split.
      + unfold pemit; cbn [poof]. rewrite F. unfold set_buf; cbn [poof]. rewrite P0. exact P.
      + unfold pemit; cbn [queue]. rewrite Fq. unfold set_buf; cbn [queue]. rewrite Q0. exact Q.
    - unfold quit. destruct (stopped s); split; auto.
    - unfold abort. destruct (stopped s || negb (quitf s)); [split; auto|].
      destruct (queue s) as [|bs rest] eqn:Eq; [split; auto; rewrite Eq; auto|].
      split; [exact P | simpl; intros b Hb; apply Q; right; exact Hb].
  Qed.

  Theorem flush_fuel_suffices : forall h0 steps, poof (prun h0 steps) = false.
  Proof.
    intros h0 steps. assert (H : RL (prun h0 steps)); [|apply H].
    induction steps as [|x steps IH] using rev_ind.
    - split; simpl; auto. intros bs [].
    - rewrite (prun_snoc fc fp cap_n cap_s lim_n lim_s). apply RL_step. exact IH.
  Qed.

  (* ---------- (2) zero as soon as everything accepted is released *)
  Theorem sem_zero_when_all_released : forall h0 steps, NoDup (all_g steps) ->
    let s := prun h0 steps in
    incl (pgs s) (relg (plog s)) -> held_n s = 0 /\ held_s s = 0.
  Proof.
    intros h0 steps Nd. cbv zeta. intros Hall.
    destruct (ALL_run fc fp cap_n cap_s lim_n lim_s h0 steps Nd) as [_ _ P _ _]. set (s := prun h0 steps) in *.
    destruct P as [_ Nt _ _ _ [Sw Sn Ss Si Sd]].
    assert (Pm : Permutation (relg (plog s)) (pgs s)) by (apply NoDup_Permutation; auto; intros g; split; auto).
    pose proof (Permutation_length Pm) as L. unfold pgs in L at 1. rewrite map_length in L.
    rewrite (wsum_perm _ _ _ Pm) in Ss. split; lia.
  Qed.

  (* ---------- (3) a done ordered batch was handled completely and in batch order *)
  Theorem ordered_done_complete : forall h0 steps b,
    NoDup (all_g steps) -> NoDup (map b_id (enq steps)) ->
    In (SEnq b) steps -> b_ordered b = true ->
    In (PDone (b_id b)) (plog (prun h0 steps)) ->
    handles_of (phist fc fp cap_n cap_s lim_n lim_s h0 steps) b = gs b.
  Proof.
    intros h0 steps b Nd Nid Hb Ho Hdn.
    destruct (ordered_in_order fc fp cap_n cap_s lim_n lim_s h0 steps b Nd Hb Ho) as [k E].
    destruct (DI_run fc fp cap_n cap_s lim_n lim_s h0 steps Nd Nid) as [D _].
    pose proof (D b Hb Hdn) as Hin.
    assert (Ngs : NoDup (gs b)).
    { clear -Nd Hb. induction steps as [|x steps IH]; [contradiction|].
      unfold all_g in Nd. simpl in Nd. fold (all_g steps) in Nd. destruct Hb as [Hb|Hb].
      - subst. eapply NoDup_app_l; eauto.
      - apply IH; auto. eapply NoDup_app_r; eauto. }
    assert (Hsub : incl (gs b) (firstn k (gs b))).
    { intros g Hg. rewrite <- E. unfold handles_of, phist. rewrite handles_rev.
      apply filter_In. split; [apply -> in_rev; apply Hin; exact Hg | apply memN_In; exact Hg]. }
    assert (L : (length (gs b) <= length (firstn k (gs b)))%nat) by (apply NoDup_incl_length; auto).
    rewrite firstn_length in L. rewrite E. apply firstn_all2. lia.
  Qed.
End M.
